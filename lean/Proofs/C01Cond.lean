/-
  Proofs.C01Cond — one condition `path: c` of D: the matcher's `applyKey` against the oracle's
  `condHolds` on the reached values.
-/
import Proofs.C01Leaf

set_option linter.unusedSimpArgs false

namespace MongoModel.Proofs.C01Lemmas
open MongoModel MongoModel.Spec

theorem bind_and_true (r : R Bool) :
    (do let here ← r; let more ← (Except.ok true : R Bool); pure (here && more)) = r := by
  rcases r with _ | b
  · rfl
  · cases b <;> rfl

theorem opsHold_single (op : String) (sv : Val) (cs : List (Option Val)) (hop : op ∈ leafOps) :
    opsHold [(op, sv)] cs = leafHolds op sv cs := by
  have h1 : op ≠ "$all" := by intro e; subst e; simp [leafOps] at hop
  have h2 : op ≠ "$elemMatch" := by intro e; subst e; simp [leafOps] at hop
  have h3 : op ≠ "$not" := by intro e; subst e; simp [leafOps] at hop
  cases sv <;> simp only [opsHold, h1, h2, h3, decide_false, Bool.or_false, Bool.false_eq_true,
    ↓reduceIte] <;> exact bind_and_true _

theorem leafOps_dollar {op : String} (hop : op ∈ leafOps) : op.startsWith "$" = true := by
  simp only [leafOps, List.mem_cons, List.not_mem_nil, or_false] at hop
  rcases hop with h | h | h | h | h | h | h | h | h | h <;> subst h <;> decide +kernel

theorem leafOps_opmap {op : String} (hop : op ∈ leafOps) : operatorMapKeys.contains op = true := by
  simp only [leafOps, List.mem_cons, List.not_mem_nil, or_false] at hop
  rcases hop with h | h | h | h | h | h | h | h | h | h <;> subst h <;> decide

theorem ne_of_not_dollar {k lit : String} (h : k.startsWith "$" = false)
    (hl : lit.startsWith "$" = true) : k ≠ lit := by
  intro e; subst e; rw [h] at hl; cases hl

/-- a single positive/negative leaf operator -/
theorem cond_single (nb : Bool) (op : String) (sv : Val) (key : String) (d : Val)
    (cs : List (Option Val)) (hck : candsKey key d = .ok cs) (hall : op ≠ "$all")
    (hr : opReasons op sv cs = [])
    (hs : Clean nb sv) (hcs : CandsAll (Clean nb) cs) :
    op ∈ leafOps ∧ ∃ b, applyKey (.doc [(op, sv)]) key d = .ok b ∧ opsHold [(op, sv)] cs = .ok b := by
  obtain ⟨hop, b, h1, h2⟩ := spec_single nb op sv cs hall hr hs hcs
  refine ⟨hop, b, ?_, ?_⟩
  · rw [applyKey_single op sv key d hop, hck]; exact h1
  · rw [opsHold_single op sv cs hop]; exact h2


/-! ### `$all` -/

theorem all_congr' {α} {f g : α → Bool} {xs : List α} (h : ∀ x, x ∈ xs → f x = g x) :
    xs.all f = xs.all g := by
  induction xs with
  | nil => rfl
  | cons x xs ih =>
    simp only [List.all_cons]
    rw [h x (by simp), ih (fun x hm => h x (by simp [hm]))]

/-- what the matcher computes for `{$all: vs}` alone under a key, given the candidates -/
theorem applyKey_all (vs : List Val) (key : String) (d : Val) (cs : List (Option Val))
    (hck : candsKey key d = .ok cs) :
    applyKey (.doc [("$all", .arr vs)]) key d = allOp (.arr vs) (.list cs) := by
  have hpe : pyEq (Val.doc [("$all", .arr vs)]) (Val.doc [("$exists", Val.bool false)]) = false := by
    simp [pyEq, pyEqFields, dget]
  have hck' : checkUnknownOps ["$all"] = .ok () := by decide
  have ho : ("$options" == "$all") = false := by decide
  rw [applyKey.eq_1]
  simp only [hck, bind, Except.bind, dkeys, List.map_cons, List.map_nil, hpe, Bool.false_and,
    Bool.false_eq_true, ↓reduceIte, List.contains_cons, List.contains_nil, beq_self_eq_true,
    Bool.true_or, allPre, List.length_cons, List.length_nil, Bool.and_self, hck', ho,
    Bool.or_false, Bool.and_false, ite_self]
  rcases allOp (.arr vs) (.list cs) with e | b
  · rfl
  · cases b <;> rfl

theorem allItems_plain (vs : List Val) (a : AllArg) (hel : vs.any isElemItem = false) :
    allItems vs a = .ok (vs.map (fun x => pyInOpt x a.forced)) := by
  induction vs with
  | nil => rfl
  | cons v vs ih =>
    simp only [List.any_cons, Bool.or_eq_false_iff] at hel
    have ih' := ih hel.2
    cases v with
    | doc fs =>
      have : dhas "$elemMatch" fs = false := by simpa [isElemItem] using hel.1
      rw [allItems.eq_2]
      simp [this, ih', bind, Except.bind, pure, Except.pure]
    | _ =>
      rw [allItems.eq_3 _ _ _ (by intro fs e; cases e)]
      simp [ih', bind, Except.bind, pure, Except.pure]

theorem allHold_plain (vs : List Val) (cs : List (Option Val)) (hel : vs.any isElemItem = false) :
    allHold vs cs = .ok (vs.all (fun x => (eqLeaf x).holds cs)) := by
  induction vs with
  | nil => rfl
  | cons v vs ih =>
    simp only [List.any_cons, Bool.or_eq_false_iff] at hel
    rw [allHold.eq_3 _ _ _ (by
      intro gs e; subst e
      have := hel.1
      simp [isElemItem, dhas, dget] at this), ih hel.2]
    rfl

/-- the candidates as `_all_op` sees them, in D: unchanged when none is an array, the elements
    of the array when it is the only candidate -/
theorem allArgNorm_inD (cs : List (Option Val))
    (hmc : (decide (cs.length > 1) && cs.any isArrCand) = false) :
    (cs.any isArrCand = false ∧ allArgNorm (.list cs) = .ok (.list cs)) ∨
    (∃ ys, cs = [some (.arr ys)] ∧ allArgNorm (.list cs) = .ok (.list (ys.map some))) := by
  by_cases ha : cs.any isArrCand = true
  · right
    simp only [ha, Bool.and_true, decide_eq_false_iff_not, Nat.not_lt] at hmc
    match cs, hmc, ha with
    | [], _, ha => simp at ha
    | [c], _, ha =>
      match c, ha with
      | some (.arr ys), _ =>
        exact ⟨ys, rfl, by simp [allArgNorm, chainFlatten, Except.map]⟩
      | none, ha => simp [isArrCand] at ha
      | some .null, ha => simp [isArrCand] at ha
      | some (.bool _), ha => simp [isArrCand] at ha
      | some (.int _), ha => simp [isArrCand] at ha
      | some (.dbl _ _), ha => simp [isArrCand] at ha
      | some (.str _), ha => simp [isArrCand] at ha
      | some (.date _ _), ha => simp [isArrCand] at ha
      | some (.oid _), ha => simp [isArrCand] at ha
      | some (.doc _), ha => simp [isArrCand] at ha
    | _ :: _ :: _, hmc, _ => simp at hmc
  · left
    have ha' : cs.any isArrCand = false := by simpa using ha
    refine ⟨ha', ?_⟩
    match cs, ha' with
    | [], _ => rfl
    | some (.arr ys) :: r, h => simp [isArrCand] at h
    | none :: r, _ => rfl
    | some .null :: r, _ => rfl
    | some (.bool _) :: r, _ => rfl
    | some (.int _) :: r, _ => rfl
    | some (.dbl _ _) :: r, _ => rfl
    | some (.str _) :: r, _ => rfl
    | some (.date _ _) :: r, _ => rfl
    | some (.oid _) :: r, _ => rfl
    | some (.doc _) :: r, _ => rfl

/-- membership of one `$all` item among candidates none of which is an array -/
theorem pyInOpt_flat (nb : Bool) (x : Val) (cs : List (Option Val)) (hx : Clean nb x)
    (hsd : smallDocs x = true) (hna : x.isArr = false) (hcs : CandsAll (Clean nb) cs)
    (ha : cs.any isArrCand = false) : pyInOpt x cs = (eqLeaf x).holds cs := by
  simp only [pyInOpt, Leaf.holds]
  refine any_congr' (fun c hm => ?_)
  rw [← opEq_eq nb x c hx hsd hna (hcs c hm)]
  have hc : isArrCand c = false := by
    rw [List.any_eq_false] at ha
    simpa using ha c hm
  match c, hc with
  | none, _ => cases x <;> rfl
  | some (.arr _), hc => simp [isArrCand] at hc
  | some .null, _ => rfl
  | some (.bool _), _ => rfl
  | some (.int _), _ => rfl
  | some (.dbl _ _), _ => rfl
  | some (.str _), _ => rfl
  | some (.date _ _), _ => rfl
  | some (.oid _), _ => rfl
  | some (.doc _), _ => rfl

/-- membership of one `$all` item among the elements of the only candidate, an array -/
theorem pyInOpt_arr (nb : Bool) (x : Val) (ys : List Val) (hx : Clean nb x)
    (hsd : smallDocs x = true) (hna : x.isArr = false) (hys : Clean nb (.arr ys)) :
    pyInOpt x (ys.map some) = (eqLeaf x).holds [some (.arr ys)] := by
  have h := opEq_eq nb x (some (.arr ys)) hx hsd hna (by intro v hv; cases hv; exact hys)
  simp only [Leaf.holds, List.any_cons, List.any_nil, Bool.or_false]
  rw [← h]
  simp [pyInOpt, opEq, hna, operatorEq, List.any_map, Function.comp_def]

/-- `$all` in D -/
theorem cond_all (nb : Bool) (sv : Val) (key : String) (d : Val) (cs : List (Option Val))
    (hck : candsKey key d = .ok cs) (hr : allReasons sv cs = [])
    (hs : Clean nb sv) (hcs : CandsAll (Clean nb) cs) :
    ∃ b, applyKey (.doc [("$all", sv)]) key d = .ok b ∧ opsHold [("$all", sv)] cs = .ok b := by
  cases sv with
  | arr vs =>
    simp only [allReasons, operandReasons, List.append_eq_nil_iff] at hr
    obtain ⟨⟨⟨hr1, hr2⟩, hr3⟩, hr4⟩ := hr
    have hna : vs.any Val.isArr = false := by
      by_cases h : vs.any Val.isArr = true
      · simp [h] at hr1
      · simpa using h
    have hsd : smallDocs (.arr vs) = true := by
      by_cases h : smallDocs (.arr vs) = true
      · exact h
      · simp [h] at hr2
    have hel : vs.any isElemItem = false := by
      by_cases h : vs.any isElemItem = true
      · simp [h] at hr3
      · simpa using h
    have hmc : (decide (cs.length > 1) && cs.any isArrCand) = false := by
      by_cases h : (decide (cs.length > 1) && cs.any isArrCand) = true
      · simp [h] at hr4
      · simpa using h
    have hitem : ∀ x, x ∈ vs → Clean nb x ∧ smallDocs x = true ∧ x.isArr = false := by
      intro x hm
      refine ⟨(hered_clean nb).arr vs x hs hm, hered_smallDocs.arr vs x hsd hm, ?_⟩
      rw [List.any_eq_false] at hna
      simpa using hna x hm
    refine ⟨!vs.isEmpty && vs.all (fun x => (eqLeaf x).holds cs), ?_, ?_⟩
    · rw [applyKey_all vs key d cs hck, allOp.eq_1]
      cases hve : vs.isEmpty with
      | true => simp [pure, Except.pure]
      | false =>
        simp only [Bool.false_eq_true, ↓reduceIte, Bool.not_false, Bool.true_and]
        rcases allArgNorm_inD cs hmc with ⟨ha, hn⟩ | ⟨ys, rfl, hn⟩
        · rw [hn]
          simp only [bind, Except.bind, allItems_plain vs _ hel, AllArg.forced, pure, Except.pure,
            List.all_map, Function.comp_def, id]
          congr 1
          refine all_congr' (fun x hm => ?_)
          obtain ⟨h1, h2, h3⟩ := hitem x hm
          exact pyInOpt_flat nb x cs h1 h2 h3 hcs ha
        · rw [hn]
          have hys : Clean nb (.arr ys) := hcs _ (by simp) _ rfl
          simp only [bind, Except.bind, allItems_plain vs _ hel, AllArg.forced, pure, Except.pure,
            List.all_map, Function.comp_def, id]
          congr 1
          refine all_congr' (fun x hm => ?_)
          obtain ⟨h1, h2, h3⟩ := hitem x hm
          exact pyInOpt_arr nb x ys h1 h2 h3 hys
    · simp only [opsHold, ↓reduceIte, allHold_plain vs cs hel]
      cases vs.isEmpty <;> simp [bind, Except.bind, pure, Except.pure]
  | _ => simp [allReasons] at hr

/-- a one-field document operand without `$` key: implicit equality -/
theorem applyKey_plain_doc (k : String) (v : Val) (key : String) (d : Val)
    (cs : List (Option Val)) (hk : k.startsWith "$" = false) (hck : candsKey key d = .ok cs) :
    applyKey (.doc [(k, v)]) key d = .ok (cs.any (plainMatch (.doc [(k, v)]))) := by
  have n1 : k ≠ "$ne" := ne_of_not_dollar hk (by decide +kernel)
  have n2 : k ≠ "$nin" := ne_of_not_dollar hk (by decide +kernel)
  have n3 : k ≠ "$all" := ne_of_not_dollar hk (by decide +kernel)
  have n4 : k ≠ "$exists" := ne_of_not_dollar hk (by decide +kernel)
  have hpe : pyEq (Val.doc [(k, v)]) (Val.doc [("$exists", Val.bool false)]) = false := by
    simp [pyEq, pyEqFields, dget, Ne.symm n4]
  obtain ⟨h', e⟩ := candLoop_pos (plainMatch (.doc [(k, v)])) cs false false
  rw [applyKey.eq_1]
  simp only [hck, bind, Except.bind, dkeys, List.map_cons, List.map_nil, hpe, isOpsFilter,
    List.all_cons, List.all_nil, hk, pure, Except.pure]
  simp only [List.contains_cons, List.contains_nil, Bool.or_false, beq_iff_eq, n1, n2, n3,
    Ne.symm n1, Ne.symm n2, Ne.symm n3, decide_false, Bool.false_and, Bool.and_false,
    Bool.false_eq_true, ↓reduceIte, Bool.not_true, Bool.or_self, e, beq_eq_false_iff_ne.mpr (Ne.symm n1),
    beq_eq_false_iff_ne.mpr (Ne.symm n2), beq_eq_false_iff_ne.mpr (Ne.symm n3)]
  have hany : ([k].any fun k => k != "$ne" && k != "$nin") = true := by simp [n1, n2]
  rw [hany]
  cases cs <;> simp


/-- the empty document operand: implicit equality with `{}` -/
theorem applyKey_plain_empty (key : String) (d : Val) (cs : List (Option Val))
    (hck : candsKey key d = .ok cs) :
    applyKey (.doc []) key d = .ok (cs.any (plainMatch (.doc []))) := by
  have hpe : pyEq (Val.doc []) (Val.doc [("$exists", Val.bool false)]) = false := by
    simp [pyEq]
  obtain ⟨h', e⟩ := candLoop_pos (plainMatch (.doc [])) cs false false
  rw [applyKey.eq_1]
  simp only [hck, bind, Except.bind, dkeys, List.map_nil, hpe, isOpsFilter, List.isEmpty_nil,
    Bool.not_true, Bool.false_and, List.contains_nil, Bool.false_eq_true, ↓reduceIte, pure,
    Except.pure, Bool.or_self, e, Bool.true_or, Bool.or_true, Bool.and_true, Bool.not_not]
  cases cs <;> simp

theorem applyKey_plain_nondoc (c : Val) (key : String) (d : Val) (cs : List (Option Val))
    (hc : ∀ fs, c = .doc fs → False) (hck : candsKey key d = .ok cs) :
    applyKey c key d = .ok (cs.any (plainMatch c)) := by
  obtain ⟨h', e⟩ := candLoop_pos (plainMatch c) cs false false
  rw [applyKey.eq_2 _ _ _ hc]
  simp only [hck, bind, Except.bind, pure, Except.pure, e]
  cases cs <;> simp

theorem plain_any_eq (nb : Bool) (c : Val) (cs : List (Option Val)) (hc : Clean nb c)
    (hsd : smallDocs c = true) (hcs : CandsAll (Clean nb) cs) :
    cs.any (plainMatch c) = (eqLeaf c).holds cs :=
  any_congr' (fun dv hm => plainMatch_eq nb c dv hc hsd (hcs dv hm))

/-- `$not` around one leaf operator -/
theorem cond_not (nb : Bool) (op sv) (key : String) (d : Val)
    (cs : List (Option Val)) (hck : candsKey key d = .ok cs) (hne : cs ≠ [])
    (hr : opReasons op sv cs = [])
    (hs : Clean nb sv) (hcs : CandsAll (Clean nb) cs) :
    ∃ b, applyKey (.doc [("$not", .doc [(op, sv)])]) key d = .ok b ∧
      opsHold [("$not", .doc [(op, sv)])] cs = .ok b := by
  have key' : ∃ b, operatorMapKeys.contains op = true ∧ op.startsWith "$" = true ∧
      applyKey (.doc [(op, sv)]) key d = .ok b ∧ opsHold [(op, sv)] cs = .ok b := by
    by_cases hall : op = "$all"
    · subst hall
      obtain ⟨b, h1, h2⟩ := cond_all nb sv key d cs hck (by simpa [opReasons] using hr) hs hcs
      exact ⟨b, by decide, by decide +kernel, h1, h2⟩
    · obtain ⟨hop, b, h1, h2⟩ := cond_single nb op sv key d cs hck hall hr hs hcs
      exact ⟨b, leafOps_opmap hop, leafOps_dollar hop, h1, h2⟩
  obtain ⟨b, hom, hdl, h1, h2⟩ := key'
  refine ⟨!b, ?_, ?_⟩
  · rw [not_eq_neg key [(op, sv)] d cs hck hne (by
      simp only [List.all_cons, List.all_nil, hom, Bool.true_or, Bool.and_self]), h1]; rfl
  · simp only [opsHold, isOps, List.isEmpty_cons, Bool.not_false, List.all_cons, List.all_nil,
      hdl, Bool.and_self, ↓reduceIte, h2]
    rw [bind_and_true]; rfl


theorem smallDocs_of_operandReasons {c : Val} (h : operandReasons c = []) : smallDocs c = true := by
  simp only [operandReasons] at h
  split at h
  · assumption
  · cases h

theorem cond_nondoc (nb : Bool) (c : Val) (key : String) (d : Val) (cs : List (Option Val))
    (hnd : ∀ fs, c = .doc fs → False)
    (hck : candsKey key d = .ok cs) (hr : operandReasons c = []) (hc : Clean nb c)
    (hcs : CandsAll (Clean nb) cs) :
    ∃ b, applyKey c key d = .ok b ∧ condHolds c cs = .ok b := by
  refine ⟨(eqLeaf c).holds cs, ?_, ?_⟩
  · rw [applyKey_plain_nondoc c key d cs hnd hck,
      plain_any_eq nb c cs hc (smallDocs_of_operandReasons hr) hcs]
  · cases c <;> first | rfl | exact absurd rfl (fun e => hnd _ e)

/-- every condition of D: the matcher and the oracle give the same answer, without raising -/
theorem cond_spec (nb : Bool) (c : Val) (key : String) (d : Val) (cs : List (Option Val))
    (hck : candsKey key d = .ok cs) (hr : condReasons c cs = []) (hc : Clean nb c)
    (hcs : CandsAll (Clean nb) cs) :
    ∃ b, applyKey c key d = .ok b ∧ condHolds c cs = .ok b := by
  cases c with
  | doc fs =>
    match fs, hr, hc with
    | [], hr, hc =>
      refine ⟨(eqLeaf (.doc [])).holds cs, ?_, ?_⟩
      · rw [applyKey_plain_empty key d cs hck, plain_any_eq nb _ cs hc (by decide) hcs]
      · simp [condHolds, isOps, hasDollarKey]
    | _ :: _ :: _, hr, _ =>
      simp only [condReasons, operandReasons, smallDocs] at hr
      split at hr
      · cases hr
      · split at hr
        · cases hr
        · simp at hr
    | [(op, sv)], hr, hc =>
      have hsv : Clean nb sv := (hered_clean nb).doc _ op sv hc (by simp)
      by_cases hops : isOps [(op, sv)] = true
      · simp only [condReasons, hops, ↓reduceIte] at hr
        have hcond : condHolds (.doc [(op, sv)]) cs = opsHold [(op, sv)] cs := by
          simp only [condHolds, hops, ↓reduceIte]
        rw [hcond]
        by_cases hn : op = "$not"
        · subst hn
          simp only [↓reduceIte] at hr
          cases sv with
          | doc gs =>
            match gs, hr, hsv with
            | [(op', sv')], hr, hsv =>
              have hsv' : Clean nb sv' := (hered_clean nb).doc _ op' sv' hsv (by simp)
              by_cases hd : op'.startsWith "$" = true
              · simp only [hd, ↓reduceIte, List.append_eq_nil_iff] at hr
                obtain ⟨hr1, hr2⟩ := hr
                have hne : cs ≠ [] := by
                  intro e; subst e; simp at hr2
                by_cases hn' : op' = "$not"
                · simp [hn'] at hr1
                · simp only [hn', ↓reduceIte] at hr1
                  exact cond_not nb op' sv' key d cs hck hne hr1 hsv' hcs
              · simp [hd] at hr
            | [], hr, _ => simp at hr
            | _ :: _ :: _, hr, _ => simp at hr
          | _ => simp at hr
        · simp only [hn, ↓reduceIte] at hr
          by_cases hall : op = "$all"
          · subst hall
            exact cond_all nb sv key d cs hck (by simpa [opReasons] using hr) hsv hcs
          · exact (cond_single nb op sv key d cs hck hall hr hsv hcs).2
      · have hk : op.startsWith "$" = false := by
          simpa [isOps] using hops
        have hdk : hasDollarKey [(op, sv)] = false := by simp [hasDollarKey, hk]
        simp only [condReasons, hops, hdk, Bool.false_eq_true, ↓reduceIte, List.isEmpty_cons] at hr
        refine ⟨(eqLeaf (.doc [(op, sv)])).holds cs, ?_, ?_⟩
        · rw [applyKey_plain_doc op sv key d cs hk hck,
            plain_any_eq nb _ cs hc (smallDocs_of_operandReasons hr) hcs]
        · simp only [condHolds, hops, hdk, Bool.false_eq_true, ↓reduceIte]
  | null => exact cond_nondoc nb _ key d cs (by intro fs e; cases e) hck (by simpa [condReasons] using hr) hc hcs
  | bool b => exact cond_nondoc nb _ key d cs (by intro fs e; cases e) hck (by simpa [condReasons] using hr) hc hcs
  | int i => exact cond_nondoc nb _ key d cs (by intro fs e; cases e) hck (by simpa [condReasons] using hr) hc hcs
  | dbl m e => exact cond_nondoc nb _ key d cs (by intro fs e; cases e) hck (by simpa [condReasons] using hr) hc hcs
  | str s => exact cond_nondoc nb _ key d cs (by intro fs e; cases e) hck (by simpa [condReasons] using hr) hc hcs
  | date u o => exact cond_nondoc nb _ key d cs (by intro fs e; cases e) hck (by simpa [condReasons] using hr) hc hcs
  | oid n => exact cond_nondoc nb _ key d cs (by intro fs e; cases e) hck (by simpa [condReasons] using hr) hc hcs
  | arr xs => exact cond_nondoc nb _ key d cs (by intro fs e; cases e) hck (by simpa [condReasons] using hr) hc hcs

end MongoModel.Proofs.C01Lemmas
