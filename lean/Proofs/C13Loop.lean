/-
  Proofs.C13Loop — the update loop seen from the upsert: it never grows the collection, it is
  the identity when nothing is selected, and with a match the `upsert` flag is irrelevant.
  Reuses C10's loop invariant (`LInv`, `loop_count`) and C05's cut of `applyUpdateColl`
  (`applyUpdateColl_eq`, `afterLoop`, `insertCore_fresh`).
-/
import Spec.Single
import Spec.Match
import Proofs.C10
import Proofs.C05

set_option linter.unusedVariables false
set_option linter.unusedSimpArgs false
namespace MongoModel.Proofs.C13Lemmas
open MongoModel MongoModel.Spec MongoModel.Proofs.C05Lemmas MongoModel.Proofs.C10Lemmas

theorem select_ne_nil (f : Val) (l : List (Val × Val)) (q : Val × Val) (rest : List (Val × Val))
    (h : selectDocs f l = .ok (q :: rest)) : l ≠ [] := by
  intro e; subst e; simp [selectDocs] at h

theorem preLoop_eq (now : Int) (c c1 : Coll) (spec : Val) (he : expire now c = .ok c1)
    (hne : c1.docs ≠ []) : preLoop now c spec = .ok c1 :=
  MongoModel.Proofs.C10.pre_eq now c c1 spec he hne

/-- when the filter selects something, the upsert flag is irrelevant -/
theorem upsert_eq_plain (cfg : Cfg) (now : Int) (c c1 : Coll) (fs : Fields) (u : Val)
    (multi : Bool) (q : Val × Val) (rest : List (Val × Val))
    (he : expire now c = .ok c1) (hi : IdInv c) (hg : GoodKeys c)
    (hs : selectDocs (patchDT (.doc fs)) c1.docs = .ok (q :: rest)) :
    applyUpdateColl cfg now c (.doc fs) u true multi =
      applyUpdateColl cfg now c (.doc fs) u false multi := by
  have hne := select_ne_nil _ _ _ _ hs
  rw [applyUpdateColl_eq, applyUpdateColl_eq]
  rw [patch_doc fs] at hs ⊢
  split
  · rename_i ss dfs h1 h2
    cases h1
    cases updatePrecheck cfg dfs with
    | error e => rfl
    | ok _ =>
      simp only [preLoop_eq now c c1 _ he hne]
      generalize hloop : updateLoop now (.doc (patchFields fs)) (patchDT u) (patchDT (.date now none))
        multi c1.docs c1 0 0 = lr
      obtain ⟨c3, r3⟩ := lr
      cases r3 with
      | error e => rfl
      | ok mu =>
        obtain ⟨m, up⟩ := mu
        have hinv := MongoModel.Proofs.C10.linv_start now c c1 he hi.1 hg
        obtain ⟨hm, _⟩ := loop_count now _ _ _ multi c1.ttlIndexes c1.docs c1 0 0 c3 m up _
          hinv.dk hinv hs hloop (Nat.le_refl 0)
        have hpos : m > 0 := by
          cases multi <;> simp at hm <;> omega
        simp only [afterLoop, hpos, decide_true, Bool.or_true, if_true]
  · rfl


theorem setDoc_length (c : Coll) (k d : Val) (h : c.hasKey k = true) :
    (c.setDoc k d).docs.length = c.docs.length := by
  simp [Coll.setDoc, h]

theorem loop_length (now : Int) (spec document nowV : Val) (multi : Bool) :
    ∀ (pending : List (Val × Val)) (c : Coll) (m u : Nat) (c' : Coll) (r : R (Nat × Nat)),
      updateLoop now spec document nowV multi pending c m u = (c', r) →
      c'.docs.length ≤ c.docs.length := by
  intro pending
  induction pending with
  | nil =>
    intro c m u c' r h
    simp only [updateLoop, Prod.mk.injEq] at h
    rw [← h.1]
  | cons kd rest ih =>
    obtain ⟨key, d0⟩ := kd
    intro c m u c' r h
    unfold updateLoop at h
    cases hl : c.lookup key with
    | none => rw [hl] at h; exact ih _ _ _ _ _ h
    | some cur =>
      rw [hl] at h
      have hk := hasKey_of_lookup hl
      dsimp only at h
      cases hf : filterApplies spec cur with
      | error e => rw [hf] at h; cases h; exact Nat.le_refl _
      | ok b =>
        rw [hf] at h
        cases b with
        | false => exact ih _ _ _ _ _ h
        | true =>
          dsimp only at h
          cases ha : applyUpdate spec document nowV false cur with
          | error e => rw [ha] at h; cases h; exact Nat.le_refl _
          | ok new =>
            rw [ha] at h
            dsimp only at h
            have hlen := setDoc_length c key new hk
            by_cases hc : pyEq new cur = true
            · rw [if_pos hc] at h
              -- the unique indexes are checked on the "unchanged" branch as well
              cases hu : ensureUniques now (c.setDoc key new) new with
              | error e => rw [hu] at h; cases h; exact Nat.le_refl _
              | ok c2 =>
                rw [hu] at h
                dsimp only at h
                have h2 : c2.docs.length ≤ c.docs.length :=
                  hlen ▸ (ensureUniques_sub now _ _ _ hu).length_le
                cases multi with
                | true =>
                  simp only [if_true] at h
                  exact Nat.le_trans (ih _ _ _ _ _ h) h2
                | false =>
                  simp only [Bool.false_eq_true, if_false] at h
                  cases h; exact h2
            · rw [if_neg hc] at h
              generalize (!pyEqOpt _ _) = q at h
              cases q with
              | true => cases h; exact Nat.le_refl _
              | false =>
                simp only [Bool.false_eq_true, if_false] at h
                cases hu : ensureUniques now (c.setDoc key new) new with
                | error e => rw [hu] at h; cases h; exact Nat.le_refl _
                | ok c2 =>
                  rw [hu] at h
                  dsimp only at h
                  have h2 : c2.docs.length ≤ c.docs.length :=
                    hlen ▸ (ensureUniques_sub now _ _ _ hu).length_le
                  cases multi with
                  | true =>
                    simp only [if_true] at h
                    exact Nat.le_trans (ih _ _ _ _ _ h) h2
                  | false =>
                    simp only [Bool.false_eq_true, if_false] at h
                    cases h; exact h2

theorem no_upsert_no_insert_main (cfg : Cfg) (now : Int) (c c' : Coll) (f u : Val) (multi : Bool)
    (r : UpdateResult) (h : applyUpdateColl cfg now c f u false multi = (c', .ok r)) :
    r.upserted = none ∧ c'.docs.length ≤ c.docs.length := by
  rw [applyUpdateColl_eq] at h
  split at h
  · split at h
    · cases h
    · split at h
      · cases h
      · rename_i c2 hpre
        have h2 : c2.docs.length ≤ c.docs.length := (preLoop_sub now c _ c2 hpre).length_le
        generalize hloop : updateLoop now (patchDT f) (patchDT u) (patchDT (.date now none))
          multi c2.docs c2 0 0 = lr at h
        obtain ⟨c3, r3⟩ := lr
        have h3 := loop_length _ _ _ _ _ _ _ _ _ _ _ hloop
        cases r3 with
        | error e => simp [afterLoop] at h
        | ok mu =>
          simp only [afterLoop, Bool.not_false, Bool.true_or, if_true, Prod.mk.injEq,
            Except.ok.injEq] at h
          obtain ⟨rfl, rfl⟩ := h
          exact ⟨rfl, Nat.le_trans h3 h2⟩
  · cases h


theorem loop_nomatch (now : Int) (spec document nowV : Val) (multi : Bool) (T : List Index) :
    ∀ (rest : List (Val × Val)) (c : Coll) (m u : Nat),
      DK rest → LInv now T rest c → selectDocs spec rest = .ok [] →
      updateLoop now spec document nowV multi rest c m u = (c, .ok (m, u)) := by
  intro rest
  induction rest with
  | nil => intro c m u _ _ _; rfl
  | cons kv rest ih =>
    intro c m u hd hinv hs
    have hl := hinv.lookup
    have hd' : DK rest := (List.pairwise_cons.1 hd).2
    obtain ⟨b, more, hb, hm, he⟩ := select_cons spec kv rest [] hs
    obtain ⟨key, v⟩ := kv
    have hb' : filterApplies spec v = .ok b := hb
    have hl' : c.lookup key = some v := hl
    cases b with
    | true => simp at he
    | false =>
      simp only [Bool.false_eq_true, if_false] at he
      subst he
      unfold updateLoop
      rw [hl']
      dsimp only
      rw [hb']
      exact ih c m u hd' hinv.tail hm

theorem upsertIdv_ttl (ss dfs : Fields) (c3 : Coll) :
    (upsertIdv ss dfs c3).2.ttlIndexes = c3.ttlIndexes := by
  unfold upsertIdv
  repeat' split
  all_goals rfl

theorem idOf_patch_doc (fs : Fields) : idOf (patchDT (.doc fs)) = dget "_id" (patchFields fs) := by
  rw [patch_doc]; rfl

theorem insert_fresh_id (now : Int) (c c' : Coll) (d id : Val) (hn : c.ttlIndexes = [])
    (h : insertDoc now c d = .ok (c', id)) :
    ∃ dd, c'.docs = c.docs ++ [(id, dd)] ∧ idOf dd = some id := by
  cases d with
  | doc fs =>
    rw [insertDoc_eq] at h
    by_cases hh : dhas "_id" fs = true
    · rw [if_pos hh] at h
      obtain ⟨h1, _, h3⟩ := insertCore_fresh now c fs c' id hn hh h
      exact ⟨_, h3, by rw [idOf_patch_doc, h1]⟩
    · rw [if_neg hh] at h
      have hh' : dhas "_id" (dset "_id" (.oid c.nextOid) fs) = true := by
        simp [dhas, dget_dset_self]
      obtain ⟨h1, _, h3⟩ := insertCore_fresh now { c with nextOid := c.nextOid + 1 } _ c' id hn hh' h
      exact ⟨_, h3, by rw [idOf_patch_doc, h1]⟩
  | _ => simp [insertDoc] at h


/-- the upsert branch of `afterLoop` on a TTL-free collection -/
theorem afterLoop_insert (now : Int) (spec document nowV : Val) (ss dfs : Fields)
    (c3 c' : Coll) (up : Nat) (r : UpdateResult) (hn : c3.ttlIndexes = [])
    (h : afterLoop now spec document nowV ss dfs true c3 (.ok (0, up)) = (c', .ok r)) :
    ∃ id d, r.upserted = some id ∧ c'.docs = c3.docs ++ [(id, d)] ∧
        idOf d = some id ∧ r.n = 1 ∧ r.nModified = 0 ∧ r.updatedExisting = false := by
  unfold afterLoop at h
  simp only [Bool.not_true, Bool.false_or, Nat.lt_irrefl, gt_iff_lt, decide_false,
    Bool.false_eq_true, if_false] at h
  have hd := upsertIdv_docs ss dfs c3
  have ht := upsertIdv_ttl ss dfs c3
  generalize upsertIdv ss dfs c3 = ic at h hd ht
  cases hb : upsertDoc spec document nowV ss ic.1 with
  | error e => simp only [hb] at h; cases h
  | ok built =>
    simp only [hb] at h
    cases hi : insertDoc now ic.2 built with
    | error e => simp only [hi] at h; cases h
    | ok p =>
      obtain ⟨c5, newId⟩ := p
      simp only [hi, Prod.mk.injEq, Except.ok.injEq] at h
      obtain ⟨hc, rfl⟩ := h
      obtain ⟨dd, h1, h2⟩ := insert_fresh_id now ic.2 c5 built newId (ht.trans hn) hi
      refine ⟨newId, dd, rfl, ?_, h2, rfl, rfl, rfl⟩
      rw [← hc, ← hd, ← h1]

theorem upsert_iff_no_match_main (cfg : Cfg) (now : Int) (c c1 c' : Coll) (fs : Fields) (u : Val)
    (multi : Bool) (sel : List (Val × Val)) (r : UpdateResult)
    (he : expire now c = .ok c1) (hne : c1.docs ≠ []) (hn : c.ttlIndexes = [])
    (hi : IdInv c) (hg : GoodKeys c)
    (hs : selectDocs (patchDT (.doc fs)) c1.docs = .ok sel)
    (h : applyUpdateColl cfg now c (.doc fs) u true multi = (c', .ok r)) :
    (r.upserted.isSome ↔ sel = []) ∧
    (sel = [] → ∃ id d, r.upserted = some id ∧ c'.docs = c1.docs ++ [(id, d)] ∧
        idOf d = some id ∧ r.n = 1 ∧ r.nModified = 0 ∧ r.updatedExisting = false) := by
  have hc1 : c1 = c := by
    rw [expire_noTtl now c hn] at he; cases he; rfl
  rw [applyUpdateColl_eq] at h
  rw [patch_doc fs] at hs h
  split at h
  · rename_i ss dfs h1 h2
    cases h1
    split at h
    · cases h
    · simp only [preLoop_eq now c c1 _ he hne] at h
      generalize hloop : updateLoop now (.doc (patchFields fs)) (patchDT u) (patchDT (.date now none))
        multi c1.docs c1 0 0 = lr at h
      obtain ⟨c3, r3⟩ := lr
      cases r3 with
      | error e => simp [afterLoop] at h
      | ok mu =>
        obtain ⟨m, up⟩ := mu
        have hinv := MongoModel.Proofs.C10.linv_start now c c1 he hi.1 hg
        obtain ⟨hm, _⟩ := loop_count now _ _ _ multi c1.ttlIndexes c1.docs c1 0 0 c3 m up _
          hinv.dk hinv hs hloop (Nat.le_refl 0)
        have key : sel = [] → ∃ id d, r.upserted = some id ∧ c'.docs = c1.docs ++ [(id, d)] ∧
            idOf d = some id ∧ r.n = 1 ∧ r.nModified = 0 ∧ r.updatedExisting = false := by
          intro hsel
          subst hsel
          have hm0 : m = 0 := by cases multi <;> simpa using hm
          subst hm0
          have hl := loop_nomatch now (.doc (patchFields fs)) (patchDT u) (patchDT (.date now none))
            multi c1.ttlIndexes c1.docs c1 0 0 hinv.dk hinv hs
          rw [hl] at hloop
          simp only [Prod.mk.injEq, Except.ok.injEq] at hloop
          obtain ⟨rfl, _, rfl⟩ := hloop
          exact afterLoop_insert _ _ _ _ _ _ _ _ _ _ (hc1 ▸ hn) h
        refine ⟨⟨?_, ?_⟩, key⟩
        · intro hsome
          cases sel with
          | nil => rfl
          | cons q rest =>
            exfalso
            have hpos : m > 0 := by
              cases multi <;> simp at hm <;> omega
            simp only [afterLoop, hpos, decide_true, Bool.or_true, if_true, Prod.mk.injEq,
              Except.ok.injEq] at h
            obtain ⟨_, rfl⟩ := h
            simp at hsome
        · intro hsel
          obtain ⟨id, d, h1, _⟩ := key hsel
          simp [h1]
  · cases h

end MongoModel.Proofs.C13Lemmas
