/-
  Proofs.C11Model — the model of MongoModel/Sort.lean against the oracle of Spec/Order.lean.
-/
import Mathlib.Data.String.Basic
import Mathlib.Order.Defs.LinearOrder
import Proofs.C11Order
import Spec.OrderDomain

namespace MongoModel.Proofs.C11
open MongoModel MongoModel.Spec.Order

/-! ### the comparison of two in-domain keys -/

/-- a key of the domain: a null / bool / number / string / naive datetime / supplied ObjectId
    (of either rank) -/
def DKey (k : SortKey) : Prop := valReasons k.val = []

theorem ite_ord_beq_lt (P Q : Prop) [Decidable P] [Decidable Q] :
    ((if P then Ordering.lt else if Q then Ordering.eq else Ordering.gt) == Ordering.lt)
      = decide P := by
  by_cases hP : P <;> by_cases hQ : Q <;> simp [hP, hQ]

theorem compare_beq_lt {α} [LinearOrder α] (a b : α) :
    (compare a b == Ordering.lt) = decide (a < b) := by
  by_cases h : a < b
  · simp [h, compare_lt_iff_lt.mpr h]
  · have hne : compare a b ≠ .lt := fun hc => h (compare_lt_iff_lt.mp hc)
    cases hc : compare a b <;> simp_all

theorem bool_compare_beq_lt (x y : Bool) :
    (compare x.toNat y.toNat == Ordering.lt) = (!x && y) := by
  cases x <;> cases y <;> decide

theorem keyLt_eq_spec (a b : SortKey) (ha : DKey a) (hb : DKey b) :
    MongoModel.keyLt a b = .ok (Spec.Order.keyLt a b) := by
  obtain ⟨ra, va⟩ := a
  obtain ⟨rb, vb⟩ := b
  have h2 : valReasons va = [] := ha
  have h4 : valReasons vb = [] := hb
  by_cases hr : ra = rb
  · subst hr
    simp only [MongoModel.keyLt, Spec.Order.keyLt, ne_eq, not_true_eq_false, if_false]
    rcases va with _ | _ | _ | _ | _ | ⟨u, _ | o⟩ | _ | _ | _ <;>
    rcases vb with _ | _ | _ | _ | _ | ⟨u', _ | o'⟩ | _ | _ | _ <;>
    simp [valReasons] at h2 h4 <;>
    simp [-String.lt_iff_ltb, bsonCompare, Val.tc, bsonCmp, leafCmp, valLt, typeOrder, natCmp, strCmp,
        CmpOp.holds, Val.num?, Except.map, dateUtc, Num.lt, ite_ord_beq_lt, compare_beq_lt] <;>
    first
      | rfl
      | simp [oidCmp, h2, h4, compare_beq_lt]
      | (rename_i x y; cases x <;> cases y <;> rfl)
  · simp [MongoModel.keyLt, Spec.Order.keyLt, hr]

/-! ### the sort key of an in-domain document -/

/-- the model's and the oracle's reading of one reached value are the same function -/
theorem candSortKeys_eq (c : Option Val) : candSortKeys c = candKeys c := by
  cases c with
  | none => rfl
  | some v =>
    cases v with
    | arr xs => cases xs <;> rfl
    | _ => rfl

theorem dkey_of_candReasons (c : Option Val) (h : candReasons c = []) :
    ∀ k ∈ candKeys c, DKey k := by
  intro k hk
  cases c with
  | none =>
    simp only [candKeys, List.mem_singleton] at hk
    subst hk; rfl
  | some v =>
    cases v with
    | arr xs =>
      cases xs with
      | nil =>
        simp only [candKeys, List.mem_singleton] at hk
        subst hk; rfl
      | cons x r =>
        simp only [candKeys, List.mem_map] at hk
        obtain ⟨y, hy, rfl⟩ := hk
        exact List.flatMap_eq_nil_iff.mp h y hy
    | _ =>
      simp only [candKeys, List.mem_singleton] at hk
      subst hk; exact h

/-- Python's `min` / `max` over in-domain keys is the oracle's smallest / largest key -/
theorem pickSortKey_eq (rev : Bool) : ∀ (r : List SortKey) (best : SortKey), DKey best →
    (∀ k ∈ r, DKey k) →
    pickSortKey rev best r = .ok (pickKey rev best r) ∧ DKey (pickKey rev best r) := by
  intro r
  induction r with
  | nil => intro best hb _; exact ⟨rfl, hb⟩
  | cons k r ih =>
    intro best hb hr
    have hk : DKey k := hr k List.mem_cons_self
    have hr' : ∀ k' ∈ r, DKey k' := fun k' hk' => hr k' (List.mem_cons_of_mem _ hk')
    cases rev with
    | false =>
      simp only [pickSortKey, pickKey, Bool.false_eq_true, if_false, keyLt_eq_spec k best hk hb]
      refine ih _ ?_ hr'
      cases Spec.Order.keyLt k best <;> simp [hk, hb]
    | true =>
      simp only [pickSortKey, pickKey, if_true, keyLt_eq_spec best k hb hk]
      refine ih _ ?_ hr'
      cases Spec.Order.keyLt best k <;> simp [hk, hb]

/-- inside the domain the model's sort key is the oracle's, for either direction, and it is an
    in-domain key -/
theorem key_of_reasons_nil (key : String) (d : Val) (h : keyReasons key d = []) (desc : Bool) :
    resolveSortKey key desc d = .ok (docKey key desc d) ∧ DKey (docKey key desc d) := by
  unfold keyReasons at h
  unfold resolveSortKey docKey
  cases hc : candsKey key d with
  | error e => rw [hc] at h; simp at h
  | ok cs =>
    rw [hc] at h
    simp only at h ⊢
    have he : cs.flatMap candSortKeys = cs.flatMap candKeys := by
      exact congrArg (fun f => cs.flatMap f) (funext candSortKeys_eq)
    rw [he]
    cases hk : cs.flatMap candKeys with
    | nil => exact ⟨rfl, rfl⟩
    | cons k r =>
      have hall : ∀ k' ∈ k :: r, DKey k' := by
        intro k' hk'
        rw [← hk, List.mem_flatMap] at hk'
        obtain ⟨c, hcm, hkc⟩ := hk'
        exact dkey_of_candReasons c (List.flatMap_eq_nil_iff.mp h c hcm) k' hkc
      exact pickSortKey_eq desc r k (hall k List.mem_cons_self)
        (fun k' hk' => hall k' (List.mem_cons_of_mem _ hk'))

theorem keyShallow_of_reasons (v : Val) (h : valReasons v = []) : keyShallow v = true := by
  cases v <;> simp [valReasons] at h <;> rfl

/-- order of two documents under one key, as the oracle sees it: by their smallest reached
    values (`desc = false`) or by their largest (`desc = true`) -/
def dirLt (key : String) (desc : Bool) (a b : Val) : Bool :=
  Spec.Order.keyLt (docKey key desc a) (docKey key desc b)

/-- ascending order of two documents under one key -/
abbrev ascLt (key : String) : Val → Val → Bool := dirLt key false

theorem docLt_eq_spec (key : String) (desc : Bool) (a b : Val)
    (ha : keyReasons key a = []) (hb : keyReasons key b = []) :
    docKeyLt key desc a b = .ok (dirLt key desc a b) := by
  obtain ⟨hka, dka⟩ := key_of_reasons_nil key a ha desc
  obtain ⟨hkb, dkb⟩ := key_of_reasons_nil key b hb desc
  simp only [docKeyLt, hka, hkb, dirLt]
  exact keyLt_eq_spec _ _ dka dkb

theorem mapR_ok {α β} (f : α → R β) (g : α → β) (l : List α) (h : ∀ x ∈ l, f x = .ok (g x)) :
    mapR f l = .ok (l.map g) := by
  induction l with
  | nil => rfl
  | cons x xs ih =>
    simp only [mapR, h x (List.mem_cons_self),
      ih (fun y hy => h y (List.mem_cons_of_mem _ hy)), List.map_cons]

theorem pairsOk_of {α} (lt : α → α → R Bool) (l : List α)
    (h : ∀ a ∈ l, ∀ b ∈ l, isOk (lt a b) = true) : pairsOk lt l = true := by
  induction l with
  | nil => rfl
  | cons x xs ih =>
    simp only [pairsOk, Bool.and_eq_true, List.all_eq_true]
    refine ⟨fun y hy => ⟨h x (List.mem_cons_self) y (List.mem_cons_of_mem _ hy),
      h y (List.mem_cons_of_mem _ hy) x (List.mem_cons_self)⟩, ?_⟩
    exact ih (fun a ha b hb => h a (List.mem_cons_of_mem _ ha) b (List.mem_cons_of_mem _ hb))

theorem strictWeak_dirLt (key : String) (desc : Bool) : StrictWeak (dirLt key desc) :=
  strictWeak_of_embedding _ (fun d => emb (docKey key desc d)) (fun _ _ => keyLt_iff _ _)

theorem strictWeak_ascLt (key : String) : StrictWeak (ascLt key) := strictWeak_dirLt key false

/-- one `sorted(…, key=resolve_sort_key(…, reverse), reverse=…)` inside the domain, for a literal
    direction: the stable sort by the smallest values, or by the flipped order of the largest -/
theorem sortedByKey_dir (key : String) (rev : Bool) (ds : List Val)
    (h : ∀ d ∈ ds, keyReasons key d = []) :
    sortedByKey key rev ds =
      .ok (if rev then isort (fun a b => dirLt key true b a) ds else isort (dirLt key false) ds) := by
  have hkeys : mapR (resolveSortKey key rev) ds = .ok (ds.map (docKey key rev)) := by
    apply mapR_ok
    intro d hd
    exact (key_of_reasons_nil key d (h d hd) rev).1
  have hshallow : (ds.map (docKey key rev)).all (fun k => keyShallow k.val) = true := by
    simp only [List.all_eq_true, List.mem_map]
    rintro k ⟨d, hd, rfl⟩
    exact keyShallow_of_reasons _ (key_of_reasons_nil key d (h d hd) rev).2
  have hok : pairsOk (docKeyLt key rev) ds = true := by
    apply pairsOk_of
    intro a ha b hb
    rw [docLt_eq_spec key rev a b (h a ha) (h b hb)]; rfl
  have hlt : ∀ a ∈ ds, ∀ b ∈ ds, okTrue (docKeyLt key rev a b) = dirLt key rev a b := by
    intro a ha b hb
    rw [docLt_eq_spec key rev a b (h a ha) (h b hb)]
    cases dirLt key rev a b <;> rfl
  simp only [sortedByKey, hkeys, hshallow, Bool.not_true, Bool.false_eq_true, if_false, pySorted,
    hok, if_true]
  congr 1
  cases rev with
  | true =>
    simp only [if_true]
    rw [isort_congr (lt' := dirLt key true) ds.reverse
      (fun a ha b hb => hlt a (List.mem_reverse.mp ha) b (List.mem_reverse.mp hb)),
      reverse_isort_reverse (strictWeak_dirLt key true)]
  | false =>
    simp only [Bool.false_eq_true, if_false]
    exact isort_congr ds hlt

/-- …for the direction given as an int: the stable sort by the oracle's order for that key and
    direction -/
theorem sortedByKey_eq (kd : String × Int) (ds : List Val)
    (h : ∀ d ∈ ds, keyReasons kd.1 d = []) :
    sortedByKey kd.1 (decide (kd.2 < 0)) ds = .ok (isort (docLt1 kd) ds) := by
  rw [sortedByKey_dir kd.1 _ ds h]
  congr 1
  by_cases hdir : kd.2 < 0
  · simp only [hdir, decide_true, if_true]
    apply isort_congr
    intro a _ b _
    simp only [docLt1, hdir, if_true, dirLt]
  · simp only [hdir, decide_false, Bool.false_eq_true, if_false]
    apply isort_congr
    intro a _ b _
    simp only [docLt1, hdir, if_false, dirLt]

/-! ### successive sorts = one lexicographic sort -/

/-- every key is an ordinary key and every document's key lies in the domain -/
def SpecOk (spec : SortSpec) (docs : List Val) : Prop :=
  ∀ kd ∈ spec, startsWithDollar kd.1 = false ∧ ∀ d ∈ docs, keyReasons kd.1 d = []

theorem specOk_of_reasons (spec : SortSpec) (docs : List Val) (h : specReasons spec docs = []) :
    SpecOk spec docs := by
  intro kd hkd
  unfold specReasons at h
  have := (List.flatMap_eq_nil_iff.mp h) kd hkd
  by_cases hd : startsWithDollar kd.1 = true
  · simp [hd] at this
  · simp only [hd, Bool.false_eq_true, if_false] at this
    exact ⟨by simpa using hd, fun d hd' => (List.flatMap_eq_nil_iff.mp this) d hd'⟩

theorem specOk_mono {spec : SortSpec} {docs docs' : List Val} (h : SpecOk spec docs)
    (hsub : ∀ d ∈ docs', d ∈ docs) : SpecOk spec docs' :=
  fun kd hkd => ⟨(h kd hkd).1, fun d hd => (h kd hkd).2 d (hsub d hd)⟩

theorem docLt_cons (kd : String × Int) (rest : SortSpec) :
    docLt (kd :: rest) = lexLt (docLt1 kd) (docLt rest) := by
  funext a b; rfl

theorem strictWeak_docLt (spec : SortSpec) : StrictWeak (docLt spec) := by
  induction spec with
  | nil =>
    have : docLt [] = fun _ _ => false := by funext a b; rfl
    rw [this]; exact strictWeak_false
  | cons kd rest ih =>
    rw [docLt_cons]; exact strictWeak_lex (strictWeak_docLt1 kd) ih

/-- the loop of `_get_dataset` / `_handle_sort_stage`: sorting by the last key first and by the
    first key last (each sort stable) is the stable sort by the lexicographic order -/
theorem sortRounds_eq (round : String × Int → List Val → R (List Val))
    (hround : ∀ kd ds, startsWithDollar kd.1 = false →
      round kd ds = sortedByKey kd.1 (decide (kd.2 < 0)) ds)
    (spec : SortSpec) (docs : List Val) (h : SpecOk spec docs) :
    sortRounds round spec docs = .ok (isort (docLt spec) docs) := by
  induction spec with
  | nil =>
    have : docLt [] = fun _ _ => false := by funext a b; rfl
    simp [sortRounds, this, isort_false]
  | cons kd rest ih =>
    have hrest : SpecOk rest docs := fun kd' hkd' => h kd' (List.mem_cons_of_mem _ hkd')
    have hkd := h kd (List.mem_cons_self)
    simp only [sortRounds, ih hrest, bindR]
    rw [hround kd _ hkd.1, sortedByKey_eq kd _
      (fun d hd => hkd.2 d ((isort_perm _ _).mem_iff.mp hd)),
      isort_isort_lex (strictWeak_docLt1 kd) (strictWeak_docLt rest), docLt_cons]

theorem natural_startsWithDollar : startsWithDollar "$natural" = true := by decide

theorem applySortKey_plain (kd : String × Int) (ds : List Val)
    (h : startsWithDollar kd.1 = false) :
    applySortKey kd ds = sortedByKey kd.1 (decide (kd.2 < 0)) ds := by
  have hn : kd.1 ≠ "$natural" := by
    intro e; rw [e, natural_startsWithDollar] at h; cases h
  simp [applySortKey, hn, h]

theorem loneNatural_some {spec : SortSpec} {dir : Int} (h : loneNatural spec = some dir) :
    spec = [("$natural", dir)] := by
  match spec, h with
  | [(k, d)], h =>
    simp only [loneNatural] at h
    by_cases hk : k = "$natural"
    · simp [hk] at h; simp [hk, h]
    · simp [hk] at h

/-- **Impl = Spec on D** for the sorted sequence -/
theorem getDataset_eq_spec (sort : Option SortSpec) (docs : List Val)
    (h : sortD sort docs = true) : getDataset sort docs = .ok (sortDocs sort docs) := by
  cases sort with
  | none => rfl
  | some spec =>
    simp only [sortD, sortReasons, List.isEmpty_iff] at h
    simp only [getDataset, sortDocs]
    cases hl : loneNatural spec with
    | some dir =>
      rw [loneNatural_some hl]
      simp [sortRounds, bindR, applySortKey]
    | none =>
      rw [hl] at h
      exact sortRounds_eq applySortKey applySortKey_plain spec docs (specOk_of_reasons _ _ h)

theorem aggSort_eq_spec (spec : SortSpec) (docs : List Val) (h : SpecOk spec docs) :
    aggSort spec docs = .ok (isort (docLt spec) docs) :=
  sortRounds_eq _ (fun _ _ _ => rfl) spec docs h

/-! ### skip / limit: the cursor state machine against the settings of the oracle -/

/-- the limit the model's cursor effectively applies (`None` and 0 are both falsy) -/
def implLim : Option Int → Option Nat
  | some l => if l = 0 then none else some l.natAbs
  | none => none

/-- …taking the empty-slice flag into account: an empty slice selects nothing -/
def effLim (c : Cursor) : Option Nat := if c.empty then some 0 else implLim c.limit

/-- the model's cursor `c` and the oracle's settings `s` describe the same request -/
def Rel (c : Cursor) (s : Settings) : Prop :=
  c.sort = s.sort ∧ c.skip = s.skip ∧ effLim c = s.limit

theorem rel_new (sort : Option SortSpec) (skip limit : Int) :
    Rel (Cursor.new sort skip limit) (Settings.new sort skip limit) := by
  refine ⟨rfl, rfl, ?_⟩
  by_cases h : limit = 0
  · simp [Cursor.new, Settings.new, limitArg, h, implLim, effLim]
  · simp [Cursor.new, Settings.new, limitArg, h, implLim, effLim]

/-- one cursor-method call: the model and the oracle both reject it, or both accept it and stay
    related -/
theorem step_rel (c : Cursor) (s : Settings) (op : CurOp) (h : Rel c s) :
    (∃ e, c.step op = .error e ∧ s.step op = none) ∨
    (∃ c' s', c.step op = .ok c' ∧ s.step op = some s' ∧ Rel c' s') := by
  obtain ⟨h1, h2, h3⟩ := h
  cases op with
  | skip n => exact Or.inr ⟨_, _, rfl, rfl, h1, rfl, h3⟩
  | limit n =>
    refine Or.inr ⟨_, _, rfl, rfl, h1, h2, ?_⟩
    by_cases hn : n = 0
    · simp [limitArg, hn, implLim, effLim]
    · simp [limitArg, hn, implLim, effLim]
  | sortKey k d =>
    refine Or.inr ⟨_, _, rfl, rfl, ?_, h2, h3⟩
    cases d with
    | none => rfl
    | some d => by_cases hd : d = 0 <;> simp [hd]
  | sortList spec =>
    cases spec with
    | nil => exact Or.inl ⟨_, rfl, rfl⟩
    | cons kd r => exact Or.inr ⟨_, _, rfl, rfl, rfl, h2, h3⟩
  | slice start stop =>
    have key : ∀ a : Int, 0 ≤ a →
        (∃ e, sliceStop c a stop = .error e ∧ s.slice a stop = none) ∨
        (∃ c' s', sliceStop c a stop = .ok c' ∧ s.slice a stop = some s' ∧ Rel c' s') := by
      intro a _
      cases stop with
      | none =>
        exact Or.inr ⟨_, _, rfl, rfl, h1, rfl, by simp [implLim, effLim]⟩
      | some b =>
        by_cases hb : b < a
        · left
          have : b - a < 0 := by omega
          exact ⟨.indexErr, by simp [sliceStop, this], by simp [Settings.slice, hb]⟩
        · right
          have hnn : ¬ (b - a < 0) := by omega
          refine ⟨{ c with skip := a, limit := some (b - a), empty := decide (b - a = 0) },
            { s with skip := a, limit := some (b - a).toNat },
            by simp only [sliceStop, hnn, if_false], by simp only [Settings.slice, hb, if_false],
            h1, rfl, ?_⟩
          by_cases hz : b - a = 0
          · simp [effLim, hz]
          · have e : (b - a).natAbs = (b - a).toNat := by omega
            simp [implLim, effLim, hz, e]
    cases start with
    | none => exact key 0 (le_refl 0)
    | some a =>
      by_cases ha : a < 0
      · exact Or.inl ⟨.indexErr, by simp [Cursor.step, ha], by simp [Settings.step, ha]⟩
      · have := key a (by omega)
        simpa [Cursor.step, Settings.step, ha] using this
  | clone =>
    refine Or.inr ⟨_, _, rfl, rfl, h1, h2, ?_⟩
    rw [← h3]
    simp only [effLim]
    cases hl : c.limit with
    | none => rfl
    | some l => by_cases hz : l = 0 <;> simp [implLim, hz]
  | rewind => exact Or.inr ⟨_, _, rfl, rfl, h1, h2, h3⟩

theorem run_rel (ops : List CurOp) : ∀ (c : Cursor) (s : Settings), Rel c s →
    (∃ e, c.run ops = .error e ∧ s.run ops = none) ∨
    (∃ c' s', c.run ops = .ok c' ∧ s.run ops = some s' ∧ Rel c' s') := by
  induction ops with
  | nil => intro c s h; exact Or.inr ⟨c, s, rfl, rfl, h⟩
  | cons op ops ih =>
    intro c s h
    rcases step_rel c s op h with ⟨e, h1, h2⟩ | ⟨c', s', h1, h2, h3⟩
    · exact Or.inl ⟨e, by simp [Cursor.run, h1, bindR], by simp [Settings.run, h2]⟩
    · rcases ih c' s' h3 with ⟨e, h4, h5⟩ | ⟨c'', s'', h4, h5, h6⟩
      · exact Or.inl ⟨e, by simp [Cursor.run, h1, bindR, h4], by simp [Settings.run, h2, h5]⟩
      · exact Or.inr ⟨c'', s'', by simp [Cursor.run, h1, bindR, h4],
          by simp [Settings.run, h2, h5], h6⟩

theorem pyDropFrom_nonneg {α} (s : Int) (xs : List α) (h : 0 ≤ s) :
    pyDropFrom s xs = xs.drop s.toNat := by
  simp [pyDropFrom, h]

theorem pyTakeTo_nonneg {α} (e : Int) (xs : List α) (h : 0 ≤ e) :
    pyTakeTo e xs = xs.take e.toNat := by
  simp [pyTakeTo, h]

/-- `_compute_results` slicing is `drop` then `take` of the effective limit -/
theorem window_eq_effLim {α} (c : Cursor) (xs : List α) (h : 0 ≤ c.skip) :
    c.window xs = window c.skip.toNat (effLim c) xs := by
  unfold Cursor.window window effLim implLim
  cases he : c.empty with
  | true => simp
  | false =>
    cases hl : c.limit with
    | none => simp [pyDropFrom_nonneg _ _ h]
    | some l => by_cases hz : l = 0 <;> simp [hz, pyDropFrom_nonneg _ _ h]

theorem window_eq_spec {α} (c : Cursor) (s : Settings) (xs : List α) (h : Rel c s)
    (hs : 0 ≤ s.skip) : c.window xs = window s.skip.toNat s.limit xs := by
  obtain ⟨_, h2, h3⟩ := h
  rw [window_eq_effLim c xs (h2 ▸ hs), h2, h3]

/-! ### count_documents -/

theorem length_window {α} (skip : Nat) (limit : Option Nat) (xs : List α) :
    (window skip limit xs).length =
      match limit with
      | none => xs.length - skip
      | some l => min l (xs.length - skip) := by
  cases limit <;> simp [window]

theorem count_eq (n : Nat) (skip : Nat) (limit : Option Nat) :
    Spec.Order.count n skip limit =
      match limit with
      | none => n - skip
      | some l => min l (n - skip) := by
  simp [Spec.Order.count, length_window]

theorem countDocuments_num {α} (xs : List α) (skip l : Int) (hs : 0 ≤ skip) (hl : 0 < l) :
    countDocuments xs.length skip (.num l) =
      .ok ((window skip.toNat (some l.toNat) xs).length : Nat) := by
  have hl' : ¬ l ≤ 0 := by omega
  simp only [countDocuments, hl', if_false, length_window]
  congr 1
  omega

theorem countDocuments_absent {α} (xs : List α) (skip : Int) (hs : 0 ≤ skip) :
    countDocuments xs.length skip .absent = .ok ((window skip.toNat none xs).length : Nat) := by
  simp only [countDocuments, length_window]
  congr 1
  omega

/-! ### natural order -/

theorem rewrite_ids (k d : Val) (s : Store) : (Store.rewrite k d s).ids = s.ids := by
  induction s with
  | nil => rfl
  | cons kd r ih =>
    obtain ⟨k', d'⟩ := kd
    simp only [Store.rewrite]
    split
    · rfl
    · simp only [Store.ids, List.map_cons] at ih ⊢
      rw [ih]

theorem rewrite_length (k d : Val) (s : Store) : (Store.rewrite k d s).length = s.length := by
  have := congrArg List.length (rewrite_ids k d s)
  simpa [Store.ids] using this

theorem delete_ids (k : Val) (s : Store) :
    (Store.delete k s).ids = s.ids.eraseP (fun i => pyEq i k) := by
  induction s with
  | nil => rfl
  | cons kd r ih =>
    obtain ⟨k', d'⟩ := kd
    simp only [Store.ids] at ih
    cases h : pyEq k' k <;> simp [Store.delete, Store.ids, h, ih]

theorem has_ids (k : Val) (s : Store) : s.has k = s.ids.any (fun i => pyEq i k) := by
  simp [Store.has, Store.ids, List.any_map, Function.comp_def]

theorem runOps_ids (ops : List StoreOp) : ∀ s : Store,
    (Store.runOps s ops).ids = naturalIds s.ids ops := by
  induction ops with
  | nil => intro s; rfl
  | cons op ops ih =>
    intro s
    cases op with
    | insert k d =>
      simp only [Store.runOps, Store.step, naturalIds, ← has_ids]
      split
      · exact ih s
      · rw [ih]; simp [Store.ids]
    | rewrite k d =>
      simp only [Store.runOps, Store.step, naturalIds]
      rw [ih, rewrite_ids]
    | delete k =>
      simp only [Store.runOps, Store.step, naturalIds]
      rw [ih, delete_ids]

/-! ### pipelines -/

/-- the code's answer for the oracle's verdict: the documents, or OperationFailure -/
def stagesVerdict : Option (List Val) → R (List Val)
  | some out => .ok out
  | none => .error .opFail

theorem runPipeline_eq_spec (stages : List Stage) : ∀ (docs0 docs : List Val),
    (∀ st ∈ stages, stageReasons docs0 st = []) → (∀ d ∈ docs, d ∈ docs0) →
    runPipeline stages docs = stagesVerdict (runStages stages docs) := by
  induction stages with
  | nil => intro _ _ _ _; rfl
  | cons st rest ih =>
    intro docs0 docs h hsub
    have hst := h st (List.mem_cons_self)
    have hrest : ∀ st' ∈ rest, stageReasons docs0 st' = [] :=
      fun st' hm => h st' (List.mem_cons_of_mem _ hm)
    cases st with
    | sort spec =>
      have hok : SpecOk spec docs := specOk_mono (specOk_of_reasons spec docs0 hst) hsub
      simp only [runPipeline, Stage.apply, aggSort_eq_spec spec docs hok, bindR, runStages,
        stageApply, Option.bind_some]
      exact ih docs0 _ hrest (fun d hd => hsub d ((isort_perm _ _).mem_iff.mp hd))
    | skip n =>
      by_cases hn : n < 0
      · simp [runPipeline, Stage.apply, bindR, runStages, stageApply, hn, stagesVerdict]
      · simp only [runPipeline, Stage.apply, bindR, runStages, stageApply, hn, if_false,
          Option.bind_some]
        exact ih docs0 _ hrest (fun d hd => hsub d (List.mem_of_mem_drop hd))
    | limit n =>
      by_cases hn : n ≤ 0
      · simp [runPipeline, Stage.apply, bindR, runStages, stageApply, hn, stagesVerdict]
      · simp only [runPipeline, Stage.apply, bindR, runStages, stageApply, hn, if_false,
          Option.bind_some]
        exact ih docs0 _ hrest (fun d hd => hsub d (List.mem_of_mem_take hd))

/-! ### a missing field sorts as null -/

/-- the path reaches nothing in the document -/
def Missing (key : String) (d : Val) : Prop :=
  candsKey key d = .ok [] ∨ candsKey key d = .ok [none]

theorem resolveSortKey_missing (key : String) (rev : Bool) (d : Val) (h : Missing key d) :
    resolveSortKey key rev d = .ok ⟨1, .null⟩ := by
  rcases h with h | h <;> simp [resolveSortKey, h, candSortKeys, pickSortKey]

theorem resolveSortKey_null (key : String) (rev : Bool) (d : Val)
    (h : candsKey key d = .ok [some .null]) :
    resolveSortKey key rev d = .ok ⟨1, .null⟩ := by
  simp [resolveSortKey, h, candSortKeys, pickSortKey]

theorem missing_ties_null (key : String) (rev : Bool) (a b : Val) (ha : Missing key a)
    (hb : candsKey key b = .ok [some .null]) :
    docKeyLt key rev a b = .ok false ∧ docKeyLt key rev b a = .ok false := by
  simp [docKeyLt, resolveSortKey_missing key rev a ha, resolveSortKey_null key rev b hb,
    MongoModel.keyLt, bsonCompare, bsonCmp, leafCmp, Val.tc, Except.map, CmpOp.holds]

/-! ### one key, ascending and descending -/

theorem sortedByKey_asc (key : String) (ds : List Val) (h : ∀ d ∈ ds, keyReasons key d = []) :
    sortedByKey key false ds = .ok (isort (ascLt key) ds) := by
  rw [sortedByKey_dir key false ds h]; rfl

theorem sortedByKey_desc (key : String) (ds : List Val) (h : ∀ d ∈ ds, keyReasons key d = []) :
    sortedByKey key true ds = .ok (isort (fun a b => dirLt key true b a) ds) := by
  rw [sortedByKey_dir key true ds h]; rfl

/-! ### the last value given to a setting wins -/

def setsSkip : CurOp → Bool
  | .skip _ | .slice _ _ => true
  | _ => false

def setsLimit : CurOp → Bool
  | .limit _ | .slice _ _ => true
  | _ => false

def setsSort : CurOp → Bool
  | .sortKey _ _ | .sortList _ => true
  | _ => false

theorem run_append (ops1 ops2 : List CurOp) : ∀ c : Cursor,
    c.run (ops1 ++ ops2) = bindR (c.run ops1) (fun c' => c'.run ops2) := by
  induction ops1 with
  | nil => intro c; rfl
  | cons op ops ih =>
    intro c
    simp only [List.cons_append, Cursor.run]
    cases c.step op with
    | error e => rfl
    | ok c' => simp only [bindR]; exact ih c'

theorem step_frame (c c' : Cursor) (op : CurOp) (h : c.step op = .ok c') :
    (setsSkip op = false → c'.skip = c.skip) ∧
    (setsLimit op = false → effLim c' = effLim c) ∧
    (setsSort op = false → c'.sort = c.sort) := by
  cases op with
  | skip n => cases h; simp [setsSkip, setsLimit, setsSort, effLim]
  | limit n => cases h; simp [setsSkip, setsLimit, setsSort]
  | sortKey k d => cases h; simp [setsSkip, setsLimit, setsSort, effLim]
  | sortList spec =>
    cases spec with
    | nil => cases h
    | cons kd r => cases h; simp [setsSkip, setsLimit, setsSort, effLim]
  | slice a b =>
    refine ⟨fun h' => by simp [setsSkip] at h', fun h' => by simp [setsLimit] at h', fun _ => ?_⟩
    have hs : ∀ (a : Int) (c' : Cursor), sliceStop c a b = .ok c' → c'.sort = c.sort := by
      intro a c' h
      cases b with
      | none => cases h; rfl
      | some b =>
        simp only [sliceStop] at h
        split at h
        · cases h
        · cases h; rfl
    cases a with
    | none => exact hs 0 c' h
    | some a =>
      simp only [Cursor.step] at h
      split at h
      · cases h
      · exact hs a c' h
  | clone =>
    cases h
    refine ⟨fun _ => rfl, fun _ => ?_, fun _ => rfl⟩
    simp only [effLim]
    cases hl : c.limit with
    | none => rfl
    | some l => by_cases hz : l = 0 <;> simp [implLim, hz]
  | rewind => cases h; simp

theorem run_frame (ops : List CurOp) : ∀ (c c' : Cursor), c.run ops = .ok c' →
    ((∀ op ∈ ops, setsSkip op = false) → c'.skip = c.skip) ∧
    ((∀ op ∈ ops, setsLimit op = false) → effLim c' = effLim c) ∧
    ((∀ op ∈ ops, setsSort op = false) → c'.sort = c.sort) := by
  induction ops with
  | nil => intro c c' h; cases h; exact ⟨fun _ => rfl, fun _ => rfl, fun _ => rfl⟩
  | cons op ops ih =>
    intro c c' h
    simp only [Cursor.run] at h
    cases hs : c.step op with
    | error e => rw [hs] at h; cases h
    | ok c1 =>
      rw [hs] at h
      simp only [bindR] at h
      obtain ⟨f1, f2, f3⟩ := step_frame c c1 op hs
      obtain ⟨g1, g2, g3⟩ := ih c1 c' h
      refine ⟨fun hh => ?_, fun hh => ?_, fun hh => ?_⟩
      · rw [g1 (fun o ho => hh o (List.mem_cons_of_mem _ ho)), f1 (hh op (List.mem_cons_self))]
      · rw [g2 (fun o ho => hh o (List.mem_cons_of_mem _ ho)), f2 (hh op (List.mem_cons_self))]
      · rw [g3 (fun o ho => hh o (List.mem_cons_of_mem _ ho)), f3 (hh op (List.mem_cons_self))]

/-- whatever came before, after `… .skip(n) …` with no later call that sets the skip, the
    skip is `n`; likewise for `.limit(n)` and `.sort(…)` -/
theorem last_call_wins (c0 c' : Cursor) (ops1 ops2 : List CurOp) (op : CurOp)
    (h : c0.run (ops1 ++ op :: ops2) = .ok c') :
    ∃ c1 c2, c0.run ops1 = .ok c1 ∧ c1.step op = .ok c2 ∧
      ((∀ o ∈ ops2, setsSkip o = false) → c'.skip = c2.skip) ∧
      ((∀ o ∈ ops2, setsLimit o = false) → effLim c' = effLim c2) ∧
      ((∀ o ∈ ops2, setsSort o = false) → c'.sort = c2.sort) := by
  rw [run_append] at h
  cases h1 : c0.run ops1 with
  | error e => rw [h1] at h; cases h
  | ok c1 =>
    rw [h1] at h
    simp only [bindR, Cursor.run] at h
    cases h2 : c1.step op with
    | error e => rw [h2] at h; cases h
    | ok c2 =>
      rw [h2] at h
      exact ⟨c1, c2, rfl, h2, run_frame ops2 c2 c' h⟩

end MongoModel.Proofs.C11
