/-
  Proofs.C03ExtAvg — `$avg` over integers: `sum(values) / float(len(values))` is the exact average
  written as a binary fraction in lowest terms, whenever that fraction exists and fits a double.
-/
import Proofs.C03ExtAcc
import Mathlib.Tactic.Ring

namespace MongoModel.Pipe.Proofs
open MongoModel MongoModel.Pipe MongoModel.Spec.Pipe MongoModel.Expr

/-! ### the odd part and the number of factors two -/

theorem oddPart_twoAdic_aux : ∀ (fuel n : Nat), 0 < n → n ≤ fuel →
    n = oddPartAux fuel n * 2 ^ twoAdicAux fuel n ∧ oddPartAux fuel n % 2 = 1
  | 0, n, h0, h1 => by omega
  | fuel + 1, n, h0, h1 => by
    by_cases he : n % 2 = 0
    · have hc : (n % 2 == 0 && n != 0) = true := by simp [he]; omega
      simp only [oddPartAux, twoAdicAux, hc, if_true]
      obtain ⟨i1, i2⟩ := oddPart_twoAdic_aux fuel (n / 2) (by omega) (by omega)
      refine ⟨?_, i2⟩
      rw [Nat.pow_succ, ← Nat.mul_assoc, ← i1]; omega
    · have hc : (n % 2 == 0 && n != 0) = false := by simp [he]
      simp only [oddPartAux, twoAdicAux, hc, Bool.false_eq_true, if_false]
      exact ⟨by simp, by omega⟩

theorem oddPart_twoAdic (n : Nat) (h : 0 < n) :
    n = oddPart n * 2 ^ twoAdic n ∧ oddPart n % 2 = 1 :=
  oddPart_twoAdic_aux n n h (Nat.le_refl _)

/-- `normDy` strips common factors two: lowest terms -/
theorem normDy_spec : ∀ (e : Nat) (m : Int),
    (normDy m e).2 ≤ e ∧ m = (normDy m e).1 * 2 ^ (e - (normDy m e).2) ∧
      ((normDy m e).2 = 0 ∨ (normDy m e).1 % 2 ≠ 0)
  | 0, m => by simp [normDy]
  | e + 1, m => by
    by_cases he : m % 2 = 0
    · have hc : (m % 2 == 0) = true := by simp [he]
      simp only [normDy, hc, if_true]
      obtain ⟨i1, i2, i3⟩ := normDy_spec e (m / 2)
      refine ⟨by omega, ?_, i3⟩
      have : e + 1 - (normDy (m / 2) e).2 = (e - (normDy (m / 2) e).2) + 1 := by omega
      rw [this, Int.pow_succ, ← Int.mul_assoc, ← i2]; omega
    · have hc : (m % 2 == 0) = false := by simp [he]
      simp only [normDy, hc, Bool.false_eq_true, if_false]
      exact ⟨Nat.le_refl _, by simp, Or.inr he⟩

/-! ### the first exponent -/

theorem findSome_range {β} (f : Nat → Option β) (b : β) : ∀ (N : Nat),
    (List.range N).findSome? f = some b → ∃ e, e < N ∧ f e = some b ∧ ∀ e' < e, f e' = none
  | 0, h => by simp at h
  | N + 1, h => by
    rw [List.range_succ, List.findSome?_append] at h
    cases hN : (List.range N).findSome? f with
    | some b' =>
      rw [hN] at h
      simp only [Option.some_or, Option.some.injEq] at h
      subst h
      obtain ⟨e, h1, h2, h3⟩ := findSome_range f b' N hN
      exact ⟨e, by omega, h2, h3⟩
    | none =>
      rw [hN] at h
      simp only [Option.none_or, List.findSome?_cons, List.findSome?_nil] at h
      have hn := List.findSome?_eq_none_iff.mp hN
      refine ⟨N, by omega, ?_, fun e' he' => hn e' (List.mem_range.mpr he')⟩
      cases hf : f N with
      | none => simp [hf] at h
      | some c => simp [hf] at h; rw [h]

theorem binFraction_spec (s : Int) (n : Nat) (m : Int) (e : Nat)
    (h : binFraction s n = some (m, e)) :
    m * (n : Int) = s * 2 ^ e ∧ ∀ e' < e, ¬ ((n : Int) ∣ s * 2 ^ e') := by
  unfold binFraction at h
  obtain ⟨e0, _, h2, h3⟩ := findSome_range _ _ _ h
  split at h2
  · rename_i hd
    simp only [Option.some.injEq, Prod.mk.injEq] at h2
    obtain ⟨rfl, rfl⟩ := h2
    refine ⟨Int.ediv_mul_cancel (Int.dvd_of_emod_eq_zero hd), ?_⟩
    intro e' he' hdvd
    have := h3 e' he'
    simp only [Int.emod_eq_zero_of_dvd hdvd, if_true] at this
    cases this
  · cases h2

/-! ### the division -/

theorem coprime_two_pow (o e : Nat) (ho : o % 2 = 1) : Nat.Coprime o (2 ^ e) := by
  apply Nat.Coprime.pow_right
  unfold Nat.Coprime
  rw [Nat.gcd_comm, Nat.gcd_rec, ho]; rfl

/-- `S / float(n)` is the exact quotient in lowest binary terms, when there is one that fits -/
theorem pyDivide_int (S : Int) (n : Nat) (hn : 0 < n) (m : Int) (e : Nat)
    (hbf : binFraction S n = some (m, e)) (hb1 : m.natAbs < Spec.Pipe.two53) (hb2 : e ≤ 1000) :
    pyDivide (.i S) (.f n 0) = .ok (.dbl m e) := by
  obtain ⟨hmn, hmin⟩ := binFraction_spec S n m e hbf
  obtain ⟨hfac, hodd⟩ := oddPart_twoAdic n hn
  set o := oddPart n with ho
  set k := twoAdic n with hk
  have hnI : (n : Int) = (o : Int) * 2 ^ k := by rw [hfac]; push_cast; rfl
  have hopos : 0 < o := by
    rcases Nat.eq_zero_or_pos o with h | h
    · rw [h] at hodd; simp at hodd
    · exact h
  -- the odd part divides `S`
  have hoS : (o : Int) ∣ S := by
    have h1 : (o : Int) ∣ S * 2 ^ e := ⟨2 ^ k * m, by rw [← hmn, hnI]; ring⟩
    rw [← Int.natAbs_dvd_natAbs] at h1 ⊢
    simp only [Int.natAbs_natCast, Int.natAbs_mul, Int.natAbs_pow] at h1 ⊢
    exact (coprime_two_pow o e hodd).dvd_of_dvd_mul_right h1
  obtain ⟨q, hq⟩ := hoS
  have hoI : (o : Int) ≠ 0 := by omega
  have hdiv : S / (o : Int) = q := by rw [hq]; exact Int.mul_ediv_cancel_left q hoI
  have hmod : S % (o : Int) = 0 := Int.emod_eq_zero_of_dvd ⟨q, hq⟩
  obtain ⟨n1, n2, n3⟩ := normDy_spec k q
  set p := normDy q k with hp
  -- `p.1 / 2^p.2` is the quotient too
  have hpn : p.1 * (n : Int) = S * 2 ^ p.2 := by
    have hk2 : (2 : Int) ^ k = 2 ^ (k - p.2) * 2 ^ p.2 := by
      rw [← Int.pow_add]; congr 1; omega
    rw [hnI, hq, n2, hk2]; ring
  have hnpos : (0 : Int) < n := by exact_mod_cast hn
  -- minimality of `e` and lowest terms of `p` force equality
  have hle : e ≤ p.2 := by
    by_contra hlt
    exact hmin p.2 (by omega) ⟨p.1, by rw [← hpn]; ring⟩
  have hee : p.2 = e := by
    by_contra hne
    have hlt : e < p.2 := by omega
    have hoddp : p.1 % 2 ≠ 0 := by
      rcases n3 with h | h
      · omega
      · exact h
    have h2 : (2 : Int) ^ p.2 = 2 ^ e * 2 ^ (p.2 - e - 1) * 2 := by
      rw [Int.mul_assoc, ← Int.pow_succ, ← Int.pow_add]; congr 1; omega
    have : p.1 * (n : Int) = (m * 2 ^ (p.2 - e - 1) * 2) * (n : Int) := by
      rw [hpn, h2, ← Int.mul_assoc, ← Int.mul_assoc, ← hmn]; ring
    have := Int.eq_of_mul_eq_mul_right (by omega) this
    omega
  have hmm : p.1 = m := by
    have : p.1 * (n : Int) = m * (n : Int) := by rw [hpn, hee, hmn]
    exact Int.eq_of_mul_eq_mul_right (by omega) this
  -- run the division
  have c1 : ((n : Int) == 0) = false := by simp; omega
  simp only [pyDivide, PyNum.asF, c1, Bool.false_eq_true, if_false,
    show ((n : Int) < 0) = False by simp, Bool.and_false, decide_false, if_false,
    Int.natAbs_natCast, ← ho, ← hk, hdiv, pow2, Int.pow_zero, Int.mul_one, Int.one_mul,
    Nat.zero_add, mkF, ← hp, hmm, hee]
  have hb1' : m.natAbs < Expr.two53.natAbs := hb1
  simp [hb1', hb2, hmod]

theorem sumNums_pyInts (is : List Int) :
    sumNums (is.map PyNum.i) (.i 0) = .ok (.i (is.foldl (· + ·) 0)) := sumNums_ints is 0

/-- **`$avg`** over integers (values that are not numbers are ignored): the exact average,
    null when there is no number — whenever the average is a double -/
theorem acc_avg (values : List Val) (h : ∀ v ∈ values, sumOk v = true) (v : Val)
    (hs : specAvgInt (values.map some) = some v) (hf : avgFits v = true) :
    accApply "$avg" values = .ok v := by
  simp only [accApply, accAvg, show ("$avg" = "$sum") = False by decide, if_false,
    if_true, accNums_sumOk values h]
  simp only [specAvgInt] at hs
  generalize specInts (values.map some) = is at hs ⊢
  have hemp : (is.map PyNum.i).isEmpty = is.isEmpty := by cases is <;> rfl
  rw [hemp]
  cases hE : is.isEmpty with
  | true =>
    simp only [hE, if_true, Option.some.injEq] at hs
    subst hs; rfl
  | false =>
    simp only [hE, Bool.false_eq_true, if_false] at hs ⊢
    cases hb : binFraction (is.foldl (· + ·) 0) is.length with
    | none => rw [hb] at hs; cases hs
    | some p =>
      obtain ⟨m, e⟩ := p
      rw [hb] at hs
      simp only [Option.map_some, Option.some.injEq] at hs
      subst hs
      simp only [avgFits, Bool.and_eq_true, decide_eq_true_eq] at hf
      simp only [sumNums_pyInts, List.length_map]
      exact pyDivide_int _ _ (by cases is <;> simp_all) m e hb hf.1 hf.2

end MongoModel.Pipe.Proofs
