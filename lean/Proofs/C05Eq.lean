/-
  Proofs.C05Eq — Python `==` on the value universe: transitivity (all values), symmetry and
  reflexivity on scalars, closure of `SymmVal` under `==`.
-/
import Spec.StoreInv
import Mathlib.Tactic.LinearCombination

set_option linter.unusedSimpArgs false
set_option linter.unusedVariables false

namespace MongoModel.Proofs.C05Lemmas
open MongoModel MongoModel.Spec

/-! ### induction on values -/

theorem Val.ind {P : Val → Prop}
    (hnull : P .null) (hbool : ∀ b, P (.bool b)) (hint : ∀ i, P (.int i))
    (hdbl : ∀ m e, P (.dbl m e)) (hstr : ∀ s, P (.str s)) (hdate : ∀ u o, P (.date u o))
    (hoid : ∀ n, P (.oid n))
    (hdoc : ∀ fs : Fields, (∀ k v, (k, v) ∈ fs → P v) → P (.doc fs))
    (harr : ∀ xs : List Val, (∀ x, x ∈ xs → P x) → P (.arr xs)) : ∀ v, P v := by
  intro v
  refine Val.rec (motive_1 := P)
    (motive_2 := fun fs => ∀ k v, (k, v) ∈ fs → P v)
    (motive_3 := fun xs => ∀ x, x ∈ xs → P x)
    (motive_4 := fun p => P p.2)
    hnull hbool hint hdbl hstr hdate hoid hdoc harr ?_ ?_ ?_ ?_ ?_ v
  · intro k v h; cases h
  · intro hd tl h1 h2 k v hm
    rcases List.mem_cons.mp hm with e | hm
    · subst e; exact h1
    · exact h2 k v hm
  · intro x h; cases h
  · intro hd tl h1 h2 x hm
    rcases List.mem_cons.mp hm with e | hm
    · subst e; exact h1
    · exact h2 x hm
  · intro k v h; exact h

/-! ### association lists -/

theorem dget_mem {k : String} {fs : Fields} {v : Val} (h : dget k fs = some v) : (k, v) ∈ fs := by
  induction fs with
  | nil => simp [dget] at h
  | cons kv fs ih =>
    obtain ⟨k', v'⟩ := kv
    simp only [dget] at h
    split at h
    · rename_i e; cases h; subst e; simp
    · simp [ih h]

theorem mem_dget {k : String} {fs : Fields} {v : Val} (h : (k, v) ∈ fs) : ∃ w, dget k fs = some w := by
  induction fs with
  | nil => cases h
  | cons kv fs ih =>
    obtain ⟨k', v'⟩ := kv
    simp only [dget]
    split
    · exact ⟨_, rfl⟩
    · rename_i ne
      rcases List.mem_cons.mp h with e | hm
      · cases e; exact absurd rfl ne
      · exact ih hm

/-! ### numbers -/

theorem two_pow_pos (e : Nat) : (0 : Int) < (2 : Int) ^ e := Int.pow_pos (by decide)

theorem Num.eq_iff (a b : Num) : Num.eq a b = true ↔ a.m * (2 : Int) ^ b.e = b.m * (2 : Int) ^ a.e := by
  simp [Num.eq]

theorem Num.eq_symm (a b : Num) : Num.eq a b = Num.eq b a := by
  rw [Bool.eq_iff_iff, Num.eq_iff, Num.eq_iff]; exact eq_comm

theorem Num.eq_refl (a : Num) : Num.eq a a = true := by simp [Num.eq]

theorem Num.eq_trans (a b c : Num) (h1 : Num.eq a b = true) (h2 : Num.eq b c = true) :
    Num.eq a c = true := by
  rw [Num.eq_iff] at *
  have hB := two_pow_pos b.e
  generalize (2 : Int) ^ a.e = A at *
  generalize (2 : Int) ^ b.e = B at *
  generalize (2 : Int) ^ c.e = C at *
  apply Int.eq_of_mul_eq_mul_right (Int.ne_of_gt hB)
  linear_combination C * h1 + A * h2

/-- on number-like values `==` is the comparison of the numeric views -/
theorem pyEq_num (a b : Val) (na nb : Num) (ha : a.num? = some na) (hb : b.num? = some nb) :
    pyEq a b = Num.eq na nb := by
  rcases a with _|a|_|_|_|⟨_,_|_⟩|_|_|_ <;> simp [Val.num?] at ha <;>
    rcases b with _|b|_|_|_|⟨_,_|_⟩|_|_|_ <;> simp [Val.num?] at hb <;>
    subst ha <;> subst hb <;> simp [pyEq, Num.eq]
  · cases a <;> cases b <;> simp
  · exact eq_comm
  · exact eq_comm
  · exact eq_comm

theorem pyEq_num_left (a b : Val) (na : Num) (ha : a.num? = some na) (hb : b.num? = none) :
    pyEq a b = false := by
  rcases a with _|a|_|_|_|⟨_,_|_⟩|_|_|_ <;> simp [Val.num?] at ha <;>
    rcases b with _|b|_|_|_|⟨_,_|_⟩|_|_|_ <;> simp [Val.num?] at hb <;> simp [pyEq]

theorem pyEq_num_right (a b : Val) (nb : Num) (ha : a.num? = none) (hb : b.num? = some nb) :
    pyEq a b = false := by
  rcases a with _|a|_|_|_|⟨_,_|_⟩|_|_|_ <;> simp [Val.num?] at ha <;>
    rcases b with _|b|_|_|_|⟨_,_|_⟩|_|_|_ <;> simp [Val.num?] at hb <;> simp [pyEq]

/-! ### documents and lists -/

theorem pyEqFields_iff (fs gs : Fields) :
    pyEqFields fs gs = true ↔ ∀ k v, (k, v) ∈ fs → ∃ v', dget k gs = some v' ∧ pyEq v v' = true := by
  induction fs with
  | nil => simp [pyEqFields]
  | cons kv fs ih =>
    obtain ⟨k, v⟩ := kv
    simp only [pyEqFields, Bool.and_eq_true, ih]
    constructor
    · rintro ⟨h1, h2⟩ k' v' hm
      rcases List.mem_cons.mp hm with e | hm
      · cases e
        cases hd : dget k gs with
        | none => simp [hd] at h1
        | some w => exact ⟨w, rfl, by simpa [hd] using h1⟩
      · exact h2 k' v' hm
    · intro h
      refine ⟨?_, fun k' v' hm => h k' v' (List.mem_cons_of_mem _ hm)⟩
      obtain ⟨w, hw, he⟩ := h k v (by simp)
      simp [hw, he]

theorem pyEq_doc_iff (fs gs : Fields) :
    pyEq (.doc fs) (.doc gs) = true ↔ fs.length = gs.length ∧
      ∀ k v, (k, v) ∈ fs → ∃ v', dget k gs = some v' ∧ pyEq v v' = true := by
  simp only [pyEq, Bool.and_eq_true, beq_iff_eq, pyEqFields_iff]

theorem pyEq_doc_left (fs : Fields) (b : Val) (h : pyEq (.doc fs) b = true) : ∃ gs, b = .doc gs := by
  rcases b with _|b|_|_|_|⟨_,_|_⟩|_|gs|_ <;> simp [pyEq] at h
  exact ⟨gs, rfl⟩

theorem pyEq_arr_left (xs : List Val) (b : Val) (h : pyEq (.arr xs) b = true) : ∃ ys, b = .arr ys := by
  rcases b with _|b|_|_|_|⟨_,_|_⟩|_|_|ys <;> simp [pyEq] at h
  exact ⟨ys, rfl⟩

theorem pyEqList_trans (xs : List Val)
    (ih : ∀ x, x ∈ xs → ∀ b c, pyEq x b = true → pyEq b c = true → pyEq x c = true) :
    ∀ ys zs, pyEqList xs ys = true → pyEqList ys zs = true → pyEqList xs zs = true := by
  induction xs with
  | nil => intro ys zs h1 h2; cases ys <;> cases zs <;> simp_all [pyEqList]
  | cons x xs ih2 =>
    intro ys zs h1 h2
    cases ys with
    | nil => simp [pyEqList] at h1
    | cons y ys =>
      cases zs with
      | nil => simp [pyEqList] at h2
      | cons z zs =>
        simp only [pyEqList, Bool.and_eq_true] at *
        exact ⟨ih x (by simp) y z h1.1 h2.1,
          ih2 (fun x hm => ih x (List.mem_cons_of_mem _ hm)) ys zs h1.2 h2.2⟩

/-! ### transitivity of `==` -/

theorem pyEq_trans_num (a b c : Val) (na : Num) (ha : a.num? = some na)
    (h1 : pyEq a b = true) (h2 : pyEq b c = true) : pyEq a c = true := by
  cases hb : b.num? with
  | none => rw [pyEq_num_left a b na ha hb] at h1; cases h1
  | some nb =>
    cases hc : c.num? with
    | none => rw [pyEq_num_left b c nb hb hc] at h2; cases h2
    | some nc =>
      rw [pyEq_num a b na nb ha hb] at h1
      rw [pyEq_num b c nb nc hb hc] at h2
      rw [pyEq_num a c na nc ha hc]
      exact Num.eq_trans na nb nc h1 h2

theorem pyEq_trans : ∀ a b c : Val, pyEq a b = true → pyEq b c = true → pyEq a c = true := by
  intro a
  induction a using Val.ind with
  | hnull =>
    intro b c h1 h2
    rcases b with _|b|_|_|_|⟨_,_|_⟩|_|_|_ <;> simp [pyEq] at h1
    exact h2
  | hbool x => intro b c; exact pyEq_trans_num _ b c _ rfl
  | hint x => intro b c; exact pyEq_trans_num _ b c _ rfl
  | hdbl m e => intro b c; exact pyEq_trans_num _ b c _ rfl
  | hstr s =>
    intro b c h1 h2
    rcases b with _|b|_|_|_|⟨_,_|_⟩|_|_|_ <;> simp [pyEq] at h1
    subst h1; exact h2
  | hoid n =>
    intro b c h1 h2
    rcases b with _|b|_|_|_|⟨_,_|_⟩|_|_|_ <;> simp [pyEq] at h1
    subst h1; exact h2
  | hdate u o =>
    intro b c h1 h2
    rcases o with _|o <;> rcases b with _|b|_|_|_|⟨_,_|_⟩|_|_|_ <;> simp [pyEq] at h1 <;>
      rcases c with _|c|_|_|_|⟨_,_|_⟩|_|_|_ <;> simp [pyEq] at h2 <;> simp [pyEq]
    · omega
    · omega
  | hdoc fs ih =>
    intro b c h1 h2
    obtain ⟨gs, rfl⟩ := pyEq_doc_left fs b h1
    obtain ⟨hs, rfl⟩ := pyEq_doc_left gs c h2
    rw [pyEq_doc_iff] at *
    refine ⟨h1.1.trans h2.1, fun k v hm => ?_⟩
    obtain ⟨v', hv', e1⟩ := h1.2 k v hm
    obtain ⟨v'', hv'', e2⟩ := h2.2 k v' (dget_mem hv')
    exact ⟨v'', hv'', ih k v hm v' v'' e1 e2⟩
  | harr xs ih =>
    intro b c h1 h2
    obtain ⟨ys, rfl⟩ := pyEq_arr_left xs b h1
    obtain ⟨zs, rfl⟩ := pyEq_arr_left ys c h2
    simp only [pyEq] at *
    exact pyEqList_trans xs ih ys zs h1 h2

/-! ### scalars -/

theorem scalar_symm' (v : Val) (h : isScalar v = true) : SymmVal v := by
  intro w
  rcases v with _|a|_|_|_|⟨_,_|_⟩|_|_|_ <;> simp [isScalar] at h <;>
    rcases w with _|b|_|_|_|⟨_,_|_⟩|_|_|_ <;> simp [pyEq, Num.eq] <;>
    exact eq_comm

theorem scalar_refl (v : Val) (h : isScalar v = true) : pyEq v v = true := by
  rcases v with _|a|_|_|_|⟨_,_|_⟩|_|_|_ <;> simp [isScalar] at h <;> simp [pyEq, Num.eq]

/-! ### `SymmVal` is closed under `==` -/

theorem symm_closed {a b : Val} (ha : SymmVal a) (h : pyEq a b = true) : SymmVal b := by
  intro w
  have hba : pyEq b a = true := by rw [← ha b]; exact h
  rw [Bool.eq_iff_iff]
  constructor
  · intro hbw
    have h1 : pyEq a w = true := pyEq_trans a b w h hbw
    rw [ha w] at h1
    exact pyEq_trans w a b h1 h
  · intro hwb
    have h1 : pyEq w a = true := pyEq_trans w b a hwb hba
    rw [← ha w] at h1
    exact pyEq_trans b a w hba h1

theorem symm_refl_of {a b : Val} (ha : SymmVal a) (h : pyEq a b = true) : pyEq a a = true :=
  pyEq_trans a b a h (by rw [← ha b]; exact h)

/-! ### `SymmVal` beyond scalars: the empty and the single-field sub-document -/

theorem symm_doc_empty : SymmVal (.doc []) := by
  intro w
  rcases w with _|b|_|_|_|⟨_,_|_⟩|_|gs|_ <;> simp [pyEq]
  cases gs <;> simp [pyEqFields]

theorem symm_doc_single (k : String) (v : Val) (hv : SymmVal v) : SymmVal (.doc [(k, v)]) := by
  intro w
  rcases w with _|b|_|_|_|⟨_,_|_⟩|_|gs|_ <;> simp [pyEq]
  match gs with
  | [] => simp
  | [(k', v')] =>
    simp only [pyEqFields, dget, List.length_singleton, Bool.and_true]
    by_cases e : k' = k
    · subst e; simp [hv v']
    · have e' : ¬ k = k' := fun h => e h.symm
      simp [e, e']
  | _ :: _ :: _ => simp

theorem refl_doc_single (k : String) (v : Val) (hv : pyEq v v = true) :
    pyEq (.doc [(k, v)]) (.doc [(k, v)]) = true := by
  simp [pyEq, pyEqFields, dget, hv]

end MongoModel.Proofs.C05Lemmas
