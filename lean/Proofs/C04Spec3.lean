/-
  Proofs.C04Spec3 — `eval_eq_spec`, part 3: the list / field walkers of the model against those
  of the oracle, given agreement on the items.
-/
import Proofs.C04Spec2

set_option linter.unusedSimpArgs false

namespace MongoModel.Proofs.C04
open MongoModel MongoModel.Expr MongoModel.Spec

/-- the statement proved for every expression: inside D the model computes the oracle's value -/
def Agrees (e : Val) : Prop :=
  ∀ (c : Ctx) (root : Val) (env : Env), EnvRel c root env → rExpr root env e = [] →
    okReasons (sEval root env e) = [] → eval c e = sEval root env e

theorem rList_nil (root : Val) (env : Env) (xs : List Val) (h : rList root env xs = []) :
    ∀ x ∈ xs, okReasons (sEval root env x) = [] ∧ rExpr root env x = [] := by
  induction xs with
  | nil => intro x hx; cases hx
  | cons y r ih =>
    simp only [rList, List.append_eq_nil_iff] at h
    intro x hx
    rcases List.mem_cons.mp hx with e | hr
    · subst e; exact ⟨h.1.1, h.1.2⟩
    · exact ih h.2 x hr

/-- items in D: one list of values serves both sides -/
theorem list_agree (c : Ctx) (root : Val) (env : Env) (hr : EnvRel c root env) (xs : List Val)
    (hsub : AllSubList Agrees xs) (h : rList root env xs = []) :
    ∃ vs : List (Option Val),
      xs.map (sEval root env) = vs.map .ok ∧ xs.map (eval c) = vs.map .ok := by
  induction xs with
  | nil => exact ⟨[], rfl, rfl⟩
  | cons x r ih =>
    simp only [AllSubList] at hsub
    have hx := rList_nil root env (x :: r) h x (by simp)
    have hrest : rList root env r = [] := by
      simp only [rList, List.append_eq_nil_iff] at h; exact h.2
    obtain ⟨vs, h1, h2⟩ := ih hsub.2 hrest
    obtain ⟨v, hv⟩ := okReasons_nil _ hx.1
    have he := hsub.1.self c root env hr hx.2 hx.1
    exact ⟨v :: vs, by simp [hv, h1], by simp [he, hv, h2]⟩

theorem sList_ok (root : Val) (env : Env) (xs : List Val) (vs : List (Option Val))
    (h : xs.map (sEval root env) = vs.map .ok) : sList root env xs = .ok vs := by
  induction xs generalizing vs with
  | nil => cases vs <;> simp_all [sList]
  | cons x r ih =>
    cases vs with
    | nil => simp at h
    | cons v vs =>
      simp only [List.map_cons, List.cons.injEq] at h
      simp [sList, h.1, ih vs h.2, bind, Except.bind, pure, Except.pure]

theorem evalList_ok (c : Ctx) (b : Bool) (xs : List Val) (vs : List (Option Val))
    (h : xs.map (eval c) = vs.map .ok) :
    evalList c b xs = .ok (allSome (vs.map (manyItem b))) := by
  induction xs generalizing vs with
  | nil => cases vs <;> simp_all [evalList, allSome]
  | cons x r ih =>
    cases vs with
    | nil => simp at h
    | cons v vs =>
      simp only [List.map_cons, List.cons.injEq] at h
      simp only [evalList, h.1, ih vs h.2, bind, Except.bind, pure, Except.pure, List.map_cons]
      cases hm : manyItem b v with
      | none => simp [allSome]
      | some w => cases ha : allSome (vs.map (manyItem b)) <;> simp [allSome, ha]

theorem sAnd_ok (root : Val) (env : Env) (xs : List Val) (vs : List (Option Val))
    (h : xs.map (sEval root env) = vs.map .ok) : sAnd root env xs = .ok (vs.all Spec.toBool) := by
  induction xs generalizing vs with
  | nil => cases vs <;> simp_all [sAnd]
  | cons x r ih =>
    cases vs with
    | nil => simp at h
    | cons v vs =>
      simp only [List.map_cons, List.cons.injEq] at h
      simp only [sAnd, h.1, List.all_cons]
      cases hb : Spec.toBool v <;> simp [hb, bind, Except.bind, pure, Except.pure, ih vs h.2]

theorem sOr_ok (root : Val) (env : Env) (xs : List Val) (vs : List (Option Val))
    (h : xs.map (sEval root env) = vs.map .ok) : sOr root env xs = .ok (vs.any Spec.toBool) := by
  induction xs generalizing vs with
  | nil => cases vs <;> simp_all [sOr]
  | cons x r ih =>
    cases vs with
    | nil => simp at h
    | cons v vs =>
      simp only [List.map_cons, List.cons.injEq] at h
      simp only [sOr, h.1, List.any_cons]
      cases hb : Spec.toBool v <;> simp [hb, bind, Except.bind, pure, Except.pure, ih vs h.2]

theorem ifNull_agree (c : Ctx) (root : Val) (env : Env) (xs : List Val) (vs : List (Option Val))
    (h1 : xs.map (sEval root env) = vs.map .ok) (h2 : xs.map (eval c) = vs.map .ok)
    (hne : xs ≠ []) :
    evalIfNull c xs = sIfNull root env xs := by
  induction xs generalizing vs with
  | nil => exact absurd rfl hne
  | cons x r ih =>
    cases vs with
    | nil => simp at h1
    | cons v vs =>
      simp only [List.map_cons, List.cons.injEq] at h1 h2
      cases r with
      | nil => simp [evalIfNull, sIfNull, h1.1, h2.1]
      | cons y r' =>
        have := ih vs h1.2 h2.2 (by simp)
        simp only [evalIfNull, sIfNull, h1.1, h2.1, bind, Except.bind, pure, Except.pure]
        cases v with
        | none => simpa [Spec.nullish] using this
        | some w => cases w <;> simp [isNull, Spec.nullish, this]

/-! ### document literals -/

theorem dset_append (k : String) (y : Val) (acc : Fields) (h : dhas k acc = false) :
    dset k y acc = acc ++ [(k, y)] := by
  induction acc with
  | nil => rfl
  | cons kv r ih =>
    obtain ⟨a, b⟩ := kv
    simp only [dhas, dget] at h
    by_cases ha : a = k
    · simp [ha] at h
    · simp only [ha, if_false] at h
      simp [dset, ha, ih (by simpa [dhas] using h)]

theorem mem_dhas {a : String} {b : Val} {r : Fields} (h : (a, b) ∈ r) : dhas a r = true := by
  induction r with
  | nil => cases h
  | cons kv r' ih =>
    obtain ⟨a', b'⟩ := kv
    by_cases haa : a' = a
    · simp [dhas, dget, haa]
    · rcases List.mem_cons.mp h with e | e
      · cases e; exact absurd rfl haa
      · simpa [dhas, dget, haa] using ih e

theorem dhas_append (k : String) (a b : Fields) : dhas k (a ++ b) = (dhas k a || dhas k b) := by
  induction a with
  | nil => simp [dhas, dget]
  | cons kv r ih =>
    obtain ⟨x, y⟩ := kv
    by_cases hx : x = k
    · simp [dhas, dget, hx]
    · simpa [dhas, dget, hx] using ih

theorem rFields_nil (root : Val) (env : Env) (fs : Fields) (h : rFields root env fs = []) :
    ∀ k v, (k, v) ∈ fs → okReasons (sEval root env v) = [] ∧ rExpr root env v = [] := by
  induction fs with
  | nil => intro k v hx; cases hx
  | cons kv r ih =>
    obtain ⟨a, b⟩ := kv
    simp only [rFields, List.append_eq_nil_iff] at h
    intro k v hx
    rcases List.mem_cons.mp hx with e | hr
    · cases e; exact ⟨h.1.1, h.1.2⟩
    · exact ih h.2 k v hr

/-- a document literal without `$` keys and without duplicate keys -/
theorem fields_agree (c : Ctx) (root : Val) (env : Env) (hr : EnvRel c root env) (fs : Fields)
    (hsub : AllSubFields Agrees fs) (h : rFields root env fs = [])
    (hd : hasDollarKey' fs = false) (hn : nodupKeys fs = true) (acc : Fields)
    (hacc : ∀ k v, (k, v) ∈ fs → dhas k acc = false) :
    ∃ gs, sFields root env fs = .ok (some (.doc gs)) ∧
      evalDoc c fs acc = .ok (some (.doc (acc ++ gs))) ∧
      (∀ k, dhas k gs = true → dhas k fs = true) := by
  induction fs generalizing acc with
  | nil => exact ⟨[], rfl, by simp [evalDoc], by simp⟩
  | cons kv r ih =>
    obtain ⟨k, v⟩ := kv
    simp only [AllSubFields] at hsub
    have hkv := rFields_nil root env ((k, v) :: r) h k v (by simp)
    have hrest : rFields root env r = [] := by
      simp only [rFields, List.append_eq_nil_iff] at h; exact h.2
    simp only [hasDollarKey', List.any_cons, Bool.or_eq_false_iff] at hd
    simp only [nodupKeys, Bool.and_eq_true, Bool.not_eq_true'] at hn
    obtain ⟨x, hx⟩ := okReasons_nil _ hkv.1
    have he := hsub.1.self c root env hr hkv.2 hkv.1
    have hcl := classify_plain k hd.1
    cases x with
    | none =>
      obtain ⟨gs, g1, g2, g3⟩ := ih hsub.2 hrest (by simpa [hasDollarKey'] using hd.2) hn.2 acc
        (fun a b hab => hacc a b (by simp [hab]))
      refine ⟨gs, ?_, ?_, ?_⟩
      · simp [sFields, hx, g1, bind, Except.bind, pure, Except.pure]
      · rw [evalDoc_plain c k v r acc hcl, he, hx]
        simp [Except.bind, hr.hign, g2]
      · intro a ha
        have := g3 a ha
        by_cases hak : k = a
        · simp [dhas, dget, hak]
        · simpa [dhas, dget, hak] using this
    | some y =>
      have hk_acc : dhas k acc = false := hacc k v (by simp)
      obtain ⟨gs, g1, g2, g3⟩ := ih hsub.2 hrest (by simpa [hasDollarKey'] using hd.2) hn.2
        (acc ++ [(k, y)]) (by
          intro a b hab
          rw [dhas_append, hacc a b (by simp [hab])]
          have : a ≠ k := by
            intro e; subst e
            have := mem_dhas hab
            rw [hn.1] at this; cases this
          have hne : ¬ k = a := fun e => this e.symm
          simp [dhas, dget, hne])
      refine ⟨(k, y) :: gs, ?_, ?_, ?_⟩
      · simp [sFields, hx, g1, bind, Except.bind, pure, Except.pure]
      · rw [evalDoc_plain c k v r acc hcl, he, hx]
        simp [Except.bind, dset_append k y acc hk_acc, g2]
      · intro a ha
        by_cases hak : k = a
        · simp [dhas, dget, hak]
        · have : dhas a gs = true := by simpa [dhas, dget, hak] using ha
          simpa [dhas, dget, hak] using g3 a this

end MongoModel.Proofs.C04
