/-
  Proofs.C03ExtFields — `$addFields` / `$set` (dotted names included) and `$replaceRoot` against the
  oracle of Spec/PipelineExt.lean.
-/
import Proofs.C03ExtGroup
import Proofs.C03ExtLookup

namespace MongoModel.Pipe.Proofs
open MongoModel MongoModel.Pipe MongoModel.Spec MongoModel.Spec.Pipe MongoModel.Expr

/-! ### one document -/

theorem freshPath_eq_nestDoc : ∀ (ks : List String) (v : Val), freshPath ks v = nestDoc ks v
  | [], _ => rfl
  | k :: ks, v => by simp only [freshPath, nestDoc, freshPath_eq_nestDoc ks v]

mutual
  /-- the code's `_add_field` is the oracle's deep write: through documents, into every item of
      an array, in the place of anything else -/
  theorem addField_eq_setDeep : ∀ (x : Val) (ks : List String) (v : Val),
      addField x ks v = setDeep x ks v
    | .null, [], _ | .bool _, [], _ | .int _, [], _ | .dbl _ _, [], _ | .str _, [], _
    | .date _ _, [], _ | .oid _, [], _ | .doc _, [], _ | .arr _, [], _ => by
      simp only [addField, setDeep]
    | .arr xs, k :: ks, v => by
      simp only [addField, setDeep, addFieldItems_eq xs (k :: ks) v]
    | .doc fs, k :: ks, v => by
      simp only [addField, setDeep, addFieldIn_eq fs k ks v]
    | .null, k :: ks, v | .bool _, k :: ks, v | .int _, k :: ks, v | .dbl _ _, k :: ks, v
    | .str _, k :: ks, v | .date _ _, k :: ks, v | .oid _, k :: ks, v => by
      simp only [addField, setDeep, freshPath_eq_nestDoc]
  theorem addFieldItems_eq : ∀ (xs : List Val) (ks : List String) (v : Val),
      addFieldItems xs ks v = setDeepItems xs ks v
    | [], _, _ => by simp only [addFieldItems, setDeepItems]
    | x :: xs, ks, v => by
      simp only [addFieldItems, setDeepItems, addField_eq_setDeep x ks v, addFieldItems_eq xs ks v]
  theorem addFieldIn_eq : ∀ (fs : Fields) (k : String) (ks : List String) (v : Val),
      addFieldIn fs k ks v = setDeepIn fs k ks v
    | [], k, ks, v => by simp only [addFieldIn, setDeepIn, freshPath_eq_nestDoc]
    | (k', x) :: r, k, ks, v => by
      simp only [addFieldIn, setDeepIn, addField_eq_setDeep x ks v, addFieldIn_eq r k ks v]
end

theorem setDeepItems_eq_map (xs : List Val) (ks : List String) (v : Val) :
    setDeepItems xs ks v = xs.map (fun x => setDeep x ks v) := by
  induction xs with
  | nil => simp only [setDeepItems, List.map_nil]
  | cons x r ih => simp only [setDeepItems, List.map_cons, ih]

theorem dget_setDeepIn_other (k k' : String) (ks : List String) (v : Val) (h : k' ≠ k) :
    ∀ fs : Fields, dget k' (setDeepIn fs k ks v) = dget k' fs
  | [] => by simp [setDeepIn, dget, Ne.symm h]
  | (k'', x) :: r => by
    by_cases h2 : k'' = k
    · subst h2; simp [setDeepIn, dget, Ne.symm h]
    · by_cases h3 : k'' = k'
      · subst h3; simp [setDeepIn, dget, h2]
      · simp [setDeepIn, dget, h2, h3, dget_setDeepIn_other k k' ks v h r]

/-- the stage on one document: every expression is read on the input document, a dotted name is
    written as the oracle's `setDeepIn` does -/
theorem afDoc_eq_spec : ∀ (es : Fields) (s : AfState) (acc' : Fields),
    (∀ kv ∈ es, exprReasons kv.2 (.doc s.inD) = []) →
    specSetFields (.doc s.inD) es s.outD = some acc' →
    afDoc es s = .ok ⟨s.inD, acc'⟩
  | [], s, acc', _, h => by
    simp only [specSetFields, Option.some.injEq] at h
    subst h
    rfl
  | (name, e) :: rest, s, acc', hD, h => by
    have he := hD (name, e) List.mem_cons_self
    have hrest : ∀ kv ∈ rest, exprReasons kv.2 (.doc s.inD) = [] :=
      fun kv hkv => hD kv (List.mem_cons_of_mem _ hkv)
    simp only [specSetFields] at h
    cases hv : exprValue e (.doc s.inD) with
    | none => simp [hv] at h
    | some r =>
      have hev : evalExpr (.doc s.inD) e = .ok r := by
        rw [evalExpr_of_reasons e _ he]; exact exprValue_some _ _ _ hv
      cases r with
      | none =>
        simp only [hv] at h
        have hc := afDoc_eq_spec rest s acc' hrest h
        simp only [afDoc, afStep, hev, hc]
      | some v =>
        simp only [hv] at h
        cases hsp : splitDots name with
        | nil => simp [hsp] at h
        | cons k ks =>
          simp only [hsp] at h
          have hc := afDoc_eq_spec rest { s with outD := setDeepIn s.outD k ks v } acc' hrest h
          have hstep : afStep name e s = .ok { s with outD := setDeepIn s.outD k ks v } := by
            simp only [afStep, hev, hsp, addFieldIn_eq]
          simp only [afDoc, hstep, hc]

/-! ### the field-major loop of the stage is the document-major one -/

theorem afFields_of_afDoc : ∀ (es : Fields) (st st' : List AfState),
    List.Forall₂ (fun s s' => afDoc es s = .ok s') st st' → afFields es st = .ok st'
  | [], st, st', h => by
    simp only [afFields]
    induction h with
    | nil => rfl
    | cons h1 _ ih =>
      simp only [afDoc, Except.ok.injEq] at h1
      simp only [Except.ok.injEq, List.cons.injEq] at ih ⊢
      exact ⟨h1, ih⟩
  | (f, e) :: rest, st, st', h => by
    have hmid : ∃ mid, List.Forall₂ (fun s m => afStep f e s = .ok m) st mid ∧
        List.Forall₂ (fun m s' => afDoc rest m = .ok s') mid st' := by
      induction h with
      | nil => exact ⟨[], List.Forall₂.nil, List.Forall₂.nil⟩
      | @cons s s' l l' h1 _ ih =>
        obtain ⟨mid, m1, m2⟩ := ih
        simp only [afDoc] at h1
        cases hs : afStep f e s with
        | error err => simp [hs] at h1
        | ok m =>
          simp only [hs] at h1
          exact ⟨m :: mid, List.Forall₂.cons hs m1, List.Forall₂.cons h1 m2⟩
    obtain ⟨mid, m1, m2⟩ := hmid
    simp only [afFields, mapR_ok_iff.2 m1]
    exact afFields_of_afDoc rest mid st' m2

/-! ### the stage -/

theorem addFields_docs (entries : Fields) :
    ∀ (docs s : List Val),
    docs.flatMap (fun d => match d with
      | .doc _ => entries.flatMap (fun kv => tag "expr:" (exprReasons kv.2 d))
      | _ => ["nondoc"]) = [] →
    mapOpt (specAddFieldsDoc entries) docs = some s →
    ∃ st st', mapR afInit docs = .ok st ∧
      List.Forall₂ (fun s s' => afDoc entries s = .ok s') st st' ∧
      st'.map (fun x => Val.doc x.outD) = s
  | [], s, _, hs => by
    simp only [mapOpt, Option.some.injEq] at hs
    subst hs
    exact ⟨[], [], rfl, List.Forall₂.nil, rfl⟩
  | d :: ds, s, hD, hs => by
    obtain ⟨y, r, h1, h2, rfl⟩ := mapOpt_cons_some hs
    simp only [List.flatMap_cons, List.append_eq_nil_iff] at hD
    obtain ⟨st, st', i1, i2, i3⟩ := addFields_docs entries ds r hD.2 h2
    cases d with
    | doc fs =>
      simp only [specAddFieldsDoc] at h1
      cases hsf : specSetFields (.doc fs) entries fs with
      | none => simp [hsf] at h1
      | some acc' =>
        simp only [hsf, Option.map_some, Option.some.injEq] at h1
        subst h1
        have hc := afDoc_eq_spec entries ⟨fs, fs⟩ acc' (fun kv hkv =>
          (tag_nil _ _).1 ((flatMap_nil_iff' _ _).1 hD.1 kv hkv)) hsf
        exact ⟨⟨fs, fs⟩ :: st, ⟨fs, acc'⟩ :: st', by simp [mapR, afInit, i1],
          List.Forall₂.cons hc i2, by simp [i3]⟩
    | _ => simp [specAddFieldsDoc] at h1

/-- **`$addFields` / `$set` = the oracle** on the domain -/
theorem addFields_eq_spec (opts : Val) (docs s : List Val)
    (hD : addFieldsReasons opts docs = []) (hs : specAddFieldsStage opts docs = some s) :
    addFieldsStage opts docs = .ok s := by
  cases opts with
  | doc entries =>
    simp only [specAddFieldsStage] at hs
    split at hs
    · cases hs
    · rename_i hc
      simp only [Bool.or_eq_true, Bool.not_eq_true', not_or, Bool.not_eq_true,
        Bool.not_eq_false] at hc
      obtain ⟨⟨hne, _⟩, _⟩ := hc
      simp only [addFieldsReasons] at hD
      obtain ⟨st, st', i1, i2, i3⟩ := addFields_docs entries docs s hD hs
      cases entries with
      | nil => simp at hne
      | cons kv rest =>
        simp only [addFieldsStage, i1, afFields_of_afDoc _ st st' i2, i3]
  | _ => simp [specAddFieldsStage] at hs

/-! ### `$replaceRoot` -/

theorem replaceRoot_docs (e : Val) : ∀ (docs s : List Val),
    (∀ d ∈ docs, exprReasons e d = []) →
    mapOpt (fun d => match exprValue e d with
      | some (some (.doc r)) => some (Val.doc r)
      | _ => none) docs = some s →
    mapR (replaceRootDoc e) docs = .ok s
  | [], s, _, hs => by simp only [mapOpt, Option.some.injEq] at hs; subst hs; rfl
  | d :: ds, s, hall, hs => by
    obtain ⟨y, r, h1, h2, rfl⟩ := mapOpt_cons_some hs
    have ih := replaceRoot_docs e ds r (fun x hx => hall x (List.mem_cons_of_mem _ hx)) h2
    cases hv : exprValue e d with
    | none => simp [hv] at h1
    | some rv =>
      have hev : evalExpr d e = .ok rv := by
        rw [evalExpr_of_reasons e d (hall d List.mem_cons_self)]
        exact exprValue_some _ _ _ hv
      rw [hv] at h1
      match rv, h1, hev with
      | some (.doc g), h1, hev =>
        simp only [Option.some.injEq] at h1
        subst h1
        simp only [mapR, replaceRootDoc, hev, ih]

/-- **`$replaceRoot` = the oracle** on the domain -/
theorem replaceRoot_eq_spec (opts : Val) (docs s : List Val)
    (hD : replaceRootReasons opts docs = []) (hs : specReplaceRootStage opts docs = some s) :
    replaceRootStage opts docs = .ok s := by
  unfold specReplaceRootStage at hs
  split at hs
  · rename_i e
    simp only [replaceRootReasons] at hD
    simp only [replaceRootStage, dget, if_true]
    exact replaceRoot_docs e docs s (exprTags_nil e docs hD) hs
  · cases hs

end MongoModel.Pipe.Proofs
