/-
  Proofs.C03ExtFields — `$addFields` / `$set` with top-level names and `$replaceRoot` against the
  oracle of Spec/PipelineExt.lean.
-/
import Proofs.C03ExtGroup
import Proofs.C03ExtLookup

namespace MongoModel.Pipe.Proofs
open MongoModel MongoModel.Pipe MongoModel.Spec MongoModel.Spec.Pipe MongoModel.Expr

/-! ### one document -/

/-- the stage on one document, top-level names: every expression is read on the input document -/
theorem afDoc_eq_spec : ∀ (es : Fields) (s : AfState) (acc' : Fields),
    (∀ kv ∈ es, PlainName kv.1 ∧ exprReasons kv.2 (.doc s.inD) = []) →
    specSetFields (.doc s.inD) es s.outD = some acc' →
    ∃ c, afDoc es s = .ok ⟨s.inD, acc', c⟩
  | [], s, acc', _, h => by
    simp only [specSetFields, Option.some.injEq] at h
    subst h
    exact ⟨s.captured, rfl⟩
  | (name, e) :: rest, s, acc', hD, h => by
    obtain ⟨hn, he⟩ := hD (name, e) List.mem_cons_self
    have hrest : ∀ kv ∈ rest, PlainName kv.1 ∧ exprReasons kv.2 (.doc s.inD) = [] :=
      fun kv hkv => hD kv (List.mem_cons_of_mem _ hkv)
    simp only [specSetFields] at h
    cases hv : exprValue e (.doc s.inD) with
    | none => simp [hv] at h
    | some r =>
      have hev : evalExpr (.doc s.inD) e = .ok r := by
        rw [evalExpr_of_reasons e _ he]; exact exprValue_some _ _ _ hv
      cases r with
      | none =>
        simp only [hv] at h
        obtain ⟨c, hc⟩ := afDoc_eq_spec rest s acc' hrest h
        exact ⟨c, by simp only [afDoc, afStep, hev, hc]⟩
      | some v =>
        simp only [hv] at h
        obtain ⟨c, hc⟩ := afDoc_eq_spec rest
          { s with outD := dset name v s.outD, captured := s.captured || hasDoc v } acc' hrest h
        exact ⟨c, by simp only [afDoc, afStep, hev, hn.split, hc]⟩

/-! ### the field-major loop of the stage is the document-major one -/

theorem afFields_of_afDoc : ∀ (es : Fields) (st st' : List AfState),
    List.Forall₂ (fun s s' => afDoc es s = .ok s') st st' → afFields es st = .ok st'
  | [], st, st', h => by
    simp only [afFields]
    induction h with
    | nil => rfl
    | cons h1 _ ih =>
      simp only [afDoc, Except.ok.injEq] at h1
      simp only [Except.ok.injEq, List.cons.injEq] at ih ⊢
      exact ⟨h1, ih⟩
  | (f, e) :: rest, st, st', h => by
    have hmid : ∃ mid, List.Forall₂ (fun s m => afStep f e s = .ok m) st mid ∧
        List.Forall₂ (fun m s' => afDoc rest m = .ok s') mid st' := by
      induction h with
      | nil => exact ⟨[], List.Forall₂.nil, List.Forall₂.nil⟩
      | @cons s s' l l' h1 _ ih =>
        obtain ⟨mid, m1, m2⟩ := ih
        simp only [afDoc] at h1
        cases hs : afStep f e s with
        | error err => simp [hs] at h1
        | ok m =>
          simp only [hs] at h1
          exact ⟨m :: mid, List.Forall₂.cons hs m1, List.Forall₂.cons h1 m2⟩
    obtain ⟨mid, m1, m2⟩ := hmid
    simp only [afFields, mapR_ok_iff.2 m1]
    exact afFields_of_afDoc rest mid st' m2

/-! ### the stage -/

theorem dhas_false_ne {k : String} : ∀ {r : Fields}, dhas k r = false → ∀ kv ∈ r, kv.1 ≠ k
  | [], _, kv, h => by simp at h
  | (k', v') :: r, hd, kv, h => by
    by_cases hk : k' = k
    · simp [dhas, dget, hk] at hd
    · have hd' : dhas k r = false := by simpa [dhas, dget, hk] using hd
      rcases List.mem_cons.mp h with rfl | h
      · exact hk
      · exact dhas_false_ne hd' kv h

theorem prefixConflict_plain : ∀ (es : Fields), (∀ kv ∈ es, PlainName kv.1) →
    nodupKeys es = true → prefixConflict (es.map (fun kv => splitDots kv.1)) = false
  | [], _, _ => rfl
  | (k, v) :: r, hn, hd => by
    simp only [nodupKeys, Bool.and_eq_true, Bool.not_eq_true'] at hd
    have ih := prefixConflict_plain r (fun kv hkv => hn kv (List.mem_cons_of_mem _ hkv)) hd.2
    simp only [List.map_cons, prefixConflict, ih, Bool.or_false, (hn (k, v) List.mem_cons_self).split]
    rw [List.any_eq_false]
    intro q hq
    obtain ⟨kv, hkv, rfl⟩ := List.mem_map.mp hq
    rw [(hn kv (List.mem_cons_of_mem _ hkv)).split]
    have := dhas_false_ne hd.1 kv hkv
    simp [isPrefixOf', Ne.symm this]

theorem addFields_docs (entries : Fields) (hplain : ∀ kv ∈ entries, PlainName kv.1) :
    ∀ (docs s : List Val),
    docs.flatMap (fun d => match d with
      | .doc _ => entries.flatMap (fun kv => tag "expr:" (exprReasons kv.2 d))
      | _ => ["nondoc"]) = [] →
    mapOpt (specAddFieldsDoc entries) docs = some s →
    ∃ st st', mapR afInit docs = .ok st ∧
      List.Forall₂ (fun s s' => afDoc entries s = .ok s') st st' ∧
      st'.map (fun x => Val.doc x.outD) = s
  | [], s, _, hs => by
    simp only [mapOpt, Option.some.injEq] at hs
    subst hs
    exact ⟨[], [], rfl, List.Forall₂.nil, rfl⟩
  | d :: ds, s, hD, hs => by
    obtain ⟨y, r, h1, h2, rfl⟩ := mapOpt_cons_some hs
    simp only [List.flatMap_cons, List.append_eq_nil_iff] at hD
    obtain ⟨st, st', i1, i2, i3⟩ := addFields_docs entries hplain ds r hD.2 h2
    cases d with
    | doc fs =>
      simp only [specAddFieldsDoc] at h1
      cases hsf : specSetFields (.doc fs) entries fs with
      | none => simp [hsf] at h1
      | some acc' =>
        simp only [hsf, Option.map_some, Option.some.injEq] at h1
        subst h1
        obtain ⟨c, hc⟩ := afDoc_eq_spec entries ⟨fs, fs, false⟩ acc' (fun kv hkv =>
          ⟨hplain kv hkv, (tag_nil _ _).1 ((flatMap_nil_iff' _ _).1 hD.1 kv hkv)⟩) hsf
        exact ⟨⟨fs, fs, false⟩ :: st, ⟨fs, acc', c⟩ :: st', by simp [mapR, afInit, i1],
          List.Forall₂.cons hc i2, by simp [i3]⟩
    | _ => simp [specAddFieldsDoc] at h1

/-- **`$addFields` / `$set` = the oracle** on the domain -/
theorem addFields_eq_spec (opts : Val) (docs s : List Val)
    (hD : addFieldsReasons opts docs = []) (hs : specAddFieldsStage opts docs = some s) :
    addFieldsStage opts docs = .ok s := by
  cases opts with
  | doc entries =>
    simp only [specAddFieldsStage] at hs
    split at hs
    · cases hs
    · rename_i hc
      simp only [Bool.or_eq_true, Bool.not_eq_true', not_or, Bool.not_eq_true,
        Bool.not_eq_false] at hc
      obtain ⟨⟨hne, hpl⟩, hnd⟩ := hc
      have hplain : ∀ kv ∈ entries, PlainName kv.1 := fun kv hkv =>
        plainName_ok _ (List.all_eq_true.mp hpl kv hkv)
      have hpc := prefixConflict_plain entries hplain hnd
      simp only [addFieldsReasons] at hD
      obtain ⟨st, st', i1, i2, i3⟩ := addFields_docs entries hplain docs s hD hs
      cases entries with
      | nil => simp at hne
      | cons kv rest =>
        simp only [addFieldsStage, hpc, Bool.false_eq_true, if_false, i1,
          afFields_of_afDoc _ st st' i2, i3]
  | _ => simp [specAddFieldsStage] at hs

/-! ### `$replaceRoot` -/

theorem replaceRoot_docs (e : Val) : ∀ (docs s : List Val),
    (∀ d ∈ docs, exprReasons e d = []) →
    mapOpt (fun d => match exprValue e d with
      | some (some (.doc r)) => some (Val.doc r)
      | _ => none) docs = some s →
    mapR (replaceRootDoc e) docs = .ok s
  | [], s, _, hs => by simp only [mapOpt, Option.some.injEq] at hs; subst hs; rfl
  | d :: ds, s, hall, hs => by
    obtain ⟨y, r, h1, h2, rfl⟩ := mapOpt_cons_some hs
    have ih := replaceRoot_docs e ds r (fun x hx => hall x (List.mem_cons_of_mem _ hx)) h2
    cases hv : exprValue e d with
    | none => simp [hv] at h1
    | some rv =>
      have hev : evalExpr d e = .ok rv := by
        rw [evalExpr_of_reasons e d (hall d List.mem_cons_self)]
        exact exprValue_some _ _ _ hv
      rw [hv] at h1
      match rv, h1, hev with
      | some (.doc g), h1, hev =>
        simp only [Option.some.injEq] at h1
        subst h1
        simp only [mapR, replaceRootDoc, hev, ih]

/-- **`$replaceRoot` = the oracle** on the domain -/
theorem replaceRoot_eq_spec (opts : Val) (docs s : List Val)
    (hD : replaceRootReasons opts docs = []) (hs : specReplaceRootStage opts docs = some s) :
    replaceRootStage opts docs = .ok s := by
  unfold specReplaceRootStage at hs
  split at hs
  · rename_i e
    simp only [replaceRootReasons] at hD
    simp only [replaceRootStage, dget, if_true]
    exact replaceRoot_docs e docs s (exprTags_nil e docs hD) hs
  · cases hs

end MongoModel.Pipe.Proofs
