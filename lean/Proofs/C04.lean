/-
  Proofs.C04 — entry point of the C04 proofs (laws of the evaluator, comparison order, date
  arithmetic, and the correspondence with the oracle on the domain D).
-/
import Proofs.C04Basic
import Proofs.C04Cond
import Proofs.C04Arith
import Proofs.C04Bind
import Proofs.C04Ctx
import Proofs.C04Cmp
import Proofs.C04Date
import Proofs.C04Parts
import Proofs.C04Spec17
import Proofs.C04Order
import Proofs.C04Fix2
import Proofs.C04Fix3
