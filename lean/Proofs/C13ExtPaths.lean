/-
  Proofs.C13ExtPaths — the seed of any filter with prefix-free keys: at the path of every item
  it holds what `_discard_operators` leaves of the item's condition (`seedOf`).
-/
import Proofs.C13ExtClean
import Proofs.C13ExtDiscard

set_option linter.unusedVariables false
set_option linter.unusedSimpArgs false

namespace MongoModel.Proofs.C13Ext
open MongoModel MongoModel.Spec MongoModel.Proofs.C13Lemmas

theorem seed_paths (ss ex : Fields) (h : expandDots ss = .ok ex) (hp : prefixFree ss)
    (hnd : noDollarParts ss = true) :
    (∀ kv ∈ ss, getPath (splitDots kv.1) (.doc ex) = some kv.2) ∧
    (∀ kv ∈ ss, getPath (splitDots kv.1) (discardOps (.doc ex)).1 = seedOf kv.2) := by
  refine ⟨expand_paths ss ex h hp, ?_⟩
  intro kv hkv
  exact discard_path _ _ _ (splitDots_ne_nil kv.1) (expand_clean ss ex h hp hnd kv hkv)
    (expand_paths ss ex h hp kv hkv)

theorem seed_paths_cases (ss ex : Fields) (h : expandDots ss = .ok ex) (hp : prefixFree ss)
    (hnd : noDollarParts ss = true) :
    (∀ k v, (k, v) ∈ ss → isScalar v = true →
        getPath (splitDots k) (discardOps (.doc ex)).1 = some v) ∧
    (∀ k x, (k, Val.doc [("$eq", x)]) ∈ ss →
        getPath (splitDots k) (discardOps (.doc ex)).1 = some x) ∧
    (∀ k ops, (k, Val.doc ops) ∈ ss → isOps ops = true → dget "$eq" ops = none →
        getPath (splitDots k) (discardOps (.doc ex)).1 = none) := by
  have := (seed_paths ss ex h hp hnd).2
  refine ⟨?_, ?_, ?_⟩
  · intro k v hm hs; rw [this (k, v) hm]; exact seedOf_scalar v hs
  · intro k x hm; rw [this (k, _) hm]; exact seedOf_eq x
  · intro k ops hm ho he; rw [this (k, _) hm]; exact seedOf_ops ops ho he

end MongoModel.Proofs.C13Ext
