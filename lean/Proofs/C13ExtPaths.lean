/-
  Proofs.C13ExtPaths — the seed of any filter: `_discard_operators` keeps the equality conditions
  (`Spec.equalities`), `_expand_dots` puts each of them at its path — or raises when one of them
  lies below another — and a dropped condition leaves nothing at its path unless an equality
  condition reaches there.
-/
import Proofs.C13ExtConflict
import Proofs.C13ExtDiscard

set_option linter.unusedVariables false
set_option linter.unusedSimpArgs false

namespace MongoModel.Proofs.C13Ext
open MongoModel MongoModel.Spec MongoModel.Proofs.C13Lemmas

theorem noDollarKeys_iff {ss : Fields} :
    noDollarKeys ss = true ↔ ∀ kv ∈ ss, kv.1.startsWith "$" = false := by
  simp [noDollarKeys, List.all_eq_true]

/-- the equality conditions of a filter without top-level operator keys -/
theorem equalities_eq_keep (ss : Fields) (hnd : noDollarKeys ss = true) : equalities ss = keep ss [] := by
  unfold equalities
  rw [discard_is_keep ss (noDollarKeys_iff.1 hnd)]

theorem mem_of_dget {k : String} {w : Val} : ∀ {fs : Fields}, dget k fs = some w → (k, w) ∈ fs
  | [], h => by simp [dget] at h
  | (k', v') :: r, h => by
    by_cases e : k' = k
    · subst e; simp only [dget, if_true, Option.some.injEq] at h; subst h; exact List.mem_cons_self ..
    · simp only [dget, e, if_false] at h; exact List.mem_cons_of_mem _ (mem_of_dget h)

theorem dget_of_mem' {k : String} {v : Val} : ∀ {fs : Fields}, (dkeys fs).Nodup → (k, v) ∈ fs →
    dget k fs = some v
  | [], _, hm => by cases hm
  | (k', v') :: r, hn, hm => by
    simp only [dkeys, List.map_cons, List.nodup_cons] at hn
    rcases List.mem_cons.1 hm with e | hm
    · cases e; simp [dget]
    · have : k' ≠ k := by
        intro e; subst e
        exact hn.1 (List.mem_map.2 ⟨(k', v), hm, rfl⟩)
      simp only [dget, this, if_false]
      exact dget_of_mem' hn.2 hm

/-- which conditions survive: exactly the ones `_discard_operators` does not drop, each with what
    is left of its value -/
theorem mem_equalities (ss : Fields) (hnd : noDollarKeys ss = true) (hk : (dkeys ss).Nodup)
    (k : String) (w : Val) :
    (k, w) ∈ equalities ss ↔ ∃ v, (k, v) ∈ ss ∧ (discardOps v).2 = false ∧ w = (discardOps v).1 := by
  rw [equalities_eq_keep ss hnd]
  have hkn : (dkeys (keep ss [])).Nodup := keep_nodup ss [] (by simp [dkeys])
  constructor
  · intro hm
    have hg := dget_of_mem' hkn hm
    have hks : k ∈ dkeys ss := by
      rcases keep_keys ss [] k (List.mem_map.2 ⟨(k, w), hm, rfl⟩) with h | h
      · simp [dkeys] at h
      · exact h
    obtain ⟨kv, hkv, e⟩ := List.mem_map.1 hks
    obtain ⟨k', v⟩ := kv
    simp only at e; subst e
    rw [dget_keep k' v ss [] hk (dget_of_mem' hk hkv)] at hg
    cases hd : (discardOps v).2 with
    | true => simp [hd, dget] at hg
    | false =>
      simp only [hd, Bool.false_eq_true, if_false, Option.some.injEq] at hg
      exact ⟨v, hkv, hd, hg.symm⟩
  · rintro ⟨v, hkv, hd, rfl⟩
    apply mem_of_dget
    rw [dget_keep k v ss [] hk (dget_of_mem' hk hkv), hd]
    rfl

/-- a path incomparable with every key reads in the expansion as it did before -/
theorem fold_frame (q : List String) : ∀ (ss : Fields) (st st' : Fields × List String × List String),
    ss.foldlM edStep st = .ok st' → (∀ b ∈ ss, Incomp (splitDots b.1) q) →
    getPath q (.doc st'.1) = getPath q (.doc st.1)
  | [], st, st', h, _ => by
    simp only [List.foldlM_nil, pure, Except.pure] at h
    cases h; rfl
  | kv :: ss, st, st', h, hi => by
    rw [List.foldlM_cons] at h
    cases h1 : edStep st kv with
    | error e => rw [h1] at h; cases h
    | ok st1 =>
      rw [h1] at h
      simp only [bind, Except.bind] at h
      obtain ⟨_, _, hex, _, _⟩ := edStep_ok st st1 kv h1
      rw [fold_frame q ss st1 st' h (fun b hb => hi b (List.mem_cons_of_mem _ hb))]
      exact expandOne_frame _ _ kv.2 _ _ _ _ q hex (hi kv (List.mem_cons_self ..))

theorem expand_nothing (ss ex : Fields) (h : expandDots ss = .ok ex) (q : List String) (hq : q ≠ [])
    (hi : ∀ b ∈ ss, Incomp (splitDots b.1) q) : getPath q (.doc ex) = none := by
  rw [expandDots_eq] at h
  cases hf : ss.foldlM edStep ([], [], []) with
  | error e => rw [hf] at h; cases h
  | ok st' =>
    rw [hf] at h
    cases h
    rw [fold_frame q ss _ st' hf hi]
    cases q with
    | nil => exact absurd rfl hq
    | cons a t => exact getPath_empty_doc a t

/-- **the seed at every path** -/
theorem seed_paths (ss ex : Fields) (hnd : noDollarKeys ss = true) (hk : (dkeys ss).Nodup)
    (h : expandDots (equalities ss) = .ok ex) :
    prefixFree (equalities ss) ∧
    (∀ kv ∈ ss, (discardOps kv.2).2 = false →
        getPath (splitDots kv.1) (.doc ex) = some (discardOps kv.2).1) ∧
    (∀ kv ∈ ss, (discardOps kv.2).2 = true →
        (∀ kv' ∈ ss, (discardOps kv'.2).2 = false →
          ¬ splitDots kv'.1 <+: splitDots kv.1 ∧ ¬ splitDots kv.1 <+: splitDots kv'.1) →
        getPath (splitDots kv.1) (.doc ex) = none) := by
  refine ⟨expand_ok_prefixFree _ ex h, ?_, ?_⟩
  · intro kv hkv hd
    exact expand_paths _ ex h (kv.1, (discardOps kv.2).1)
      ((mem_equalities ss hnd hk _ _).2 ⟨kv.2, hkv, hd, rfl⟩)
  · intro kv hkv hd hfree
    apply expand_nothing _ ex h _ (splitDots_ne_nil kv.1)
    intro b hb
    obtain ⟨k, w⟩ := b
    obtain ⟨v, hv, hdv, _⟩ := (mem_equalities ss hnd hk k w).1 hb
    exact hfree (k, v) hv hdv

theorem seed_paths_cases (ss ex : Fields) (hnd : noDollarKeys ss = true) (hk : (dkeys ss).Nodup)
    (h : expandDots (equalities ss) = .ok ex) :
    (∀ k v, (k, v) ∈ ss → isScalar v = true → getPath (splitDots k) (.doc ex) = some v) ∧
    (∀ k x, (k, Val.doc [("$eq", x)]) ∈ ss → getPath (splitDots k) (.doc ex) = some x) ∧
    (∀ k ops, (k, Val.doc ops) ∈ ss → isOps ops = true → dget "$eq" ops = none →
        (∀ kv' ∈ ss, (discardOps kv'.2).2 = false →
          ¬ splitDots kv'.1 <+: splitDots k ∧ ¬ splitDots k <+: splitDots kv'.1) →
        getPath (splitDots k) (.doc ex) = none) := by
  obtain ⟨_, h1, h2⟩ := seed_paths ss ex hnd hk h
  refine ⟨?_, ?_, ?_⟩
  · intro k v hm hs
    have := h1 (k, v) hm (by simp [discardOps_scalar v hs])
    simpa [discardOps_scalar v hs] using this
  · intro k x hm
    have := h1 (k, _) hm (by simp [discardOps_eq])
    simpa [discardOps_eq] using this
  · intro k ops hm ho he hfree
    exact h2 (k, _) hm (by simp [discardOps_ops ops ho he]) hfree

/-- the upsert seed of a filter without top-level operator keys -/
theorem upsertSeed_eq (ss : Fields) (idv : Val) (hnd : noDollarKeys (dset "_id" idv ss) = true) :
    upsertSeed ss idv = (expandDots (equalities (dset "_id" idv ss))).map Val.doc := by
  unfold upsertSeed
  rw [equalities_eq_keep _ hnd, discard_is_keep _ (noDollarKeys_iff.1 hnd)]

/-- **when the seed can be built**: exactly when no equality condition lies at or below another;
    otherwise the upsert raises the WriteError 'cannot infer query fields to set' -/
theorem upsertSeed_conflict (ss : Fields) (idv : Val) (hnd : noDollarKeys (dset "_id" idv ss) = true) :
    ((∃ seed, upsertSeed ss idv = .ok seed) ↔ prefixFree (equalities (dset "_id" idv ss))) ∧
    (¬ prefixFree (equalities (dset "_id" idv ss)) → upsertSeed ss idv = .error .writeErr) := by
  rw [upsertSeed_eq ss idv hnd]
  constructor
  · rw [← expand_ok_iff]
    constructor
    · rintro ⟨seed, h⟩
      cases he : expandDots (equalities (dset "_id" idv ss)) with
      | error e => rw [he] at h; cases h
      | ok ex => exact ⟨ex, rfl⟩
    · rintro ⟨ex, h⟩; rw [h]; exact ⟨_, rfl⟩
  · intro hp
    rw [expand_conflict _ hp]; rfl

end MongoModel.Proofs.C13Ext
