/-
  Proofs.C05 — lemmas and proofs behind Props/C05.lean.
-/
import Spec.StoreInv

namespace MongoModel.Proofs.C05
open MongoModel MongoModel.Spec

theorem init_inv : IdInv ({} : Coll) := by sorry

theorem step_inv (cfg : Cfg) (s : St) (op : Val) (h : IdInv s.c) : IdInv (step cfg s op).1.c := by
  sorry

theorem reachable_inv (cfg : Cfg) (ops : List Val) : IdInv (run cfg ops).2.c := by sorry

theorem ids_distinct (c : Coll) (h : IdInv c) (hs : ∀ p ∈ c.docs, SymmVal p.1) :
    c.docs.Pairwise (fun a b => ∀ ia ib, idOf a.2 = some ia → idOf b.2 = some ib →
      pyEq ia ib = false) := by sorry

theorem scalar_symm (v : Val) (h : isScalar v = true) : SymmVal v := by sorry

theorem dup_rejected (cfg : Cfg) (now : Int) (c c1 : Coll) (fs : Fields) (id : Val)
    (hid : dget "_id" (patchFields fs) = some id) (hk : storeKey id = .ok id)
    (he : expire now c = .ok c1) (hd : c1.hasKey id = true) :
    stepColl cfg now c (.arr [.str "insert_one", .doc fs]) = (c1, .err .dupKey) := by sorry

theorem insert_fresh (now : Int) (c c' : Coll) (d id : Val) (hn : c.ttlIndexes = [])
    (h : insertDoc now c d = .ok (c', id)) :
    c.hasKey id = false ∧ c'.docs = c.docs ++ [(id, patchDT
      (match d with
       | .doc fs => .doc (if dhas "_id" fs then fs else dset "_id" id fs)
       | v => v))] := by sorry

theorem id_immutable (cfg : Cfg) (now : Int) (c c' : Coll) (f u : Val) (upsert multi : Bool)
    (r : R UpdateResult) (h : applyUpdateColl cfg now c f u upsert multi = (c', r)) :
    ∀ p' ∈ c'.docs,
      (∃ p ∈ c.docs, p.1 = p'.1 ∧ pyEqOpt (idOf p.2) (idOf p'.2) = true) ∨
      (∃ res id, r = .ok res ∧ res.upserted = some id ∧ p'.1 = id) := by sorry

end MongoModel.Proofs.C05
