/-
  Proofs.C05 — lemmas and proofs behind Props/C05.lean.

  The unrestricted statements of `step_inv`, `reachable_inv`, `id_immutable` are false
  (`Proofs/C05Cex.lean`): the value universe contains association lists with duplicate keys, on
  which Python `==` as modelled is neither reflexive nor symmetric.  They are proved here on
  `GoodColl` collections (Spec/StoreInv.lean) as `step_inv_alt` / `step_inv_fine`,
  `reachable_inv_alt` / `reachable_inv_check`, `id_immutable_alt`.
-/
import Spec.StoreInv
import Proofs.C05Step
import Proofs.C05Fresh
import Proofs.C05Cex
import Proofs.C05Wf

set_option linter.unusedSimpArgs false
set_option linter.unusedVariables false

namespace MongoModel.Proofs.C05
open MongoModel MongoModel.Spec MongoModel.Proofs.C05Lemmas

theorem init_inv : IdInv ({} : Coll) := by
  refine ⟨?_, ?_⟩
  · exact List.Pairwise.nil
  · intro p hp; cases hp

theorem ids_distinct (c : Coll) (h : IdInv c) (hs : ∀ p ∈ c.docs, SymmVal p.1) :
    c.docs.Pairwise (fun a b => ∀ ia ib, idOf a.2 = some ia → idOf b.2 = some ib →
      pyEq ia ib = false) := by
  obtain ⟨hd, hk⟩ := h
  unfold KeysDistinct at hd
  have hmem : c.docs.Pairwise (fun a b => a ∈ c.docs ∧ b ∈ c.docs ∧ pyEq a.1 b.1 = false) := by
    rw [List.pairwise_iff_forall_sublist]
    intro a b hab
    refine ⟨hab.subset (by simp), hab.subset (by simp), ?_⟩
    exact (List.pairwise_iff_forall_sublist.mp hd) hab
  refine List.Pairwise.imp ?_ hmem
  intro a b ⟨ha, hb, hab⟩ ia ib hia hib
  obtain ⟨ia', hia', hka⟩ := hk a ha
  obtain ⟨ib', hib', hkb⟩ := hk b hb
  rw [hia] at hia'; cases hia'
  rw [hib] at hib'; cases hib'
  cases hx : pyEq ia ib with
  | false => rfl
  | true =>
    have h1 : pyEq a.1 ib = true := pyEq_trans _ _ _ hka hx
    have h2 : pyEq ib b.1 = true := by rw [← hs b hb ib]; exact hkb
    rw [pyEq_trans _ _ _ h1 h2] at hab
    cases hab

theorem scalar_symm (v : Val) (h : isScalar v = true) : SymmVal v := scalar_symm' v h

theorem dup_rejected (cfg : Cfg) (now : Int) (c c1 : Coll) (fs : Fields) (id : Val)
    (hid : dget "_id" (patchFields fs) = some id) (hk : storeKey id = .ok id)
    (he : expire now c = .ok c1) (hd : c1.hasKey id = true) :
    stepColl cfg now c (.arr [.str "insert_one", .doc fs]) = (c1, .err .dupKey) := by
  have hhas : dhas "_id" fs = true := by
    rw [dget_patchFields] at hid
    cases hg : dget "_id" fs with
    | none => simp [hg] at hid
    | some w => simp [dhas, hg]
  have hins : insertDoc now c (.doc fs) = .error .dupKey := by
    rw [insertDoc_eq, if_pos hhas]
    unfold insertCore
    simp only [patchDT, patch, hid, Option.getD_some, bind, Except.bind, hk, he, hd, if_true]
  have hrej : insertRejected now c (.doc fs) = c1 := by
    unfold insertRejected insertStored
    simp only [patchDT, patch, hid, Option.getD_some, hk, he, hd, hhas, if_true, Bool.not_true]
    rfl
  simp only [stepColl, hins, hrej]

theorem insert_fresh (now : Int) (c c' : Coll) (d id : Val) (hn : c.ttlIndexes = [])
    (h : insertDoc now c d = .ok (c', id)) :
    c.hasKey id = false ∧ c'.docs = c.docs ++ [(id, patchDT
      (match d with
       | .doc fs => .doc (if dhas "_id" fs then fs else dset "_id" id fs)
       | v => v))] := by
  cases d with
  | doc fs =>
    rw [insertDoc_eq] at h
    by_cases hh : dhas "_id" fs = true
    · rw [if_pos hh] at h
      obtain ⟨_, h2, h3⟩ := insertCore_fresh now c fs c' id hn hh h
      exact ⟨h2, by simpa [hh] using h3⟩
    · rw [if_neg hh] at h
      have hh' : dhas "_id" (dset "_id" (.oid c.nextOid) fs) = true := by
        simp [dhas, dget_dset_self]
      obtain ⟨h1, h2, h3⟩ := insertCore_fresh now { c with nextOid := c.nextOid + 1 } _ c' id hn hh' h
      rw [dget_patchFields, dget_dset_self] at h1
      simp [patchDT, patch] at h1
      subst h1
      exact ⟨h2, by simpa [hh] using h3⟩
  | _ => simp [insertDoc] at h

/-! ### the invariant on `GoodColl` collections

The unrestricted statements fail only on values a Python `dict` cannot be: association lists
with duplicate keys, on which `==` is neither reflexive nor symmetric.  The statements below
assume of the stored entries what `ids_distinct` already assumes (`SymmVal` keys), plus
reflexivity of the keys and documents with pairwise distinct top-level keys (`GoodColl`). -/

theorem updOK_of_good {c : Coll} (h : GoodColl c) : UpdOK c :=
  fun p hp => ⟨(h p hp).1, (h p hp).2.2⟩

theorem scalar_refl (v : Val) (h : isScalar v = true) : pyEq v v = true :=
  C05Lemmas.scalar_refl v h

/-- finer form of `step_inv_alt`: what is used of the state before (symmetric keys, dict-shaped
    documents) and of the state after (reflexive keys) -/
theorem step_inv_fine (cfg : Cfg) (s : St) (op : Val) (h : IdInv s.c)
    (hs : ∀ p ∈ s.c.docs, SymmVal p.1 ∧ ∃ fs, p.2 = .doc fs ∧ (dkeys fs).Nodup)
    (hr : ∀ p ∈ (step cfg s op).1.c.docs, pyEq p.1 p.1 = true) :
    IdInv (step cfg s op).1.c :=
  WInv.toId (step_winv cfg s op h hs) hr

theorem step_inv_alt (cfg : Cfg) (s : St) (op : Val) (h : IdInv s.c)
    (hg : GoodColl s.c) (hg' : GoodColl (step cfg s op).1.c) : IdInv (step cfg s op).1.c :=
  step_inv_fine cfg s op h (updOK_of_good hg) (fun p hp => (hg' p hp).2.1)

theorem runSt_inv (cfg : Cfg) : ∀ (ops : List Val) (s : St), IdInv s.c →
    (∀ n, GoodColl (runSt cfg (ops.take n) s).c) → IdInv (runSt cfg ops s).c := by
  intro ops
  induction ops with
  | nil => intro s hi _; exact hi
  | cons op ops ih =>
    intro s hi hg
    have h0 : GoodColl s.c := hg 0
    have h1 : GoodColl (observe (step cfg s op).1).1.c := by
      have := hg 1
      simpa [runSt] using this
    have hw : WInv (observe (step cfg s op).1).1.c :=
      WInv.sub (observe_sub _) (step_winv cfg s op hi (updOK_of_good h0))
    have hi1 : IdInv (observe (step cfg s op).1).1.c := WInv.toId hw (fun p hp => (h1 p hp).2.1)
    have := ih (observe (step cfg s op).1).1 hi1 (fun n => by
      have := hg (n + 1)
      simpa [runSt] using this)
    simpa [runSt] using this

/-- every reachable state satisfies the invariant, provided the states along the history hold
    well-behaved entries only -/
theorem reachable_inv_alt (cfg : Cfg) (ops : List Val)
    (hg : ∀ n, GoodColl (run cfg (ops.take n)).2.c) : IdInv (run cfg ops).2.c := by
  rw [run_snd]
  refine runSt_inv cfg ops {} init_inv (fun n => ?_)
  rw [← run_snd]; exact hg n

theorem id_immutable_alt (cfg : Cfg) (now : Int) (c c' : Coll) (f u : Val) (upsert multi : Bool)
    (r : R UpdateResult) (h : applyUpdateColl cfg now c f u upsert multi = (c', r))
    (hi : IdInv c)
    (hs : ∀ p ∈ c.docs, SymmVal p.1 ∧ ∃ fs, p.2 = .doc fs ∧ (dkeys fs).Nodup) :
    ∀ p' ∈ c'.docs,
      (∃ p ∈ c.docs, p.1 = p'.1 ∧ pyEqOpt (idOf p.2) (idOf p'.2) = true) ∨
      (∃ res id, r = .ok res ∧ res.upserted = some id ∧ p'.1 = id) := by
  obtain ⟨c3, h1, _, h3⟩ := applyUpdateColl_spec cfg now c f u upsert multi c' r h (entU_init hi hs)
  intro p' hp'
  rcases h3 with h3 | ⟨c4, built, c5, id, h4, h5, h6, res, hres, hup⟩
  · rw [h3] at hp'
    exact Or.inl (h1 p' hp').2.2.2
  · obtain ⟨c1, d, hs1, _, _, _, hsub⟩ := insertDoc_spec now c4 built c5 id h5
    rw [h6] at hp'
    have := hsub.subset hp'
    simp only [List.mem_append, List.mem_singleton] at this
    rcases this with hm | rfl
    · have hm3 : p' ∈ c3.docs := by rw [← h4]; exact hs1.subset hm
      exact Or.inl (h1 p' hm3).2.2.2
    · exact Or.inr ⟨res, id, hres, hup, rfl⟩

/-! ### a decidable sufficient condition (scalar `_id`s), and a non-vacuity check -/

theorem goodEntry_of_goodB (p : Val × Val) (h : goodB p = true) : GoodEntry p := by
  simp only [goodB, Bool.and_eq_true] at h
  refine ⟨scalar_symm p.1 h.1, scalar_refl p.1 h.1, ?_⟩
  have h2 := h.2
  split at h2
  · rename_i fs hfs; exact ⟨fs, hfs, by simpa using h2⟩
  · cases h2

/-- for a concrete history the hypothesis of `reachable_inv_alt` can be checked by evaluation -/
theorem reachable_inv_check (cfg : Cfg) (ops : List Val)
    (h : (List.range (ops.length + 1)).all
      (fun n => (run cfg (ops.take n)).2.c.docs.all goodB) = true) :
    IdInv (run cfg ops).2.c := by
  refine reachable_inv_alt cfg ops (fun n p hp => ?_)
  simp only [List.all_eq_true, List.mem_range] at h
  by_cases hn : n < ops.length + 1
  · exact goodEntry_of_goodB p (h n hn p hp)
  · rw [List.take_of_length_le (by omega)] at hp
    have := h ops.length (by omega)
    rw [List.take_length] at this
    exact goodEntry_of_goodB p (this p hp)

end MongoModel.Proofs.C05
