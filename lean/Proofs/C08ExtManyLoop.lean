/-
  Proofs.C08ExtManyLoop — the multi-document loop on a collection without TTL index: an updated
  prefix, then the entries exactly as they were, the first of them being the one whose update
  raised.
-/
import Proofs.C08ExtMany

namespace MongoModel.Proofs.C08Lemmas
open MongoModel MongoModel.Spec
open MongoModel.Proofs.C10Lemmas MongoModel.Proofs.C14Lemmas MongoModel.Proofs.C05Lemmas

theorem many_split (now : Int) (spec document nowV : Val) :
    ∀ (pending done : List (Val × Val)) (c : Coll) (m u : Nat) (c' : Coll) (r : R (Nat × Nat)),
      c.docs = done ++ pending → c.ttlIndexes = [] → DK c.docs → GK c.docs →
      updateLoop now spec document nowV true pending c m u = (c', r) →
      c'.indexes = c.indexes ∧ c'.ttlIndexes = [] ∧
      ∃ pre pre' post, pending = pre ++ post ∧ c'.docs = done ++ (pre' ++ post) ∧
        List.Forall₂ (Updated spec document nowV) pre pre' ∧
        (match r with
         | .ok _ => post = []
         | .error e => ∃ q rest, post = q :: rest ∧
             ∀ m2 u2, updateLoop now spec document nowV false [q] c' m2 u2 = (c', .error e)) := by
  intro pending
  induction pending with
  | nil =>
    intro done c m u c' r hc hn _ _ h
    simp only [updateLoop, Prod.mk.injEq] at h
    obtain ⟨rfl, rfl⟩ := h
    exact ⟨rfl, hn, [], [], [], rfl, by simpa using hc, .nil, rfl⟩
  | cons p rest ih =>
    intro done c m u c' r hc hn hd hg h
    rw [many_cons] at h
    cases hs : updateLoop now spec document nowV false [p] c m u with
    | mk c1 r1 =>
      rw [hs] at h
      cases r1 with
      | error e =>
        simp only [Prod.mk.injEq] at h
        obtain ⟨rfl, rfl⟩ := h
        refine ⟨rfl, hn, [], [], p :: rest, rfl, by simpa using hc, .nil, p, rest, rfl, ?_⟩
        exact single_err_indep now spec document nowV p c m u e (by rw [hs])
      | ok mu =>
        obtain ⟨m1, u1⟩ := mu
        simp only at h
        obtain ⟨p', hup, hc1, hn1, hi1, hd1, hg1⟩ :=
          single_spec now spec document nowV p c done rest m u c1 m1 u1 hc hn hd hg hs
        have hc1' : c1.docs = (done ++ [p']) ++ rest := by rw [hc1]; simp
        obtain ⟨h1, h2, pre, pre', post, h3, h4, h5, h6⟩ :=
          ih (done ++ [p']) c1 m1 u1 c' r hc1' hn1 hd1 hg1 h
        refine ⟨h1.trans hi1, h2, p :: pre, p' :: pre', post, by rw [h3]; rfl, ?_, .cons hup h5, h6⟩
        rw [h4]; simp

/-! ### `applyUpdateColl … multi = true` that raises -/

theorem preLoop_nottl (now : Int) (c c2 : Coll) (spec : Val) (hn : c.ttlIndexes = [])
    (h : preLoop now c spec = .ok c2) : c2 = c := by
  unfold preLoop at h
  have he := expire_nil now c hn
  simp only [bind, Except.bind, he] at h
  split at h
  · split at h
    · cases h
    · cases h; rfl
  · cases h; rfl

theorem upsertIdv_meta (ss dfs : Fields) (c3 : Coll) :
    (upsertIdv ss dfs c3).2.docs = c3.docs ∧ (upsertIdv ss dfs c3).2.indexes = c3.indexes ∧
    (upsertIdv ss dfs c3).2.ttlIndexes = c3.ttlIndexes := by
  unfold upsertIdv
  repeat' split
  all_goals exact ⟨rfl, rfl, rfl⟩

theorem afterLoop_err (now : Int) (spec document nowV : Val) (ss dfs : Fields) (upsert : Bool)
    (c3 : Coll) (r3 : R (Nat × Nat)) (c' : Coll) (e : Err)
    (h : afterLoop now spec document nowV ss dfs upsert c3 r3 = (c', .error e)) :
    c'.docs = c3.docs ∧ c'.indexes = c3.indexes ∧ c'.ttlIndexes = c3.ttlIndexes := by
  unfold afterLoop at h
  cases r3 with
  | error e' => cases h; exact ⟨rfl, rfl, rfl⟩
  | ok mu =>
    obtain ⟨matched, updated⟩ := mu
    simp only at h
    split at h
    · cases h
    · have hm := upsertIdv_meta ss dfs c3
      generalize upsertIdv ss dfs c3 = ic at h hm
      split at h
      · cases h; exact hm
      · split at h
        · cases h
          simp only [markStored_docs, markStored_indexes, markStored_ttlIndexes]
          exact hm
        · cases h

theorem update_many_fail (cfg : Cfg) (now : Int) (c c' : Coll) (f u : Val) (up : Bool) (e : Err)
    (hn : c.ttlIndexes = []) (hd : DK c.docs) (hg : GK c.docs)
    (h : applyUpdateColl cfg now c f u up true = (c', .error e)) :
    c'.indexes = c.indexes ∧ c'.ttlIndexes = c.ttlIndexes ∧
    ∃ pre pre' post, c.docs = pre ++ post ∧ c'.docs = pre' ++ post ∧
      List.Forall₂ (Updated (patchDT f) (patchDT u) (patchDT (.date now none))) pre pre' := by
  have triv : c'.docs = c.docs → c'.indexes = c.indexes → c'.ttlIndexes = c.ttlIndexes →
      c'.indexes = c.indexes ∧ c'.ttlIndexes = c.ttlIndexes ∧
      ∃ pre pre' post, c.docs = pre ++ post ∧ c'.docs = pre' ++ post ∧
        List.Forall₂ (Updated (patchDT f) (patchDT u) (patchDT (.date now none))) pre pre' :=
    fun h1 h2 h3 => ⟨h2, h3, [], [], c.docs, rfl, h1, .nil⟩
  rw [applyUpdateColl_eq] at h
  split at h
  · split at h
    · cases h; exact triv rfl rfl rfl
    · split at h
      · cases h; exact triv rfl rfl rfl
      · rename_i c2 hpre
        have h2 := preLoop_nottl now c c2 _ hn hpre
        subst h2
        obtain ⟨h3, h4, h5⟩ := afterLoop_err _ _ _ _ _ _ _ _ _ _ _ h
        obtain ⟨i1, i2, pre, pre', post, j1, j2, j3, _⟩ :=
          many_split now (patchDT f) (patchDT u) (patchDT (.date now none)) c2.docs [] c2 0 0 _ _
            rfl hn hd hg rfl
        refine ⟨h4.trans i1, by rw [h5, i2, hn], pre, pre', post, j1, ?_, j3⟩
        rw [h3, j2]; rfl
  · cases h; exact triv rfl rfl rfl

end MongoModel.Proofs.C08Lemmas
