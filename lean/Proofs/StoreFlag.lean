/-
  Proofs.StoreFlag — the created flag of the collection store (`Coll.forceCreated`): the
  projections of `storeDoc` (`__setitem__`) and `markStored` (a rejected insert), which touch
  that flag only.
-/
import MongoModel.Ops

namespace MongoModel

/-- `__setitem__` differs from the bare dict assignment by the created flag only -/
@[simp] theorem storeDoc_docs (c : Coll) (k d : Val) : (c.storeDoc k d).docs = (c.setDoc k d).docs := rfl
@[simp] theorem storeDoc_indexes (c : Coll) (k d : Val) :
    (c.storeDoc k d).indexes = (c.setDoc k d).indexes := rfl
@[simp] theorem storeDoc_ttlIndexes (c : Coll) (k d : Val) :
    (c.storeDoc k d).ttlIndexes = (c.setDoc k d).ttlIndexes := rfl
@[simp] theorem storeDoc_nextOid (c : Coll) (k d : Val) :
    (c.storeDoc k d).nextOid = (c.setDoc k d).nextOid := rfl
@[simp] theorem storeDoc_forceCreated (c : Coll) (k d : Val) :
    (c.storeDoc k d).forceCreated = true := rfl

/-- marking a rejected insert touches the created flag only -/
@[simp] theorem markStored_docs (c : Coll) (b : Bool) : (c.markStored b).docs = c.docs := by
  cases b <;> rfl
@[simp] theorem markStored_indexes (c : Coll) (b : Bool) : (c.markStored b).indexes = c.indexes := by
  cases b <;> rfl
@[simp] theorem markStored_ttlIndexes (c : Coll) (b : Bool) :
    (c.markStored b).ttlIndexes = c.ttlIndexes := by
  cases b <;> rfl
@[simp] theorem markStored_nextOid (c : Coll) (b : Bool) : (c.markStored b).nextOid = c.nextOid := by
  cases b <;> rfl
@[simp] theorem markStored_false (c : Coll) : c.markStored false = c := rfl
@[simp] theorem markStored_true (c : Coll) : c.markStored true = { c with forceCreated := true } := rfl

theorem markStored_bump (c : Coll) (b : Bool) (n : Nat) :
    ({ c.markStored b with nextOid := n } : Coll) = ({ c with nextOid := n } : Coll).markStored b := by
  cases b <;> rfl

theorem markStored_markStored (c : Coll) (a b : Bool) :
    (c.markStored a).markStored b = c.markStored (a || b) := by
  cases a <;> cases b <;> rfl

theorem markStored_of_flag (c : Coll) (b : Bool) (hf : c.forceCreated = true) :
    c.markStored b = c := by
  cases b with
  | false => rfl
  | true =>
    show ({ c with forceCreated := true } : Coll) = c
    rw [← hf]

/-- on a collection that has an index the mark changes nothing `index_information()` shows -/
theorem indexNames_markStored (c : Coll) (b : Bool) (h : b = true → c.indexes ≠ []) :
    indexNames (c.markStored b) = indexNames c := by
  cases b with
  | false => rfl
  | true =>
    have hi := h rfl
    cases hx : c.indexes with
    | nil => exact absurd hx hi
    | cons i r => simp [indexNames, Coll.isCreated, hx]

/-- where existence is recorded and there is an index, the mark changes nothing at all -/
theorem markStored_of_recorded (c : Coll) (b : Bool) (hr : c.Recorded)
    (h : b = true → c.indexes ≠ []) : c.markStored b = c := by
  cases b with
  | false => rfl
  | true =>
    have hf : c.forceCreated = true := hr (Or.inr (h rfl))
    show ({ c with forceCreated := true } : Coll) = c
    rw [← hf]


end MongoModel
