/-
  C19 — the dict-level consequences of exclusion + lock discipline: `_documents` never changes
  under a reader (`snapshot`), an iteration over it is never disturbed, and no error is ever
  raised by the store's own bookkeeping — also when threads create TTL indexes / drop indexes
  concurrently, because `_ttl_indexes` is only ever walked through a snapshot.
-/
import Proofs.C19Lift
namespace MongoModel.RWLock

/-! ### effects of the non-protocol instructions -/

theorem setDict_docs (sh : Shared) (d : Dict) (v : List Nat) (h : d ≠ .docs) :
    (sh.setDict d v).docs = sh.docs := by
  cases d <;> simp [Shared.setDict] at h ⊢

theorem dictOp_docs {cfg : Cfg} {code sh th ins e} (h : dictOp cfg code sh th ins = some e)
    (hm : mutatesDocs ins = false) : e.sh.docs = sh.docs ∧ e.mutated = false := by
  cases ins with
  | setItem d k =>
    cases d <;> simp [mutatesDocs] at hm <;> simp only [dictOp] at h <;>
      (repeat' split at h) <;> simp at h <;> subst h <;> simp [Shared.setDict]
  | delItem d k n =>
    cases d <;> simp [mutatesDocs] at hm <;> simp only [dictOp] at h <;>
      (repeat' split at h) <;> simp at h <;> subst h <;> simp [Shared.setDict]
  | popItem d k =>
    cases d <;> simp [mutatesDocs] at hm <;> simp only [dictOp] at h <;>
      (repeat' split at h) <;> simp at h <;> subst h <;> simp [Shared.setDict]
  | _ =>
    simp only [dictOp] at h
    first
      | (simp at h; done)
      | ((repeat' split at h) <;> first
          | (simp at h; done)
          | (simp only [Option.some.injEq] at h; subst h; exact ⟨rfl, rfl⟩))

theorem dictOp_dIt {cfg : Cfg} {code sh th ins e} (h : dictOp cfg code sh th ins = some e)
    {p n : Nat} {d : Bool} (hd : e.th.dIt = some (p, n, d)) :
    (ins = .iterBegin .docs ∧ e.th.pc = th.pc + 1 ∧ d = false) ∨
    (∃ p', th.dIt = some (p', n, d) ∧ e.th.pc ∈ keepPcs code th.pc ins) := by
  cases ins with
  | iterBegin dd =>
    cases dd <;> simp only [dictOp] at h <;> simp at h <;> subst h
    · simp [Thread.next] at hd ⊢; exact Or.inl (by simp [hd.2.2])
    · simp [Thread.next] at hd
      exact Or.inr ⟨p, hd, by simp [keepPcs, succPcs, Thread.next]⟩
  | iterNext dd =>
    cases dd <;> simp only [dictOp] at h
    · (repeat' split at h) <;> simp at h <;> subst h <;>
        simp [Thread.raise, Thread.next, Thread.goto] at hd
      · rename_i pos total dirty _ _ _
        obtain ⟨rfl, rfl, rfl⟩ := hd
        exact Or.inr ⟨pos, by assumption, by simp [keepPcs, Thread.next]⟩
      · rename_i hnone
        rw [hnone] at hd; simp at hd
    · simp at h
    · (repeat' split at h) <;> simp at h <;> subst h <;>
        simp [Thread.raise, Thread.next, Thread.goto] at hd <;>
        exact Or.inr ⟨p, hd, by simp [keepPcs, Thread.next, Thread.goto]⟩
  | _ =>
    simp only [dictOp] at h
    first
      | (simp at h; done)
      | ((repeat' split at h) <;> first
          | (simp at h; done)
          | (simp only [Option.some.injEq] at h; subst h;
             first
              | (simp [Thread.raise] at hd; done)
              | exact Or.inr ⟨p, by simpa [Thread.next, Thread.goto] using hd,
                  by simp [keepPcs, succPcs, Thread.next, Thread.goto]⟩))

/-- where a fault recorded by a non-protocol instruction comes from -/
theorem dictOp_newFault {cfg : Cfg} {code sh th ins e} (h : dictOp cfg code sh th ins = some e)
    {f : Fault} (hf : e.th.fault = some f) :
    th.fault = some f ∨
    (f = .docsMutated ∧ ∃ p n, th.dIt = some (p, n, true)) ∨
    (f = .ttlChangedSize ∧ ins = .iterNext .ttl) ∨
    (f = .expiryKeyError ∧ ∃ d k, ins = .delItem d k true) := by
  cases ins with
  | iterNext dd =>
    cases dd <;> simp only [dictOp] at h
    · (repeat' split at h) <;> simp at h <;> subst h
      · exact Or.inl (by simpa [Thread.goto] using hf)
      · rename_i pos total dirty hdit _ hdirty
        rcases raise_fault _ _ _ _ hf with h1 | h1
        · exact Or.inl h1
        · simp at h1; subst h1
          subst hdirty
          exact Or.inr (Or.inl ⟨rfl, pos, total, hdit⟩)
      · exact Or.inl (by simpa [Thread.next] using hf)
      · exact Or.inl (by simpa [Thread.goto] using hf)
    · simp at h
    · (repeat' split at h) <;> simp at h <;> subst h
      · rcases raise_fault _ _ _ _ hf with h1 | h1
        · exact Or.inl h1
        · simp at h1; subst h1
          exact Or.inr (Or.inr (Or.inl ⟨rfl, rfl⟩))
      · exact Or.inl (by simpa [Thread.goto] using hf)
      · exact Or.inl (by simpa [Thread.next] using hf)
      · exact Or.inl (by simpa [Thread.goto] using hf)
  | delItem dd k nested =>
    simp only [dictOp] at h
    (repeat' split at h) <;> simp at h <;> subst h
    · exact Or.inl (by simpa [Thread.next] using hf)
    all_goals
      rcases raise_fault _ _ _ _ hf with h1 | h1
      · exact Or.inl h1
      · first
          | (simp at h1; done)
          | (rename_i hn; subst hn; simp at h1; subst h1
             exact Or.inr (Or.inr (Or.inr ⟨rfl, dd, k, rfl⟩)))
  | _ =>
    simp only [dictOp] at h
    first
      | (simp at h; done)
      | ((repeat' split at h) <;> first
          | (simp at h; done)
          | (simp only [Option.some.injEq] at h; subst h;
             first
              | exact Or.inl (by simpa [Thread.next, Thread.goto] using hf)
              | (rcases raise_fault _ _ _ _ hf with h1 | h1
                 · exact Or.inl h1
                 · simp at h1)))

/-! ### the store-level invariant -/

theorem code_all {cfg : Cfg} {p : Code → Bool} (hnil : p [] = true)
    (h : cfg.codes.all p = true) (t : Nat) : p (cfg.code t) = true := by
  simp only [List.all_eq_true] at h
  unfold Cfg.code
  rcases Nat.lt_or_ge t cfg.codes.length with ht | ht
  · rw [List.getD_eq_getElem?_getD, List.getElem?_eq_getElem ht]
    exact h _ (List.getElem_mem _)
  · rw [List.getD_eq_getElem?_getD, List.getElem?_eq_none ht]
    exact hnil

theorem disciplined_code {cfg : Cfg} (h : cfg.disciplined = true) (t : Nat) :
    docsGuarded (cfg.code t) = true ∧ docsIterScoped (cfg.code t) = true ∧
      noNestedDel (cfg.code t) = true ∧ ttlIterSnapshotted (cfg.code t) = true := by
  have := code_all (p := fun c => docsGuarded c && docsIterScoped c && noNestedDel c &&
    ttlIterSnapshotted c) (by rfl) h t
  simpa [Bool.and_eq_true, and_assoc] using this

theorem inLoop_some {code : Code} {pc : Nat} (h : inDocsLoop code pc = true) :
    ∃ i, code[pc]? = some i := by
  unfold inDocsLoop at h
  cases hc : code[pc]? with
  | none => simp [hc] at h
  | some i => exact ⟨i, rfl⟩

theorem scoped_at {code : Code} (hs : docsIterScoped code = true) {pc : Nat} {i : TInstr}
    (hi : code[pc]? = some i) :
    (inDocsLoop code pc = true → i.ph = .body false ∧ isProto i.op = false ∧
        ∀ pc' ∈ keepPcs code pc i.op, inDocsLoop code pc' = true) ∧
    (i.op = .iterBegin .docs → inDocsLoop code (pc + 1) = true) := by
  have := allIdx_spec _ _ _ hs pc i hi
  simp only [Nat.zero_add, Bool.and_eq_true, Bool.or_eq_true, Bool.not_eq_true',
    List.all_eq_true, beq_iff_eq] at this
  obtain ⟨h1, h2⟩ := this
  constructor
  · intro hl
    rcases h1 with h1 | h1
    · rw [hl] at h1; simp at h1
    · exact ⟨h1.1.1, h1.1.2, h1.2⟩
  · intro hop
    rcases h2 with h2 | h2
    · simp [hop] at h2
    · exact h2

theorem guarded_at {code : Code} (hg : docsGuarded code = true) {pc : Nat} {i : TInstr}
    (hi : code[pc]? = some i) (hm : mutatesDocs i.op = true) : i.ph = .body true := by
  simp only [docsGuarded, List.all_eq_true, Bool.or_eq_true, Bool.not_eq_true', beq_iff_eq] at hg
  rcases hg i (List.mem_of_getElem? hi) with h | h
  · rw [hm] at h; simp at h
  · exact h

theorem exclusion_intro {cfg : Cfg} {s : State} {t u : Nat} (ht : t < s.ths.length)
    (hu : u < s.ths.length) (hne : u ≠ t) (hw : insideW cfg s t = true)
    (hb : insideW cfg s u = true ∨ insideR cfg s u = true) : exclusionViolated cfg s = true := by
  simp only [exclusionViolated, List.any_eq_true, Bool.and_eq_true, tids, List.mem_range,
    bne_iff_ne, Bool.or_eq_true]
  exact ⟨t, ht, hw, u, hu, hne, hb⟩

structure StoreInv (cfg : Cfg) (s : State) : Prop where
  iter : ∀ t th, s.ths[t]? = some th → ∀ p n d, th.dIt = some (p, n, d) →
    d = false ∧ inDocsLoop (cfg.code t) th.pc = true
  nofault : ∀ th ∈ s.ths, th.fault = none

theorem storeInv_init (cfg : Cfg) : StoreInv cfg (initState cfg) := by
  refine ⟨?_, ?_⟩
  · intro t th hth p n d hd
    simp only [initState, List.getElem?_map] at hth
    cases hc : cfg.codes[t]? <;> simp [hc] at hth
    subst hth; simp [Thread.init] at hd
  · intro th hmem
    simp only [initState, List.mem_map] at hmem
    obtain ⟨_, _, rfl⟩ := hmem
    rfl

/-- a thread with a live `_documents` iterator is inside a reader section -/
theorem iter_insideR {cfg : Cfg} (hd : cfg.disciplined = true) {s : State} (hinv : StoreInv cfg s)
    {u : Nat} {thu : Thread} (hu : s.ths[u]? = some thu) {p n : Nat} {d : Bool}
    (hit : thu.dIt = some (p, n, d)) : insideR cfg s u = true := by
  have hl := (hinv.iter u thu hu p n d hit).2
  obtain ⟨i, hi⟩ := inLoop_some hl
  have hph := ((scoped_at (disciplined_code hd u).2.1 hi).1 hl).1
  simp only [insideR, beq_iff_eq]
  rw [tagAt_eq_phaseAt cfg s u thu hu, tagAt, hi]
  exact hph

theorem markDirty_noIter (th : Thread) (h : th.dIt = none) : markDirty th = th := by
  unfold markDirty; rw [h]

theorem mem_set_cases {α} {xs : List α} {t : Nat} {a x : α} (h : x ∈ xs.set t a) :
    x ∈ xs ∨ x = a := List.mem_or_eq_of_mem_set h

theorem storeInv_step {P : Protocol} {cfg : Cfg} (_hc : cfg.conformant P = true)
    (hd : cfg.disciplined = true) {s s' : State} {t : Nat}
    (hex : exclusionViolated cfg s = false) (hnl' : noLockFault s') (hinv : StoreInv cfg s)
    (h : step cfg s t = some s') : StoreInv cfg s' := by
  obtain ⟨th, ins, e, hth, hins, he, hs'⟩ := step_cases h
  have ht : t < s.ths.length := by
    rcases Nat.lt_or_ge t s.ths.length with h' | h'
    · exact h'
    · simp [List.getElem?_eq_none h'] at hth
  have hthmem : th ∈ s.ths := List.mem_of_getElem? hth
  obtain ⟨hguard, hscoped, hnodel, hsnap⟩ := disciplined_code hd t
  have htag : phaseAt cfg s t = ins.ph := by
    rw [tagAt_eq_phaseAt cfg s t th hth, tagAt, hins]
  -- the executing thread has no live iterator when its instruction is a protocol one
  have hproto_noiter : isProto ins.op = true → th.dIt = none := by
    intro hp
    cases hdit : th.dIt with
    | none => rfl
    | some x =>
      obtain ⟨p, n, d⟩ := x
      have hl := (hinv.iter t th hth p n d hdit).2
      have := ((scoped_at hscoped hins).1 hl).2.1
      rw [hp] at this; simp at this
  by_cases hp : isProto ins.op = true
  · rcases exec_proto hp he with ⟨lk', _, hsh, hthn, hmut⟩ | ⟨_, _, hthn, _⟩
    · have hths : s'.ths = s.ths.set t th.next := by rw [hs', hmut, hthn]; rfl
      refine ⟨?_, ?_⟩
      · intro u thu hu p n d hit
        rw [hths, List.getElem?_set] at hu
        by_cases hut : t = u
        · subst hut
          simp only [if_true, ht] at hu
          simp only [Option.some.injEq] at hu; subst hu
          have : th.dIt = some (p, n, d) := hit
          rw [hproto_noiter hp] at this; simp at this
        · simp only [hut, if_false] at hu
          exact hinv.iter u thu hu p n d hit
      · intro x hx
        rw [hths] at hx
        rcases mem_set_cases hx with h1 | h1
        · exact hinv.nofault x h1
        · subst h1; exact hinv.nofault th hthmem
    · -- a failing release: excluded by `noLockFault`
      exfalso
      have hmem : e.th ∈ s'.ths ∨ markDirty e.th ∈ s'.ths := by
        rw [hs']; simp only
        split
        · exact Or.inr (List.mem_map.2 ⟨e.th, List.mem_set ht _, rfl⟩)
        · exact Or.inl (List.mem_set ht _)
      have hfault : e.th.fault = some .lockError := by
        rw [hthn]; simp [Thread.raise, hinv.nofault th hthmem]
      rcases hmem with h1 | h1
      · exact hnl' _ h1 hfault
      · exact hnl' _ h1 (by rw [markDirty_fault]; exact hfault)
  · have hp' : isProto ins.op = false := by simpa using hp
    have hdo := exec_dict hp' he
    -- a mutation of `_documents` happens with no iterator alive anywhere
    have hnoiter : e.mutated = true → ∀ (u : Nat) (thu : Thread), s.ths[u]? = some thu →
        thu.dIt = none := by
      intro hm u thu hu
      have hmd : mutatesDocs ins.op = true := by
        cases hmd : mutatesDocs ins.op with
        | true => rfl
        | false => rw [(dictOp_docs hdo hmd).2] at hm; simp at hm
      have hw : insideW cfg s t = true := by
        simp only [insideW, beq_iff_eq]; rw [htag]; exact guarded_at hguard hins hmd
      cases hdit : thu.dIt with
      | none => rfl
      | some x =>
        obtain ⟨p, n, d⟩ := x
        have hr := iter_insideR hd hinv hu hdit
        have hul : u < s.ths.length := by
          rcases Nat.lt_or_ge u s.ths.length with h' | h'
          · exact h'
          · simp [List.getElem?_eq_none h'] at hu
        by_cases hut : u = t
        · subst hut
          simp only [insideW, insideR, beq_iff_eq] at hw hr
          rw [hw] at hr; simp at hr
        · rw [exclusion_intro ht hul hut hw (Or.inr hr)] at hex; simp at hex
    have hths : s'.ths = s.ths.set t e.th := by
      rw [hs']; simp only
      split
      · rename_i hm
        have hno := hnoiter hm
        have heth : e.th.dIt = none := by
          cases hx : e.th.dIt with
          | none => rfl
          | some x =>
            obtain ⟨p, n, d⟩ := x
            rcases dictOp_dIt hdo hx with ⟨hop, _, _⟩ | ⟨p', hp2, _⟩
            · have hmd : mutatesDocs ins.op = false := by rw [hop]; rfl
              rw [(dictOp_docs hdo hmd).2] at hm; simp at hm
            · rw [hno t th hth] at hp2; simp at hp2
        apply List.ext_getElem?
        intro u
        simp only [List.getElem?_map, List.getElem?_set]
        by_cases hut : t = u
        · subst hut; simp [ht, markDirty_noIter _ heth]
        · simp only [hut, if_false]
          cases hu : s.ths[u]? with
          | none => rfl
          | some thu => simp [markDirty_noIter _ (hno u thu hu)]
      · rfl
    refine ⟨?_, ?_⟩
    · intro u thu hu p n d hit
      rw [hths, List.getElem?_set] at hu
      by_cases hut : t = u
      · subst hut
        simp only [if_true, ht, Option.some.injEq] at hu; subst hu
        rcases dictOp_dIt hdo hit with ⟨hop, hpc, hdf⟩ | ⟨p', hp2, hpc⟩
        · exact ⟨hdf, by rw [hpc]; exact (scoped_at hscoped hins).2 hop⟩
        · obtain ⟨hdf, hl⟩ := hinv.iter t th hth p' n d hp2
          exact ⟨hdf, ((scoped_at hscoped hins).1 hl).2.2 _ hpc⟩
      · simp only [hut, if_false] at hu
        exact hinv.iter u thu hu p n d hit
    · intro x hx
      rw [hths] at hx
      rcases mem_set_cases hx with h1 | h1
      · exact hinv.nofault x h1
      · subst h1
        cases hf : e.th.fault with
        | none => rfl
        | some f =>
          exfalso
          rcases dictOp_newFault hdo hf with h2 | ⟨_, p, n, h2⟩ | ⟨_, h2⟩ | ⟨_, dd, k, h2⟩
          · rw [hinv.nofault th hthmem] at h2; simp at h2
          · have := (hinv.iter t th hth p n true h2).1; simp at this
          · -- the live `_ttl_indexes` dict is never iterated: only snapshots of it are
            simp only [ttlIterSnapshotted, List.all_eq_true, Bool.not_eq_true',
              beq_eq_false_iff_ne] at hsnap
            exact hsnap ins (List.mem_of_getElem? hins) h2
          · simp only [noNestedDel, List.all_eq_true] at hnodel
            have := hnodel ins (List.mem_of_getElem? hins)
            rw [h2] at this; simp at this

theorem reach_storeInv {P : Protocol} {cfg : Cfg} (hc : cfg.conformant P = true)
    (hg : PGood P cfg.codes.length) (hd : cfg.disciplined = true) :
    ∀ s, Reach cfg s → StoreInv cfg s := by
  intro s hr
  induction hr with
  | init => exact storeInv_init cfg
  | step hprev hstep ih =>
    exact storeInv_step hc hd (program_safe hc hg _ hprev).1
      (program_safe hc hg _ (Reach.step hprev hstep)).2.2.2 ih hstep

/-- with the lock discipline in place (which includes: `_ttl_indexes` is walked through snapshots
    only) no reachable state is bad (no exclusion violation, no error of any kind, no leaked
    lock) and none is deadlocked — whatever the threads do to `indexes` / `_ttl_indexes` -/
theorem program_correct {P : Protocol} {cfg : Cfg} (hc : cfg.conformant P = true)
    (hg : PGood P cfg.codes.length) (hd : cfg.disciplined = true)
    (s : State) (hr : Reach cfg s) : bad [] cfg s = false ∧ deadlocked cfg s = false := by
  obtain ⟨hex, hlk, hdl, _⟩ := program_safe hc hg s hr
  have hinv := reach_storeInv hc hg hd s hr
  refine ⟨?_, hdl⟩
  simp only [bad, hex, hlk, Bool.or_false, Bool.false_or]
  simp only [faulted, List.any_eq_false]
  intro th hmem
  rw [hinv.nofault th hmem]
  simp

/-- while some thread is inside a reader section no step of any thread changes `_documents` -/
theorem snapshot {P : Protocol} {cfg : Cfg} (hc : cfg.conformant P = true)
    (hg : PGood P cfg.codes.length) (hd : cfg.disciplined = true) {s s' : State} {t u : Nat}
    (hr : Reach cfg s) (hu : insideR cfg s u = true) (h : step cfg s t = some s') :
    s'.sh.docs = s.sh.docs := by
  obtain ⟨th, ins, e, hth, hins, he, hs'⟩ := step_cases h
  have ht : t < s.ths.length := by
    rcases Nat.lt_or_ge t s.ths.length with h' | h'
    · exact h'
    · simp [List.getElem?_eq_none h'] at hth
  have hul : u < s.ths.length := by
    rcases Nat.lt_or_ge u s.ths.length with h' | h'
    · exact h'
    · simp [insideR, phaseAt, List.getElem?_eq_none h'] at hu
  rw [hs']
  simp only
  by_cases hp : isProto ins.op = true
  · rcases exec_proto hp he with ⟨lk', _, hsh, _, _⟩ | ⟨_, hsh, _, _⟩ <;> rw [hsh]
  · have hp' : isProto ins.op = false := by simpa using hp
    have hdo := exec_dict hp' he
    cases hmd : mutatesDocs ins.op with
    | false => exact (dictOp_docs hdo hmd).1
    | true =>
      exfalso
      have htag : phaseAt cfg s t = ins.ph := by
        rw [tagAt_eq_phaseAt cfg s t th hth, tagAt, hins]
      have hw : insideW cfg s t = true := by
        simp only [insideW, beq_iff_eq]; rw [htag]
        exact guarded_at (disciplined_code hd t).1 hins hmd
      have hex := (program_safe hc hg s hr).1
      by_cases hut : u = t
      · subst hut
        simp only [insideW, insideR, beq_iff_eq] at hw hu
        rw [hw] at hu; simp at hu
      · rw [exclusion_intro ht hul hut hw (Or.inr hu)] at hex; simp at hex

end MongoModel.RWLock
