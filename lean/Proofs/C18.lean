/-
  Proofs.C18 — lemmas and proofs behind Props/C18.lean (datetime normalisation).
  Everything here is by mutual structural induction over the nested `Val` / `Fields` /
  `List Val`; arithmetic on microseconds is linear with literal divisors (`omega`).
-/
import MongoModel.DateTime
import MongoModel.Filter

namespace MongoModel.Proofs.C18
open MongoModel

/-! ### arithmetic -/

theorem floorMs_idem (x : Int) : floorMs (floorMs x) = floorMs x := by
  unfold floorMs; omega

theorem floorMs_mod (x : Int) : floorMs x % 1000 = 0 := by
  unfold floorMs; omega

theorem floorMs_of_mod {x : Int} (h : x % 1000 = 0) : floorMs x = x := by
  unfold floorMs; omega

theorem floorMs_eq_iff (x y : Int) : floorMs x = floorMs y ↔ x / 1000 = y / 1000 := by
  unfold floorMs; omega

theorem floorMs_le (x : Int) : floorMs x ≤ x ∧ x < floorMs x + 1000 := by
  unfold floorMs; omega

/-! ### access commutes with the rebuilding maps -/

theorem dget_patchFields (k : String) : ∀ fs : Fields,
    dget k (patchFields fs) = (dget k fs).map patch
  | [] => rfl
  | (k', v) :: r => by
    by_cases h : k' = k <;> simp [patchFields, dget, h, dget_patchFields k r]

theorem dget_makeAwareFields (k : String) : ∀ fs : Fields,
    dget k (makeAwareFields fs) = (dget k fs).map makeAware
  | [] => rfl
  | (k', v) :: r => by
    by_cases h : k' = k <;> simp [makeAwareFields, dget, h, dget_makeAwareFields k r]

theorem patchList_eq_map : ∀ xs : List Val, patchList xs = xs.map patch
  | [] => rfl
  | x :: r => by simp [patchList, patchList_eq_map r]

theorem makeAwareList_eq_map : ∀ xs : List Val, makeAwareList xs = xs.map makeAware
  | [] => rfl
  | x :: r => by simp [makeAwareList, makeAwareList_eq_map r]

theorem patchFields_eq_map : ∀ fs : Fields, patchFields fs = fs.map (fun kv => (kv.1, patch kv.2))
  | [] => rfl
  | (k, v) :: r => by simp [patchFields, patchFields_eq_map r]

theorem makeAwareFields_eq_map :
    ∀ fs : Fields, makeAwareFields fs = fs.map (fun kv => (kv.1, makeAware kv.2))
  | [] => rfl
  | (k, v) :: r => by simp [makeAwareFields, makeAwareFields_eq_map r]

theorem dkeys_patchFields (fs : Fields) : dkeys (patchFields fs) = dkeys fs := by
  simp [dkeys, patchFields_eq_map, List.map_map, Function.comp_def]

theorem dkeys_makeAwareFields (fs : Fields) : dkeys (makeAwareFields fs) = dkeys fs := by
  simp [dkeys, makeAwareFields_eq_map, List.map_map, Function.comp_def]

theorem length_patchFields (fs : Fields) : (patchFields fs).length = fs.length := by
  simp [patchFields_eq_map]

theorem length_patchList (xs : List Val) : (patchList xs).length = xs.length := by
  simp [patchList_eq_map]

theorem getElem?_patchList (xs : List Val) (i : Nat) :
    (patchList xs)[i]? = (xs[i]?).map patch := by
  simp [patchList_eq_map]

theorem getElem?_makeAwareList (xs : List Val) (i : Nat) :
    (makeAwareList xs)[i]? = (xs[i]?).map makeAware := by
  simp [makeAwareList_eq_map]

/-! ### AllDates as a statement about members -/

theorem allDatesF_iff (P : DatePred) : ∀ fs : Fields,
    AllDatesF P fs ↔ ∀ kv ∈ fs, AllDates P kv.2
  | [] => by simp [AllDatesF]
  | (k, v) :: r => by simp [AllDatesF, allDatesF_iff P r]

theorem allDatesL_iff (P : DatePred) : ∀ xs : List Val,
    AllDatesL P xs ↔ ∀ x ∈ xs, AllDates P x
  | [] => by simp [AllDatesL]
  | x :: r => by simp [AllDatesL, allDatesL_iff P r]

mutual
  theorem allDatesB_iff (p : Int → Option Int → Bool) : ∀ v : Val,
      allDatesB p v = true ↔ AllDates (fun u o => p u o = true) v
    | .null => by simp [allDatesB, AllDates]
    | .bool _ => by simp [allDatesB, AllDates]
    | .int _ => by simp [allDatesB, AllDates]
    | .dbl _ _ => by simp [allDatesB, AllDates]
    | .str _ => by simp [allDatesB, AllDates]
    | .oid _ => by simp [allDatesB, AllDates]
    | .date _ _ => by simp [allDatesB, AllDates]
    | .doc fs => by simp [allDatesB, AllDates, allDatesFB_iff p fs]
    | .arr xs => by simp [allDatesB, AllDates, allDatesLB_iff p xs]
  theorem allDatesFB_iff (p : Int → Option Int → Bool) : ∀ fs : Fields,
      allDatesFB p fs = true ↔ AllDatesF (fun u o => p u o = true) fs
    | [] => by simp [allDatesFB, AllDatesF]
    | (_, v) :: r => by simp [allDatesFB, AllDatesF, allDatesB_iff p v, allDatesFB_iff p r]
  theorem allDatesLB_iff (p : Int → Option Int → Bool) : ∀ xs : List Val,
      allDatesLB p xs = true ↔ AllDatesL (fun u o => p u o = true) xs
    | [] => by simp [allDatesLB, AllDatesL]
    | x :: r => by simp [allDatesLB, AllDatesL, allDatesB_iff p x, allDatesLB_iff p r]
end

mutual
  /-- `AllDates` is monotone in the predicate -/
  theorem allDates_mono {P Q : DatePred} (h : ∀ u o, P u o → Q u o) : ∀ v : Val,
      AllDates P v → AllDates Q v
    | .null => by simp [AllDates]
    | .bool _ => by simp [AllDates]
    | .int _ => by simp [AllDates]
    | .dbl _ _ => by simp [AllDates]
    | .str _ => by simp [AllDates]
    | .oid _ => by simp [AllDates]
    | .date u o => by simpa [AllDates] using h u o
    | .doc fs => by simpa [AllDates] using allDatesF_mono h fs
    | .arr xs => by simpa [AllDates] using allDatesL_mono h xs
  theorem allDatesF_mono {P Q : DatePred} (h : ∀ u o, P u o → Q u o) : ∀ fs : Fields,
      AllDatesF P fs → AllDatesF Q fs
    | [] => by simp [AllDatesF]
    | (_, v) :: r => by
      simp only [AllDatesF]
      exact fun ⟨a, b⟩ => ⟨allDates_mono h v a, allDatesF_mono h r b⟩
  theorem allDatesL_mono {P Q : DatePred} (h : ∀ u o, P u o → Q u o) : ∀ xs : List Val,
      AllDatesL P xs → AllDatesL Q xs
    | [] => by simp [AllDatesL]
    | x :: r => by
      simp only [AllDatesL]
      exact fun ⟨a, b⟩ => ⟨allDates_mono h x a, allDatesL_mono h r b⟩
end

theorem normalB_iff (u : Int) (o : Option Int) : normalB u o = true ↔ Normal u o := by
  cases o <;> simp [normalB, Normal]

theorem allNormalB_iff (v : Val) : allDatesB normalB v = true ↔ AllDates Normal v := by
  rw [allDatesB_iff]
  constructor
  · exact allDates_mono (fun u o h => (normalB_iff u o).1 h) v
  · exact allDates_mono (fun u o h => (normalB_iff u o).2 h) v

/-! ### patch: idempotent, lands in the normal form, fixes the normal form -/

mutual
  theorem patch_idem : ∀ v : Val, patch (patch v) = patch v
    | .null => rfl
    | .bool _ => rfl
    | .int _ => rfl
    | .dbl _ _ => rfl
    | .str _ => rfl
    | .oid _ => rfl
    | .date us off => by simp [patch, dateUtc, floorMs_idem]
    | .doc fs => by simp [patch, patchFields_idem fs]
    | .arr xs => by simp [patch, patchList_idem xs]
  theorem patchFields_idem : ∀ fs : Fields, patchFields (patchFields fs) = patchFields fs
    | [] => rfl
    | (k, v) :: r => by simp [patchFields, patch_idem v, patchFields_idem r]
  theorem patchList_idem : ∀ xs : List Val, patchList (patchList xs) = patchList xs
    | [] => rfl
    | x :: r => by simp [patchList, patch_idem x, patchList_idem r]
end

mutual
  theorem patch_normal : ∀ v : Val, AllDates Normal (patch v)
    | .null => by simp [patch, AllDates]
    | .bool _ => by simp [patch, AllDates]
    | .int _ => by simp [patch, AllDates]
    | .dbl _ _ => by simp [patch, AllDates]
    | .str _ => by simp [patch, AllDates]
    | .oid _ => by simp [patch, AllDates]
    | .date us off => by simp [patch, AllDates, Normal, floorMs_mod]
    | .doc fs => by simpa [patch, AllDates] using patchFields_normal fs
    | .arr xs => by simpa [patch, AllDates] using patchList_normal xs
  theorem patchFields_normal : ∀ fs : Fields, AllDatesF Normal (patchFields fs)
    | [] => by simp [patchFields, AllDatesF]
    | (_, v) :: r => by
      simp only [patchFields, AllDatesF]; exact ⟨patch_normal v, patchFields_normal r⟩
  theorem patchList_normal : ∀ xs : List Val, AllDatesL Normal (patchList xs)
    | [] => by simp [patchList, AllDatesL]
    | x :: r => by
      simp only [patchList, AllDatesL]; exact ⟨patch_normal x, patchList_normal r⟩
end

mutual
  theorem patch_fixes_normal : ∀ v : Val, AllDates Normal v → patch v = v
    | .null, _ => rfl
    | .bool _, _ => rfl
    | .int _, _ => rfl
    | .dbl _ _, _ => rfl
    | .str _, _ => rfl
    | .oid _, _ => rfl
    | .date us off, h => by
      simp only [AllDates, Normal] at h
      obtain ⟨rfl, hm⟩ := h
      simp [patch, dateUtc, floorMs_of_mod hm]
    | .doc fs, h => by
      simp only [AllDates] at h
      simp [patch, patchFields_fixes_normal fs h]
    | .arr xs, h => by
      simp only [AllDates] at h
      simp [patch, patchList_fixes_normal xs h]
  theorem patchFields_fixes_normal : ∀ fs : Fields, AllDatesF Normal fs → patchFields fs = fs
    | [], _ => rfl
    | (k, v) :: r, h => by
      simp only [AllDatesF] at h
      simp [patchFields, patch_fixes_normal v h.1, patchFields_fixes_normal r h.2]
  theorem patchList_fixes_normal : ∀ xs : List Val, AllDatesL Normal xs → patchList xs = xs
    | [], _ => rfl
    | x :: r, h => by
      simp only [AllDatesL] at h
      simp [patchList, patch_fixes_normal x h.1, patchList_fixes_normal r h.2]
end

/-- the normal form is exactly the set of fixed points -/
theorem patch_fixed_iff (v : Val) : patch v = v ↔ AllDates Normal v :=
  ⟨fun h => h ▸ patch_normal v, patch_fixes_normal v⟩

/-! ### patch identifies exactly the datetimes of one millisecond -/

theorem patch_instant (u : Int) (o : Option Int) (u' : Int) (o' : Option Int) :
    patch (.date u o) = patch (.date u' o') ↔ sameMillisecond (.date u o) (.date u' o') := by
  simp [patch, sameMillisecond, msOf, floorMs_eq_iff]

/-- the stored value denotes the millisecond of the input -/
theorem patch_keeps_ms (u : Int) (o : Option Int) :
    sameMillisecond (patch (.date u o)) (.date u o) := by
  simp only [patch, sameMillisecond, msOf, dateUtc, floorMs]
  omega

/-- the stored wall clock is the UTC instant of the input, rounded down by less than 1 ms -/
theorem patch_date_bounds (u : Int) (o : Option Int) :
    ∃ m, patch (.date u o) = .date m none ∧ m % 1000 = 0 ∧ m ≤ dateUtc u o ∧ dateUtc u o < m + 1000 :=
  ⟨floorMs (dateUtc u o), by simp [patch], floorMs_mod _, (floorMs_le _).1, (floorMs_le _).2⟩

mutual
  theorem patch_eq_of_sameMs : ∀ a b : Val, SameMs a b → patch a = patch b
    | .null, b, h => by simp only [SameMs] at h; subst h; rfl
    | .bool _, b, h => by simp only [SameMs] at h; subst h; rfl
    | .int _, b, h => by simp only [SameMs] at h; subst h; rfl
    | .dbl _ _, b, h => by simp only [SameMs] at h; subst h; rfl
    | .str _, b, h => by simp only [SameMs] at h; subst h; rfl
    | .oid _, b, h => by simp only [SameMs] at h; subst h; rfl
    | .date u o, b, h => by
      simp only [SameMs] at h
      obtain ⟨u', o', rfl, hm⟩ := h
      exact (patch_instant u o u' o').2 hm
    | .doc fs, b, h => by
      simp only [SameMs] at h
      obtain ⟨gs, rfl, hf⟩ := h
      simp [patch, patchFields_eq_of_sameMs fs gs hf]
    | .arr xs, b, h => by
      simp only [SameMs] at h
      obtain ⟨ys, rfl, hl⟩ := h
      simp [patch, patchList_eq_of_sameMs xs ys hl]
  theorem patchFields_eq_of_sameMs : ∀ fs gs : Fields, SameMsF fs gs → patchFields fs = patchFields gs
    | [], gs, h => by simp only [SameMsF] at h; subst h; rfl
    | (k, v) :: r, gs, h => by
      simp only [SameMsF] at h
      obtain ⟨v', r', rfl, hv, hr⟩ := h
      simp [patchFields, patch_eq_of_sameMs v v' hv, patchFields_eq_of_sameMs r r' hr]
  theorem patchList_eq_of_sameMs : ∀ xs ys : List Val, SameMsL xs ys → patchList xs = patchList ys
    | [], ys, h => by simp only [SameMsL] at h; subst h; rfl
    | x :: r, ys, h => by
      simp only [SameMsL] at h
      obtain ⟨y, r', rfl, hx, hr⟩ := h
      simp [patchList, patch_eq_of_sameMs x y hx, patchList_eq_of_sameMs r r' hr]
end

mutual
  theorem sameMs_of_patch_eq : ∀ a b : Val, patch a = patch b → SameMs a b
    | .null, b, h => by cases b <;> simp_all [patch, SameMs]
    | .bool _, b, h => by cases b <;> simp_all [patch, SameMs]
    | .int _, b, h => by cases b <;> simp_all [patch, SameMs]
    | .dbl _ _, b, h => by cases b <;> simp_all [patch, SameMs]
    | .str _, b, h => by cases b <;> simp_all [patch, SameMs]
    | .oid _, b, h => by cases b <;> simp_all [patch, SameMs]
    | .date u o, b, h => by
      cases b with
      | date u' o' =>
        have := (patch_instant u o u' o').1 h
        simp only [SameMs]
        exact ⟨u', o', rfl, this⟩
      | _ => simp [patch] at h
    | .doc fs, b, h => by
      cases b with
      | doc gs =>
        simp only [patch, Val.doc.injEq] at h
        simpa [SameMs] using sameMsF_of_patch_eq fs gs h
      | _ => simp [patch] at h
    | .arr xs, b, h => by
      cases b with
      | arr ys =>
        simp only [patch, Val.arr.injEq] at h
        simpa [SameMs] using sameMsL_of_patch_eq xs ys h
      | _ => simp [patch] at h
  theorem sameMsF_of_patch_eq : ∀ fs gs : Fields, patchFields fs = patchFields gs → SameMsF fs gs
    | [], gs, h => by cases gs with
      | nil => simp [SameMsF]
      | cons g r' => obtain ⟨k', v'⟩ := g; simp [patchFields] at h
    | (k, v) :: r, gs, h => by
      cases gs with
      | nil => simp [patchFields] at h
      | cons g r' =>
        obtain ⟨k', v'⟩ := g
        simp only [patchFields, List.cons.injEq, Prod.mk.injEq] at h
        obtain ⟨⟨rfl, hv⟩, hr⟩ := h
        simp only [SameMsF]
        exact ⟨v', r', rfl, sameMs_of_patch_eq v v' hv, sameMsF_of_patch_eq r r' hr⟩
  theorem sameMsL_of_patch_eq : ∀ xs ys : List Val, patchList xs = patchList ys → SameMsL xs ys
    | [], ys, h => by cases ys with
      | nil => simp [SameMsL]
      | cons y r' => simp [patchList] at h
    | x :: r, ys, h => by
      cases ys with
      | nil => simp [patchList] at h
      | cons y r' =>
        simp only [patchList, List.cons.injEq] at h
        simp only [SameMsL]
        exact ⟨y, r', rfl, sameMs_of_patch_eq x y h.1, sameMsL_of_patch_eq r r' h.2⟩
end

theorem patch_eq_iff_sameMs (a b : Val) : patch a = patch b ↔ SameMs a b :=
  ⟨sameMs_of_patch_eq a b, patch_eq_of_sameMs a b⟩

theorem sameMs_patch (v : Val) : SameMs v (patch v) :=
  sameMs_of_patch_eq v (patch v) (patch_idem v).symm

/-! ### patch changes nothing but datetimes -/

mutual
  theorem shape_patch : ∀ v : Val, shape (patch v) = shape v
    | .null => rfl
    | .bool _ => rfl
    | .int _ => rfl
    | .dbl _ _ => rfl
    | .str _ => rfl
    | .oid _ => rfl
    | .date _ _ => rfl
    | .doc fs => by simp [patch, shape, shapeFields_patch fs]
    | .arr xs => by simp [patch, shape, shapeList_patch xs]
  theorem shapeFields_patch : ∀ fs : Fields, shapeFields (patchFields fs) = shapeFields fs
    | [] => rfl
    | (k, v) :: r => by simp [patchFields, shapeFields, shape_patch v, shapeFields_patch r]
  theorem shapeList_patch : ∀ xs : List Val, shapeList (patchList xs) = shapeList xs
    | [] => rfl
    | x :: r => by simp [patchList, shapeList, shape_patch x, shapeList_patch r]
end

mutual
  theorem shape_makeAware : ∀ v : Val, shape (makeAware v) = shape v
    | .null => rfl
    | .bool _ => rfl
    | .int _ => rfl
    | .dbl _ _ => rfl
    | .str _ => rfl
    | .oid _ => rfl
    | .date _ _ => rfl
    | .doc fs => by simp [makeAware, shape, shapeFields_makeAware fs]
    | .arr xs => by simp [makeAware, shape, shapeList_makeAware xs]
  theorem shapeFields_makeAware : ∀ fs : Fields, shapeFields (makeAwareFields fs) = shapeFields fs
    | [] => rfl
    | (k, v) :: r => by
      simp [makeAwareFields, shapeFields, shape_makeAware v, shapeFields_makeAware r]
  theorem shapeList_makeAware : ∀ xs : List Val, shapeList (makeAwareList xs) = shapeList xs
    | [] => rfl
    | x :: r => by simp [makeAwareList, shapeList, shape_makeAware x, shapeList_makeAware r]
end

mutual
  /-- the datetimes of the result are the patched datetimes of the input, position by position -/
  theorem datesOf_patch : ∀ v : Val,
      datesOf (patch v) = (datesOf v).map (fun d => (floorMs (dateUtc d.1 d.2), none))
    | .null => rfl
    | .bool _ => rfl
    | .int _ => rfl
    | .dbl _ _ => rfl
    | .str _ => rfl
    | .oid _ => rfl
    | .date _ _ => rfl
    | .doc fs => by simpa [patch, datesOf] using datesOfF_patch fs
    | .arr xs => by simpa [patch, datesOf] using datesOfL_patch xs
  theorem datesOfF_patch : ∀ fs : Fields,
      datesOfF (patchFields fs) = (datesOfF fs).map (fun d => (floorMs (dateUtc d.1 d.2), none))
    | [] => rfl
    | (_, v) :: r => by simp [patchFields, datesOfF, datesOf_patch v, datesOfF_patch r]
  theorem datesOfL_patch : ∀ xs : List Val,
      datesOfL (patchList xs) = (datesOfL xs).map (fun d => (floorMs (dateUtc d.1 d.2), none))
    | [] => rfl
    | x :: r => by simp [patchList, datesOfL, datesOf_patch x, datesOfL_patch r]
end

mutual
  theorem datesOf_makeAware : ∀ v : Val,
      datesOf (makeAware v) = (datesOf v).map (fun d => (d.1, some 0))
    | .null => rfl
    | .bool _ => rfl
    | .int _ => rfl
    | .dbl _ _ => rfl
    | .str _ => rfl
    | .oid _ => rfl
    | .date _ _ => rfl
    | .doc fs => by simpa [makeAware, datesOf] using datesOfF_makeAware fs
    | .arr xs => by simpa [makeAware, datesOf] using datesOfL_makeAware xs
  theorem datesOfF_makeAware : ∀ fs : Fields,
      datesOfF (makeAwareFields fs) = (datesOfF fs).map (fun d => (d.1, some 0))
    | [] => rfl
    | (_, v) :: r => by
      simp [makeAwareFields, datesOfF, datesOf_makeAware v, datesOfF_makeAware r]
  theorem datesOfL_makeAware : ∀ xs : List Val,
      datesOfL (makeAwareList xs) = (datesOfL xs).map (fun d => (d.1, some 0))
    | [] => rfl
    | x :: r => by simp [makeAwareList, datesOfL, datesOf_makeAware x, datesOfL_makeAware r]
end

mutual
  /-- a value is determined by its shape and its datetimes: `shape` and `datesOf` together lose
      nothing, so "`shape` kept and `datesOf` mapped" is a complete description of `patch` -/
  theorem eq_of_shape_dates : ∀ a b : Val, shape a = shape b → datesOf a = datesOf b → a = b
    | .null, b, h, _ => by cases b <;> simp_all [shape]
    | .bool _, b, h, _ => by cases b <;> simp_all [shape]
    | .int _, b, h, _ => by cases b <;> simp_all [shape]
    | .dbl _ _, b, h, _ => by cases b <;> simp_all [shape]
    | .str _, b, h, _ => by cases b <;> simp_all [shape]
    | .oid _, b, h, _ => by cases b <;> simp_all [shape]
    | .date u o, b, h, hd => by cases b <;> simp_all [shape, datesOf]
    | .doc fs, b, h, hd => by
      cases b with
      | doc gs =>
        simp only [shape, Val.doc.injEq] at h
        simp only [datesOf] at hd
        rw [eq_of_shapeF_dates fs gs h hd]
      | _ => simp [shape] at h
    | .arr xs, b, h, hd => by
      cases b with
      | arr ys =>
        simp only [shape, Val.arr.injEq] at h
        simp only [datesOf] at hd
        rw [eq_of_shapeL_dates xs ys h hd]
      | _ => simp [shape] at h
  theorem eq_of_shapeF_dates : ∀ fs gs : Fields, shapeFields fs = shapeFields gs →
      datesOfF fs = datesOfF gs → fs = gs
    | [], gs, h, _ => by cases gs with
      | nil => rfl
      | cons g r => obtain ⟨k, v⟩ := g; simp [shapeFields] at h
    | (k, v) :: r, gs, h, hd => by
      cases gs with
      | nil => simp [shapeFields] at h
      | cons g r' =>
        obtain ⟨k', v'⟩ := g
        simp only [shapeFields, List.cons.injEq, Prod.mk.injEq] at h
        obtain ⟨⟨rfl, hv⟩, hr⟩ := h
        simp only [datesOfF] at hd
        have hlen : (datesOf v).length = (datesOf v').length := datesOf_length_of_shape v v' hv
        have := List.append_inj hd hlen
        have e1 := eq_of_shape_dates v v' hv this.1
        have e2 := eq_of_shapeF_dates r r' hr this.2
        simp [e1, e2]
  theorem eq_of_shapeL_dates : ∀ xs ys : List Val, shapeList xs = shapeList ys →
      datesOfL xs = datesOfL ys → xs = ys
    | [], ys, h, _ => by cases ys with
      | nil => rfl
      | cons y r => simp [shapeList] at h
    | x :: r, ys, h, hd => by
      cases ys with
      | nil => simp [shapeList] at h
      | cons y r' =>
        simp only [shapeList, List.cons.injEq] at h
        simp only [datesOfL] at hd
        have hlen : (datesOf x).length = (datesOf y).length := datesOf_length_of_shape x y h.1
        have := List.append_inj hd hlen
        have e1 := eq_of_shape_dates x y h.1 this.1
        have e2 := eq_of_shapeL_dates r r' h.2 this.2
        simp [e1, e2]
  theorem datesOf_length_of_shape : ∀ a b : Val, shape a = shape b →
      (datesOf a).length = (datesOf b).length
    | .null, b, h => by cases b <;> simp_all [shape, datesOf]
    | .bool _, b, h => by cases b <;> simp_all [shape, datesOf]
    | .int _, b, h => by cases b <;> simp_all [shape, datesOf]
    | .dbl _ _, b, h => by cases b <;> simp_all [shape, datesOf]
    | .str _, b, h => by cases b <;> simp_all [shape, datesOf]
    | .oid _, b, h => by cases b <;> simp_all [shape, datesOf]
    | .date _ _, b, h => by cases b <;> simp_all [shape, datesOf]
    | .doc fs, b, h => by
      cases b with
      | doc gs =>
        simp only [shape, Val.doc.injEq] at h
        simpa [datesOf] using datesOfF_length_of_shape fs gs h
      | _ => simp [shape] at h
    | .arr xs, b, h => by
      cases b with
      | arr ys =>
        simp only [shape, Val.arr.injEq] at h
        simpa [datesOf] using datesOfL_length_of_shape xs ys h
      | _ => simp [shape] at h
  theorem datesOfF_length_of_shape : ∀ fs gs : Fields, shapeFields fs = shapeFields gs →
      (datesOfF fs).length = (datesOfF gs).length
    | [], gs, h => by cases gs with
      | nil => rfl
      | cons g r => obtain ⟨k, v⟩ := g; simp [shapeFields] at h
    | (k, v) :: r, gs, h => by
      cases gs with
      | nil => simp [shapeFields] at h
      | cons g r' =>
        obtain ⟨k', v'⟩ := g
        simp only [shapeFields, List.cons.injEq, Prod.mk.injEq] at h
        simp [datesOfF, datesOf_length_of_shape v v' h.1.2, datesOfF_length_of_shape r r' h.2]
  theorem datesOfL_length_of_shape : ∀ xs ys : List Val, shapeList xs = shapeList ys →
      (datesOfL xs).length = (datesOfL ys).length
    | [], ys, h => by cases ys with
      | nil => rfl
      | cons y r => simp [shapeList] at h
    | x :: r, ys, h => by
      cases ys with
      | nil => simp [shapeList] at h
      | cons y r' =>
        simp only [shapeList, List.cons.injEq] at h
        simp [datesOfL, datesOf_length_of_shape x y h.1, datesOfL_length_of_shape r r' h.2]
end

/-- a value that is neither a datetime nor a container is untouched -/
theorem patch_leaf (v : Val) (hd : v.isDate = false) (hdoc : v.isDoc = false)
    (harr : v.isArr = false) : patch v = v := by
  cases v <;> simp_all [patch, Val.isDate, Val.isDoc, Val.isArr]

/-! ### makeAware -/

mutual
  theorem makeAware_utc : ∀ v : Val, AllDates AwareUtc (makeAware v)
    | .null => by simp [makeAware, AllDates]
    | .bool _ => by simp [makeAware, AllDates]
    | .int _ => by simp [makeAware, AllDates]
    | .dbl _ _ => by simp [makeAware, AllDates]
    | .str _ => by simp [makeAware, AllDates]
    | .oid _ => by simp [makeAware, AllDates]
    | .date _ _ => by simp [makeAware, AllDates, AwareUtc]
    | .doc fs => by simpa [makeAware, AllDates] using makeAwareFields_utc fs
    | .arr xs => by simpa [makeAware, AllDates] using makeAwareList_utc xs
  theorem makeAwareFields_utc : ∀ fs : Fields, AllDatesF AwareUtc (makeAwareFields fs)
    | [] => by simp [makeAwareFields, AllDatesF]
    | (_, v) :: r => by
      simp only [makeAwareFields, AllDatesF]; exact ⟨makeAware_utc v, makeAwareFields_utc r⟩
  theorem makeAwareList_utc : ∀ xs : List Val, AllDatesL AwareUtc (makeAwareList xs)
    | [] => by simp [makeAwareList, AllDatesL]
    | x :: r => by
      simp only [makeAwareList, AllDatesL]; exact ⟨makeAware_utc x, makeAwareList_utc r⟩
end

mutual
  /-- writing back what a tz_aware client read gives the stored value again -/
  theorem patch_makeAware : ∀ v : Val, AllDates Normal v → patch (makeAware v) = v
    | .null, _ => rfl
    | .bool _, _ => rfl
    | .int _, _ => rfl
    | .dbl _ _, _ => rfl
    | .str _, _ => rfl
    | .oid _, _ => rfl
    | .date us off, h => by
      simp only [AllDates, Normal] at h
      obtain ⟨rfl, hm⟩ := h
      simp [makeAware, patch, dateUtc, floorMs_of_mod hm]
    | .doc fs, h => by
      simp only [AllDates] at h
      simp [makeAware, patch, patchFields_makeAware fs h]
    | .arr xs, h => by
      simp only [AllDates] at h
      simp [makeAware, patch, patchList_makeAware xs h]
  theorem patchFields_makeAware : ∀ fs : Fields, AllDatesF Normal fs →
      patchFields (makeAwareFields fs) = fs
    | [], _ => rfl
    | (k, v) :: r, h => by
      simp only [AllDatesF] at h
      simp [makeAwareFields, patchFields, patch_makeAware v h.1, patchFields_makeAware r h.2]
  theorem patchList_makeAware : ∀ xs : List Val, AllDatesL Normal xs →
      patchList (makeAwareList xs) = xs
    | [], _ => rfl
    | x :: r, h => by
      simp only [AllDatesL] at h
      simp [makeAwareList, patchList, patch_makeAware x h.1, patchList_makeAware r h.2]
end

mutual
  /-- `AllDates P` says exactly that every entry of `datesOf` satisfies `P` -/
  theorem allDates_iff_dates (P : DatePred) : ∀ v : Val,
      AllDates P v ↔ ∀ d ∈ datesOf v, P d.1 d.2
    | .null => by simp [AllDates, datesOf]
    | .bool _ => by simp [AllDates, datesOf]
    | .int _ => by simp [AllDates, datesOf]
    | .dbl _ _ => by simp [AllDates, datesOf]
    | .str _ => by simp [AllDates, datesOf]
    | .oid _ => by simp [AllDates, datesOf]
    | .date _ _ => by simp [AllDates, datesOf]
    | .doc fs => by simpa [AllDates, datesOf] using allDatesF_iff_dates P fs
    | .arr xs => by simpa [AllDates, datesOf] using allDatesL_iff_dates P xs
  theorem allDatesF_iff_dates (P : DatePred) : ∀ fs : Fields,
      AllDatesF P fs ↔ ∀ d ∈ datesOfF fs, P d.1 d.2
    | [] => by simp [AllDatesF, datesOfF]
    | (_, v) :: r => by
      simp only [AllDatesF, datesOfF, List.mem_append, allDates_iff_dates P v,
        allDatesF_iff_dates P r]
      constructor
      · rintro ⟨a, b⟩ d (h | h)
        · exact a d h
        · exact b d h
      · exact fun h => ⟨fun d hd => h d (Or.inl hd), fun d hd => h d (Or.inr hd)⟩
  theorem allDatesL_iff_dates (P : DatePred) : ∀ xs : List Val,
      AllDatesL P xs ↔ ∀ d ∈ datesOfL xs, P d.1 d.2
    | [] => by simp [AllDatesL, datesOfL]
    | x :: r => by
      simp only [AllDatesL, datesOfL, List.mem_append, allDates_iff_dates P x,
        allDatesL_iff_dates P r]
      constructor
      · rintro ⟨a, b⟩ d (h | h)
        · exact a d h
        · exact b d h
      · exact fun h => ⟨fun d hd => h d (Or.inl hd), fun d hd => h d (Or.inr hd)⟩
end

/-- for naive inputs the UTC instants are kept, position by position -/
theorem makeAware_same_instant (v : Val) (h : AllDates Naive v) :
    (datesOf (makeAware v)).map (fun d => dateUtc d.1 d.2)
      = (datesOf v).map (fun d => dateUtc d.1 d.2) := by
  rw [datesOf_makeAware, List.map_map]
  apply List.map_congr_left
  intro d hd
  have hn : d.2 = none := (allDates_iff_dates Naive v).1 h d hd
  obtain ⟨u, o⟩ := d
  simp only at hn
  subst hn
  simp [dateUtc]

end MongoModel.Proofs.C18
