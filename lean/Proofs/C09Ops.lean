/-
  Proofs.C09Ops — every data operation starts by expiring: running it on `c` or on
  `expire now c` gives the same outcome and the same collection up to a further expiry pass.
-/
import Proofs.C09Expire

namespace MongoModel.Proofs.C09Lemmas
open MongoModel MongoModel.Spec

/-- same outcome, same collection as far as a later pass at that clock can tell -/
def Rel (now : Int) (x y : Coll × Out) : Prop :=
  x.2 = y.2 ∧ expire now x.1 = expire now y.1

/-- results of the store entry points: identical, or the same early error with the input
    collection returned untouched -/
def Agree {α : Type} (c c' : Coll) (x y : Coll × R α) : Prop :=
  x = y ∨ ∃ e, x = (c, .error e) ∧ y = (c', .error e)

section
variable {now : Int} {c c' : Coll}

theorem rel_base (h : expire now c = .ok c') (o : Out) : Rel now (c, o) (c', o) :=
  ⟨rfl, by rw [h, expire_idem now c c' h]⟩

theorem rel_of_agree {α : Type} (h : expire now c = .ok c') (g : R α → Out) {x y : Coll × R α}
    (hA : Agree c c' x y) : Rel now (x.1, g x.2) (y.1, g y.2) := by
  rcases hA with rfl | ⟨e, rfl, rfl⟩
  · exact ⟨rfl, rfl⟩
  · exact rel_base h _

/-! ### reads and delete -/

theorem iter_eq (h : expire now c = .ok c') (f : Val) :
    iterDocuments now c f = iterDocuments now c' f := by
  unfold iterDocuments
  rw [h, expire_idem now c c' h]

theorem find_agree (h : expire now c = .ok c') (f : Val) :
    Agree c c' (findColl now c f) (findColl now c' f) := by
  unfold findColl
  split
  · rw [iter_eq h]
    generalize iterDocuments now c' _ = r
    cases r with
    | error e => exact .inr ⟨e, rfl, rfl⟩
    | ok r => exact .inl rfl
  · exact .inr ⟨_, rfl, rfl⟩

theorem delete_agree (h : expire now c = .ok c') (f : Val) (multi : Bool) :
    Agree c c' (deleteColl now c f multi) (deleteColl now c' f multi) := by
  unfold deleteColl
  simp only []
  split
  · rw [iter_eq h]
    generalize iterDocuments now c' _ = r
    cases r with
    | error e => exact .inr ⟨e, rfl, rfl⟩
    | ok r => exact .inl rfl
  · exact .inr ⟨_, rfl, rfl⟩

theorem count_agree (h : expire now c = .ok c') (f : Val) (skip : Int) (limit : Option Val) :
    Agree c c' (countColl now c f skip limit) (countColl now c' f skip limit) := by
  unfold countColl
  simp only []
  split
  · exact .inr ⟨_, rfl, rfl⟩
  · rw [iter_eq h]
    generalize iterDocuments now c' _ = r
    cases r with
    | error e => exact .inr ⟨e, rfl, rfl⟩
    | ok r => exact .inl rfl

theorem distinct_agree (h : expire now c = .ok c') (key : String) (f : Val) :
    Agree c c' (distinctColl now c key f) (distinctColl now c' key f) := by
  unfold distinctColl
  rcases find_agree h f with he | ⟨e, h1, h2⟩
  · rw [he]; exact .inl rfl
  · rw [h1, h2]; exact .inr ⟨e, rfl, rfl⟩

/-! ### insert -/

theorem insertDoc_eq (h : expire now c = .ok c') (d : Val) :
    insertDoc now c d = insertDoc now c' d := by
  have hi := expire_idem now c c' h
  have hn : c'.nextOid = c.nextOid := (expire_ok now c c' h).2.2.2.2
  cases d with
  | doc fs =>
    unfold insertDoc
    cases hid : dhas "_id" fs
    · simp only [hid, Bool.false_eq_true, if_false]
      rw [hn, expire_nextOid now c c' _ h, expire_nextOid now c' c' _ hi]
    · simp only [hid, if_true]
      rw [h, hi]
  | _ => rfl

theorem insertStored_eq (h : expire now c = .ok c') (d : Val) :
    insertStored now c d = insertStored now c' d := by
  have hi := expire_idem now c c' h
  have hn : c'.nextOid = c.nextOid := (expire_ok now c c' h).2.2.2.2
  cases d with
  | doc fs =>
    unfold insertStored
    cases hid : dhas "_id" fs
    · simp only [hid, Bool.false_eq_true, if_false]
      rw [hn, expire_nextOid now c c' _ h, expire_nextOid now c' c' _ hi]
    · simp only [hid, if_true]
      rw [h, hi]
  | _ => rfl

/-- the collection left by a rejected insert -/
abbrev insErrState (now : Int) (c : Coll) (d : Val) : Coll := insertRejected now c d

theorem insErrState_eq (h : expire now c = .ok c') (d : Val) :
    insErrState now c d = insErrState now c' d := by
  have hi := expire_idem now c c' h
  have hn : c'.nextOid = c.nextOid := (expire_ok now c c' h).2.2.2.2
  unfold insErrState insertRejected
  rw [insertStored_eq h d]
  congr 1
  cases d with
  | doc fs =>
    cases hid : dhas "_id" fs
    · simp only [hid, Bool.false_eq_true, if_false]
      rw [hn, expire_nextOid now c c' _ h, expire_nextOid now c' c' _ hi]
    · simp only [hid, if_true]
      rw [h, hi]
  | _ =>
    simp only []
    rw [h, hi]

theorem insertManyLoop_cons (now : Int) (ordered : Bool) (d : Val) (rest : List Val) (idx : Nat)
    (c : Coll) (ids errs : List Val) (n : Nat) :
    insertManyLoop now ordered (d :: rest) idx c ids errs n =
      match insertDoc now c d with
      | .ok (c', id) => insertManyLoop now ordered rest (idx + 1) c' (ids ++ [id]) errs (n + 1)
      | .error e =>
        if e.isWriteError then
          if ordered then
            insertManyDone (insErrState now c d) ids
              (errs ++ [.doc [("index", .int idx), ("code", errCode e)]]) n
          else insertManyLoop now ordered rest (idx + 1) (insErrState now c d) ids
              (errs ++ [.doc [("index", .int idx), ("code", errCode e)]]) n
        else (insErrState now c d, .err e) := by
  rfl

theorem insertManyLoop_eq (h : expire now c = .ok c') (ordered : Bool) (d : Val)
    (rest : List Val) (idx : Nat) (ids errs : List Val) (n : Nat) :
    insertManyLoop now ordered (d :: rest) idx c ids errs n =
      insertManyLoop now ordered (d :: rest) idx c' ids errs n := by
  rw [insertManyLoop_cons, insertManyLoop_cons, insertDoc_eq h, insErrState_eq h]

/-! ### update -/

/-- the scan prologue of `_apply_update` -/
theorem prescan_eq (h : expire now c = .ok c') (spec : Val) :
    (do
      let c1 ← expire now c
      if c1.docs.isEmpty then
        let _ ← filterApplies spec (.doc [])
      expire now c1 : R Coll) =
    (do
      let c1 ← expire now c'
      if c1.docs.isEmpty then
        let _ ← filterApplies spec (.doc [])
      expire now c1) := by
  rw [h, expire_idem now c c' h]

theorem update_agree (h : expire now c = .ok c') (cfg : Cfg) (f u : Val) (upsert multi : Bool) :
    Agree c c' (applyUpdateColl cfg now c f u upsert multi)
      (applyUpdateColl cfg now c' f u upsert multi) := by
  unfold applyUpdateColl
  simp only []
  split
  · split
    · exact .inr ⟨_, rfl, rfl⟩
    · rw [prescan_eq h]
      generalize (do
        let c1 ← expire now c'
        if c1.docs.isEmpty then
          let _ ← filterApplies (patchDT f) (.doc [])
        expire now c1 : R Coll) = X
      cases X with
      | error e => exact .inr ⟨_, rfl, rfl⟩
      | ok c2 => exact .inl rfl
  · exact .inr ⟨_, rfl, rfl⟩

/-! ### the step function -/

def outNat : R Nat → Out
  | .ok n => .val (.int n)
  | .error e => .err e

def outInt : R Int → Out
  | .ok n => .val (.int n)
  | .error e => .err e

def outArr : R (List Val) → Out
  | .ok ds => .val (.arr ds)
  | .error e => .err e

def outUpd : R UpdateResult → Out
  | .ok x => .val (updateOut x)
  | .error e => .err e

theorem step_delete_one (cfg : Cfg) (now : Int) (c : Coll) (f : Val) :
    stepColl cfg now c (.arr [.str "delete_one", f]) =
      ((deleteColl now c f false).1, outNat (deleteColl now c f false).2) := rfl

theorem step_delete_many (cfg : Cfg) (now : Int) (c : Coll) (f : Val) :
    stepColl cfg now c (.arr [.str "delete_many", f]) =
      ((deleteColl now c f true).1, outNat (deleteColl now c f true).2) := rfl

theorem step_find (cfg : Cfg) (now : Int) (c : Coll) (f : Val) :
    stepColl cfg now c (.arr [.str "find", f]) =
      ((findColl now c f).1, outArr (findColl now c f).2) := rfl

theorem step_count (cfg : Cfg) (now : Int) (c : Coll) (f : Val) (skip : Int) (limit : Val) :
    stepColl cfg now c (.arr [.str "count", f, .int skip, limit]) =
      ((countColl now c f skip (optOf (some limit))).1,
       outInt (countColl now c f skip (optOf (some limit))).2) := rfl

theorem step_distinct (cfg : Cfg) (now : Int) (c : Coll) (key : String) (f : Val) :
    stepColl cfg now c (.arr [.str "distinct", .str key, f]) =
      ((distinctColl now c key f).1, outArr (distinctColl now c key f).2) := rfl

theorem step_update_one (cfg : Cfg) (now : Int) (c : Coll) (f u upsert : Val) :
    stepColl cfg now c (.arr [.str "update_one", f, u, upsert]) =
      match validateUpdate u with
      | .error e => (c, .err e)
      | .ok () => ((applyUpdateColl cfg now c f u (boolOf upsert) false).1,
                   outUpd (applyUpdateColl cfg now c f u (boolOf upsert) false).2) := rfl

theorem step_update_many (cfg : Cfg) (now : Int) (c : Coll) (f u upsert : Val) :
    stepColl cfg now c (.arr [.str "update_many", f, u, upsert]) =
      match validateUpdate u with
      | .error e => (c, .err e)
      | .ok () => ((applyUpdateColl cfg now c f u (boolOf upsert) true).1,
                   outUpd (applyUpdateColl cfg now c f u (boolOf upsert) true).2) := rfl

theorem step_replace_one (cfg : Cfg) (now : Int) (c : Coll) (f u upsert : Val) :
    stepColl cfg now c (.arr [.str "replace_one", f, u, upsert]) =
      match validateReplace u with
      | .error e => (c, .err e)
      | .ok () => ((applyUpdateColl cfg now c f u (boolOf upsert) false).1,
                   outUpd (applyUpdateColl cfg now c f u (boolOf upsert) false).2) := rfl

theorem step_insert_one (cfg : Cfg) (now : Int) (c : Coll) (d : Val) :
    stepColl cfg now c (.arr [.str "insert_one", d]) =
      match d with
      | .doc _ =>
        (match insertDoc now c d with
         | .ok (c', id) => (c', .val id)
         | .error e => (insErrState now c d, .err e))
      | _ => (c, .err .typeErr) := by
  cases d <;> rfl

theorem step_insert_many (cfg : Cfg) (now : Int) (c : Coll) (ds : List Val) (ordered : Val) :
    stepColl cfg now c (.arr [.str "insert_many", .arr ds, ordered]) =
      if ds.isEmpty then (c, .err .typeErr)
      else if !ds.all Val.isDoc then (c, .err .typeErr)
      else insertManyLoop now (boolOf ordered) ds 0 c [] [] 0 := rfl

theorem step_rel (h : expire now c = .ok c') (cfg : Cfg) (op : Val) (hop : dataOp op = true) :
    Rel now (stepColl cfg now c op) (stepColl cfg now c' op) := by
  have hs := stepColl.eq_def cfg now c op
  split at hs
  case h_1 d =>
    clear hs
    simp only [step_insert_one]
    cases d with
    | doc fs =>
      simp only []
      rw [insertDoc_eq h, insErrState_eq h]
      exact ⟨rfl, rfl⟩
    | _ => exact rel_base h _
  case h_2 ds ordered =>
    clear hs
    simp only [step_insert_many]
    cases ds with
    | nil => exact rel_base h _
    | cons d rest =>
      simp only [List.isEmpty_cons, Bool.false_eq_true, if_false]
      split
      · exact rel_base h _
      · rw [insertManyLoop_eq h]
        exact ⟨rfl, rfl⟩
  case h_3 f u upsert =>
    clear hs
    simp only [step_update_one]
    cases validateUpdate u with
    | error e => exact rel_base h _
    | ok x => cases x; exact rel_of_agree h outUpd (update_agree h cfg f u _ _)
  case h_4 f u upsert =>
    clear hs
    simp only [step_update_many]
    cases validateUpdate u with
    | error e => exact rel_base h _
    | ok x => cases x; exact rel_of_agree h outUpd (update_agree h cfg f u _ _)
  case h_5 f u upsert =>
    clear hs
    simp only [step_replace_one]
    cases validateReplace u with
    | error e => exact rel_base h _
    | ok x => cases x; exact rel_of_agree h outUpd (update_agree h cfg f u _ _)
  case h_6 f =>
    simp only [step_delete_one]; exact rel_of_agree h outNat (delete_agree h f _)
  case h_7 f =>
    simp only [step_delete_many]; exact rel_of_agree h outNat (delete_agree h f _)
  case h_8 f =>
    simp only [step_find]; exact rel_of_agree h outArr (find_agree h f)
  case h_9 f skip limit =>
    simp only [step_count]; exact rel_of_agree h outInt (count_agree h f skip _)
  case h_10 key f =>
    simp only [step_distinct]; exact rel_of_agree h outArr (distinct_agree h key f)
  case h_11 => simp [dataOp] at hop
  case h_12 => simp [dataOp] at hop
  case h_13 => simp [dataOp] at hop
  case h_14 => simp [dataOp] at hop
  case h_15 =>
    clear hs
    rw [stepColl.eq_16, stepColl.eq_16] <;> first | assumption | exact rel_base h _

end

end MongoModel.Proofs.C09Lemmas
