/-
  Proofs.C07Step — what the building blocks of a step do to multiplicities: sub-values,
  templates, in-place edits of a stored document, new documents, deletions, mutation.
-/
import Proofs.C07Heap

set_option linter.unusedSimpArgs false
set_option linter.unusedVariables false

namespace MongoModel.Proofs.C07
open MongoModel MongoModel.Heap

/-! ### sub-values and list access -/

theorem cntK_get {a : Nat} : ∀ (kids : Kids) (i : Nat) (kv : String × HVal),
    kids[i]? = some kv → cnt a kv.2 ≤ cntK a kids := by
  intro kids
  induction kids with
  | nil => intro i kv h; simp at h
  | cons hd tl ih =>
    intro i kv h
    rw [cntK_cons']
    cases i with
    | zero => simp at h; subst h; omega
    | succ j => simp at h; have := ih j kv h; omega

theorem cntL_get {a : Nat} : ∀ (l : List HVal) (i : Nat) (v : HVal),
    l[i]? = some v → cnt a v ≤ cntL a l := by
  intro l
  induction l with
  | nil => intro i v h; simp at h
  | cons hd tl ih =>
    intro i v h
    rw [cntL_cons]
    cases i with
    | zero => simp at h; subst h; omega
    | succ j => simp at h; have := ih j v h; omega

theorem subAt_sub (a : Nat) : ∀ (p : List Nat) (v : HVal), cnt a (subAt p v) ≤ cnt a v := by
  intro p
  induction p with
  | nil => intro v; simp [subAt]
  | cons i p ih =>
    intro v
    cases v with
    | atom x => simp [subAt]
    | node id d kids =>
      simp only [subAt]
      cases h : kids[i]? with
      | none => simp
      | some kv =>
        simp only []
        have h1 := ih kv.2
        have h2 := cntK_get (a := a) kids i kv h
        rw [cnt_node]; omega

theorem getAt_sub (a : Nat) (l : List HVal) (i : Nat) (p : List Nat) :
    cnt a (getAt l i p) ≤ cntL a l := by
  unfold getAt
  cases h : l[i]? with
  | none => simp
  | some v =>
    simp only []
    have h1 := subAt_sub a p v
    have h2 := cntL_get (a := a) l i v h
    omega

/-! ### templates -/

theorem evalTpl_copied (T : Table) (e : Env) :
    (∀ t, Tpl.copied T e t = true → ∀ n,
        n ≤ (evalTpl T e t n).2 ∧ ∀ a, cnt a (evalTpl T e t n).1 ≤ ind n (evalTpl T e t n).2 a) ∧
    (∀ ks, Tpl.copiedKids T e ks = true → ∀ n,
        n ≤ (evalTplKids T e ks n).2 ∧
        ∀ a, cntK a (evalTplKids T e ks n).1 ≤ ind n (evalTplKids T e ks n).2 a) := by
  apply Tpl.ind2
  · intro v _ n; exact ⟨by simp [evalTpl], fun a => by simp [evalTpl]⟩
  · intro pos src h n
    simp only [Tpl.copied, Bool.or_eq_true] at h
    refine ⟨by simp only [evalTpl]; exact chain_mono _ _ _, ?_⟩
    intro a
    simp only [evalTpl]
    rcases h with h | h
    · exact chain_deep _ h _ _ a
    · cases hs : src.get e with
      | atom x => simp [chain_atom]
      | node id d kids => simp [hs, HVal.isAtom] at h
  · intro d kids ih h n
    simp only [Tpl.copied] at h
    obtain ⟨h1, h2⟩ := ih h (n + 1)
    refine ⟨by simp only [evalTpl]; omega, ?_⟩
    intro a
    simp only [evalTpl, cnt_node, ind_single]
    have := h2 a
    have := ind_split a (Nat.le_add_right n 1) h1
    omega
  · intro _ n; exact ⟨by simp [evalTplKids], fun a => by simp [evalTplKids]⟩
  · intro k t r iht ihr h n
    simp only [Tpl.copiedKids, Bool.and_eq_true] at h
    obtain ⟨h1, h2⟩ := iht h.1 n
    obtain ⟨g1, g2⟩ := ihr h.2 (evalTpl T e t n).2
    refine ⟨by simp only [evalTplKids]; omega, ?_⟩
    intro a
    simp only [evalTplKids, cntK_cons]
    have := h2 a
    have := g2 a
    have := ind_split a h1 g1
    omega

/-- a detached template (nothing uncopied out of the store or a cache, no temporary) yields identities that
    are fresh or belong to objects the caller holds already -/
theorem evalTpl_detached (T : Table) (e : Env) :
    (∀ t, Tpl.detached T e t = true → Tpl.noTemp t = true → ∀ n,
        n ≤ (evalTpl T e t n).2 ∧
        ∀ a, cntL a e.held = 0 → cnt a (evalTpl T e t n).1 ≤ ind n (evalTpl T e t n).2 a) ∧
    (∀ ks, Tpl.detachedKids T e ks = true → Tpl.noTempKids ks = true → ∀ n,
        n ≤ (evalTplKids T e ks n).2 ∧
        ∀ a, cntL a e.held = 0 → cntK a (evalTplKids T e ks n).1 ≤ ind n (evalTplKids T e ks n).2 a) := by
  apply Tpl.ind2
  · intro v _ _ n; exact ⟨by simp [evalTpl], fun a _ => by simp [evalTpl]⟩
  · intro pos src h hn n
    simp only [Tpl.detached, Bool.or_eq_true] at h
    refine ⟨by simp only [evalTpl]; exact chain_mono _ _ _, ?_⟩
    intro a ha
    simp only [evalTpl]
    rcases h with (h | h) | h
    · exact chain_deep _ h (src.get e) n a
    · cases hs : src.get e with
      | atom x => simp [chain_atom]
      | node id d kids => simp [hs, HVal.isAtom] at h
    · cases src with
      | store i p => simp [Src.fromLib] at h
      | cache i p => simp [Src.fromLib] at h
      | temp i p => simp [Tpl.noTemp] at hn
      | held i p =>
        have h1 := chain_sub (T.disc pos) (Src.get e (.held i p)) n a
        have h2 : cnt a (Src.get e (.held i p)) ≤ cntL a e.held := getAt_sub a e.held i p
        omega
  · intro d kids ih h hn n
    simp only [Tpl.detached] at h
    simp only [Tpl.noTemp] at hn
    obtain ⟨h1, h2⟩ := ih h hn (n + 1)
    refine ⟨by simp only [evalTpl]; omega, ?_⟩
    intro a ha
    simp only [evalTpl, cnt_node, ind_single]
    have := h2 a ha
    have := ind_split a (Nat.le_add_right n 1) h1
    omega
  · intro _ _ n; exact ⟨by simp [evalTplKids], fun a _ => by simp [evalTplKids]⟩
  · intro k t r iht ihr h hn n
    simp only [Tpl.detachedKids, Bool.and_eq_true] at h
    simp only [Tpl.noTempKids, Bool.and_eq_true] at hn
    obtain ⟨h1, h2⟩ := iht h.1 hn.1 n
    obtain ⟨g1, g2⟩ := ihr h.2 hn.2 (evalTpl T e t n).2
    refine ⟨by simp only [evalTplKids]; omega, ?_⟩
    intro a ha
    simp only [evalTplKids, cntK_cons]
    have := h2 a ha
    have := g2 a ha
    have := ind_split a h1 g1
    omega

/-! ### in-place edits -/

theorem keepKids_sub (a : Nat) : ∀ (kids : Kids) (ks : List (Option String)),
    cntK a (keepKids kids ks) ≤ cntK a kids := by
  intro kids
  induction kids with
  | nil => intro ks; simp [keepKids]
  | cons kv r ih =>
    intro ks
    cases ks with
    | nil => simp [keepKids]
    | cons o ks =>
      cases o with
      | none => simp only [keepKids]; rw [cntK_cons']; have := ih ks; omega
      | some k => simp only [keepKids]; rw [cntK_cons', cntK_cons']; simp only []; have := ih ks; omega

/-- a state-threading function on values that conserves identities: the counter grows, and
    whatever the result holds beyond its input is fresh -/
def Cons (f : HVal → Nat → HVal × Nat) : Prop :=
  ∀ v n, n ≤ (f v n).2 ∧ ∀ a, cnt a (f v n).1 ≤ cnt a v + ind n (f v n).2 a

theorem nodeEdit_cons (T : Table) (e : Env) (ed : NodeEdit)
    (h : Tpl.copiedKids T e ed.add = true) : Cons (nodeEdit T e ed) := by
  intro v n
  cases v with
  | atom x => simp [nodeEdit]
  | node id d kids =>
    obtain ⟨h1, h2⟩ := (evalTpl_copied T e).2 ed.add h n
    by_cases hr : ed.renew = true
    · simp only [nodeEdit, hr, if_true]
      refine ⟨by omega, ?_⟩
      intro a
      rw [cnt_node, cnt_node, cntK_append, ind_single]
      have := h2 a
      have := keepKids_sub a kids ed.keep
      have := ind_split a h1 (Nat.le_add_right (evalTplKids T e ed.add n).2 1)
      omega
    · simp only [Bool.not_eq_true] at hr
      simp only [nodeEdit, hr, Bool.false_eq_true, if_false]
      refine ⟨h1, ?_⟩
      intro a
      rw [cnt_node, cnt_node, cntK_append]
      have := h2 a
      have := keepKids_sub a kids ed.keep
      omega

theorem cntK_set (a : Nat) : ∀ (kids : Kids) (i : Nat) (kv : String × HVal) (k : String) (v' : HVal),
    kids[i]? = some kv → cntK a (kids.set i (k, v')) + cnt a kv.2 = cntK a kids + cnt a v' := by
  intro kids
  induction kids with
  | nil => intro i kv k v' h; simp at h
  | cons hd tl ih =>
    intro i kv k v' h
    cases i with
    | zero => simp at h; subst h; simp only [List.set_cons_zero]; rw [cntK_cons, cntK_cons']; omega
    | succ j =>
      simp at h
      simp only [List.set_cons_succ]
      rw [cntK_cons', cntK_cons']
      have := ih j kv k v' h
      omega

theorem cntL_set (a : Nat) : ∀ (l : List HVal) (i : Nat) (d d' : HVal),
    l[i]? = some d → cntL a (l.set i d') + cnt a d = cntL a l + cnt a d' := by
  intro l
  induction l with
  | nil => intro i d d' h; simp at h
  | cons hd tl ih =>
    intro i d d' h
    cases i with
    | zero => simp at h; subst h; simp only [List.set_cons_zero, cntL_cons]; omega
    | succ j =>
      simp at h
      simp only [List.set_cons_succ, cntL_cons]
      have := ih j d d' h
      omega

theorem modifyAt_cons (f : HVal → Nat → HVal × Nat) (hf : Cons f) :
    ∀ p : List Nat, Cons (modifyAt f p) := by
  intro p
  induction p with
  | nil => intro v n; simpa [modifyAt] using hf v n
  | cons i p ih =>
    intro v n
    cases v with
    | atom x => simp [modifyAt]
    | node id d kids =>
      simp only [modifyAt]
      cases h : kids[i]? with
      | none => simp
      | some kv =>
        simp only []
        obtain ⟨h1, h2⟩ := ih kv.2 n
        refine ⟨h1, ?_⟩
        intro a
        rw [cnt_node, cnt_node]
        have := cntK_set a kids i kv kv.1 (modifyAt f p kv.2 n).1 h
        have := h2 a
        omega

theorem editDoc_cons (T : Table) (e : Env) (ed : NodeEdit)
    (h : Tpl.copiedKids T e ed.add = true) : Cons (editDoc T e ed) :=
  modifyAt_cons _ (nodeEdit_cons T e ed h) ed.path

theorem applyEdits_sub (T : Table) (e : Env) : ∀ (eds : List (Nat × NodeEdit))
    (h : eds.all (fun ie => Tpl.copiedKids T e ie.2.add) = true) (st : List HVal) (n : Nat),
    n ≤ (applyEdits T e eds st n).2 ∧
    ∀ a, cntL a (applyEdits T e eds st n).1 ≤ cntL a st + ind n (applyEdits T e eds st n).2 a := by
  intro eds
  induction eds with
  | nil => intro _ st n; simp [applyEdits]
  | cons ie r ih =>
    intro h st n
    simp only [List.all_cons, Bool.and_eq_true] at h
    simp only [applyEdits]
    cases hd : st[ie.1]? with
    | none => simpa using ih h.2 st n
    | some d =>
      simp only []
      obtain ⟨h1, h2⟩ := editDoc_cons T e ie.2 h.1 d n
      obtain ⟨g1, g2⟩ := ih h.2 (st.set ie.1 (editDoc T e ie.2 d n).1) (editDoc T e ie.2 d n).2
      refine ⟨by omega, ?_⟩
      intro a
      have := cntL_set a st ie.1 d (editDoc T e ie.2 d n).1 hd
      have := h2 a
      have := g2 a
      have := ind_split a h1 g1
      omega

theorem evalNewDocs_fresh (T : Table) (e : Env) : ∀ (nds : List (Tpl × Pos))
    (h : nds.all (fun tp => chainDeep (T.disc tp.2) || Tpl.copied T e tp.1) = true) (n : Nat),
    n ≤ (evalNewDocs T e nds n).2 ∧
    ∀ a, cntL a (evalNewDocs T e nds n).1 ≤ ind n (evalNewDocs T e nds n).2 a := by
  intro nds
  induction nds with
  | nil => intro _ n; simp [evalNewDocs]
  | cons tp r ih =>
    intro h n
    simp only [List.all_cons, Bool.and_eq_true, Bool.or_eq_true] at h
    simp only [evalNewDocs]
    -- the assembled document, then its final chain
    have hm1 : n ≤ (evalTpl T e tp.1 n).2 := by
      rcases h.1 with hd | hc
      · -- no assumption on the template: monotonicity holds for every template
        exact (show ∀ t n, n ≤ (evalTpl T e t n).2 from
          (Tpl.ind2 (P := fun t => ∀ n, n ≤ (evalTpl T e t n).2)
            (Q := fun ks => ∀ n, n ≤ (evalTplKids T e ks n).2)
            (fun v n => by simp [evalTpl])
            (fun pos src n => by simp only [evalTpl]; exact chain_mono _ _ _)
            (fun d kids ih n => by simp only [evalTpl]; have := ih (n + 1); omega)
            (fun n => by simp [evalTplKids])
            (fun k t r iht ihr n => by
              simp only [evalTplKids]; have := iht n; have := ihr (evalTpl T e t n).2; omega)).1) tp.1 n
      · exact ((evalTpl_copied T e).1 tp.1 hc n).1
    have hm2 := chain_mono (T.disc tp.2) (evalTpl T e tp.1 n).1 (evalTpl T e tp.1 n).2
    obtain ⟨g1, g2⟩ := ih h.2 (runChain (T.disc tp.2) (evalTpl T e tp.1 n).1 (evalTpl T e tp.1 n).2).2
    refine ⟨by omega, ?_⟩
    intro a
    rw [cntL_cons]
    have hdoc : cnt a (runChain (T.disc tp.2) (evalTpl T e tp.1 n).1 (evalTpl T e tp.1 n).2).1 ≤
        ind n (runChain (T.disc tp.2) (evalTpl T e tp.1 n).1 (evalTpl T e tp.1 n).2).2 a := by
      rcases h.1 with hd | hc
      · have := chain_deep _ hd (evalTpl T e tp.1 n).1 (evalTpl T e tp.1 n).2 a
        have := ind_mono (lo := (evalTpl T e tp.1 n).2)
          (hi := (runChain (T.disc tp.2) (evalTpl T e tp.1 n).1 (evalTpl T e tp.1 n).2).2)
          (lo' := n) (hi' := (runChain (T.disc tp.2) (evalTpl T e tp.1 n).1 (evalTpl T e tp.1 n).2).2)
          a hm1 (Nat.le_refl _)
        omega
      · have := ((evalTpl_copied T e).1 tp.1 hc n).2 a
        have := chain_sub (T.disc tp.2) (evalTpl T e tp.1 n).1 (evalTpl T e tp.1 n).2 a
        have := ind_split a hm1 hm2
        omega
    have := g2 a
    have := ind_split a (Nat.le_trans hm1 hm2) g1
    omega

theorem evalTemps_mono (T : Table) (held : List HVal) : ∀ (ts : List (Pos × Nat × List Nat)) (n : Nat),
    n ≤ (evalTemps T held ts n).2 := by
  intro ts
  induction ts with
  | nil => intro n; simp [evalTemps]
  | cons t r ih =>
    intro n
    simp only [evalTemps]
    have := chain_mono (T.disc t.1) (getAt held t.2.1 t.2.2) n
    have := ih (runChain (T.disc t.1) (getAt held t.2.1 t.2.2) n).2
    omega

theorem dropIdxFrom_sub (a : Nat) (del : List Nat) : ∀ (st : List HVal) (i : Nat),
    cntL a (dropIdxFrom del i st) ≤ cntL a st := by
  intro st
  induction st with
  | nil => intro i; simp [dropIdxFrom]
  | cons v r ih =>
    intro i
    simp only [dropIdxFrom]
    split
    · rw [cntL_cons]; have := ih (i + 1); omega
    · rw [cntL_cons, cntL_cons]; have := ih (i + 1); omega

theorem evalTpls_detached (T : Table) (e : Env) : ∀ (ts : List Tpl)
    (h : ts.all (fun t => Tpl.detached T e t && Tpl.noTemp t) = true) (n : Nat),
    n ≤ (evalTpls T e ts n).2 ∧
    ∀ a, cntL a e.held = 0 → cntL a (evalTpls T e ts n).1 ≤ ind n (evalTpls T e ts n).2 a := by
  intro ts
  induction ts with
  | nil => intro _ n; simp [evalTpls]
  | cons t r ih =>
    intro h n
    simp only [List.all_cons, Bool.and_eq_true] at h
    simp only [evalTpls]
    obtain ⟨h1, h2⟩ := (evalTpl_detached T e).1 t h.1.1 h.1.2 n
    obtain ⟨g1, g2⟩ := ih h.2 (evalTpl T e t n).2
    refine ⟨by omega, ?_⟩
    intro a ha
    rw [cntL_cons]
    have := h2 a ha
    have := g2 a ha
    have := ind_split a h1 g1
    omega

/-- copied templates (every travelling value deep-copied or a scalar) yield fresh identities only,
    each once -/
theorem evalTpls_copied (T : Table) (e : Env) : ∀ (ts : List Tpl)
    (h : ts.all (fun t => Tpl.copied T e t) = true) (n : Nat),
    n ≤ (evalTpls T e ts n).2 ∧
    ∀ a, cntL a (evalTpls T e ts n).1 ≤ ind n (evalTpls T e ts n).2 a := by
  intro ts
  induction ts with
  | nil => intro _ n; simp [evalTpls]
  | cons t r ih =>
    intro h n
    simp only [List.all_cons, Bool.and_eq_true] at h
    simp only [evalTpls]
    obtain ⟨h1, h2⟩ := (evalTpl_copied T e).1 t h.1 n
    obtain ⟨g1, g2⟩ := ih h.2 (evalTpl T e t n).2
    refine ⟨by omega, ?_⟩
    intro a
    rw [cntL_cons]
    have := h2 a
    have := g2 a
    have := ind_split a h1 g1
    omega

/-! ### mutation by identity -/

theorem mutate_absent (id : Nat) (f : HVal → HVal) :
    (∀ v, cnt id v = 0 → mutate id f v = v) ∧ (∀ ks, cntK id ks = 0 → mutateKids id f ks = ks) := by
  apply HVal.ind2
  · intro v _; simp [mutate]
  · intro i d kids ih h
    rw [cnt_node] at h
    have hne : i ≠ id := by intro he; simp [he] at h
    have hk : cntK id kids = 0 := by omega
    simp [mutate, hne, ih hk]
  · intro _; simp [mutateKids]
  · intro k v r ihv ihr h
    rw [cntK_cons] at h
    simp [mutateKids, ihv (by omega), ihr (by omega)]

theorem mutateL_absent (id : Nat) (f : HVal → HVal) : ∀ l, cntL id l = 0 → mutateL id f l = l := by
  intro l
  induction l with
  | nil => intro _; simp [mutateL]
  | cons v r ih =>
    intro h
    rw [cntL_cons] at h
    simp [mutateL, (mutate_absent id f).1 v (by omega), ih (by omega)]

theorem mutateL_get (id : Nat) (f : HVal → HVal) : ∀ (l : List HVal) (j : Nat),
    (mutateL id f l)[j]? = (l[j]?).map (mutate id f) := by
  intro l
  induction l with
  | nil => intro j; simp [mutateL]
  | cons v r ih =>
    intro j
    cases j with
    | zero => simp [mutateL]
    | succ k => simp [mutateL, ih k]

/-- scribbling (dropping / re-keying children, adding scalars) never adds an identity -/
theorem scribble_sub (id : Nat) (keep : List (Option String)) (add : List (String × Val)) (a : Nat) :
    (∀ v, cnt a (mutate id (scribbleFn keep add) v) ≤ cnt a v) ∧
    (∀ ks, cntK a (mutateKids id (scribbleFn keep add) ks) ≤ cntK a ks) := by
  have hadd : ∀ l : List (String × Val), cntK a (l.map (fun kv => (kv.1, HVal.atom kv.2))) = 0 := by
    intro l
    induction l with
    | nil => simp
    | cons kv r ih => simp [ih]
  apply HVal.ind2
  · intro v; simp [mutate]
  · intro i d kids ih
    simp only [mutate]
    split
    · simp only [scribbleFn]
      rw [cnt_node, cnt_node, cntK_append, hadd]
      have := keepKids_sub a kids keep
      omega
    · rw [cnt_node, cnt_node]; omega
  · simp [mutateKids]
  · intro k v r ihv ihr
    simp only [mutateKids, cntK_cons]; omega

theorem scribbleL_sub (id : Nat) (keep : List (Option String)) (add : List (String × Val)) (a : Nat) :
    ∀ l, cntL a (mutateL id (scribbleFn keep add) l) ≤ cntL a l := by
  intro l
  induction l with
  | nil => simp [mutateL]
  | cons v r ih =>
    simp only [mutateL, cntL_cons]
    have := (scribble_sub id keep add a).1 v
    omega

/-- two different positions of a list hold disjoint shares of the multiplicity -/
theorem cntL_two (a : Nat) : ∀ (l : List HVal) (i j : Nat) (x y : HVal), i ≠ j →
    l[i]? = some x → l[j]? = some y → cnt a x + cnt a y ≤ cntL a l := by
  intro l
  induction l with
  | nil => intro i j x y _ h; simp at h
  | cons v r ih =>
    intro i j x y hne hx hy
    rw [cntL_cons]
    cases i with
    | zero =>
      cases j with
      | zero => exact absurd rfl hne
      | succ j' =>
        simp at hx hy; subst hx
        have := cntL_get (a := a) r j' y hy
        omega
    | succ i' =>
      cases j with
      | zero =>
        simp at hx hy; subst hy
        have := cntL_get (a := a) r i' x hx
        omega
      | succ j' =>
        simp at hx hy
        have := ih i' j' x y (by omega) hx hy
        omega

end MongoModel.Proofs.C07
