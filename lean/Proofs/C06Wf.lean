/-
  Proofs.C06Wf — values without repeated field names (`wfVal` of Spec/StoreInv.lean: what a
  Python dict can be), and what Python `==` preserves on them.
-/
import Proofs.C06Bridge
import Batteries.Data.List.Perm

set_option linter.unusedSimpArgs false

namespace MongoModel.Proofs.C06Lemmas
open MongoModel MongoModel.Spec
open MongoModel.Proofs.C01Lemmas (Val.ind dget_mem)

theorem wfFields_iff (fs : Fields) : wfFields fs = true ↔ ∀ k v, (k, v) ∈ fs → wfVal v = true := by
  induction fs with
  | nil => simp [wfFields]
  | cons kv fs ih =>
    obtain ⟨k, v⟩ := kv
    simp only [wfFields, Bool.and_eq_true, ih, List.mem_cons, Prod.mk.injEq]
    constructor
    · rintro ⟨h1, h2⟩ k' v' (⟨rfl, rfl⟩ | hm)
      · exact h1
      · exact h2 k' v' hm
    · intro h
      exact ⟨h k v (.inl ⟨rfl, rfl⟩), fun k' v' hm => h k' v' (.inr hm)⟩

theorem wfList_iff (xs : List Val) : wfList xs = true ↔ ∀ x ∈ xs, wfVal x = true := by
  induction xs with
  | nil => simp [wfList]
  | cons x xs ih => simp [wfList, ih]

theorem wfVal_doc (fs : Fields) :
    wfVal (.doc fs) = true ↔ (dkeys fs).Nodup ∧ ∀ k v, (k, v) ∈ fs → wfVal v = true := by
  simp [wfVal, wfFields_iff]

/-! ### association lists -/

theorem dget_none_iff {k : String} {fs : Fields} : dget k fs = none ↔ k ∉ dkeys fs := by
  induction fs with
  | nil => simp [dget, dkeys]
  | cons kv fs ih =>
    obtain ⟨k', v'⟩ := kv
    simp only [dget, dkeys, List.map_cons, List.mem_cons, not_or]
    by_cases e : k' = k
    · simp [e]
    · simp only [e, if_false]
      rw [ih]
      simp [dkeys, Ne.symm e]

theorem dget_some_mem_keys {k : String} {fs : Fields} {v : Val} (h : dget k fs = some v) :
    k ∈ dkeys fs := by
  by_contra hn
  rw [dget_none_iff.2 hn] at h
  cases h

theorem dget_of_mem_nodup {k : String} {v : Val} {fs : Fields} (hn : (dkeys fs).Nodup)
    (hm : (k, v) ∈ fs) : dget k fs = some v := by
  induction fs with
  | nil => cases hm
  | cons kv fs ih =>
    obtain ⟨k', v'⟩ := kv
    simp only [dkeys, List.map_cons, List.nodup_cons] at hn
    rcases List.mem_cons.1 hm with e | hm'
    · cases e; simp [dget]
    · have hne : k' ≠ k := by
        intro e; subst e
        exact hn.1 (List.mem_map_of_mem (f := (·.1)) hm')
      simp only [dget, hne, if_false]
      exact ih hn.2 hm'

theorem pyEqFields_iff (fs gs : Fields) :
    pyEqFields fs gs = true ↔ ∀ k v, (k, v) ∈ fs → ∃ v', dget k gs = some v' ∧ pyEq v v' = true := by
  induction fs with
  | nil => simp [pyEqFields]
  | cons kv fs ih =>
    obtain ⟨k, v⟩ := kv
    simp only [pyEqFields, Bool.and_eq_true, ih, List.mem_cons, Prod.mk.injEq]
    constructor
    · rintro ⟨h1, h2⟩ k' v' (⟨rfl, rfl⟩ | hm)
      · cases hg : dget k' gs with
        | none => simp [hg] at h1
        | some w => rw [hg] at h1; exact ⟨w, rfl, h1⟩
      · exact h2 k' v' hm
    · intro h
      refine ⟨?_, fun k' v' hm => h k' v' (.inr hm)⟩
      obtain ⟨w, hw, he⟩ := h k v (.inl ⟨rfl, rfl⟩)
      rw [hw]; exact he

theorem pyEq_doc_iff (fs : Fields) (b : Val) :
    pyEq (.doc fs) b = true ↔ ∃ gs, b = .doc gs ∧ fs.length = gs.length ∧
      ∀ k v, (k, v) ∈ fs → ∃ v', dget k gs = some v' ∧ pyEq v v' = true := by
  cases b with
  | doc gs => simp [pyEq, pyEqFields_iff]
  | _ => simp [pyEq]

/-- pigeonhole: `==`-equal documents, the left one without repeated names, have the same names -/
theorem keys_perm {fs gs : Fields} (hn : (dkeys fs).Nodup) (hl : fs.length = gs.length)
    (h : ∀ k v, (k, v) ∈ fs → ∃ v', dget k gs = some v' ∧ pyEq v v' = true) :
    (dkeys fs).Perm (dkeys gs) := by
  have hsub : dkeys fs ⊆ dkeys gs := by
    intro k hk
    simp only [dkeys, List.mem_map] at hk
    obtain ⟨⟨k', v⟩, hm, rfl⟩ := hk
    obtain ⟨v', hg, _⟩ := h k' v hm
    exact dget_some_mem_keys hg
  apply (List.subperm_of_subset hn hsub).perm_of_length_le
  simp [dkeys, hl]

theorem isScalar_of_pyEq {x y : Val} (hx : isScalar x = true) (h : pyEq x y = true) :
    isScalar y = true := by
  cases y with
  | doc gs =>
    rcases isScalar_cases hx with rfl | ⟨b, rfl⟩ | ⟨i, rfl⟩ | ⟨m, e, rfl⟩ | ⟨s, rfl⟩ | ⟨u, rfl⟩ |
      ⟨u, o, rfl⟩ | ⟨n, rfl⟩ <;> simp [pyEq] at h
  | arr ys =>
    rcases isScalar_cases hx with rfl | ⟨b, rfl⟩ | ⟨i, rfl⟩ | ⟨m, e, rfl⟩ | ⟨s, rfl⟩ | ⟨u, rfl⟩ |
      ⟨u, o, rfl⟩ | ⟨n, rfl⟩ <;> simp [pyEq] at h
  | _ => rfl

theorem wf_of_scalar {x : Val} (hx : isScalar x = true) : wfVal x = true := by
  cases x <;> simp [isScalar] at hx <;> simp [wfVal]

theorem wfList_of_pyEqList (xs : List Val)
    (ih : ∀ x ∈ xs, ∀ b, wfVal x = true → pyEq x b = true → wfVal b = true) :
    ∀ ys, wfList xs = true → pyEqList xs ys = true → wfList ys = true := by
  induction xs with
  | nil => intro ys _ h; cases ys <;> simp [pyEqList] at h; rfl
  | cons x xs ih2 =>
    intro ys hw h
    cases ys with
    | nil => simp [pyEqList] at h
    | cons y ys =>
      simp only [pyEqList, wfList, Bool.and_eq_true] at h hw ⊢
      exact ⟨ih x (List.mem_cons_self ..) y hw.1 h.1,
        ih2 (fun x' hx' => ih x' (List.mem_cons_of_mem _ hx')) ys hw.2 h.2⟩

theorem pyEq_arr_iff (xs : List Val) (b : Val) :
    pyEq (.arr xs) b = true ↔ ∃ ys, b = .arr ys ∧ pyEqList xs ys = true := by
  cases b with
  | arr ys => simp [pyEq]
  | date u o => cases o <;> simp [pyEq]
  | _ => simp [pyEq]

theorem wfVal_arr (xs : List Val) : wfVal (.arr xs) = wfList xs := by
  rw [wfVal]

/-- a value `==` to a well-formed one (on the left) is well-formed -/
theorem wf_of_pyEq : ∀ a b : Val, wfVal a = true → pyEq a b = true → wfVal b = true := by
  intro a
  induction a using Val.ind with
  | hdoc fs ih =>
    intro b hw h
    obtain ⟨gs, rfl, hl, hf⟩ := (pyEq_doc_iff fs b).1 h
    obtain ⟨hn, hv⟩ := (wfVal_doc fs).1 hw
    have hp := keys_perm hn hl hf
    have hn' : (dkeys gs).Nodup := hp.nodup_iff.1 hn
    refine (wfVal_doc gs).2 ⟨hn', ?_⟩
    intro k v' hm
    have hk : k ∈ dkeys fs := hp.mem_iff.2 (List.mem_map_of_mem (f := (·.1)) hm)
    simp only [dkeys, List.mem_map] at hk
    obtain ⟨⟨k', v⟩, hm', rfl⟩ := hk
    obtain ⟨v'', hg, he⟩ := hf k' v hm'
    rw [dget_of_mem_nodup hn' hm] at hg
    cases hg
    exact ih k' v hm' v' (hv k' v hm') he
  | harr xs ih =>
    intro b hw h
    obtain ⟨ys, rfl, h'⟩ := (pyEq_arr_iff xs b).1 h
    rw [wfVal_arr] at hw ⊢
    exact wfList_of_pyEqList xs ih ys hw h'
  | hdate u o =>
    intro b _ h
    exact wf_of_scalar (isScalar_of_pyEq (x := .date u o) rfl h)
  | hnull => intro b _ h; exact wf_of_scalar (isScalar_of_pyEq (x := .null) rfl h)
  | hbool v => intro b _ h; exact wf_of_scalar (isScalar_of_pyEq (x := .bool v) rfl h)
  | hint v => intro b _ h; exact wf_of_scalar (isScalar_of_pyEq (x := .int v) rfl h)
  | hdbl m e => intro b _ h; exact wf_of_scalar (isScalar_of_pyEq (x := .dbl m e) rfl h)
  | hstr v => intro b _ h; exact wf_of_scalar (isScalar_of_pyEq (x := .str v) rfl h)
  | hoid v => intro b _ h; exact wf_of_scalar (isScalar_of_pyEq (x := .oid v) rfl h)

/-! ### index keys of `==`-equal documents -/

/-- the value at a path, null where `get_value_by_dot` raises -/
def leafP (ps : List String) (d : Val) : Val :=
  match getByDotParts ps d with
  | .ok v => v
  | .error _ => .null

theorem scalarPath_doc_some {p : String} {ps : List String} {fs : Fields} {v : Val}
    (h : dget p fs = some v) : scalarPath (p :: ps) (.doc fs) = scalarPath ps v := by
  rw [scalarPath, h]

theorem scalarPath_doc_none {p : String} {ps : List String} {fs : Fields}
    (h : dget p fs = none) : scalarPath (p :: ps) (.doc fs) = true := by
  rw [scalarPath, h]

theorem leafP_nil (v : Val) : leafP [] v = v := rfl

theorem leafP_doc_some {p : String} {ps : List String} {fs : Fields} {v : Val}
    (h : dget p fs = some v) : leafP (p :: ps) (.doc fs) = leafP ps v := by
  unfold leafP
  rw [getByDotParts, h]

theorem leafP_doc_none {p : String} {ps : List String} {fs : Fields}
    (h : dget p fs = none) : leafP (p :: ps) (.doc fs) = .null := by
  unfold leafP
  rw [getByDotParts, h]

theorem scalarPath_is_doc {p : String} {ps : List String} {d : Val}
    (h : scalarPath (p :: ps) d = true) : ∃ fs, d = .doc fs := by
  cases d with
  | doc fs => exact ⟨fs, rfl⟩
  | _ => simp [scalarPath] at h

theorem path_pyEq (ps : List String) (p : String) (new cur : Val) (hw : wfVal new = true)
    (he : pyEq new cur = true) (hs : scalarPath (p :: ps) new = true) :
    scalarPath (p :: ps) cur = true ∧ pyEq (leafP (p :: ps) new) (leafP (p :: ps) cur) = true := by
  induction ps generalizing p new cur with
  | nil =>
    obtain ⟨fs, rfl⟩ := scalarPath_is_doc hs
    obtain ⟨gs, rfl, hl, hf⟩ := (pyEq_doc_iff fs cur).1 he
    obtain ⟨hn, hv⟩ := (wfVal_doc fs).1 hw
    cases hg : dget p fs with
    | none =>
      have hg' : dget p gs = none := by
        rw [dget_none_iff] at hg ⊢
        exact fun hm => hg ((keys_perm hn hl hf).mem_iff.2 hm)
      rw [scalarPath_doc_none hg', leafP_doc_none hg, leafP_doc_none hg']
      exact ⟨rfl, rfl⟩
    | some v =>
      rw [scalarPath_doc_some hg] at hs
      obtain ⟨v', hg', hq⟩ := hf p v (dget_mem hg)
      rw [scalarPath_doc_some hg', leafP_doc_some hg, leafP_doc_some hg', leafP_nil, leafP_nil]
      exact ⟨isScalar_of_pyEq hs hq, hq⟩
  | cons q qs ih =>
    obtain ⟨fs, rfl⟩ := scalarPath_is_doc hs
    obtain ⟨gs, rfl, hl, hf⟩ := (pyEq_doc_iff fs cur).1 he
    obtain ⟨hn, hv⟩ := (wfVal_doc fs).1 hw
    cases hg : dget p fs with
    | none =>
      have hg' : dget p gs = none := by
        rw [dget_none_iff] at hg ⊢
        exact fun hm => hg ((keys_perm hn hl hf).mem_iff.2 hm)
      rw [scalarPath_doc_none hg', leafP_doc_none hg, leafP_doc_none hg']
      exact ⟨rfl, rfl⟩
    | some v =>
      rw [scalarPath_doc_some hg] at hs
      obtain ⟨v', hg', hq⟩ := hf p v (dget_mem hg)
      rw [scalarPath_doc_some hg', leafP_doc_some hg, leafP_doc_some hg']
      exact ih q v v' (hv p v (dget_mem hg)) hq hs

theorem kv1_eq_leafP (k : String) (d : Val) : kv1 k d = leafP (splitDots k) d := rfl

theorem okField_pyEq {k : String} {new cur : Val} (hw : wfVal new = true)
    (he : pyEq new cur = true) (h : okField k new) :
    okField k cur ∧ pyEq (kv1 k new) (kv1 k cur) = true := by
  obtain ⟨h1, h2, h3⟩ := h
  obtain ⟨p, ps, hp⟩ := splitDots_cons k
  rw [kv1_eq_leafP, kv1_eq_leafP]
  rw [hp] at h3 ⊢
  obtain ⟨a, b⟩ := path_pyEq ps p new cur hw he h3
  exact ⟨⟨h1, h2, (by rw [hp]; exact a)⟩, b⟩

theorem okKeys_pyEq {keys : List (String × Val)} {new cur : Val} (hw : wfVal new = true)
    (he : pyEq new cur = true) (h : OkKeys keys new) :
    OkKeys keys cur ∧ keyEq (kv keys new) (kv keys cur) = true := by
  induction keys with
  | nil => exact ⟨fun k hk => (by cases hk), rfl⟩
  | cons k keys ih =>
    obtain ⟨a, b⟩ := ih (fun k' h' => h k' (List.mem_cons_of_mem _ h'))
    obtain ⟨c, d⟩ := okField_pyEq hw he (h k (List.mem_cons_self ..))
    refine ⟨?_, by simpa [kv, d] using b⟩
    intro k' hk'
    rcases List.mem_cons.1 hk' with rfl | hm
    · exact c
    · exact a k' hm

end MongoModel.Proofs.C06Lemmas
