/-
  Proofs.C08Expire — the TTL pass as a sequence of filters; idempotence, commutation with the
  ObjectId counter, and the "nearness" relation between a state and the states a failed write
  can leave behind.
-/
import Spec.StoreInv
import Proofs.StoreFlag

namespace MongoModel.Proofs.C08Lemmas
open MongoModel MongoModel.Spec

/-- remove the documents satisfying `P` (what one `_expire_documents(index)` does) -/
def filt (P : Val → Bool) (c : Coll) : Coll :=
  { c with docs := c.docs.filter (fun p => !P p.2) }

/-- the predicate an index expires by; depends on the index only -/
def ixPred (now : Int) (ix : Index) : R (Val → Bool) :=
  match ix.ttl with
  | none => .ok (fun _ => false)
  | some raw =>
    match ttlSeconds raw with
    | .error e => .error e
    | .ok none => .ok (fun _ => false)
    | .ok (some secs) =>
      if ix.keys.length > 1 then .ok (fun _ => false)
      else match ix.keys with
        | [] => .error .other
        | (field, _) :: _ => .ok (meetsExpiry field secs now)

theorem filt_clean (P : Val → Bool) (c : Coll) (h : ∀ p ∈ c.docs, P p.2 = false) :
    filt P c = c := by
  have h1 : c.docs.filter (fun p => !P p.2) = c.docs := by
    rw [List.filter_eq_self]; intro p hp; simp [h p hp]
  unfold filt; rw [h1]

theorem filt_false (c : Coll) : filt (fun _ => false) c = c :=
  filt_clean _ c (fun _ _ => rfl)

theorem expireIndex_eq (now : Int) (c : Coll) (ix : Index) :
    expireIndex now c ix = (ixPred now ix).map (fun P => filt P c) := by
  unfold expireIndex ixPred
  cases ix.ttl with
  | none => simp [Except.map, filt_false]
  | some raw =>
    simp only [bind, Except.bind, pure, Except.pure]
    cases ttlSeconds raw with
    | error e => simp [Except.map]
    | ok o =>
      cases o with
      | none => simp [Except.map, filt_false]
      | some secs =>
        simp only
        split
        · simp [Except.map, filt_false]
        · cases ix.keys with
          | nil => simp [Except.map]
          | cons kv r => simp [Except.map, filt]

/-- run the filters of a list of indexes -/
def passL (now : Int) : List Index → Coll → R Coll
  | [], c => .ok c
  | ix :: r, c =>
    match ixPred now ix with
    | .error e => .error e
    | .ok P => passL now r (filt P c)

theorem foldlM_eq_passL (now : Int) (l : List Index) (c : Coll) :
    l.foldlM (expireIndex now) c = passL now l c := by
  induction l generalizing c with
  | nil => simp [passL, pure, Except.pure]
  | cons ix r ih =>
    simp only [List.foldlM_cons, passL, expireIndex_eq, bind, Except.bind]
    cases ixPred now ix with
    | error e => simp [Except.map]
    | ok P => simp [Except.map, ih]

theorem expire_eq (now : Int) (c : Coll) : expire now c = passL now c.ttlIndexes c := by
  unfold expire; exact foldlM_eq_passL now _ c

/-! ### what a pass keeps -/

theorem passL_fields (now : Int) (l : List Index) (c c' : Coll) (h : passL now l c = .ok c') :
    c'.indexes = c.indexes ∧ c'.ttlIndexes = c.ttlIndexes ∧ c'.forceCreated = c.forceCreated ∧
    c'.nextOid = c.nextOid := by
  induction l generalizing c with
  | nil => simp [passL] at h; subst h; simp
  | cons ix r ih =>
    simp only [passL] at h
    cases hp : ixPred now ix with
    | error e => simp [hp] at h
    | ok P =>
      simp only [hp] at h
      have := ih _ h
      simpa [filt] using this

theorem passL_keeps_clean (now : Int) (l : List Index) (c c' : Coll) (Q : Val → Bool)
    (h : passL now l c = .ok c') (hq : ∀ p ∈ c.docs, Q p.2 = false) :
    ∀ p ∈ c'.docs, Q p.2 = false := by
  induction l generalizing c with
  | nil => simp [passL] at h; subst h; exact hq
  | cons ix r ih =>
    simp only [passL] at h
    cases hp : ixPred now ix with
    | error e => simp [hp] at h
    | ok P =>
      simp only [hp] at h
      refine ih _ h ?_
      intro p hpm
      simp only [filt, List.mem_filter] at hpm
      exact hq p hpm.1

/-- a pass over clean documents does nothing -/
theorem passL_clean (now : Int) (l : List Index) (c : Coll)
    (hok : ∀ ix ∈ l, ∃ P, ixPred now ix = .ok P ∧ ∀ p ∈ c.docs, P p.2 = false) :
    passL now l c = .ok c := by
  induction l with
  | nil => simp [passL]
  | cons ix r ih =>
    obtain ⟨P, hP, hc⟩ := hok ix (by simp)
    simp only [passL, hP, filt_clean P c hc]
    exact ih (fun ix hix => hok ix (by simp [hix]))

/-- after a successful pass every index predicate is defined and false on what remains -/
theorem passL_result_clean (now : Int) (l : List Index) (c c' : Coll)
    (h : passL now l c = .ok c') :
    ∀ ix ∈ l, ∃ P, ixPred now ix = .ok P ∧ ∀ p ∈ c'.docs, P p.2 = false := by
  induction l generalizing c with
  | nil => simp
  | cons ix r ih =>
    simp only [passL] at h
    cases hp : ixPred now ix with
    | error e => simp [hp] at h
    | ok P =>
      simp only [hp] at h
      intro ix' hix'
      rcases List.mem_cons.1 hix' with rfl | hr
      · refine ⟨P, hp, ?_⟩
        apply passL_keeps_clean now r (filt P c) c' P h
        intro p hpm
        simp only [filt, List.mem_filter] at hpm
        simpa using hpm.2
      · exact ih _ h ix' hr

theorem expire_idem (now : Int) (c c' : Coll) (h : expire now c = .ok c') :
    expire now c' = .ok c' := by
  rw [expire_eq] at h ⊢
  have hf := passL_fields now _ c c' h
  rw [hf.2.1]
  exact passL_clean now _ c' (passL_result_clean now _ c c' h)

/-! ### the ObjectId counter -/

theorem filt_bump (P : Val → Bool) (c : Coll) (n : Nat) :
    filt P { c with nextOid := n } = { filt P c with nextOid := n } := by
  simp [filt]

theorem passL_bump (now : Int) (l : List Index) (c : Coll) (n : Nat) :
    passL now l { c with nextOid := n } = (passL now l c).map (fun x => { x with nextOid := n }) := by
  induction l generalizing c with
  | nil => simp [passL, Except.map]
  | cons ix r ih =>
    simp only [passL]
    cases ixPred now ix with
    | error e => simp [Except.map]
    | ok P => simp only [filt_bump, ih]

theorem expire_bump (now : Int) (c : Coll) (n : Nat) :
    expire now { c with nextOid := n } = (expire now c).map (fun x => { x with nextOid := n }) := by
  rw [expire_eq, expire_eq]; exact passL_bump now _ c n

/-- the pass stores nothing: an empty collection stays empty -/
theorem passL_docs_nil (now : Int) (l : List Index) (c c' : Coll) (h : passL now l c = .ok c')
    (e : c.docs = []) : c'.docs = [] := by
  induction l generalizing c with
  | nil => simp [passL] at h; subst h; exact e
  | cons ix r ih =>
    simp only [passL] at h
    cases hp : ixPred now ix with
    | error e => simp [hp] at h
    | ok P =>
      simp only [hp] at h
      exact ih _ h (by simp [filt, e])

theorem expire_docs_nil (now : Int) (c c' : Coll) (h : expire now c = .ok c') (e : c.docs = []) :
    c'.docs = [] := by
  rw [expire_eq] at h; exact passL_docs_nil now _ c c' h e

/-! ### the created flag -/

theorem filt_flag (P : Val → Bool) (c : Coll) (f : Bool) :
    filt P { c with forceCreated := f } = { filt P c with forceCreated := f } := by
  simp [filt]

theorem passL_flag (now : Int) (l : List Index) (c : Coll) (f : Bool) :
    passL now l { c with forceCreated := f } =
      (passL now l c).map (fun x => { x with forceCreated := f }) := by
  induction l generalizing c with
  | nil => simp [passL, Except.map]
  | cons ix r ih =>
    simp only [passL]
    cases ixPred now ix with
    | error e => simp [Except.map]
    | ok P => simp only [filt_flag, ih]

theorem expire_flag (now : Int) (c : Coll) (f : Bool) :
    expire now { c with forceCreated := f } =
      (expire now c).map (fun x => { x with forceCreated := f }) := by
  rw [expire_eq, expire_eq]; exact passL_flag now _ c f

/-- the expiry pass commutes with the mark a rejected insert leaves on the created flag -/
theorem expire_markStored (now : Int) (c : Coll) (b : Bool) :
    expire now (c.markStored b) = (expire now c).map (fun x => x.markStored b) := by
  cases b with
  | false =>
    rw [markStored_false]
    cases expire now c <;> simp [Except.map]
  | true => exact expire_flag now c true

theorem expire_fields (now : Int) (c c' : Coll) (h : expire now c = .ok c') :
    c'.indexes = c.indexes ∧ c'.ttlIndexes = c.ttlIndexes ∧ c'.forceCreated = c.forceCreated ∧
    c'.nextOid = c.nextOid := by
  rw [expire_eq] at h; exact passL_fields now _ c c' h

end MongoModel.Proofs.C08Lemmas
