/-
  Proofs.C13ExtUpsert — C13's last clause: after an upsert whose filter consists of plain
  equality conditions the update does not address, the appended document holds every pair of
  the (normalised) filter, is matched by it, and is the one document the filter selects.
-/
import Proofs.C13ExtSeed
import Proofs.C13ExtLoop
import Proofs.C02Frame
import Proofs.C02PosFrame
import Proofs.C18

set_option linter.unusedVariables false
set_option linter.unusedSimpArgs false

namespace MongoModel.Proofs.C13Ext
open MongoModel MongoModel.Spec MongoModel.Proofs.C05Lemmas MongoModel.Proofs.C10Lemmas
  MongoModel.Proofs.C13Lemmas MongoModel.Proofs.C02Lemmas

/-! ### the datetime normalisation keeps the shapes -/

theorem mem_patchFields {kv : String × Val} : ∀ {fs : Fields}, kv ∈ patchFields fs →
    ∃ kv0 ∈ fs, kv = (kv0.1, patch kv0.2)
  | [], h => by simp [patchFields] at h
  | (k, v) :: r, h => by
    simp only [patchFields, List.mem_cons] at h
    rcases h with e | h
    · exact ⟨(k, v), List.mem_cons_self .., e⟩
    · obtain ⟨kv0, hm, e⟩ := mem_patchFields h
      exact ⟨kv0, List.mem_cons_of_mem _ hm, e⟩

theorem dkeys_patchFields : ∀ fs : Fields, dkeys (patchFields fs) = dkeys fs
  | [] => rfl
  | (k, v) :: r => by
    have := dkeys_patchFields r
    simp only [dkeys] at this ⊢
    simp [patchFields, this]

theorem isScalar_patch (v : Val) (h : isScalar v = true) : isScalar (patch v) = true := by
  cases v <;> simp_all [isScalar, patch]

theorem patch_fixed {fs : Fields} {kv : String × Val} (h : kv ∈ patchFields fs) : patch kv.2 = kv.2 := by
  obtain ⟨kv0, _, rfl⟩ := mem_patchFields h
  exact MongoModel.Proofs.C18.patch_idem _

theorem plainEq_patch (ss : Fields) (h : plainEqualities ss = true) :
    plainEqualities (patchFields ss) = true := by
  simp only [plainEqualities, List.all_eq_true]
  intro kv hm
  obtain ⟨kv0, hm0, rfl⟩ := mem_patchFields hm
  obtain ⟨h2, h3, h4⟩ := plainEq_entry h hm0
  simp only [h2, h3, isScalar_patch _ h4, Bool.not_false, Bool.and_true]

theorem opAddr_patch (k : String) (v : Val) : opAddr k (patch v) = opAddr k v := by
  cases v with
  | doc body =>
    simp only [patch, opAddr]
    induction body with
    | nil => rfl
    | cons fv r ih =>
      obtain ⟨f, x⟩ := fv
      simp only [patchFields, List.flatMap_cons, ih]
      cases x <;> rfl
  | _ => rfl

theorem addressed_patch : ∀ u : Fields, addressed (patchFields u) = addressed u
  | [] => rfl
  | (k, v) :: r => by
    simp only [patchFields]
    rw [addressed_cons, addressed_cons, opAddr_patch, addressed_patch r]

theorem all_dollar_patch (u : Fields) (h : u.all (fun kv => kv.1.startsWith "$") = true) :
    (patchFields u).all (fun kv => kv.1.startsWith "$") = true := by
  simp only [List.all_eq_true] at h ⊢
  intro kv hm
  obtain ⟨kv0, hm0, rfl⟩ := mem_patchFields hm
  exact h kv0 hm0

theorem patchFields_ne_nil (u : Fields) (h : u ≠ []) : patchFields u ≠ [] := by
  cases u with
  | nil => exact absurd rfl h
  | cons kv r => obtain ⟨k, v⟩ := kv; simp [patchFields]

theorem opUpdate_parts {u : Fields} (h : isOperatorUpdate u = true) :
    u.all (fun kv => kv.1.startsWith "$") = true ∧ u ≠ [] := by
  simp only [isOperatorUpdate, Bool.and_eq_true, Bool.not_eq_true', List.isEmpty_eq_false_iff] at h
  exact ⟨h.2, h.1⟩

/-- an operator update has no top-level `_id` -/
theorem dget_nodollar_none (k : String) (hk : k.startsWith "$" = false) :
    ∀ u : Fields, u.all (fun kv => kv.1.startsWith "$") = true → dget k u = none
  | [], _ => rfl
  | (k', v) :: r, h => by
    simp only [List.all_cons, Bool.and_eq_true] at h
    have : ¬ k' = k := by intro e; subst e; rw [hk] at h; exact absurd h.1 (by simp)
    simp only [dget, this, if_false]
    exact dget_nodollar_none k hk r h.2

theorem upsertIdv_from_filter (ss dfs : Fields) (c3 : Coll) :
    ∀ v, dget "_id" ss = some v → (upsertIdv ss dfs c3).1 = v := by
  intro v h; simp [upsertIdv, h]

/-! ### carrying the pairs through the update, the `_id` generation and the normalisation -/

theorem holdsAll_withId (ss bf : Fields) (c4 : Coll) (h : HoldsAll ss bf) : HoldsAll ss (withId c4 bf) := by
  intro kv hm
  unfold withId
  split
  · exact h kv hm
  · rename_i hh
    have hne : "_id" ≠ kv.1 := by
      intro e
      have := h kv hm
      rw [← e] at this
      exact hh (by simp [dhas, this])
    rw [C13Lemmas.dget_dset_other kv.1 "_id" _ hne]
    exact h kv hm

theorem holdsAll_patch (ss fs1 : Fields) (hfix : ∀ kv ∈ ss, patch kv.2 = kv.2) (h : HoldsAll ss fs1) :
    HoldsAll ss (patchFields fs1) := by
  intro kv hm
  rw [MongoModel.Proofs.C18.dget_patchFields, h kv hm]
  simp [hfix kv hm]

theorem selectDocs_append (f : Val) (l : List (Val × Val)) (p : Val × Val)
    (hl : selectDocs f l = .ok []) (hp : filterApplies f p.2 = .ok true) :
    selectDocs f (l ++ [p]) = .ok [p] := by
  induction l with
  | nil => simp [selectDocs, hp, bind, Except.bind, pure, Except.pure]
  | cons q l ih =>
    obtain ⟨b, more, hb, hm, e⟩ := select_cons f q l [] hl
    cases b with
    | true => simp at e
    | false =>
      simp only [Bool.false_eq_true, if_false] at e
      subst e
      simp only [List.cons_append, selectDocs, hb, ih hm, bind, Except.bind, pure, Except.pure,
        Bool.false_eq_true, if_false]

/-- **the upserted document is matched by the filter** -/
theorem upsert_then_matched (cfg : Cfg) (now : Int) (c c1 c' : Coll) (ss ufs : Fields)
    (multi : Bool) (sel : List (Val × Val)) (r : UpdateResult)
    (he : expire now c = .ok c1) (hne : c1.docs ≠ []) (hn : c.ttlIndexes = [])
    (hi : IdInv c) (hg : GoodKeys c)
    (hk : plainEqualities ss = true) (hd : (dkeys ss).Nodup)
    (hu : isOperatorUpdate ufs = true)
    (hx : ∀ k ∈ dkeys ss, k ∉ addressed ufs)
    (hs : selectDocs (patchDT (.doc ss)) c1.docs = .ok sel)
    (h : applyUpdateColl cfg now c (.doc ss) (.doc ufs) true multi = (c', .ok r))
    (hup : r.upserted.isSome = true) :
    ∃ id fs, r.upserted = some id ∧ c'.docs = c1.docs ++ [(id, .doc fs)] ∧
      dget "_id" fs = some id ∧
      HoldsAll (patchFields ss) fs ∧
      filterApplies (patchDT (.doc ss)) (.doc fs) = .ok true ∧
      selectDocs (patchDT (.doc ss)) c'.docs = .ok [(id, .doc fs)] := by
  have hsel : sel = [] :=
    (upsert_iff_no_match_main cfg now c c1 c' ss (.doc ufs) multi sel r he hne hn hi hg hs h).1.1 hup
  subst hsel
  obtain ⟨hc1, dfs, hdfs, hal⟩ := upsert_reaches cfg now c c1 c' ss (.doc ufs) multi r he hne hn hi hg hs h
  subst hc1
  rw [patch_doc] at hdfs
  cases hdfs
  obtain ⟨hall, hnil⟩ := opUpdate_parts hu
  have hk' := plainEq_patch ss hk
  have hd' : (dkeys (patchFields ss)).Nodup := by rw [dkeys_patchFields]; exact hd
  obtain ⟨seed, bf, id, hex, hap, hdocs, hid, hr⟩ := afterLoop_built _ _ _ _ _ _ _ _ _ _ hn hal
  obtain ⟨sf, hseed, hsf⟩ := seed_any_id (patchFields ss) hk' hd'
    (upsertIdv (patchFields ss) (patchFields ufs) c1).1 (upsertIdv_from_filter _ _ _)
  rw [hseed] at hex
  cases hex
  obtain ⟨bf', hbf, hframe⟩ := applyUpdate_frame _ _ _ _ _ _ (all_dollar_patch ufs hall)
    (patchFields_ne_nil ufs hnil) hap
  cases hbf
  have hbfh : HoldsAll (patchFields ss) bf := by
    intro kv hm
    have hmem : kv.1 ∈ dkeys ss := by
      rw [← dkeys_patchFields]; exact List.mem_map.2 ⟨kv, hm, rfl⟩
    rw [hframe kv.1 (by rw [addressed_patch]; exact hx kv.1 hmem)]
    exact hsf kv hm
  have hfin := holdsAll_patch _ _ (fun kv hm => patch_fixed hm)
    (holdsAll_withId _ _ (upsertIdv (patchFields ss) (patchFields ufs) c1).2 hbfh)
  have hmatch := holds_matches _ _ hk' hfin
  rw [patch_doc]
  refine ⟨id, _, hr, hdocs, hid, hfin, hmatch, ?_⟩
  rw [hdocs]
  exact selectDocs_append _ _ _ (by rw [← patch_doc]; exact hs) hmatch

end MongoModel.Proofs.C13Ext
