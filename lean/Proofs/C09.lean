/-
  Proofs.C09 — lemmas and proofs behind Props/C09.lean.
-/
import Spec.Ttl
import Proofs.C09Expire
import Proofs.C09Ops

namespace MongoModel.Proofs.C09
open MongoModel MongoModel.Spec MongoModel.Proofs.C09Lemmas

theorem expired_eq_spec (field : String) (secs now : Int) (d : Val) :
    meetsExpiry field secs now d = isExpired field secs now d :=
  meetsExpiry_eq field secs now d

theorem expire_single (now secs : Int) (c : Coll) (ix : Index) (field : String) (dir raw : Val)
    (ht : c.ttlIndexes = [ix]) (hk : ix.keys = [(field, dir)]) (hr : ix.ttl = some raw)
    (hs : ttlSeconds raw = .ok (some secs)) :
    ∃ c', expire now c = .ok c' ∧
      c'.docs = c.docs.filter (fun p => !isExpired field secs now p.2) ∧
      c'.indexes = c.indexes ∧ c'.ttlIndexes = c.ttlIndexes := by
  have ha := ixAction_single ix field dir raw secs hk hr hs
  refine ⟨filt now c field secs, ?_, ?_, rfl, rfl⟩
  · rw [expire_eq_pass, ht, pass_cons, ha]
    rfl
  · simp only [filt]
    congr 1
    funext p
    rw [meetsExpiry_eq]

theorem expire_idem (now : Int) (c c' : Coll) (h : expire now c = .ok c') :
    expire now c' = .ok c' :=
  C09Lemmas.expire_idem now c c' h

theorem ops_see_unexpired_only (cfg : Cfg) (now : Int) (c c' : Coll) (op : Val)
    (h : expire now c = .ok c') (hop : dataOp op = true) :
    (stepColl cfg now c op).2 = (stepColl cfg now c' op).2 ∧
    expire now (stepColl cfg now c op).1 = expire now (stepColl cfg now c' op).1 :=
  step_rel h cfg op hop

theorem never_removed (now : Int) (c c' : Coll) (ix : Index) (p : Val × Val)
    (h : expireIndex now c ix = .ok c') (hp : p ∈ c.docs)
    (hne : ∀ field dir secs raw, ix.keys = [(field, dir)] → ix.ttl = some raw →
            ttlSeconds raw = .ok (some secs) → isExpired field secs now p.2 = false) :
    p ∈ c'.docs := by
  rw [expireIndex_eq] at h
  cases ha : ixAction ix with
  | error e => rw [ha] at h; cases h
  | ok o =>
    rw [ha] at h
    cases o with
    | none => cases h; exact hp
    | some fs =>
      obtain ⟨f, s⟩ := fs
      cases h
      obtain ⟨dir, raw, hk, hr, hs⟩ := ixAction_some ix f s ha
      have := hne f dir s raw hk hr hs
      rw [← meetsExpiry_eq] at this
      simp only [filt, List.mem_filter]
      exact ⟨hp, by simp [this]⟩

theorem compound_or_non_numeric_inert (now : Int) (c : Coll) (ix : Index) :
    (ix.keys.length > 1 → ∀ c', expireIndex now c ix = .ok c' → c' = c) ∧
    (∀ raw, ix.ttl = some raw → ttlSeconds raw = .ok none → expireIndex now c ix = .ok c) := by
  constructor
  · intro hl c' h
    rw [expireIndex_eq] at h
    cases ha : ixAction ix with
    | error e => rw [ha] at h; cases h
    | ok o =>
      rw [ha] at h
      cases o with
      | none => cases h; rfl
      | some fs =>
        obtain ⟨f, s⟩ := fs
        obtain ⟨dir, raw, hk, _, _⟩ := ixAction_some ix f s ha
        rw [hk] at hl
        simp at hl
  · intro raw hr hs
    rw [expireIndex_eq]
    have : ixAction ix = .ok none := by
      unfold ixAction
      rw [hr]
      simp only []
      rw [hs]
    rw [this]

theorem gone_for_good (now now' : Int) (c c' c'' : Coll) (h : expire now c = .ok c')
    (h' : expire now' c' = .ok c'') :
    c'.docs.Sublist c.docs ∧ c''.docs.Sublist c'.docs :=
  ⟨(expire_ok now c c' h).1, (expire_ok now' c' c'' h').1⟩

theorem drop_stops_expiry (now : Int) (c : Coll) :
    (c.ttlIndexes = [] → expire now c = .ok c) ∧
    (dropIndexesColl c).ttlIndexes = [] ∧ (dropColl c).ttlIndexes = [] ∧
    (∀ name c', dropIndexColl now c name = (c', .ok ()) →
        ∀ ix ∈ c'.ttlIndexes, ix.name ≠ name) := by
  refine ⟨?_, rfl, rfl, ?_⟩
  · intro h
    rw [expire_eq_pass, h]
    rfl
  · intro name c' h ix hix
    unfold dropIndexColl at h
    cases he : expire now c with
    | error e => rw [he] at h; cases h
    | ok c1 =>
      rw [he] at h
      simp only [] at h
      split at h
      · cases h
        simp only [List.mem_filter] at hix
        simpa using hix.2
      · cases h

/-- what a refused creation leaves: the collection itself, or what the expiry pass of the indexes
    that exist makes of it; the index tables are untouched either way -/
theorem refusedCreate_inert (now : Int) (c : Coll) (ix : Index) :
    (refusedCreate now c ix).indexes = c.indexes ∧
    (refusedCreate now c ix).ttlIndexes = c.ttlIndexes ∧
    (refusedCreate now c ix = c ∨ expire now c = .ok (refusedCreate now c ix)) := by
  unfold refusedCreate
  split
  · split
    · rename_i c1 h
      have hm := (expire_ok now c c1 h).2
      exact ⟨hm.1, hm.2.1, .inr h⟩
    · exact ⟨rfl, rfl, .inl rfl⟩
  · exact ⟨rfl, rfl, .inl rfl⟩

theorem refused_creation_inert (now : Int) (c : Coll) (ix : Index) (e : Err)
    (h : (createIndexColl now c ix).2 = .error e) :
    (createIndexColl now c ix).1.indexes = c.indexes ∧
    (createIndexColl now c ix).1.ttlIndexes = c.ttlIndexes ∧
    ((createIndexColl now c ix).1 = c ∨ expire now c = .ok (createIndexColl now c ix).1) := by
  have hgo : (createIndexColl.go now c ix).2 = .error e →
      (createIndexColl.go now c ix).1.indexes = c.indexes ∧
      (createIndexColl.go now c ix).1.ttlIndexes = c.ttlIndexes ∧
      ((createIndexColl.go now c ix).1 = c ∨
        expire now c = .ok (createIndexColl.go now c ix).1) := by
    unfold createIndexColl.go
    simp only
    split
    · intro _; exact refusedCreate_inert now c ix
    · split <;> (intro h'; cases h')
  unfold createIndexColl at h ⊢
  split at h
  · split at h
    · rename_i hso
      simp [hso]
    · rename_i hso
      simp only [hso]
      exact hgo h
  · exact hgo h

end MongoModel.Proofs.C09
