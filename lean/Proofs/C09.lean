/-
  Proofs.C09 — lemmas and proofs behind Props/C09.lean.
-/
import Spec.Ttl

namespace MongoModel.Proofs.C09
open MongoModel MongoModel.Spec

theorem expired_eq_spec (field : String) (secs now : Int) (d : Val) :
    meetsExpiry field secs now d = isExpired field secs now d := by sorry

theorem expire_single (now secs : Int) (c : Coll) (ix : Index) (field : String) (dir raw : Val)
    (ht : c.ttlIndexes = [ix]) (hk : ix.keys = [(field, dir)]) (hr : ix.ttl = some raw)
    (hs : ttlSeconds raw = .ok (some secs)) :
    ∃ c', expire now c = .ok c' ∧
      c'.docs = c.docs.filter (fun p => !isExpired field secs now p.2) ∧
      c'.indexes = c.indexes ∧ c'.ttlIndexes = c.ttlIndexes := by sorry

theorem expire_idem (now : Int) (c c' : Coll) (h : expire now c = .ok c') :
    expire now c' = .ok c' := by sorry

theorem ops_see_unexpired_only (cfg : Cfg) (now : Int) (c c' : Coll) (op : Val)
    (h : expire now c = .ok c') (hop : dataOp op = true) :
    (stepColl cfg now c op).2 = (stepColl cfg now c' op).2 ∧
    expire now (stepColl cfg now c op).1 = expire now (stepColl cfg now c' op).1 := by sorry

theorem never_removed (now : Int) (c c' : Coll) (ix : Index) (p : Val × Val)
    (h : expireIndex now c ix = .ok c') (hp : p ∈ c.docs)
    (hne : ∀ field dir secs raw, ix.keys = [(field, dir)] → ix.ttl = some raw →
            ttlSeconds raw = .ok (some secs) → isExpired field secs now p.2 = false) :
    p ∈ c'.docs := by sorry

theorem compound_or_non_numeric_inert (now : Int) (c : Coll) (ix : Index) :
    (ix.keys.length > 1 → ∀ c', expireIndex now c ix = .ok c' → c' = c) ∧
    (∀ raw, ix.ttl = some raw → ttlSeconds raw = .ok none → expireIndex now c ix = .ok c) := by sorry

theorem gone_for_good (now now' : Int) (c c' c'' : Coll) (h : expire now c = .ok c')
    (h' : expire now' c' = .ok c'') :
    c'.docs.Sublist c.docs ∧ c''.docs.Sublist c'.docs := by sorry

theorem drop_stops_expiry (now : Int) (c : Coll) :
    (c.ttlIndexes = [] → expire now c = .ok c) ∧
    (dropIndexesColl c).ttlIndexes = [] ∧ (dropColl c).ttlIndexes = [] ∧
    (∀ name c', dropIndexColl now c name = (c', .ok ()) →
        ∀ ix ∈ c'.ttlIndexes, ix.name ≠ name) := by sorry

end MongoModel.Proofs.C09
