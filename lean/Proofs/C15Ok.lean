/-
  Proofs.C15Ok — what a successful executor adds to the running totals.
-/
import Proofs.C15Step

namespace MongoModel.Proofs.C15Lemmas
open MongoModel MongoModel.Spec

/-- the contribution of a successful update-like executor -/
def updFun (idx : Nat) (res : UpdateResult) : BulkTotals → BulkTotals := fun t =>
  let t := match res.upserted with
    | some id =>
      { t with upserted := t.upserted ++ [Val.doc [("index", Val.int idx), ("_id", id)]],
               nUpserted := t.nUpserted + res.n }
    | none => { t with nMatched := t.nMatched + res.n }
  { t with nModified := t.nModified + res.nModified }

/-- the three kinds of contribution -/
inductive OkFun (idx : Nat) : (BulkTotals → BulkTotals) → Prop
  | ins : OkFun idx (fun t => { t with nInserted := t.nInserted + 1 })
  | del (n : Nat) : OkFun idx (fun t => { t with nRemoved := t.nRemoved + (n : Int) })
  | upd (res : UpdateResult) : OkFun idx (updFun idx res)

theorem upd_ok (cfg : Cfg) (now : Int) (c c' : Coll) (idx : Nat) (q u : Val) (up multi : Bool)
    (f : BulkTotals → BulkTotals)
    (h : (match applyUpdateColl cfg now c q u up multi with
      | (c', r) =>
        match r with
        | .error e => (c', if e.isWriteError then BulkOut.writeErr e else .abort e)
        | .ok res => (c', .ok (updFun idx res))) = (c', .ok f)) : OkFun idx f := by
  cases ha : applyUpdateColl cfg now c q u up multi with
  | mk c1 r =>
    rw [ha] at h
    cases r with
    | error e => dsimp only at h; split at h <;> cases h
    | ok res => cases h; exact OkFun.upd res

theorem del_ok (now : Int) (c c' : Coll) (idx : Nat) (q : Val) (multi : Bool)
    (f : BulkTotals → BulkTotals)
    (h : (match bulkOne.deleteBulk now c q multi with
     | (c', .ok n) => (c', BulkOut.ok (fun t => { t with nRemoved := t.nRemoved + n }))
     | (c', .error e) => (c', if e.isWriteError then .writeErr e else .abort e)) = (c', .ok f)) :
    OkFun idx f := by
  unfold bulkOne.deleteBulk at h
  split at h
  · rename_i c1 n hd
    split at hd
    · cases hc : deleteColl now c _ multi with
      | mk c2 r =>
        rw [hc] at hd
        cases r with
        | error e => cases hd
        | ok m => cases hd; cases h; exact OkFun.del m
    · cases hd
  · split at h <;> cases h

theorem one_ok (cfg : Cfg) (now : Int) (c c' : Coll) (idx : Nat) (r : Val)
    (f : BulkTotals → BulkTotals) (h : bulkOne cfg now c idx r = (c', .ok f)) : OkFun idx f := by
  unfold bulkOne at h
  split at h
  · split at h
    · cases h; exact OkFun.ins
    · split at h <;> cases h
    · cases h
  · exact upd_ok cfg now c c' idx _ _ _ _ f h
  · exact upd_ok cfg now c c' idx _ _ _ _ f h
  · exact upd_ok cfg now c c' idx _ _ _ _ f h
  · exact del_ok now c c' idx _ _ f h
  · exact del_ok now c c' idx _ _ f h
  · cases h

theorem ok_errors {idx : Nat} {f : BulkTotals → BulkTotals} (h : OkFun idx f) (t : BulkTotals) :
    (f t).errors = t.errors := by
  cases h with
  | ins => rfl
  | del n => rfl
  | upd res => unfold updFun; dsimp only; split <;> rfl

theorem ok_upserted {idx : Nat} {f : BulkTotals → BulkTotals} (h : OkFun idx f) (t : BulkTotals) :
    (f t).upserted = t.upserted ∨
    ∃ id, (f t).upserted = t.upserted ++ [.doc [("index", .int idx), ("_id", id)]] := by
  cases h with
  | ins => exact Or.inl rfl
  | del n => exact Or.inl rfl
  | upd res =>
    unfold updFun; dsimp only; split
    · exact Or.inr ⟨_, rfl⟩
    · exact Or.inl rfl

theorem ok_counts {idx : Nat} {f : BulkTotals → BulkTotals} (h : OkFun idx f) (t : BulkTotals) :
    (f t).nInserted + (f t).nMatched + (f t).nRemoved + (f t).nUpserted
      ≥ t.nInserted + t.nMatched + t.nRemoved + t.nUpserted := by
  cases h with
  | ins => dsimp only; omega
  | del n => dsimp only; omega
  | upd res => unfold updFun; dsimp only; split <;> dsimp only <;> omega

end MongoModel.Proofs.C15Lemmas
