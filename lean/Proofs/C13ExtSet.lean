/-
  Proofs.C13ExtSet — an operator update one of whose `$set` / `$setOnInsert` operators carries
  `_id: w` (and nothing else in the update addresses `_id`) leaves `_id = w` on the document.
-/
import Proofs.C02Frame
import Proofs.C02PosFrame
import Spec.UpsertExt

set_option linter.unusedVariables false
set_option linter.unusedSimpArgs false

namespace MongoModel.Proofs.C13Ext
open MongoModel MongoModel.Spec MongoModel.Proofs.C02Lemmas

/-- the operators in front that do not address `key` can be skipped as far as `key` goes -/
theorem applyOps_skip (spec now : Val) (wi : Bool) (whole : Fields)
    (hw : whole.any (fun kv => kv.1.startsWith "$") = true) (key : String) (tail : Fields) :
    ∀ (pre : Fields) (first : Bool) (fs : Fields) (d' : Val),
      applyOps spec now wi whole (pre ++ tail) first (.doc fs) = .ok d' →
      key ∉ addressed pre →
      ∃ fs1 first', dget key fs1 = dget key fs ∧
        applyOps spec now wi whole tail first' (.doc fs1) = .ok d'
  | [], first, fs, d', h, _ => ⟨fs, first, rfl, h⟩
  | (k, v) :: rest, first, fs, d', h, hk => by
    rw [addressed_cons] at hk
    simp only [List.mem_append, not_or] at hk
    have key' : ∀ (X : R Val),
        (∀ d1, X = .ok d1 → ∃ fs1, d1 = .doc fs1 ∧ Frame (opAddr k v) fs fs1) →
        (do let d' ← X; applyOps spec now wi whole (rest ++ tail) false d') = Except.ok d' →
        ∃ fs1 first', dget key fs1 = dget key fs ∧
          applyOps spec now wi whole tail first' (.doc fs1) = .ok d' := by
      intro X hX hb
      obtain ⟨d1, h1, h2⟩ := bind_ok hb
      obtain ⟨fs1, rfl, hf1⟩ := hX d1 h1
      obtain ⟨fs2, f2, hg, h3⟩ := applyOps_skip spec now wi whole hw key tail rest false fs1 d' h2 hk.2
      exact ⟨fs2, f2, by rw [hg, hf1 key hk.1], h3⟩
    simp only [List.cons_append, applyOps] at h
    split at h
    · rename_i u hu
      exact key' _ (fun d1 h1 => updateFields_frame u now v fs d1 k h1) h
    · split at h
      · rename_i hk'; subst hk'
        exact key' _ (fun d1 h1 => renameFields_frame v fs d1 h1) h
      split at h
      · split at h
        · exact applyOps_skip spec now wi whole hw key tail rest first fs d' h hk.2
        · exact key' _ (fun d1 h1 => updateFields_frame .set now v fs d1 k h1) h
      split at h
      · exact key' _ (fun d1 h1 => updateFields_frame .currentDate now v fs d1 k h1) h
      split at h
      · exact key' _ (fun d1 h1 => eachField_frame _
          (fun fs0 f0 v0 d0 => addToSetField_touch spec fs0 f0 v0 d0) v fs d1 k h1) h
      split at h
      · exact key' _ (fun d1 h1 => eachField_frame _
          (fun fs0 f0 v0 d0 => pullField_touch fs0 f0 v0 d0) v fs d1 k h1) h
      split at h
      · exact key' _ (fun d1 h1 => eachField_frame _
          (fun fs0 f0 v0 d0 => pullAllField_touch spec fs0 f0 v0 d0) v fs d1 k h1) h
      split at h
      · exact key' _ (fun d1 h1 => eachField_frame _
          (fun fs0 f0 v0 d0 => pushField_touch spec fs0 f0 v0 d0) v fs d1 k h1) h
      split at h
      · rw [replaceWhole_dollar whole _ hw] at h; cases h
      · cases h

/-- `$set` (and `$setOnInsert` on an insert) runs `updateFields .set` and goes on -/
theorem applyOps_set_step (spec now : Val) (wi : Bool) (whole : Fields) (op : String) (v : Val)
    (post : Fields) (first : Bool) (d d' : Val)
    (hop : op = "$set" ∨ (op = "$setOnInsert" ∧ wi = true))
    (h : applyOps spec now wi whole ((op, v) :: post) first d = .ok d') :
    ∃ d1, updateFields .set now v d = .ok d1 ∧ applyOps spec now wi whole post false d1 = .ok d' := by
  rcases hop with rfl | ⟨rfl, rfl⟩
  · have hu : updaterOf "$set" = some .set := by decide +kernel
    simp only [applyOps, hu] at h
    exact bind_ok h
  · have hu : updaterOf "$setOnInsert" = none := by decide +kernel
    simp only [applyOps, hu] at h
    simp only [show ("$setOnInsert" = "$rename") = False by decide, if_false, if_true, Bool.not_true,
      Bool.false_eq_true] at h
    exact bind_ok h

/-- the body `{…, _id: w, …}` of a `$set`, no other key of which starts at `_id`, sets `_id = w` -/
theorem setFold_absent (now : Val) : ∀ (body : Fields) (fs : Fields) (d' : Val),
    body.foldlM (fun acc kv =>
      if !keyOk kv.1 then unmodelled else updateSingleField .set now kv.2 (splitDots kv.1) acc) (.doc fs) = .ok d' →
    (∀ k ∈ dkeys body, headOf k ≠ "_id") →
    ∃ fs', d' = .doc fs' ∧ dget "_id" fs' = dget "_id" fs
  | [], fs, d', h, _ => by
    simp only [List.foldlM_nil, pure, Except.pure] at h
    cases h; exact ⟨fs, rfl, rfl⟩
  | kv :: body, fs, d', h, hk => by
    simp only [List.foldlM_cons] at h
    obtain ⟨d1, h1, h2⟩ := bind_ok h
    obtain ⟨fs1, rfl, ht⟩ := fieldStep_touch .set now kv fs d1 h1
    obtain ⟨fs2, rfl, hg⟩ := setFold_absent now body fs1 d' h2
      (fun k hm => hk k (by simp only [dkeys, List.map_cons, List.mem_cons]; exact Or.inr hm))
    refine ⟨fs2, rfl, ?_⟩
    rw [hg]
    exact ht.dget (Ne.symm (hk kv.1 (by simp [dkeys])))

theorem splitDots_id : splitDots "_id" = ["_id"] := by decide +kernel
theorem keyOk_id : keyOk "_id" = true := by decide +kernel
theorem headOf_id : headOf "_id" = "_id" := by decide +kernel

theorem setFold_present (now : Val) (w : Val) : ∀ (body : Fields) (fs : Fields) (d' : Val),
    body.foldlM (fun acc kv =>
      if !keyOk kv.1 then unmodelled else updateSingleField .set now kv.2 (splitDots kv.1) acc) (.doc fs) = .ok d' →
    dget "_id" body = some w →
    (dkeys body).filter (fun k => headOf k = "_id") = ["_id"] →
    ∃ fs', d' = .doc fs' ∧ dget "_id" fs' = some w
  | [], fs, d', h, hw, _ => by simp [dget] at hw
  | (k, v) :: body, fs, d', h, hw, hf => by
    simp only [List.foldlM_cons] at h
    obtain ⟨d1, h1, h2⟩ := bind_ok h
    by_cases e : k = "_id"
    · subst e
      simp only [dget, if_true, Option.some.injEq] at hw
      subst hw
      simp only [keyOk_id, Bool.not_true, Bool.false_eq_true, if_false, splitDots_id,
        updateSingleField, runUpdater] at h1
      cases h1
      simp only [dkeys, List.map_cons, List.filter_cons, headOf_id, decide_true, if_true,
        List.cons.injEq, true_and, List.filter_eq_nil_iff, decide_eq_true_eq] at hf
      obtain ⟨fs2, rfl, hg⟩ := setFold_absent now body _ d' h2 (fun k hm => hf k hm)
      exact ⟨fs2, rfl, by rw [hg, C02Lemmas.dget_dset_same]⟩
    · simp only [dget, e, if_false] at hw
      have hh : headOf k ≠ "_id" := by
        intro hh
        simp only [dkeys, List.map_cons, List.filter_cons, hh, decide_true, if_true,
          List.cons.injEq] at hf
        exact e hf.1
      simp only [dkeys, List.map_cons, List.filter_cons, hh, decide_false, Bool.false_eq_true,
        if_false] at hf
      obtain ⟨fs1, rfl, _⟩ := fieldStep_touch .set now (k, v) fs d1 h1
      exact setFold_present now w body fs1 d' h2 hw hf

/-! ### the same through the positional branch (`applyOpsPos`) -/

/-- the operators in front that do not address `key` can be skipped as far as `key` goes -/
theorem applyOpsPos_skip (spec now : Val) (wi : Bool) (whole : Fields)
    (hw : whole.any (fun kv => kv.1.startsWith "$") = true) (key : String) (tail : Fields) :
    ∀ (pre : Fields) (first : Bool) (sub : SubRef) (fs : Fields) (d' : Val),
      applyOpsPos spec now wi whole (pre ++ tail) first sub (.doc fs) = .ok d' →
      key ∉ addressed pre →
      ∃ fs1 first' sub', dget key fs1 = dget key fs ∧
        applyOpsPos spec now wi whole tail first' sub' (.doc fs1) = .ok d'
  | [], first, sub, fs, d', h, _ => ⟨fs, first, sub, rfl, h⟩
  | (k, v) :: rest, first, sub, fs, d', h, hk => by
    rw [addressed_cons] at hk
    simp only [List.mem_append, not_or] at hk
    have key' : ∀ (X : R (Val × SubRef)),
        (∀ r, X = .ok r → ∃ fs1, r.1 = .doc fs1 ∧ Frame (opAddr k v) fs fs1) →
        (do let r ← X; applyOpsPos spec now wi whole (rest ++ tail) false r.2 r.1) = Except.ok d' →
        ∃ fs1 first' sub', dget key fs1 = dget key fs ∧
          applyOpsPos spec now wi whole tail first' sub' (.doc fs1) = .ok d' := by
      intro X hX hb
      obtain ⟨r, h1, h2⟩ := bind_ok' hb
      obtain ⟨fs1, hr, hf1⟩ := hX r h1
      rw [hr] at h2
      obtain ⟨fs2, f2, s2, hg, h3⟩ :=
        applyOpsPos_skip spec now wi whole hw key tail rest false r.2 fs1 d' h2 hk.2
      exact ⟨fs2, f2, s2, by rw [hg, hf1 key hk.1], h3⟩
    have pf : ∀ (u : Updater) (r : Val × SubRef), posFields u now spec v (.doc fs) sub = .ok r →
        ∃ fs1, r.1 = .doc fs1 ∧ Frame (opAddr k v) fs fs1 := by
      intro u r hr
      obtain ⟨d1, s1⟩ := r
      exact posFields_frame u now spec v fs sub s1 d1 k hr
    simp only [List.cons_append, applyOpsPos] at h
    split at h
    · rename_i u hu
      exact key' _ (pf u) h
    · split at h
      · rename_i hk'; subst hk'
        obtain ⟨d1, h1, h2⟩ := bind_ok' h
        obtain ⟨fs1, rfl, hf1⟩ := renameFields_frame v fs d1 h1
        obtain ⟨fs2, f2, s2, hg, h3⟩ :=
          applyOpsPos_skip spec now wi whole hw key tail rest false _ fs1 d' h2 hk.2
        exact ⟨fs2, f2, s2, by rw [hg, hf1 key hk.1], h3⟩
      split at h
      · split at h
        · exact applyOpsPos_skip spec now wi whole hw key tail rest first sub fs d' h hk.2
        · exact key' _ (pf .set) h
      split at h
      · exact key' _ (pf .currentDate) h
      split at h
      · refine key' _ (fun r hr => eachFieldS_frame _ ?_ v fs sub r k hr) h
        intro fs0 s0 f0 v0 r0 h0
        obtain ⟨d1, h1, h2⟩ := bind_ok' h0
        cases h2
        exact addToSetFieldPos_touch spec fs0 f0 v0 d1 h1
      split at h
      · refine key' _ (fun r hr => eachFieldS_frame _ ?_ v fs sub r k hr) h
        intro fs0 s0 f0 v0 r0 h0
        exact pullFieldPos_touch spec s0 fs0 f0 v0 r0 h0
      split at h
      · refine key' _ (fun r hr => eachFieldS_frame _ ?_ v fs sub r k hr) h
        intro fs0 s0 f0 v0 r0 h0
        obtain ⟨d1, h1, h2⟩ := bind_ok' h0
        cases h2
        exact pullAllFieldPos_touch spec fs0 f0 v0 d1 h1
      split at h
      · refine key' _ (fun r hr => eachFieldS_frame _ ?_ v fs sub r k hr) h
        intro fs0 s0 f0 v0 r0 h0
        obtain ⟨d1, h1, h2⟩ := bind_ok' h0
        cases h2
        exact pushFieldPos_touch spec fs0 f0 v0 d1 h1
      split at h
      · rw [replaceWhole_dollar whole _ hw] at h; cases h
      · cases h

/-- `$set` (and `$setOnInsert` on an insert) runs `posFields .set` and goes on -/
theorem applyOpsPos_set_step (spec now : Val) (wi : Bool) (whole : Fields) (op : String) (v : Val)
    (post : Fields) (first : Bool) (sub : SubRef) (d d' : Val)
    (hop : op = "$set" ∨ (op = "$setOnInsert" ∧ wi = true))
    (h : applyOpsPos spec now wi whole ((op, v) :: post) first sub d = .ok d') :
    ∃ r, posFields .set now spec v d sub = .ok r ∧
      applyOpsPos spec now wi whole post false r.2 r.1 = .ok d' := by
  rcases hop with rfl | ⟨rfl, rfl⟩
  · have hu : updaterOf "$set" = some .set := by decide +kernel
    simp only [applyOpsPos, hu] at h
    exact bind_ok' h
  · have hu : updaterOf "$setOnInsert" = none := by decide +kernel
    simp only [applyOpsPos, hu] at h
    simp only [show ("$setOnInsert" = "$rename") = False by decide, if_false, if_true, Bool.not_true,
      Bool.false_eq_true] at h
    exact bind_ok' h

theorem hasDollarPart_id : hasDollarPart "_id" = false := by decide +kernel

theorem posFold_absent (now spec : Val) : ∀ (body : Fields) (st st' : PosState) (fs : Fields),
    st.d = .doc fs →
    body.foldlM (fun st kv => posUpdaterKey .set now spec st kv.1 kv.2) st = .ok st' →
    (∀ k ∈ dkeys body, headOf k ≠ "_id") →
    ∃ fs', st'.d = .doc fs' ∧ dget "_id" fs' = dget "_id" fs
  | [], st, st', fs, hd, h, _ => by
    simp only [List.foldlM_nil, pure, Except.pure] at h
    cases h; exact ⟨fs, hd, rfl⟩
  | kv :: body, st, st', fs, hd, h, hk => by
    simp only [List.foldlM_cons] at h
    obtain ⟨s1, h1, h2⟩ := bind_ok' h
    obtain ⟨fs1, hd1, ht⟩ := posUpdaterKey_touch .set now spec st s1 kv.1 kv.2 fs hd h1
    obtain ⟨fs2, hd2, hg⟩ := posFold_absent now spec body s1 st' fs1 hd1 h2
      (fun k hm => hk k (by simp only [dkeys, List.map_cons, List.mem_cons]; exact Or.inr hm))
    refine ⟨fs2, hd2, ?_⟩
    rw [hg]
    exact ht.dget (Ne.symm (hk kv.1 (by simp [dkeys])))

theorem posFold_present (now spec : Val) (w : Val) : ∀ (body : Fields) (st st' : PosState)
    (fs : Fields), st.d = .doc fs →
    body.foldlM (fun st kv => posUpdaterKey .set now spec st kv.1 kv.2) st = .ok st' →
    dget "_id" body = some w →
    (dkeys body).filter (fun k => headOf k = "_id") = ["_id"] →
    ∃ fs', st'.d = .doc fs' ∧ dget "_id" fs' = some w
  | [], st, st', fs, hd, h, hw, _ => by simp [dget] at hw
  | (k, v) :: body, st, st', fs, hd, h, hw, hf => by
    simp only [List.foldlM_cons] at h
    obtain ⟨s1, h1, h2⟩ := bind_ok' h
    by_cases e : k = "_id"
    · subst e
      simp only [dget, if_true, Option.some.injEq] at hw
      subst hw
      obtain ⟨d0, sub0, lost0⟩ := st
      simp only at hd
      subst hd
      simp only [posUpdaterKey] at h1
      split at h1
      · cases h1
      simp only [keyOk_id, Bool.not_true, Bool.false_eq_true, if_false, hasDollarPart_id,
        Bool.not_false, if_true, splitDots_id, updateSingleField, runUpdater, bind, Except.bind,
        pure, Except.pure] at h1
      cases h1
      simp only [dkeys, List.map_cons, List.filter_cons, headOf_id, decide_true, if_true,
        List.cons.injEq, true_and, List.filter_eq_nil_iff, decide_eq_true_eq] at hf
      obtain ⟨fs2, hd2, hg⟩ := posFold_absent now spec body _ st' _ rfl h2 (fun k hm => hf k hm)
      exact ⟨fs2, hd2, by rw [hg, C02Lemmas.dget_dset_same]⟩
    · simp only [dget, e, if_false] at hw
      have hh : headOf k ≠ "_id" := by
        intro hh
        simp only [dkeys, List.map_cons, List.filter_cons, hh, decide_true, if_true,
          List.cons.injEq] at hf
        exact e hf.1
      simp only [dkeys, List.map_cons, List.filter_cons, hh, decide_false, Bool.false_eq_true,
        if_false] at hf
      obtain ⟨fs1, hd1, _⟩ := posUpdaterKey_touch .set now spec st s1 k v fs hd h1
      exact posFold_present now spec w body s1 st' fs1 hd1 h2 hw hf

/-- **`$set` / `$setOnInsert` of `_id`** inside an operator update, on an insert -/
theorem set_id_effect (spec now : Val) (wi : Bool) (pre post body : Fields) (op : String) (w : Val)
    (fs : Fields) (d' : Val)
    (hop : op = "$set" ∨ (op = "$setOnInsert" ∧ wi = true))
    (hall : (pre ++ (op, .doc body) :: post).all (fun kv => kv.1.startsWith "$") = true)
    (hpre : "_id" ∉ addressed pre) (hpost : "_id" ∉ addressed post)
    (hw : dget "_id" body = some w)
    (hf : (dkeys body).filter (fun k => headOf k = "_id") = ["_id"])
    (h : applyUpdate spec (.doc (pre ++ (op, .doc body) :: post)) now wi (.doc fs) = .ok d') :
    ∃ fs', d' = .doc fs' ∧ dget "_id" fs' = some w := by
  have hany : (pre ++ (op, Val.doc body) :: post).any (fun kv => kv.1.startsWith "$") = true := by
    simp only [List.all_eq_true] at hall
    simp only [List.any_eq_true]
    exact ⟨(op, .doc body), by simp, hall _ (by simp)⟩
  by_cases hpos : positionalUpdate (pre ++ (op, .doc body) :: post) = true
  · -- the positional branch
    have h' : applyOpsPos spec now wi (pre ++ (op, .doc body) :: post)
        (pre ++ (op, .doc body) :: post) true .nil (.doc fs) = .ok d' := by
      cases hp : pre ++ (op, Val.doc body) :: post with
      | nil => simp at hp
      | cons a l =>
        rw [hp] at h hpos
        simpa only [applyUpdate, hpos, if_true] using h
    obtain ⟨fs1, f1, s1, hg1, h1⟩ :=
      applyOpsPos_skip spec now wi _ hany "_id" _ pre true _ fs d' h' hpre
    obtain ⟨r, h2, h3⟩ := applyOpsPos_set_step spec now wi _ op _ post f1 s1 _ d' hop h1
    simp only [posFields] at h2
    split at h2
    · obtain ⟨st, hst, h4⟩ := bind_ok' h2
      cases h4
      obtain ⟨fs2, hd2, hg2⟩ := posFold_present now spec w body _ st fs1 rfl hst hw hf
      simp only [hd2] at h3
      obtain ⟨fs3, rfl, hfr⟩ := applyOpsPos_frame spec now wi _ hany post false _ fs2 d' h3
      exact ⟨fs3, rfl, by rw [hfr "_id" hpost, hg2]⟩
    · obtain ⟨d2, h4, h5⟩ := bind_ok' h2
      cases h5
      simp only [updateFields] at h4
      split at h4
      · cases h4
      · obtain ⟨fs2, rfl, hg2⟩ := setFold_present now w body fs1 d2 h4 hw hf
        obtain ⟨fs3, rfl, hfr⟩ := applyOpsPos_frame spec now wi _ hany post false _ fs2 d' h3
        exact ⟨fs3, rfl, by rw [hfr "_id" hpost, hg2]⟩
  · simp only [Bool.not_eq_true] at hpos
    have h' : applyOps spec now wi (pre ++ (op, .doc body) :: post) (pre ++ (op, .doc body) :: post)
        true (.doc fs) = .ok d' := by
      cases hp : pre ++ (op, Val.doc body) :: post with
      | nil => simp at hp
      | cons a l =>
        rw [hp] at h hpos
        simpa only [applyUpdate, hpos, Bool.false_eq_true, if_false] using h
    obtain ⟨fs1, f1, hg1, h1⟩ := applyOps_skip spec now wi _ hany "_id" _ pre true fs d' h' hpre
    obtain ⟨d2, h2, h3⟩ := applyOps_set_step spec now wi _ op _ post f1 _ d' hop h1
    simp only [updateFields] at h2
    split at h2
    · cases h2
    · obtain ⟨fs2, rfl, hg2⟩ := setFold_present now w body fs1 d2 h2 hw hf
      obtain ⟨fs3, rfl, hfr⟩ := applyOps_frame spec now wi _ hany post false fs2 d' h3
      exact ⟨fs3, rfl, by rw [hfr "_id" hpost, hg2]⟩

end MongoModel.Proofs.C13Ext
