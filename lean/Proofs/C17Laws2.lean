/-
  Proofs.C17Laws2 — rename, drop, handles and clients, index_information.
-/
import Proofs.C17Laws

set_option linter.unusedSimpArgs false

namespace MongoModel.Proofs.C17
open MongoModel MongoModel.Catalog MongoModel.Spec.Catalog

/-! ### rename -/

theorem renameStep_moves (sv : Server) (d n n' : String) (dt : Bool)
    (hv : validName n' = true) (hne : n ≠ n') (hsrc : (sv.coll d n).isCreated = true)
    (ht : (sv.coll d n').isCreated = false ∨ dt = true) :
    (Catalog.renameStep sv d n n' dt).2 = .ok ∧
    (Catalog.renameStep sv d n n' dt).1.coll d n' = sv.coll d n ∧
    (Catalog.renameStep sv d n n' dt).1.coll d n = Coll.empty ∧
    ∀ d' m, ¬ (d' = d ∧ (m = n ∨ m = n')) →
      (Catalog.renameStep sv d n n' dt).1.coll d' m = sv.coll d' m := by
  have t1 : ∀ d' m, (sv.setColl d n (sv.coll d n)).coll d' m = sv.coll d' m := coll_touch sv d n
  simp only [Catalog.renameStep, hv, hne, Bool.not_true, Bool.false_eq_true, if_false]
  generalize hs1 : sv.setColl d n (sv.coll d n) = s1 at t1 ⊢
  have t2 : ∀ d' m, (s1.setColl d n' (s1.coll d n')).coll d' m = sv.coll d' m := by
    intro d' m; rw [coll_touch, t1]
  generalize hs2 : s1.setColl d n' (s1.coll d n') = s2 at t2 ⊢
  simp only [t1, t2, hsrc, Bool.not_true, Bool.false_eq_true, if_false]
  have hne' : ¬ n' = n := fun e => hne e.symm
  by_cases htc : (sv.coll d n').isCreated = true
  · have hdt : dt = true := by
      rcases ht with ht | ht
      · rw [ht] at htc; simp at htc
      · exact ht
    simp only [htc, if_true, hdt]
    refine ⟨trivial, ?_, ?_, ?_⟩
    · rw [coll_renameIn]; simp only [if_true]
      rw [coll_setColl]; simp [hne, t2]
    · rw [coll_renameIn]; simp [hne]
    · intro d' m hm
      rw [coll_renameIn]
      by_cases hd : d' = d
      · have h1 : ¬ m = n' := fun e => hm ⟨hd, Or.inr e⟩
        have h2 : ¬ m = n := fun e => hm ⟨hd, Or.inl e⟩
        simp only [hd, if_true, h1, h2, if_false]
        rw [coll_setColl]; simp [h1, t2]
      · simp only [hd, if_false]
        rw [coll_setColl]; simp [hd, t2]
  · simp only [htc, Bool.false_eq_true, if_false]
    refine ⟨trivial, ?_, ?_, ?_⟩
    · rw [coll_renameIn]; simp [t2]
    · rw [coll_renameIn]; simp [hne]
    · intro d' m hm
      rw [coll_renameIn]
      by_cases hd : d' = d
      · have h1 : ¬ m = n' := fun e => hm ⟨hd, Or.inr e⟩
        have h2 : ¬ m = n := fun e => hm ⟨hd, Or.inl e⟩
        simp [hd, h1, h2, t2]
      · simp [hd, t2]

theorem renameStep_invalid (sv : Server) (d n n' : String) (dt : Bool)
    (hv : validName n' = false) : Catalog.renameStep sv d n n' dt = (sv, .err .invalidName) := by
  simp [Catalog.renameStep, hv]

theorem renameStep_no_source (sv : Server) (d n n' : String) (dt : Bool)
    (hv : validName n' = true) (hsrc : (sv.coll d n).isCreated = false) :
    (Catalog.renameStep sv d n n' dt).2 = .err .opFail ∧
    ∀ d' m, (Catalog.renameStep sv d n n' dt).1.coll d' m = sv.coll d' m := by
  have t1 : ∀ d' m, (sv.setColl d n (sv.coll d n)).coll d' m = sv.coll d' m := coll_touch sv d n
  simp only [Catalog.renameStep, hv, Bool.not_true, Bool.false_eq_true, if_false]
  by_cases hnn : n = n'
  · simp only [hnn, if_true]; exact ⟨trivial, fun _ _ => trivial⟩
  simp only [hnn, if_false]
  generalize hs1 : sv.setColl d n (sv.coll d n) = s1 at t1 ⊢
  simp only [t1, hsrc, Bool.not_false, if_true]
  exact ⟨trivial, fun _ _ => trivial⟩

/-- renaming a collection onto its own name is refused - with or without `dropTarget`, whether
    the collection exists or not - and changes nothing at all -/
theorem renameStep_self (sv : Server) (d n : String) (dt : Bool) (hv : validName n = true) :
    Catalog.renameStep sv d n n dt = (sv, .err .opFail) := by
  simp [Catalog.renameStep, hv]

theorem renameStep_target_exists (sv : Server) (d n n' : String)
    (hv : validName n' = true) (hsrc : (sv.coll d n).isCreated = true)
    (ht : (sv.coll d n').isCreated = true) :
    (Catalog.renameStep sv d n n' false).2 = .err .opFail ∧
    ∀ d' m, (Catalog.renameStep sv d n n' false).1.coll d' m = sv.coll d' m := by
  have t1 : ∀ d' m, (sv.setColl d n (sv.coll d n)).coll d' m = sv.coll d' m := coll_touch sv d n
  simp only [Catalog.renameStep, hv, Bool.not_true, Bool.false_eq_true, if_false]
  by_cases hnn : n = n'
  · simp only [hnn, if_true]; exact ⟨trivial, fun _ _ => trivial⟩
  simp only [hnn, if_false]
  generalize hs1 : sv.setColl d n (sv.coll d n) = s1 at t1 ⊢
  have t2 : ∀ d' m, (s1.setColl d n' (s1.coll d n')).coll d' m = sv.coll d' m := by
    intro d' m; rw [coll_touch, t1]
  generalize hs2 : s1.setColl d n' (s1.coll d n') = s2 at t2 ⊢
  simp only [t1, t2, hsrc, ht, if_true, Bool.not_true, Bool.false_eq_true, if_false]
  exact ⟨trivial, fun _ _ => trivial⟩

/-! ### handles stay obtained -/

theorem dbCache_setStore (w : World) (i : Nat) (sv : Server) :
    (w.setStore i sv).dbCache = w.dbCache := rfl
theorem collCache_setStore (w : World) (i : Nat) (sv : Server) :
    (w.setStore i sv).collCache = w.collCache := rfl

theorem obtainedDb_setStore (w : World) (i : Nat) (sv : Server) (h : DbH) :
    obtainedDb (w.setStore i sv) h = obtainedDb w h := rfl
theorem obtainedColl_setStore (w : World) (i : Nat) (sv : Server) (h : CollH) :
    obtainedColl (w.setStore i sv) h = obtainedColl w h := rfl

theorem obtainedDb_addDbCache {w : World} {h : DbH} (c : Nat) (d : String)
    (hob : obtainedDb w h = true) : obtainedDb (addDbCache w c d) h = true := by
  unfold addDbCache; split
  · exact hob
  · unfold obtainedDb at hob ⊢
    simp only [upd_apply]
    split
    · rename_i hc
      simp only [List.contains_eq_mem, List.mem_append, decide_eq_true_eq] at hob ⊢
      exact Or.inl (hc ▸ hob)
    · exact hob

theorem obtainedDb_addCollCache {w : World} {h : DbH} (c : Nat) (d n : String) :
    obtainedDb (addCollCache w c d n) h = obtainedDb w h := by
  unfold addCollCache; split <;> rfl

theorem obtainedColl_addDbCache {w : World} {h : CollH} (c : Nat) (d : String)
    (hob : obtainedColl w h = true) : obtainedColl (addDbCache w c d) h = true := by
  unfold obtainedColl at hob ⊢
  simp only [Bool.and_eq_true] at hob ⊢
  refine ⟨obtainedDb_addDbCache c d hob.1, ?_⟩
  have : (addDbCache w c d).collCache = w.collCache := by unfold addDbCache; split <;> rfl
  rw [this]; exact hob.2

theorem obtainedColl_addCollCache {w : World} {h : CollH} (c : Nat) (d n : String)
    (hob : obtainedColl w h = true) : obtainedColl (addCollCache w c d n) h = true := by
  unfold obtainedColl at hob ⊢
  simp only [Bool.and_eq_true] at hob ⊢
  refine ⟨by rw [obtainedDb_addCollCache]; exact hob.1, ?_⟩
  unfold addCollCache; split
  · exact hob.2
  · simp only [upd2]
    split
    · rename_i hc
      have := hob.2
      simp only [List.contains_eq_mem, List.mem_append, decide_eq_true_eq] at this ⊢
      exact Or.inl (hc.1 ▸ hc.2 ▸ this)
    · exact hob.2

theorem obtainedColl_dropDatabaseStep (σ : Nat → Nat) {w : World} {h : CollH} (c : Nat)
    (d : String) (hob : obtainedColl w h = true) :
    obtainedColl (dropDatabaseStep σ w c d).1 h = true := by
  simp only [dropDatabaseStep]; split
  · exact obtainedColl_addDbCache c d (by rw [obtainedColl_setStore]; exact hob)
  · exact hob

theorem obtainedColl_step (σ : Nat → Nat) (w : World) (op : Op) (h : CollH)
    (hob : obtainedColl w h = true) : obtainedColl (Catalog.step σ w op).1 h = true := by
  cases op with
  | getDb c d =>
    simp only [Catalog.step]; split
    · exact hob
    · exact obtainedColl_addDbCache c d (by rw [obtainedColl_setStore]; exact hob)
  | getColl hh n =>
    simp only [Catalog.step, unob]; split
    · exact hob
    · split
      · exact hob
      · split
        · exact hob
        · exact obtainedColl_addCollCache _ _ _ hob
  | coll hh o => simp only [Catalog.step, unob]; split <;> exact hob
  | collRename hh n' dt => simp only [Catalog.step, unob]; split <;> exact hob
  | createCollection hh n =>
    simp only [Catalog.step, unob]; split
    · exact hob
    · split
      · exact hob
      · split
        · exact hob
        · exact obtainedColl_addCollCache _ _ _ (by rw [obtainedColl_setStore]; exact hob)
  | dropCollection hh t =>
    cases t <;> simp only [Catalog.step, unob] <;> split <;> exact hob
  | renameCollection hh n n' dt => simp only [Catalog.step, unob]; split <;> exact hob
  | listCollectionNames hh f =>
    cases f with
    | none => simp only [Catalog.step, unob]; split <;> exact hob
    | some f =>
      simp only [Catalog.step, unob]; split
      · exact hob
      · split <;> exact hob
  | listDatabaseNames c => exact hob
  | dropDatabase c t =>
    cases t with
    | byName d => simp only [Catalog.step]; exact obtainedColl_dropDatabaseStep σ c d hob
    | byHandle hh =>
      simp only [Catalog.step, unob]; split
      · exact hob
      · exact obtainedColl_dropDatabaseStep σ c hh.db hob

theorem obtainedColl_run (σ : Nat → Nat) (ops : List Op) (h : CollH) : ∀ (w : World),
    obtainedColl w h = true → obtainedColl (Catalog.run σ w ops).1 h = true := by
  induction ops with
  | nil => intro w hob; exact hob
  | cons op ops ih => intro w hob; exact ih _ (obtainedColl_step σ w op h hob)

/-! ### drop, then use the old handle -/

theorem step_coll (σ : Nat → Nat) (w : World) (h : CollH) (o : CollOp)
    (hob : obtainedColl w h = true) :
    Catalog.step σ w (.coll h o) =
      (w.setStore (σ h.client) ((w.store (σ h.client)).setColl h.db h.coll
        (collOp o ((w.store (σ h.client)).coll h.db h.coll)).1),
       (collOp o ((w.store (σ h.client)).coll h.db h.coll)).2) := by
  simp [Catalog.step, hob]

theorem empty_handle_usable (σ : Nat → Nat) (w : World) (h : CollH)
    (hob : obtainedColl w h = true)
    (he : (w.store (σ h.client)).coll h.db h.coll = Coll.empty) :
    (Catalog.step σ w (.coll h .find)).2 = .ids [] ∧
    (Catalog.step σ w (.coll h .indexInformation)).2 = .indexes [] ∧
    ∀ id, (Catalog.step σ w (.coll h (.insert id))).2 = .ok ∧
      (Catalog.step σ (Catalog.step σ w (.coll h (.insert id))).1 (.coll h .find)).2 = .ids [id] := by
  refine ⟨?_, ?_, ?_⟩
  · rw [step_coll σ w h _ hob, he]; rfl
  · rw [step_coll σ w h _ hob, he]; rfl
  · intro id
    have h1 := step_coll σ w h (.insert id) hob
    rw [he] at h1
    have hob' : obtainedColl (Catalog.step σ w (.coll h (.insert id))).1 h = true :=
      obtainedColl_step σ w _ h hob
    refine ⟨by rw [h1]; rfl, ?_⟩
    rw [step_coll σ _ h .find hob']
    rw [h1]
    simp only [store_setStore, if_true, coll_setColl, and_self]
    rfl

theorem drop_by_name_empties (σ : Nat → Nat) (w : World) (hd : DbH) (n : String)
    (hob : obtainedDb w hd = true) :
    (Catalog.step σ w (.dropCollection hd (.byName n))).2 = .ok ∧
    ((Catalog.step σ w (.dropCollection hd (.byName n))).1.store (σ hd.client)).coll hd.db n
      = Coll.empty := by
  simp only [Catalog.step, hob, Bool.not_true, Bool.false_eq_true, if_false, store_setStore,
    if_true, coll_setColl, and_self]

theorem coll_drop_empties (σ : Nat → Nat) (w : World) (h : CollH)
    (hob : obtainedColl w h = true) :
    (Catalog.step σ w (.coll h .drop)).2 = .ok ∧
    ((Catalog.step σ w (.coll h .drop)).1.store (σ h.client)).coll h.db h.coll = Coll.empty := by
  rw [step_coll σ w h _ hob]
  simp only [store_setStore, if_true, coll_setColl, and_self]
  exact ⟨rfl, rfl⟩

theorem drop_by_handle_empties (σ : Nat → Nat) (w : World) (hd : DbH) (h' : CollH)
    (hob : obtainedDb w hd = true) (hob' : obtainedColl w h' = true) :
    (Catalog.step σ w (.dropCollection hd (.byHandle h'))).2 = .ok ∧
    ((Catalog.step σ w (.dropCollection hd (.byHandle h'))).1.store (σ hd.client)).coll hd.db h'.coll
      = Coll.empty := by
  simp only [Catalog.step, hob, hob', Bool.not_true, Bool.or_self, Bool.false_eq_true, if_false,
    store_setStore, if_true, coll_setColl, and_self]

theorem dropDatabaseStep_empties (σ : Nat → Nat) (w : World) (c : Nat) (d : String) (n : String) :
    (dropDatabaseStep σ w c d).2 = .ok ∧
    ((dropDatabaseStep σ w c d).1.store (σ c)).coll d n = Coll.empty := by
  simp only [dropDatabaseStep]
  split
  · refine ⟨rfl, ?_⟩
    rw [store_addDbCache, store_setStore]; simp only [if_true]
    rw [coll_dropAll]; simp only [if_true]
    split
    · rfl
    · rename_i hc; exact (isCreated_false_iff _).mp (by simpa using hc)
  · rename_i hnc
    refine ⟨rfl, ?_⟩
    rw [store_setStore]; simp only [if_true]
    apply (isCreated_false_iff _).mp
    cases hcc : (((w.store (σ c)).touchDb d).coll d n).isCreated
    · rfl
    · exfalso; apply hnc
      unfold dbCreated
      rw [List.any_eq_true]
      unfold Server.coll at hcc
      cases hg : alGet? n (((w.store (σ c)).touchDb d).db d) with
      | none => rw [hg] at hcc; simp [Coll.empty, Coll.isCreated] at hcc
      | some cc => rw [hg] at hcc; exact ⟨(n, cc), alGet?_mem hg, hcc⟩

theorem drop_database_empties (σ : Nat → Nat) (w : World) (c : Nat) (d : String) (n : String) :
    (Catalog.step σ w (.dropDatabase c (.byName d))).2 = .ok ∧
    ((Catalog.step σ w (.dropDatabase c (.byName d))).1.store (σ c)).coll d n = Coll.empty := by
  simp only [Catalog.step]; exact dropDatabaseStep_empties σ w c d n

theorem drop_database_by_handle_empties (σ : Nat → Nat) (w : World) (c : Nat) (hd : DbH)
    (n : String) (hob : obtainedDb w hd = true) :
    (Catalog.step σ w (.dropDatabase c (.byHandle hd))).2 = .ok ∧
    ((Catalog.step σ w (.dropDatabase c (.byHandle hd))).1.store (σ c)).coll hd.db n
      = Coll.empty := by
  simp only [Catalog.step, hob, Bool.not_true, Bool.false_eq_true, if_false]
  exact dropDatabaseStep_empties σ w c hd.db n

/-! ### handles for the same name, clients on one store -/

theorem shared_clients_agree (σ : Nat → Nat) (w : World) (c c' : Nat) (d n : String) (o : CollOp)
    (hσ : σ c = σ c') (hob : obtainedColl w ⟨c, d, n⟩ = true)
    (hob' : obtainedColl w ⟨c', d, n⟩ = true) :
    (Catalog.step σ w (.coll ⟨c, d, n⟩ o)).2 = (Catalog.step σ w (.coll ⟨c', d, n⟩ o)).2 ∧
    (Catalog.step σ w (.coll ⟨c, d, n⟩ o)).1.store = (Catalog.step σ w (.coll ⟨c', d, n⟩ o)).1.store := by
  rw [step_coll σ w _ o hob, step_coll σ w _ o hob']
  simp only [hσ]
  exact ⟨trivial, trivial⟩

theorem shared_clients_agree_listings (σ : Nat → Nat) (w : World) (c c' : Nat) (d : String)
    (f : Option NameFilter) (hσ : σ c = σ c') (hob : obtainedDb w ⟨c, d⟩ = true)
    (hob' : obtainedDb w ⟨c', d⟩ = true) :
    (Catalog.step σ w (.listCollectionNames ⟨c, d⟩ f)).2 =
      (Catalog.step σ w (.listCollectionNames ⟨c', d⟩ f)).2 ∧
    (Catalog.step σ w (.listDatabaseNames c)).2 = (Catalog.step σ w (.listDatabaseNames c')).2 := by
  cases f <;> simp [Catalog.step, hob, hob', hσ]

/-! ### independent clients -/

theorem other_stores_untouched (σ : Nat → Nat) (w : World) (op : Op) (j : Nat)
    (hj : σ (opClient op) ≠ j) :
    (Catalog.step σ w op).1.store j = w.store j := by
  have hj' : ¬ j = σ (opClient op) := fun e => hj e.symm
  cases op with
  | getDb c d =>
    simp only [Catalog.step]; split
    · rfl
    · rw [store_addDbCache, store_setStore]; simp only [opClient] at hj'; simp [hj']
  | getColl hh n =>
    simp only [Catalog.step, unob]; split
    · rfl
    · split
      · rfl
      · split
        · rfl
        · rw [store_addCollCache]
  | coll hh o =>
    simp only [Catalog.step, unob]; split
    · rfl
    · rw [store_setStore]; simp only [opClient] at hj'; simp [hj']
  | collRename hh n' dt =>
    simp only [Catalog.step, unob]; split
    · rfl
    · rw [store_setStore]; simp only [opClient] at hj'; simp [hj']
  | createCollection hh n =>
    simp only [Catalog.step, unob]; split
    · rfl
    · split
      · rfl
      · split
        · rfl
        · rw [store_addCollCache, store_setStore]; simp only [opClient] at hj'; simp [hj']
  | dropCollection hh t =>
    cases t with
    | byName n =>
      simp only [Catalog.step, unob]; split
      · rfl
      · rw [store_setStore]; simp only [opClient] at hj'; simp [hj']
    | byHandle h' =>
      simp only [Catalog.step, unob]; split
      · rfl
      · rw [store_setStore]; simp only [opClient] at hj'; simp [hj']
  | renameCollection hh n n' dt =>
    simp only [Catalog.step, unob]; split
    · rfl
    · rw [store_setStore]; simp only [opClient] at hj'; simp [hj']
  | listCollectionNames hh f =>
    cases f with
    | none => simp only [Catalog.step, unob]; split <;> rfl
    | some f =>
      simp only [Catalog.step, unob]; split
      · rfl
      · split <;> rfl
  | listDatabaseNames c => rfl
  | dropDatabase c t =>
    cases t with
    | byName d =>
      simp only [Catalog.step, dropDatabaseStep]; split
      · rw [store_addDbCache, store_setStore]; simp only [opClient] at hj'; simp [hj']
      · rw [store_setStore]; simp only [opClient] at hj'; simp [hj']
    | byHandle hh =>
      simp only [Catalog.step, unob, dropDatabaseStep]; split
      · rfl
      · split
        · rw [store_addDbCache, store_setStore]; simp only [opClient] at hj'; simp [hj']
        · rw [store_setStore]; simp only [opClient] at hj'; simp [hj']

theorem other_stores_untouched_run (σ : Nat → Nat) (j : Nat) (ops : List Op) : ∀ (w : World),
    ops.all (fun op => σ (opClient op) != j) = true →
    (Catalog.run σ w ops).1.store j = w.store j := by
  induction ops with
  | nil => intro w _; rfl
  | cons op ops ih =>
    intro w h
    simp only [List.all_cons, Bool.and_eq_true, bne_iff_ne, ne_eq] at h
    simp only [Catalog.run]
    rw [ih _ (by simpa using h.2), other_stores_untouched σ w op j h.1]

/-! ### index_information -/

theorem index_information_of_rel (σ : Nat → Nat) {w : World} {s : SWorld} (hR : Rel w s)
    (h : CollH) (hob : obtainedColl w h = true) :
    (Catalog.step σ w (.coll h .indexInformation)).2 =
      .indexes (match alGet? (h.db, h.coll) (s (σ h.client)) with
        | some c => ("_id_", idIndex) :: c.indexes
        | none => []) := by
  rw [step_coll σ w h _ hob, ← hR.2.2 (σ h.client) h.db h.coll]
  simp only [collOp, toS]
  split <;> rfl

theorem index_ledger_create (c : Coll) (nm : Option String) (info : IndexInfo) (name : String)
    (hok : (collOp (.createIndex nm info) c).2 = .name name) :
    alGet? name (collOp (.createIndex nm info) c).1.indexes = some info ∧
    ∀ k, k ≠ name → alGet? k (collOp (.createIndex nm info) c).1.indexes = alGet? k c.indexes := by
  simp only [collOp] at hok ⊢
  generalize nm.getD (genIndexName info.key) = nme at hok ⊢
  cases hg : alGet? nme c.indexes with
  | none =>
    simp only [hg] at hok ⊢
    simp only [Out.name.injEq] at hok; subst hok
    refine ⟨by rw [alGet?_upsert]; simp, fun k hk => by rw [alGet?_upsert]; simp [hk]⟩
  | some ex =>
    simp only [hg] at hok ⊢
    by_cases he : ex = info
    · simp only [he, if_true, Out.name.injEq] at hok ⊢; subst hok
      refine ⟨by rw [alGet?_upsert]; simp, fun k hk => by rw [alGet?_upsert]; simp [hk]⟩
    · simp [he] at hok

theorem index_ledger_drop (c : Coll) (r : IndexRef)
    (hok : (collOp (.dropIndex r) c).2 = .ok) :
    alGet? r.name (collOp (.dropIndex r) c).1.indexes = none ∧
    ∀ k, k ≠ r.name → alGet? k (collOp (.dropIndex r) c).1.indexes = alGet? k c.indexes := by
  simp only [collOp] at hok ⊢
  split at hok
  · rename_i hh
    simp only [hh, if_true]
    refine ⟨by rw [alGet?_erase]; simp, fun k hk => by rw [alGet?_erase]; simp [hk]⟩
  · simp at hok

end MongoModel.Proofs.C17
