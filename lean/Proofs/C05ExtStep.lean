/-
  Proofs.C05ExtStep — the generic preservation through `stepX`, `stepXS` and whole histories
  (`Spec.runX`, with the collections of `Spec.traceX` satisfying the bridge).
-/
import Proofs.C05ExtLoop

set_option linter.unusedSimpArgs false
set_option linter.unusedVariables false

namespace MongoModel.Proofs.ExtGen
open MongoModel MongoModel.Spec

variable {cfg : Cfg} {P Q : Coll → Prop}

/-! ### `midColls` of the two bulk operations -/

theorem stepX_bulk_write (cfg : Cfg) (now : Int) (c : Coll) (reqs : List Val) (ordered : Val) :
    stepX cfg now c (.arr [.str "bulk_write", .arr reqs, ordered]) =
      bulkWrite cfg now c reqs (boolOf ordered) := by
  simp [stepX]

theorem mids_of_reqs (G : Coll → Prop) (cfg : Cfg) (now : Int) (c : Coll) (op : Val)
    (reqs : List Val) (ordered : Val) (hb : bulkReqs op = some (reqs, ordered))
    (hm : ∀ m ∈ midColls cfg now c op, G m) :
    ∀ n, n < reqs.length + 1 → G (bulkWrite cfg now c (reqs.take n) (boolOf ordered)).1 := by
  intro n hn
  rw [← stepX_bulk_write]
  apply hm
  unfold midColls
  rw [hb]
  simp only [List.mem_map, List.mem_range]
  exact ⟨n, hn, rfl⟩

/-! ### the extended step -/

theorem stepX_pres (H : Pres cfg P Q) (G : Coll → Prop) (hG : ∀ c, Q c → G c → P c)
    (now : Int) (c : Coll) (op : Val) (hP : P c) (hm : ∀ m ∈ midColls cfg now c op, G m) :
    Q (stepX cfg now c op).1 := by
  have hQ := H.weaken _ hP
  unfold stepX
  extract_lets fam
  have hfam : ∀ query proj update sortV upsert after, Q (fam query proj update sortV upsert after).1 := by
    intro query proj update sortV upsert after
    simp only [fam]
    split
    · split
      · exact hQ
      · exact fam_pres H now c _ proj update upsert _ after hP
    · exact hQ
  clear_value fam
  split
  · -- find_one
    split
    · exact hQ
    · exact H.findQ _ _ _ _ _ hQ
  · split
    · exact hQ
    · exact hfam _ _ _ _ _ _
  · split
    · exact hQ
    · exact hfam _ _ _ _ _ _
  · exact hfam _ _ _ _ _ _
  · rename_i reqs ordered
    exact bulkWrite_pres H G hG now c reqs (boolOf ordered) hP
      (mids_of_reqs G cfg now c _ reqs ordered rfl hm)
  · rename_i reqs ordered times
    exact bulkBuilder_pres H G hG now c reqs (boolOf ordered) times.toNat hP
      (mids_of_reqs G cfg now c _ reqs ordered rfl hm)
  · exact H.step now c op hP

theorem stepXS_pres (H : Pres cfg P Q) (G : Coll → Prop) (hG : ∀ c, Q c → G c → P c)
    (s : St) (op : Val) (hP : P s.c) (hm : ∀ m ∈ midColls cfg s.now s.c op, G m) :
    Q (stepXS cfg s op).1.c := by
  unfold stepXS
  split
  · exact H.weaken _ hP
  · exact stepX_pres H G hG s.now s.c op hP hm

/-! ### histories -/

/-- the state component of `runX` -/
def runStX (cfg : Cfg) (ops : List Val) (s : St) : St :=
  ops.foldl (fun s op => (observe (stepXS cfg s op).1).1) s

theorem runX_snd (cfg : Cfg) (ops : List Val) (s : St) : (runX cfg ops s).2 = runStX cfg ops s := by
  unfold runX runStX
  have : ∀ (ops : List Val) (acc : List (Out × Val)) (s : St),
      (ops.foldl (fun (acc : List (Out × Val) × St) op =>
        let (s1, out) := stepXS cfg acc.2 op
        let (s2, obs) := observe s1
        (acc.1 ++ [(out, obs)], s2)) (acc, s)).2 =
      ops.foldl (fun s op => (observe (stepXS cfg s op).1).1) s := by
    intro ops
    induction ops with
    | nil => intro acc s; rfl
    | cons op ops ih => intro acc s; simp only [List.foldl_cons]; exact ih _ _
  exact this ops [] s

theorem trace_head (cfg : Cfg) (ops : List Val) (s : St) : s.c ∈ traceXFrom cfg ops s := by
  cases ops <;> simp [traceXFrom]

/-- a whole history: `P` in the final state, provided every collection passed through satisfies
    the bridge and the observation carries `Q` -/
theorem history_pres (H : Pres cfg P Q) (G : Coll → Prop) (hG : ∀ c, Q c → G c → P c)
    (hobs : ∀ s : St, Q s.c → Q (observe s).1.c) :
    ∀ (ops : List Val) (s : St), P s.c → (∀ m ∈ traceXFrom cfg ops s, G m) →
      P (runStX cfg ops s).c := by
  intro ops
  induction ops with
  | nil => intro s hP _; exact hP
  | cons op ops ih =>
    intro s hP hg
    simp only [traceXFrom, List.mem_cons, List.mem_append] at hg
    have hQ1 : Q (stepXS cfg s op).1.c :=
      stepXS_pres H G hG s op hP (fun m hm => hg m (Or.inl (Or.inr hm)))
    have hQ2 := hobs _ hQ1
    have hP2 := hG _ hQ2 (hg _ (Or.inr (trace_head cfg ops _)))
    have := ih _ hP2 (fun m hm => hg m (Or.inr hm))
    simpa [runStX] using this

end MongoModel.Proofs.ExtGen
