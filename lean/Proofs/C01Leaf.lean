/-
  Proofs.C01Leaf — each leaf test of the matcher against the leaf predicate of the oracle.
-/
import Proofs.C01Basic
import Proofs.C01Values

set_option linter.unusedSimpArgs false

namespace MongoModel.Proofs.C01Lemmas
open MongoModel MongoModel.Spec

/-- a candidate whose value (when present) satisfies `Q` -/
def OptAll (Q : Val → Prop) (dv : Option Val) : Prop := ∀ v, dv = some v → Q v

theorem any_congr' {α} {f g : α → Bool} {xs : List α} (h : ∀ x, x ∈ xs → f x = g x) :
    xs.any f = xs.any g := by
  induction xs with
  | nil => rfl
  | cons x xs ih =>
    simp only [List.any_cons]
    rw [h x (by simp), ih (fun x hm => h x (by simp [hm]))]

theorem bsonEq_arr_nonarr (xs : List Val) (sv : Val) (h : sv.isArr = false) :
    bsonEq (.arr xs) sv = false := by
  cases sv <;> simp_all [bsonEq, Val.isArr]

theorem bsonEq_nonarr_arr (xs : List Val) (sv : Val) (h : sv.isArr = false) :
    bsonEq sv (.arr xs) = false := by
  cases sv <;> simp_all [bsonEq, Val.isArr]

/-! ### equality -/

theorem plainMatch_eq (nb : Bool) (s : Val) (dv : Option Val) (hs : Clean nb s)
    (hsd : smallDocs s = true) (hdv : OptAll (Clean nb) dv) :
    plainMatch s dv = (eqLeaf s).holdsOn dv := by
  cases dv with
  | none => cases s <;> simp [plainMatch, Leaf.holdsOn, eqLeaf]
  | some v =>
    have hv : Clean nb v := hdv v rfl
    have hgen : pyEq v s = bsonEq v s := pyEq_bsonEq nb v s hv hs (Or.inr hsd)
    cases v with
    | arr xs =>
      simp only [plainMatch, Leaf.holdsOn, eqLeaf, Bool.true_and, pyIn]
      rw [pyEq_bsonEq' nb (.arr xs) s hv hs hsd, Bool.or_comm]
      congr 1
      exact any_congr' (fun x hm =>
        pyEq_bsonEq nb x s ((hered_clean nb).arr xs x hv hm) hs (Or.inr hsd))
    | _ => simpa [plainMatch, Leaf.holdsOn, eqLeaf] using hgen

theorem opEq_eq (nb : Bool) (s : Val) (dv : Option Val) (hs : Clean nb s)
    (hsd : smallDocs s = true) (hna : s.isArr = false) (hdv : OptAll (Clean nb) dv) :
    opEq dv s = (eqLeaf s).holdsOn dv := by
  cases dv with
  | none => cases s <;> simp [opEq, operatorEq, Leaf.holdsOn, eqLeaf]
  | some v =>
    have hv : Clean nb v := hdv v rfl
    have hgen : pyEq v s = bsonEq v s := pyEq_bsonEq nb v s hv hs (Or.inr hsd)
    cases v with
    | arr xs =>
      simp only [opEq, hna, operatorEq, Leaf.holdsOn, eqLeaf, Bool.true_and,
        bsonEq_arr_nonarr xs s hna, Bool.false_or, Bool.false_eq_true, ↓reduceIte]
      exact any_congr' (fun x hm =>
        pyEq_bsonEq nb x s ((hered_clean nb).arr xs x hv hm) hs (Or.inr hsd))
    | _ => simpa [opEq, operatorEq, Leaf.holdsOn, eqLeaf] using hgen


/-! ### `$in` -/

theorem pyEq_null_right (x : Val) :
    pyEq x .null = (match x with | .null => true | _ => false) := by
  cases x with
  | date u o => cases o <;> simp [pyEq]
  | _ => simp [pyEq]

/-- the total test behind `opIn` with an array operand -/
def inTest (ss : List Val) (dv : Option Val) : Bool :=
  if dv.isNone && pyIn .null ss then true
  else (forceList dv).any (fun c => match c with | some x => pyIn x ss | none => false)

theorem leafOp_in_arr (ss : List Val) :
    leafOp "$in" (.arr ss) = fun dv => Except.ok (inTest ss dv) := by
  rw [leafOp_in]; funext dv; simp only [opIn, inTest]; split <;> rfl

theorem leafOp_nin_arr (ss : List Val) :
    leafOp "$nin" (.arr ss) = fun dv => Except.ok (!inTest ss dv) := by
  rw [leafOp_nin]; funext dv; simp only [opIn, inTest]; split <;> rfl

theorem pyIn_eq (nb : Bool) (x : Val) (vs : List Val) (hx : Clean nb x)
    (hvs : Clean nb (.arr vs)) (hsd : smallDocs (.arr vs) = true) :
    pyIn x vs = vs.any (bsonEq x) := by
  simp only [pyIn]
  exact any_congr' (fun s hm =>
    pyEq_bsonEq' nb x s hx ((hered_clean nb).arr vs s hvs hm) (hered_smallDocs.arr vs s hsd hm))

theorem inTest_eq (nb : Bool) (vs : List Val) (dv : Option Val) (hvs : Clean nb (.arr vs))
    (hsd : smallDocs (.arr vs) = true) (hna : vs.any Val.isArr = false)
    (hdv : OptAll (Clean nb) dv) :
    inTest vs dv = (inLeaf vs).holdsOn dv := by
  cases dv with
  | none =>
    simp only [inTest, Option.isNone_none, Bool.true_and, forceList, List.any_cons, List.any_nil,
      Bool.or_false, Leaf.holdsOn, inLeaf, pyIn]
    have : (vs.any fun x => pyEq x Val.null)
        = vs.any (fun v => match v with | .null => true | _ => false) :=
      any_congr' (fun x _ => pyEq_null_right x)
    rw [this]; cases (vs.any fun v => match v with | .null => true | _ => false) <;> rfl
  | some v =>
    have hv : Clean nb v := hdv v rfl
    cases v with
    | arr xs =>
      have h1 : vs.any (bsonEq (.arr xs)) = false := by
        rw [List.any_eq_false] at hna ⊢
        intro s hm
        have := hna s hm
        simp only [Bool.not_eq_true] at this ⊢
        exact bsonEq_arr_nonarr xs s this
      simp only [inTest, Option.isNone_some, Bool.false_and, Bool.false_eq_true, ↓reduceIte,
        forceList, List.any_map, Leaf.holdsOn, inLeaf, h1, Bool.false_or, Bool.true_and]
      exact any_congr' (fun x hm => pyIn_eq nb x vs ((hered_clean nb).arr xs x hv hm) hvs hsd)
    | _ =>
      simp only [inTest, Option.isNone_some, Bool.false_and, Bool.false_eq_true, ↓reduceIte,
        forceList, List.any_cons, List.any_nil, Bool.or_false, Leaf.holdsOn, inLeaf]
      exact pyIn_eq nb _ vs hv hvs hsd


/-! ### ordering -/

/-- operands the ordering operators are specified on in D -/
def CmpOperand (sv : Val) : Prop :=
  (∃ b, sv = .bool b) ∨ (∃ i, sv = .int i) ∨ (∃ m e, sv = .dbl m e) ∨ (∃ s, sv = .str s) ∨
  (∃ u, sv = .date u none) ∨ sv = .null

theorem bsonCompare_eq (op : CmpOp) (x sv : Val) (hx : hasAware x = false)
    (hsv : CmpOperand sv) :
    bsonCompare op x sv false = .ok ((cmpLeaf op sv).onVal x) := by
  rcases hsv with ⟨b, rfl⟩ | ⟨i, rfl⟩ | ⟨m, e, rfl⟩ | ⟨s, rfl⟩ | ⟨u, rfl⟩ | rfl
  · cases x <;> simp [bsonCompare, cmpLeaf, Val.tc, bsonCmp, leafCmp, scalarCmp, natCmp, Except.map]
  · cases x <;> simp [bsonCompare, cmpLeaf, Val.tc, bsonCmp, leafCmp, scalarCmp, natCmp, Except.map,
      Val.num?, Val.isNumber]
  · cases x <;> simp [bsonCompare, cmpLeaf, Val.tc, bsonCmp, leafCmp, scalarCmp, natCmp, Except.map,
      Val.num?, Val.isNumber]
  · cases x <;> simp [bsonCompare, cmpLeaf, Val.tc, bsonCmp, leafCmp, scalarCmp, natCmp, Except.map,
      strCmp]
  · cases x with
    | date u' o' =>
      cases o' with
      | some o' => simp [hasAware] at hx
      | none => simp [bsonCompare, cmpLeaf, Val.tc, bsonCmp, leafCmp, scalarCmp, natCmp, Except.map, dateUtc]
    | _ => simp [bsonCompare, cmpLeaf, Val.tc, bsonCmp, leafCmp, scalarCmp, natCmp, Except.map]
  · cases x <;> cases op <;>
      simp [bsonCompare, cmpLeaf, Val.tc, bsonCmp, leafCmp, scalarCmp, natCmp, Except.map,
        CmpOp.holds, Val.num?, Val.isNumber]


theorem anyM_ok {α} (f : α → R Bool) (g : α → Bool) (xs : List α)
    (h : ∀ x, x ∈ xs → f x = .ok (g x)) : anyM f xs = .ok (xs.any g) := by
  induction xs with
  | nil => rfl
  | cons x xs ih =>
    simp only [anyM, h x (by simp), bind, Except.bind, List.any_cons]
    cases g x
    · simpa using ih (fun x hm => h x (by simp [hm]))
    · rfl

theorem cmpOperand_notArr {sv : Val} (h : CmpOperand sv) : sv.isArr = false := by
  rcases h with ⟨b, rfl⟩ | ⟨i, rfl⟩ | ⟨m, e, rfl⟩ | ⟨s, rfl⟩ | ⟨u, rfl⟩ | rfl <;> rfl

theorem cmpLeaf_onVal_arr (op : CmpOp) (xs : List Val) {sv : Val} (h : CmpOperand sv) :
    (cmpLeaf op sv).onVal (.arr xs) = false := by
  rcases h with ⟨b, rfl⟩ | ⟨i, rfl⟩ | ⟨m, e, rfl⟩ | ⟨s, rfl⟩ | ⟨u, rfl⟩ | rfl <;> simp [cmpLeaf, Val.tc]

/-- a missing field: compared as null against a null operand, no match otherwise -/
theorem opCmp_none (op : CmpOp) {sv : Val} (h : CmpOperand sv) :
    opCmp op none sv = .ok (cmpLeaf op sv).onMissing := by
  rcases h with ⟨b, rfl⟩ | ⟨i, rfl⟩ | ⟨m, e, rfl⟩ | ⟨s, rfl⟩ | ⟨u, rfl⟩ | rfl
  · cases op <;> simp [opCmp, cmpLeaf]
  · cases op <;> simp [opCmp, cmpLeaf]
  · cases op <;> simp [opCmp, cmpLeaf]
  · cases op <;> simp [opCmp, cmpLeaf]
  · cases op <;> simp [opCmp, cmpLeaf]
  · cases op <;>
      simp [opCmp, cmpLeaf, bsonCompare, bsonCmp, leafCmp, Val.tc, Except.map, CmpOp.holds]

theorem cmpLeaf_elems (op : CmpOp) (sv : Val) : (cmpLeaf op sv).elems = true := rfl

theorem opCmp_eq (op : CmpOp) (sv : Val) (dv : Option Val) (hsv : CmpOperand sv)
    (hdv : OptAll (fun v => hasAware v = false) dv) :
    opCmp op dv sv = .ok ((cmpLeaf op sv).holdsOn dv) := by
  cases dv with
  | none => simp [Leaf.holdsOn, opCmp_none op hsv]
  | some v =>
    have hv : hasAware v = false := hdv v rfl
    cases v with
    | arr xs =>
      simp only [opCmp, cmpOperand_notArr hsv, Bool.false_eq_true, ↓reduceIte, Leaf.holdsOn,
        cmpLeaf_onVal_arr op xs hsv, Bool.false_or, cmpLeaf_elems, Bool.true_and]
      exact anyM_ok _ _ xs (fun x hm =>
        bsonCompare_eq op x sv (hered_hasAware.arr xs x hv hm) hsv)
    | _ => simpa [opCmp, Leaf.holdsOn] using bsonCompare_eq op _ sv hv hsv


/-! ### one operator on the reached values -/

theorem singleOp_pos' (op : String) (sv : Val) (cs : List (Option Val)) (g : Option Val → Bool)
    (h1 : op ≠ "$ne") (h2 : op ≠ "$nin") (h3 : op ≠ "$exists")
    (hg : ∀ c, c ∈ cs → leafOp op sv c = .ok (g c)) :
    singleOp op sv cs = .ok (cs.any g) := by
  obtain ⟨h', e⟩ := candLoop_pos g cs false false
  have e' := candLoop_congr (leafOp op sv) (fun c => .ok (g c)) false cs false false hg
  simp only [singleOp, h1, h2, h3, decide_false, Bool.false_and, Bool.or_false,
    Bool.false_eq_true, ↓reduceIte, bind, Except.bind, pure, Except.pure, e', e]
  cases cs <;> simp

theorem singleOp_neg' (op : String) (sv : Val) (cs : List (Option Val)) (g : Option Val → Bool)
    (h1 : op = "$ne" ∨ op = "$nin")
    (hg : ∀ c, c ∈ cs → leafOp op sv c = .ok (g c)) :
    singleOp op sv cs = .ok (cs.all g) := by
  have h3 : op ≠ "$exists" := by rcases h1 with h | h <;> subst h <;> decide
  have hn : (decide (op = "$ne") || decide (op = "$nin")) = true := by
    rcases h1 with h | h <;> subst h <;> decide
  have e' := candLoop_congr (leafOp op sv) (fun c => .ok (g c)) true cs false false hg
  simp only [singleOp, h3, hn, e', candLoop_neg, decide_false, Bool.false_and,
    Bool.false_eq_true, ↓reduceIte, bind, Except.bind, pure, Except.pure]
  by_cases ha : cs.all g = true
  · cases cs <;> simp_all
  · simp [ha]

/-- the candidates all satisfy `Q` -/
def CandsAll (Q : Val → Prop) (cs : List (Option Val)) : Prop := ∀ c, c ∈ cs → OptAll Q c

theorem spec_eq (nb : Bool) (sv : Val) (cs : List (Option Val)) (hs : Clean nb sv)
    (hsd : smallDocs sv = true) (hna : sv.isArr = false) (hcs : CandsAll (Clean nb) cs) :
    singleOp "$eq" sv cs = .ok ((eqLeaf sv).holds cs) ∧
    leafHolds "$eq" sv cs = .ok ((eqLeaf sv).holds cs) := by
  refine ⟨?_, by simp [leafHolds]⟩
  rw [singleOp_pos' "$eq" sv cs (eqLeaf sv).holdsOn (by decide) (by decide) (by decide)]
  · rfl
  · intro c hc; rw [leafOp_eq]; dsimp only; rw [opEq_eq nb sv c hs hsd hna (hcs c hc)]

theorem spec_ne (nb : Bool) (sv : Val) (cs : List (Option Val)) (hs : Clean nb sv)
    (hsd : smallDocs sv = true) (hna : sv.isArr = false) (hcs : CandsAll (Clean nb) cs) :
    singleOp "$ne" sv cs = .ok (!(eqLeaf sv).holds cs) ∧
    leafHolds "$ne" sv cs = .ok (!(eqLeaf sv).holds cs) := by
  refine ⟨?_, by simp [leafHolds]⟩
  rw [singleOp_neg' "$ne" sv cs (fun c => !(eqLeaf sv).holdsOn c) (Or.inl rfl)]
  · simp [Leaf.holds, List.all_eq_not_any_not]
  · intro c hc
    rw [leafOp_ne]; dsimp only
    rw [opNe_eq_not_opEq, opEq_eq nb sv c hs hsd hna (hcs c hc)]

theorem spec_in (nb : Bool) (vs : List Val) (cs : List (Option Val)) (hs : Clean nb (.arr vs))
    (hsd : smallDocs (.arr vs) = true) (hna : vs.any Val.isArr = false)
    (hcs : CandsAll (Clean nb) cs) :
    singleOp "$in" (.arr vs) cs = .ok ((inLeaf vs).holds cs) ∧
    leafHolds "$in" (.arr vs) cs = .ok ((inLeaf vs).holds cs) := by
  refine ⟨?_, by simp [leafHolds]⟩
  rw [singleOp_pos' "$in" _ cs (inLeaf vs).holdsOn (by decide) (by decide) (by decide)]
  · rfl
  · intro c hc; rw [leafOp_in_arr]; dsimp only; rw [inTest_eq nb vs c hs hsd hna (hcs c hc)]

theorem spec_nin (nb : Bool) (vs : List Val) (cs : List (Option Val)) (hs : Clean nb (.arr vs))
    (hsd : smallDocs (.arr vs) = true) (hna : vs.any Val.isArr = false)
    (hcs : CandsAll (Clean nb) cs) :
    singleOp "$nin" (.arr vs) cs = .ok (!(inLeaf vs).holds cs) ∧
    leafHolds "$nin" (.arr vs) cs = .ok (!(inLeaf vs).holds cs) := by
  refine ⟨?_, by simp [leafHolds]⟩
  rw [singleOp_neg' "$nin" _ cs (fun c => !(inLeaf vs).holdsOn c) (Or.inr rfl)]
  · simp [Leaf.holds, List.all_eq_not_any_not]
  · intro c hc; rw [leafOp_nin_arr]; dsimp only; rw [inTest_eq nb vs c hs hsd hna (hcs c hc)]

theorem cmpOperand_orderable {sv : Val} (h : CmpOperand sv) : orderable sv = true := by
  rcases h with ⟨b, rfl⟩ | ⟨i, rfl⟩ | ⟨m, e, rfl⟩ | ⟨s, rfl⟩ | ⟨u, rfl⟩ | rfl <;> rfl

theorem spec_cmp (opn : String) (op : CmpOp) (sv : Val) (cs : List (Option Val))
    (hop : (opn = "$gt" ∧ op = .gt) ∨ (opn = "$gte" ∧ op = .gte) ∨ (opn = "$lt" ∧ op = .lt) ∨
      (opn = "$lte" ∧ op = .lte))
    (hsv : CmpOperand sv) (hcs : CandsAll (fun v => hasAware v = false) cs) :
    singleOp opn sv cs = .ok ((cmpLeaf op sv).holds cs) ∧
    leafHolds opn sv cs = .ok ((cmpLeaf op sv).holds cs) := by
  have ho := cmpOperand_orderable hsv
  rcases hop with ⟨rfl, rfl⟩ | ⟨rfl, rfl⟩ | ⟨rfl, rfl⟩ | ⟨rfl, rfl⟩
  · refine ⟨?_, by simp [leafHolds, cmpHolds, ho]⟩
    rw [singleOp_pos' "$gt" sv cs (cmpLeaf .gt sv).holdsOn (by decide) (by decide) (by decide)]
    · rfl
    · intro c hc; rw [leafOp_gt]; dsimp only; rw [opCmp_eq .gt sv c hsv (hcs c hc)]
  · refine ⟨?_, by simp [leafHolds, cmpHolds, ho]⟩
    rw [singleOp_pos' "$gte" sv cs (cmpLeaf .gte sv).holdsOn (by decide) (by decide) (by decide)]
    · rfl
    · intro c hc; rw [leafOp_gte]; dsimp only; rw [opCmp_eq .gte sv c hsv (hcs c hc)]
  · refine ⟨?_, by simp [leafHolds, cmpHolds, ho]⟩
    rw [singleOp_pos' "$lt" sv cs (cmpLeaf .lt sv).holdsOn (by decide) (by decide) (by decide)]
    · rfl
    · intro c hc; rw [leafOp_lt]; dsimp only; rw [opCmp_eq .lt sv c hsv (hcs c hc)]
  · refine ⟨?_, by simp [leafHolds, cmpHolds, ho]⟩
    rw [singleOp_pos' "$lte" sv cs (cmpLeaf .lte sv).holdsOn (by decide) (by decide) (by decide)]
    · rfl
    · intro c hc; rw [leafOp_lte]; dsimp only; rw [opCmp_eq .lte sv c hsv (hcs c hc)]


theorem singleOp_exists_eq (sv : Val) (cs : List (Option Val)) :
    singleOp "$exists" sv cs =
      if (pyEq sv (.bool false) && cs.isEmpty) = true then .ok true
      else .ok (cs.any fun dv => sv.truthy == dv.isSome) := by
  obtain ⟨h', e⟩ := candLoop_pos (fun dv => sv.truthy == dv.isSome) cs false false
  have hd : (decide ("$exists" = "$ne") || decide ("$exists" = "$nin")) = false := by decide
  simp only [singleOp, leafOp_exists, decide_true, Bool.true_and, bind, Except.bind, pure,
    Except.pure, hd]
  rw [e]
  cases cs <;> simp

theorem spec_exists (sv : Val) (cs : List (Option Val))
    (h : (sv.truthy = true ∧ pyEq sv (.bool false) = false) ∨
         (sv.truthy = false ∧ pyEq sv (.bool false) = true ∧ cs.length ≤ 1)) :
    singleOp "$exists" sv cs = .ok (sv.truthy == cs.any Option.isSome) ∧
    leafHolds "$exists" sv cs = .ok (sv.truthy == cs.any Option.isSome) := by
  refine ⟨?_, by simp [leafHolds]⟩
  rw [singleOp_exists_eq]
  rcases h with ⟨ht, hp⟩ | ⟨ht, hp, hl⟩
  · simp [ht, hp]
  · simp only [ht, hp, Bool.true_and]
    match cs, hl with
    | [], _ => simp
    | [c], _ => simp
    | _ :: _ :: _, hl => simp at hl

/-! ### `$size` -/

theorem opSize_eq (n : Int) (dv : Option Val) :
    opSize dv (.int n) = (sizeLeaf n).holdsOn dv := by
  cases dv with
  | none => rfl
  | some v =>
    cases v <;> simp [opSize, Leaf.holdsOn, sizeLeaf, pyEq]
    exact beq_comm' _ _

theorem spec_size (n : Int) (cs : List (Option Val)) :
    singleOp "$size" (.int n) cs = .ok ((sizeLeaf n).holds cs) ∧
    leafHolds "$size" (.int n) cs = .ok ((sizeLeaf n).holds cs) := by
  refine ⟨?_, by simp [leafHolds]⟩
  rw [singleOp_pos' "$size" _ cs (sizeLeaf n).holdsOn (by decide) (by decide) (by decide)]
  · rfl
  · intro c _; rw [leafOp_size]; dsimp only; rw [opSize_eq]

theorem cmpOperand_of_reasons (opn : String) (sv : Val) (cs : List (Option Val))
    (hop : opn = "$gt" ∨ opn = "$gte" ∨ opn = "$lt" ∨ opn = "$lte")
    (ha : hasAware sv = false) (hr : opReasons opn sv cs = []) : CmpOperand sv := by
  cases sv with
  | date u o =>
    cases o with
    | none => exact Or.inr (Or.inr (Or.inr (Or.inr (Or.inl ⟨u, rfl⟩))))
    | some o => simp [hasAware] at ha
  | bool b => exact Or.inl ⟨b, rfl⟩
  | int i => exact Or.inr (Or.inl ⟨i, rfl⟩)
  | dbl m e => exact Or.inr (Or.inr (Or.inl ⟨m, e, rfl⟩))
  | str s => exact Or.inr (Or.inr (Or.inr (Or.inl ⟨s, rfl⟩)))
  | null => exact Or.inr (Or.inr (Or.inr (Or.inr (Or.inr rfl))))
  | _ => rcases hop with h | h | h | h <;> subst h <;> simp [opReasons] at hr

theorem spec_single (nb : Bool) (op : String) (sv : Val) (cs : List (Option Val))
    (hall : op ≠ "$all")
    (hr : opReasons op sv cs = []) (hs : Clean nb sv) (hcs : CandsAll (Clean nb) cs) :
    op ∈ leafOps ∧ ∃ b, singleOp op sv cs = .ok b ∧ leafHolds op sv cs = .ok b := by
  have hcsA : CandsAll (fun v => hasAware v = false) cs := fun c hc v hv => (hcs c hc v hv).2
  by_cases h1 : op = "$eq"
  · subst h1
    simp [opReasons, operandReasons] at hr
    exact ⟨by decide, _, spec_eq nb sv cs hs hr.2 hr.1 hcs⟩
  by_cases h2 : op = "$ne"
  · subst h2
    simp [opReasons, operandReasons] at hr
    exact ⟨by decide, _, spec_ne nb sv cs hs hr.2 hr.1 hcs⟩
  by_cases h3 : op = "$gt"
  · subst h3
    exact ⟨by decide, _, spec_cmp "$gt" .gt sv cs (by simp)
      (cmpOperand_of_reasons _ sv cs (by simp) hs.2 hr) hcsA⟩
  by_cases h4 : op = "$gte"
  · subst h4
    exact ⟨by decide, _, spec_cmp "$gte" .gte sv cs (by simp)
      (cmpOperand_of_reasons _ sv cs (by simp) hs.2 hr) hcsA⟩
  by_cases h5 : op = "$lt"
  · subst h5
    exact ⟨by decide, _, spec_cmp "$lt" .lt sv cs (by simp)
      (cmpOperand_of_reasons _ sv cs (by simp) hs.2 hr) hcsA⟩
  by_cases h6 : op = "$lte"
  · subst h6
    exact ⟨by decide, _, spec_cmp "$lte" .lte sv cs (by simp)
      (cmpOperand_of_reasons _ sv cs (by simp) hs.2 hr) hcsA⟩
  by_cases h7 : op = "$in"
  · subst h7
    cases sv with
    | arr vs =>
      simp [opReasons, operandReasons] at hr
      exact ⟨by decide, _, spec_in nb vs cs hs hr.2 (by simpa using hr.1) hcs⟩
    | _ => simp [opReasons] at hr
  by_cases h8 : op = "$nin"
  · subst h8
    cases sv with
    | arr vs =>
      simp [opReasons, operandReasons] at hr
      exact ⟨by decide, _, spec_nin nb vs cs hs hr.2 (by simpa using hr.1) hcs⟩
    | _ => simp [opReasons] at hr
  by_cases h9 : op = "$exists"
  · subst h9
    refine ⟨by decide, _, spec_exists sv cs ?_⟩
    cases sv with
    | bool b =>
      cases b
      · right; simpa [opReasons, Val.truthy, pyEq] using hr
      · left; simp [Val.truthy, pyEq]
    | int i =>
      by_cases hi : i = 0
      · subst hi; right; simpa [opReasons, Val.truthy, pyEq] using hr
      · left; simp [Val.truthy, pyEq, hi]; omega
    | _ => simp [opReasons] at hr
  by_cases h10 : op = "$size"
  · subst h10
    cases sv with
    | int n => exact ⟨by decide, _, spec_size n cs⟩
    | _ => simp [opReasons] at hr
  simp [opReasons, h1, h2, h3, h4, h5, h6, h7, h8, h9, h10, hall] at hr

end MongoModel.Proofs.C01Lemmas
