/-
  Proofs.C05Wf — on hereditarily well-formed values (`wfVal`: every document at every depth has
  pairwise distinct keys, i.e. the values Python dicts and lists can be) Python `==` is reflexive
  and symmetric.  Not used by the C05 theorems yet: groundwork for extending their domain to
  multi-field embedded `_id`s (scope limit `embedded-id-multifield`).
-/
import Proofs.C05Loop

set_option linter.unusedSimpArgs false
set_option linter.unusedVariables false

namespace MongoModel.Proofs.C05Lemmas
open MongoModel MongoModel.Spec

theorem wfFields_mem {fs : Fields} (h : wfFields fs = true) {k : String} {v : Val}
    (hm : (k, v) ∈ fs) : wfVal v = true := by
  induction fs with
  | nil => cases hm
  | cons kv fs ih =>
    obtain ⟨k', v'⟩ := kv
    simp only [wfFields, Bool.and_eq_true] at h
    rcases List.mem_cons.mp hm with e | hm
    · cases e; exact h.1
    · exact ih h.2 hm

theorem wfList_mem {xs : List Val} (h : wfList xs = true) {x : Val} (hm : x ∈ xs) :
    wfVal x = true := by
  induction xs with
  | nil => cases hm
  | cons y xs ih =>
    simp only [wfList, Bool.and_eq_true] at h
    rcases List.mem_cons.mp hm with e | hm
    · subst e; exact h.1
    · exact ih h.2 hm

theorem wfVal_doc {fs : Fields} (h : wfVal (.doc fs) = true) :
    (dkeys fs).Nodup ∧ wfFields fs = true := by
  simpa [wfVal] using h

/-- with distinct keys, `dget` finds every pair of the list -/
theorem dget_of_mem_nodup {fs : Fields} (hn : (dkeys fs).Nodup) {k : String} {v : Val}
    (hm : (k, v) ∈ fs) : dget k fs = some v := by
  induction fs with
  | nil => cases hm
  | cons kv fs ih =>
    obtain ⟨k', v'⟩ := kv
    simp only [dkeys, List.map_cons, List.nodup_cons] at hn
    simp only [dget]
    rcases List.mem_cons.mp hm with e | hm
    · cases e; simp
    · split
      · rename_i e; subst e
        exact absurd (List.mem_map.mpr ⟨(k', v), hm, rfl⟩) hn.1
      · exact ih hn.2 hm

theorem pyEqList_refl (xs : List Val) (ih : ∀ x ∈ xs, pyEq x x = true) : pyEqList xs xs = true := by
  induction xs with
  | nil => simp [pyEqList]
  | cons x xs ih2 =>
    simp only [pyEqList, Bool.and_eq_true]
    exact ⟨ih x (by simp), ih2 (fun y hy => ih y (List.mem_cons_of_mem _ hy))⟩

theorem pyEq_refl_wf : ∀ v : Val, wfVal v = true → pyEq v v = true := by
  intro v
  induction v using Val.ind with
  | hdoc fs ih =>
    intro h
    obtain ⟨hn, hf⟩ := wfVal_doc h
    rw [pyEq_doc_iff]
    exact ⟨rfl, fun k v hm => ⟨v, dget_of_mem_nodup hn hm, ih k v hm (wfFields_mem hf hm)⟩⟩
  | harr xs ih =>
    intro h
    simp only [wfVal] at h
    simp only [pyEq]
    exact pyEqList_refl xs (fun x hx => ih x hx (wfList_mem h hx))
  | hdate u o => intro _; cases o <;> simp [pyEq]
  | _ => intro _; simp [pyEq, Num.eq]

theorem pyEqList_symm (xs : List Val)
    (ih : ∀ x ∈ xs, ∀ b, wfVal x = true → wfVal b = true → pyEq x b = true → pyEq b x = true) :
    ∀ ys, wfList xs = true → wfList ys = true → pyEqList xs ys = true → pyEqList ys xs = true := by
  induction xs with
  | nil => intro ys _ _ h; cases ys <;> simp_all [pyEqList]
  | cons x xs ih2 =>
    intro ys hx hy h
    cases ys with
    | nil => simp [pyEqList] at h
    | cons y ys =>
      simp only [pyEqList, wfList, Bool.and_eq_true] at *
      exact ⟨ih x (by simp) y hx.1 hy.1 h.1,
        ih2 (fun z hz => ih z (List.mem_cons_of_mem _ hz)) ys hx.2 hy.2 h.2⟩

theorem pyEq_symm_wf_imp : ∀ a b : Val, wfVal a = true → wfVal b = true →
    pyEq a b = true → pyEq b a = true := by
  intro a
  induction a using Val.ind with
  | hdoc fs ih =>
    intro b ha hb h
    obtain ⟨gs, rfl⟩ := pyEq_doc_left fs b h
    obtain ⟨hnf, hwf⟩ := wfVal_doc ha
    obtain ⟨hng, hwg⟩ := wfVal_doc hb
    rw [pyEq_doc_iff] at h ⊢
    obtain ⟨hl, hf⟩ := h
    refine ⟨hl.symm, fun k w hm => ?_⟩
    have hsub : dkeys fs ⊆ dkeys gs := by
      intro x hx
      obtain ⟨v, hv⟩ := dget_of_mem_dkeys hx
      obtain ⟨v', hv', _⟩ := hf x v (dget_mem hv)
      exact mem_dkeys_of_dget hv'
    have hperm := (List.subperm_of_subset hnf hsub).perm_of_length_le (by simp [dkeys, hl])
    have hk : k ∈ dkeys fs := hperm.symm.subset (mem_dkeys_of_dget (dget_of_mem_nodup hng hm))
    obtain ⟨v, hv⟩ := dget_of_mem_dkeys hk
    obtain ⟨v', hv', he⟩ := hf k v (dget_mem hv)
    rw [dget_of_mem_nodup hng hm] at hv'; cases hv'
    exact ⟨v, hv, ih k v (dget_mem hv) w (wfFields_mem hwf (dget_mem hv)) (wfFields_mem hwg hm) he⟩
  | harr xs ih =>
    intro b ha hb h
    obtain ⟨ys, rfl⟩ := pyEq_arr_left xs b h
    simp only [wfVal] at ha hb
    simp only [pyEq] at h ⊢
    exact pyEqList_symm xs ih ys ha hb h
  | hnull => intro b _ _ h; rw [← scalar_symm' .null rfl b]; exact h
  | hbool x => intro b _ _ h; rw [← scalar_symm' (.bool x) rfl b]; exact h
  | hint x => intro b _ _ h; rw [← scalar_symm' (.int x) rfl b]; exact h
  | hdbl m e => intro b _ _ h; rw [← scalar_symm' (.dbl m e) rfl b]; exact h
  | hstr s => intro b _ _ h; rw [← scalar_symm' (.str s) rfl b]; exact h
  | hdate u o => intro b _ _ h; rw [← scalar_symm' (.date u o) rfl b]; exact h
  | hoid n => intro b _ _ h; rw [← scalar_symm' (.oid n) rfl b]; exact h

theorem pyEq_symm_wf (a b : Val) (ha : wfVal a = true) (hb : wfVal b = true) :
    pyEq a b = pyEq b a := by
  rw [Bool.eq_iff_iff]
  exact ⟨pyEq_symm_wf_imp a b ha hb, pyEq_symm_wf_imp b a hb ha⟩

end MongoModel.Proofs.C05Lemmas
