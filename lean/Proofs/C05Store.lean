/-
  Proofs.C05Store — the store functions that only ever *remove* documents (expiry pass, scans,
  uniqueness check, delete, index management): the resulting `docs` is a sublist of the input.
-/
import Proofs.C05Eq
import Proofs.StoreFlag

set_option linter.unusedSimpArgs false
set_option linter.unusedVariables false

namespace MongoModel.Proofs.C05Lemmas
open MongoModel MongoModel.Spec

/-- `c'` holds a sublist of the entries of `c` -/
def Sub (c' c : Coll) : Prop := c'.docs.Sublist c.docs

theorem Sub.refl (c : Coll) : Sub c c := List.Sublist.refl _
theorem Sub.trans {a b c : Coll} (h1 : Sub a b) (h2 : Sub b c) : Sub a c := List.Sublist.trans h1 h2
theorem Sub.of_docs_eq {a b : Coll} (h : a.docs = b.docs) : Sub a b := by
  unfold Sub; rw [h]; exact List.Sublist.refl _

theorem foldlM_sub {α : Type} (f : Coll → α → R Coll)
    (hf : ∀ c a c', f c a = .ok c' → Sub c' c) :
    ∀ (l : List α) (c c' : Coll), l.foldlM f c = .ok c' → Sub c' c := by
  intro l
  induction l with
  | nil => intro c c' h; simp [List.foldlM, pure, Except.pure] at h; subst h; exact Sub.refl _
  | cons a l ih =>
    intro c c' h
    simp only [List.foldlM_cons, bind, Except.bind] at h
    cases hfa : f c a with
    | error e => simp [hfa] at h
    | ok c1 =>
      simp only [hfa] at h
      exact Sub.trans (ih c1 c' h) (hf c a c1 hfa)

theorem expireIndex_sub (now : Int) (c : Coll) (ix : Index) (c' : Coll)
    (h : expireIndex now c ix = .ok c') : Sub c' c := by
  unfold expireIndex at h
  cases ht : ix.ttl with
  | none => simp [ht] at h; subst h; exact Sub.refl _
  | some raw =>
    simp only [ht, bind, Except.bind] at h
    cases hs : ttlSeconds raw with
    | error e => simp [hs] at h
    | ok o =>
      simp only [hs] at h
      cases o with
      | none => simp [pure, Except.pure] at h; subst h; exact Sub.refl _
      | some secs =>
        simp only at h
        split at h
        · simp [pure, Except.pure] at h; subst h; exact Sub.refl _
        · split at h
          · cases h
          · simp [pure, Except.pure] at h; subst h
            exact List.filter_sublist

theorem expire_sub (now : Int) (c c' : Coll) (h : expire now c = .ok c') : Sub c' c :=
  foldlM_sub (expireIndex now) (expireIndex_sub now) c.ttlIndexes c c' h

theorem iterDocuments_sub (now : Int) (c : Coll) (f : Val) (c' : Coll) (ms : List Val)
    (h : iterDocuments now c f = .ok (c', ms)) : Sub c' c := by
  unfold iterDocuments at h
  simp only [bind, Except.bind] at h
  cases h1 : expire now c with
  | error e => simp [h1] at h
  | ok c1 =>
    simp only [h1] at h
    refine Sub.trans ?_ (expire_sub now c c1 h1)
    split at h
    · split at h
      · cases h
      · cases h2 : expire now c1 with
        | error e => simp [h2] at h
        | ok c2 =>
          simp only [h2] at h
          split at h
          · cases h
          · simp [pure, Except.pure] at h
            obtain ⟨rfl, _⟩ := h
            exact expire_sub now c1 _ h2
    · cases h2 : expire now c1 with
      | error e => simp [h2] at h
      | ok c2 =>
        simp only [h2] at h
        split at h
        · cases h
        · simp [pure, Except.pure] at h
          obtain ⟨rfl, _⟩ := h
          exact expire_sub now c1 _ h2

theorem ensureUniques_sub (now : Int) (c : Coll) (d : Val) (c' : Coll)
    (h : ensureUniques now c d = .ok c') : Sub c' c := by
  unfold ensureUniques at h
  refine foldlM_sub _ ?_ c.indexes c c' h
  intro c ix c' h
  split at h
  · simp [pure, Except.pure] at h; subst h; exact Sub.refl _
  · simp only [bind, Except.bind] at h
    split at h
    · cases h
    · split at h
      · simp [pure, Except.pure] at h; subst h; exact Sub.refl _
      · split at h
        · cases h
        · rename_i v hv
          obtain ⟨c2, ms⟩ := v
          simp only at h
          split at h
          · cases h
          · simp [pure, Except.pure] at h; subst h
            exact iterDocuments_sub now c _ _ _ hv

theorem delDoc_sub (c : Coll) (k : Val) : Sub (c.delDoc k) c := List.filter_sublist

theorem foldl_delDoc_sub (ks : List Val) : ∀ c : Coll, Sub (ks.foldl (fun acc k => acc.delDoc k) c) c := by
  induction ks with
  | nil => intro c; exact Sub.refl _
  | cons k ks ih => intro c; exact Sub.trans (ih _) (delDoc_sub c k)

theorem deleteColl_sub (now : Int) (c : Coll) (f : Val) (multi : Bool) :
    Sub (deleteColl now c f multi).1 c := by
  unfold deleteColl
  simp only
  split
  · split
    · exact Sub.refl _
    · rename_i c1 ms h
      exact Sub.trans (foldl_delDoc_sub _ c1) (iterDocuments_sub now c _ _ _ h)
  · exact Sub.refl _

theorem findColl_sub (now : Int) (c : Coll) (f : Val) : Sub (findColl now c f).1 c := by
  unfold findColl
  split
  · split
    · exact Sub.refl _
    · rename_i c1 ms h
      exact iterDocuments_sub now c _ _ _ h
  · exact Sub.refl _

theorem countColl_sub (now : Int) (c : Coll) (f : Val) (skip : Int) (limit : Option Val) :
    Sub (countColl now c f skip limit).1 c := by
  unfold countColl
  simp only
  split
  · exact Sub.refl _
  · split
    · exact Sub.refl _
    · rename_i c1 ms h
      exact iterDocuments_sub now c _ _ _ h

theorem distinctColl_sub (now : Int) (c : Coll) (key : String) (f : Val) :
    Sub (distinctColl now c key f).1 c := by
  unfold distinctColl
  have := findColl_sub now c f
  split
  · rename_i c1 e h; rw [h] at this; exact this
  · rename_i c1 ms h; rw [h] at this; exact this

/-- a refused creation only ran the expiry pass -/
theorem refusedCreate_sub (now : Int) (c : Coll) (ix : Index) :
    Sub (refusedCreate now c ix) c := by
  unfold refusedCreate
  split
  · split
    · rename_i c1 h; exact expire_sub now c c1 h
    · exact Sub.refl _
  · exact Sub.refl _

theorem createIndexColl_go_sub (now : Int) (c : Coll) (ix : Index) :
    Sub (createIndexColl.go now c ix).1 c := by
  unfold createIndexColl.go
  simp only
  split
  · exact refusedCreate_sub now c ix
  · rename_i c1 hpre
    have hc1 : Sub c1 c := by
      split at hpre
      · simp only [bind, Except.bind] at hpre
        cases h1 : expire now c with
        | error e => simp [h1] at hpre
        | ok c2 =>
          simp only [h1] at hpre
          split at hpre
          · cases hpre
          · simp [pure, Except.pure] at hpre; subst hpre
            exact expire_sub now c _ h1
      · simp [pure, Except.pure] at hpre; subst hpre; exact Sub.refl _
    split <;> exact hc1

theorem createIndexColl_sub (now : Int) (c : Coll) (ix : Index) :
    Sub (createIndexColl now c ix).1 c := by
  unfold createIndexColl
  split
  · split
    · exact Sub.refl _
    · exact createIndexColl_go_sub now c ix
  · exact createIndexColl_go_sub now c ix

theorem dropIndexColl_sub (now : Int) (c : Coll) (name : String) :
    Sub (dropIndexColl now c name).1 c := by
  unfold dropIndexColl
  split
  · exact Sub.refl _
  · rename_i c1 h
    split
    · exact expire_sub now c c1 h
    · exact expire_sub now c c1 h

theorem dropIndexesColl_sub (c : Coll) : Sub (dropIndexesColl c) c := Sub.refl _

theorem dropColl_sub (c : Coll) : Sub (dropColl c) c := by
  unfold Sub dropColl; simp

/-- the state left by a rejected insert (`stepColl` / `insertManyLoop`) -/
theorem rejected_sub (now : Int) (c : Coll) (d : Val) : Sub (insertRejected now c d) c := by
  have h0 : Sub (match d with
          | .doc fs => if dhas "_id" fs then c else { c with nextOid := c.nextOid + 1 }
          | _ => c) c := by
    split
    · split <;> exact Sub.refl _
    · exact Sub.refl _
  unfold insertRejected
  show ((match expire now _ with | .ok x => x | .error _ => _).markStored _).docs.Sublist c.docs
  rw [markStored_docs]
  split
  · rename_i x h; exact Sub.trans (expire_sub now _ _ h) h0
  · exact h0

end MongoModel.Proofs.C05Lemmas
