/-
  Proofs.C01Values — value-level lemmas for C01: induction on `Val`, structural equality,
  hereditary predicates, Python `==` against BSON equality, ordering.
-/
import Spec.MatchDomain

set_option linter.unusedSimpArgs false

namespace MongoModel.Proofs.C01Lemmas
open MongoModel MongoModel.Spec

/-! ### induction on values -/

theorem Val.ind {P : Val → Prop}
    (hnull : P .null) (hbool : ∀ b, P (.bool b)) (hint : ∀ i, P (.int i))
    (hdbl : ∀ m e, P (.dbl m e)) (hstr : ∀ s, P (.str s)) (hdate : ∀ u o, P (.date u o))
    (hoid : ∀ n, P (.oid n))
    (hdoc : ∀ fs : Fields, (∀ k v, (k, v) ∈ fs → P v) → P (.doc fs))
    (harr : ∀ xs : List Val, (∀ x, x ∈ xs → P x) → P (.arr xs)) : ∀ v, P v := by
  intro v
  refine Val.rec (motive_1 := P)
    (motive_2 := fun fs => ∀ k v, (k, v) ∈ fs → P v)
    (motive_3 := fun xs => ∀ x, x ∈ xs → P x)
    (motive_4 := fun p => P p.2)
    hnull hbool hint hdbl hstr hdate hoid hdoc harr ?_ ?_ ?_ ?_ ?_ v
  · intro k v h; cases h
  · intro hd tl h1 h2 k v hm
    rcases List.mem_cons.mp hm with e | hm
    · subst e; exact h1
    · exact h2 k v hm
  · intro x h; cases h
  · intro hd tl h1 h2 x hm
    rcases List.mem_cons.mp hm with e | hm
    · subst e; exact h1
    · exact h2 x hm
  · intro k v h; exact h

/-! ### structural equality is equality -/

theorem beqFields_eq (fs : Fields) (ih : ∀ k v, (k, v) ∈ fs → ∀ b, Val.beq v b = true → v = b) :
    ∀ gs, beqFields fs gs = true → fs = gs := by
  induction fs with
  | nil => intro gs h; cases gs <;> simp_all [beqFields]
  | cons kv fs ih2 =>
    intro gs h
    obtain ⟨k, v⟩ := kv
    cases gs with
    | nil => simp [beqFields] at h
    | cons kv' gs =>
      obtain ⟨k', v'⟩ := kv'
      simp only [beqFields, Bool.and_eq_true, beq_iff_eq] at h
      obtain ⟨⟨h1, h2⟩, h3⟩ := h
      rw [h1, ih k v (by simp) v' h2, ih2 (fun k v hm => ih k v (by simp [hm])) gs h3]

theorem beqList_eq (xs : List Val) (ih : ∀ x, x ∈ xs → ∀ b, Val.beq x b = true → x = b) :
    ∀ ys, beqList xs ys = true → xs = ys := by
  induction xs with
  | nil => intro ys h; cases ys <;> simp_all [beqList]
  | cons x xs ih2 =>
    intro ys h
    cases ys with
    | nil => simp [beqList] at h
    | cons y ys =>
      simp only [beqList, Bool.and_eq_true] at h
      rw [ih x (by simp) y h.1, ih2 (fun x hm => ih x (by simp [hm])) ys h.2]

theorem Val.eq_of_beq : ∀ a b : Val, Val.beq a b = true → a = b := by
  intro a
  induction a using Val.ind with
  | hdoc fs ih => intro b h; cases b <;> simp [Val.beq] at h; rw [beqFields_eq fs ih _ h]
  | harr xs ih => intro b h; cases b <;> simp [Val.beq] at h; rw [beqList_eq xs ih _ h]
  | _ => intro b h; cases b <;> simp_all [Val.beq]

theorem optBeq_eq (a b : Option Val) (h : (a == b) = true) : a = b := by
  cases a with
  | none => cases b with
    | none => rfl
    | some y => cases h
  | some x => cases b with
    | none => cases h
    | some y => rw [Val.eq_of_beq x y h]

theorem candsBeq_eq (as bs : List (Option Val)) (h : (as == bs) = true) : as = bs := by
  induction as generalizing bs with
  | nil => cases bs <;> simp_all
  | cons a as ih =>
    cases bs with
    | nil => simp at h
    | cons b bs =>
      simp only [List.cons_beq_cons, Bool.and_eq_true] at h
      rw [optBeq_eq a b h.1, ih bs h.2]


/-! ### hereditary predicates -/

/-- a predicate on values inherited by the fields of a document and the items of an array -/
structure Hered (Q : Val → Prop) : Prop where
  doc : ∀ fs k v, Q (.doc fs) → (k, v) ∈ fs → Q v
  arr : ∀ xs x, Q (.arr xs) → x ∈ xs → Q x

theorem dget_mem {k : String} {fs : Fields} {v : Val} (h : dget k fs = some v) : (k, v) ∈ fs := by
  induction fs with
  | nil => simp [dget] at h
  | cons kv fs ih =>
    obtain ⟨k', v'⟩ := kv
    simp only [dget] at h
    split at h
    · rename_i e; cases h; subst e; simp
    · simp [ih h]

theorem hered_hasBool : Hered (fun v => hasBool v = false) where
  doc := by
    intro fs k v h hm
    simp only [hasBool] at h
    induction fs with
    | nil => cases hm
    | cons kv fs ih =>
      obtain ⟨k', v'⟩ := kv
      simp only [hasBoolFields, Bool.or_eq_false_iff] at h
      rcases List.mem_cons.mp hm with e | hm
      · cases e; exact h.1
      · exact ih h.2 hm
  arr := by
    intro xs x h hm
    simp only [hasBool] at h
    induction xs with
    | nil => cases hm
    | cons y xs ih =>
      simp only [hasBoolList, Bool.or_eq_false_iff] at h
      rcases List.mem_cons.mp hm with e | hm
      · cases e; exact h.1
      · exact ih h.2 hm

theorem hered_has01 : Hered (fun v => has01 v = false) where
  doc := by
    intro fs k v h hm
    simp only [has01] at h
    induction fs with
    | nil => cases hm
    | cons kv fs ih =>
      obtain ⟨k', v'⟩ := kv
      simp only [has01Fields, Bool.or_eq_false_iff] at h
      rcases List.mem_cons.mp hm with e | hm
      · cases e; exact h.1
      · exact ih h.2 hm
  arr := by
    intro xs x h hm
    simp only [has01] at h
    induction xs with
    | nil => cases hm
    | cons y xs ih =>
      simp only [has01List, Bool.or_eq_false_iff] at h
      rcases List.mem_cons.mp hm with e | hm
      · cases e; exact h.1
      · exact ih h.2 hm

theorem hered_hasAware : Hered (fun v => hasAware v = false) where
  doc := by
    intro fs k v h hm
    simp only [hasAware] at h
    induction fs with
    | nil => cases hm
    | cons kv fs ih =>
      obtain ⟨k', v'⟩ := kv
      simp only [hasAwareFields, Bool.or_eq_false_iff] at h
      rcases List.mem_cons.mp hm with e | hm
      · cases e; exact h.1
      · exact ih h.2 hm
  arr := by
    intro xs x h hm
    simp only [hasAware] at h
    induction xs with
    | nil => cases hm
    | cons y xs ih =>
      simp only [hasAwareList, Bool.or_eq_false_iff] at h
      rcases List.mem_cons.mp hm with e | hm
      · cases e; exact h.1
      · exact ih h.2 hm

theorem hered_smallDocs : Hered (fun v => smallDocs v = true) where
  doc := by
    intro fs k v h hm
    simp only [smallDocs, Bool.and_eq_true] at h
    replace h := h.2
    induction fs with
    | nil => cases hm
    | cons kv fs ih =>
      obtain ⟨k', v'⟩ := kv
      simp only [smallDocsFields, Bool.and_eq_true] at h
      rcases List.mem_cons.mp hm with e | hm
      · cases e; exact h.1
      · exact ih hm h.2
  arr := by
    intro xs x h hm
    simp only [smallDocs] at h
    induction xs with
    | nil => cases hm
    | cons y xs ih =>
      simp only [smallDocsList, Bool.and_eq_true] at h
      rcases List.mem_cons.mp hm with e | hm
      · cases e; exact h.1
      · exact ih h.2 hm

/-- the global value conditions of D, in hereditary form: `nb = true`: no boolean anywhere;
    `nb = false`: no number equal to 0 or 1 anywhere; and no aware datetime -/
def Clean (nb : Bool) (v : Val) : Prop :=
  (if nb then hasBool v = false else has01 v = false) ∧ hasAware v = false

theorem hered_clean (nb : Bool) : Hered (Clean nb) where
  doc := by
    intro fs k v h hm
    refine ⟨?_, hered_hasAware.doc fs k v h.2 hm⟩
    cases nb
    · exact hered_has01.doc fs k v h.1 hm
    · exact hered_hasBool.doc fs k v h.1 hm
  arr := by
    intro xs x h hm
    refine ⟨?_, hered_hasAware.arr xs x h.2 hm⟩
    cases nb
    · exact hered_has01.arr xs x h.1 hm
    · exact hered_hasBool.arr xs x h.1 hm

theorem Hered.dget {Q : Val → Prop} (hq : Hered Q) {fs : Fields} {k : String} {v : Val}
    (h : Q (.doc fs)) (hg : dget k fs = some v) : Q v :=
  hq.doc fs k v h (dget_mem hg)

/-- every value a path reaches inherits a hereditary predicate of the document -/
theorem reach_hered {Q : Val → Prop} (hq : Hered Q) :
    ∀ (ps : List String) (d : Val), Q d → ∀ v, some v ∈ reach ps d → Q v := by
  intro ps
  induction ps with
  | nil => intro d hd v hm; simp only [reach, List.mem_singleton, Option.some.injEq] at hm; rw [hm]; exact hd
  | cons p ps ih =>
    intro d hd v hm
    cases d with
    | doc fs =>
      simp only [reach] at hm
      split at hm
      · rename_i w hg; exact ih w (hq.dget hd hg) v hm
      · simp at hm
    | arr xs =>
      simp only [reach] at hm
      split at hm
      · split at hm
        · cases hm
        · split at hm
          · rename_i w hg
            exact ih w (hq.arr xs w hd (List.mem_of_getElem? hg)) v hm
          · cases hm
      · rw [List.mem_flatMap] at hm
        obtain ⟨x, hx, hm⟩ := hm
        split at hm
        · rename_i gs
          split at hm
          · rename_i w hg
            exact ih w (hq.dget (hq.arr xs _ hd hx) hg) v hm
          · simp at hm
        · cases hm
    | _ => simp [reach] at hm


/-! ### the matcher's candidates are the values the path reaches -/

theorem cands_foldl_eq_reach (p : String) (ps : List String) (hp : pyInt? p = none)
    (ih : ∀ d cs, cands ps d = .ok cs → cs = reach ps d) (xs : List Val) :
    ∀ (acc cs : List (Option Val)),
      xs.foldlM (fun acc x =>
        match x with
        | .doc fs =>
          match dget p fs with
          | some v => (cands ps v).map (acc ++ ·)
          | none => .ok (acc ++ [none])
        | _ => (.ok acc : R (List (Option Val)))) acc = .ok cs →
      cs = acc ++ reach (p :: ps) (.arr xs) := by
  induction xs with
  | nil => intro acc cs h; simp [List.foldlM, pure, Except.pure] at h; simp [h, reach, hp]
  | cons x xs ihx =>
    intro acc cs h
    simp only [List.foldlM, bind, Except.bind] at h
    have hcons : ∀ ys, reach (p :: ps) (.arr (x :: xs)) = ys ++ reach (p :: ps) (.arr xs) →
        ∀ acc', cs = acc' ++ reach (p :: ps) (.arr xs) → acc' = acc ++ ys →
        cs = acc ++ reach (p :: ps) (.arr (x :: xs)) := by
      intro ys e1 acc' e2 e3; rw [e1, e2, e3, List.append_assoc]
    cases x with
    | doc fs =>
      simp only at h
      cases hg : dget p fs with
      | none =>
        simp only [hg] at h
        exact hcons [none] (by simp [reach, hp, hg, List.flatMap_cons]) _ (ihx _ _ h) rfl
      | some v =>
        simp only [hg] at h
        cases hc : cands ps v with
        | error e => simp [hc, Except.map] at h
        | ok cv =>
          simp only [hc, Except.map] at h
          exact hcons cv (by simp [reach, hp, hg, List.flatMap_cons, ih v cv hc]) _ (ihx _ _ h) rfl
    | _ =>
      simp only at h
      exact hcons [] (by simp [reach, hp, List.flatMap_cons]) _ (ihx _ _ h) (by simp)

/-- wherever the matcher follows a path (no negative index), it reaches exactly the values the
    rules say the path reaches (`reach`) -/
theorem cands_eq_reach : ∀ (ps : List String) (d : Val) (cs : List (Option Val)),
    cands ps d = .ok cs → cs = reach ps d := by
  intro ps
  induction ps with
  | nil => intro d cs h; simp [cands] at h; simp [reach, h]
  | cons p ps ih =>
    intro d cs h
    cases d with
    | doc fs =>
      cases ps with
      | nil =>
        simp only [cands, Except.ok.injEq] at h
        subst h
        cases hg : dget p fs <;> simp [reach, hg]
      | cons q qs =>
        simp only [cands] at h
        cases hg : dget p fs with
        | some v => simp only [hg, Option.getD_some] at h; simp only [reach, hg]; exact ih v cs h
        | none =>
          simp only [hg, Option.getD_none] at h
          have := ih (.doc []) cs h
          simp only [reach, hg]
          simpa [reach, dget] using this
    | arr xs =>
      simp only [cands] at h
      simp only [reach]
      cases hp : pyInt? p with
      | none =>
        simp only [hp] at h
        simpa [reach, hp] using cands_foldl_eq_reach p ps hp ih xs [] cs h
      | some i =>
        simp only [hp] at h
        by_cases hi : i < 0
        · simp [hi, unmodelled] at h
        · simp only [hi, ↓reduceIte] at h ⊢
          cases hx : xs[i.toNat]? with
          | none => simp only [hx, Except.ok.injEq] at h; exact h.symm
          | some v => simp only [hx] at h; exact ih v cs h
    | null => simp only [cands, Except.ok.injEq] at h; simp [reach, h]
    | bool b => simp only [cands, Except.ok.injEq] at h; simp [reach, h]
    | int b => simp only [cands, Except.ok.injEq] at h; simp [reach, h]
    | dbl m e => simp only [cands, Except.ok.injEq] at h; simp [reach, h]
    | str b => simp only [cands, Except.ok.injEq] at h; simp [reach, h]
    | date u o => simp only [cands, Except.ok.injEq] at h; simp [reach, h]
    | oid b => simp only [cands, Except.ok.injEq] at h; simp [reach, h]


/-! ### Python `==` is BSON equality on clean values -/

theorem numEq_comm (a b : Num) : Num.eq a b = Num.eq b a := by
  simp only [Num.eq]
  rw [Bool.eq_iff_iff]; simp only [beq_iff_eq]; exact eq_comm

theorem pyEqList_bsonEqList (nb : Bool) (xs : List Val)
    (ih : ∀ x, x ∈ xs → ∀ v, Clean nb x → Clean nb v →
      (smallDocs x = true ∨ smallDocs v = true) → pyEq x v = bsonEq x v) :
    ∀ ys, (∀ x, x ∈ xs → Clean nb x) → (∀ y, y ∈ ys → Clean nb y) →
      (smallDocsList xs = true ∨ smallDocsList ys = true) →
      pyEqList xs ys = bsonEqList xs ys := by
  induction xs with
  | nil => intro ys _ _ _; cases ys <;> simp [pyEqList, bsonEqList]
  | cons x xs ih2 =>
    intro ys hx hy hs
    cases ys with
    | nil => simp [pyEqList, bsonEqList]
    | cons y ys =>
      simp only [pyEqList, bsonEqList]
      simp only [smallDocsList, Bool.and_eq_true] at hs
      rw [ih x (by simp) y (hx x (by simp)) (hy y (by simp)) (hs.imp And.left And.left),
        ih2 (fun x hm => ih x (by simp [hm])) ys (fun x hm => hx x (by simp [hm]))
          (fun y hm => hy y (by simp [hm])) (hs.imp And.right And.right)]

theorem clean_bool_int {nb : Bool} {b : Bool} {i : Int}
    (h1 : Clean nb (.bool b)) (h2 : Clean nb (.int i)) : ¬ (if b = true then 1 else 0) = i := by
  cases nb
  · have := h2.1
    simp only [Bool.false_eq_true, ↓reduceIte, has01, Bool.or_eq_false_iff, beq_eq_false_iff_ne] at this
    cases b <;> simp <;> omega
  · simp [Clean, hasBool] at h1

theorem clean_bool_dbl {nb : Bool} {b : Bool} {m : Int} {e : Nat}
    (h1 : Clean nb (.bool b)) (h2 : Clean nb (.dbl m e)) :
    Num.eq ⟨if b = true then 1 else 0, 0⟩ ⟨m, e⟩ = false := by
  cases nb
  · have := h2.1
    simp only [Bool.false_eq_true, ↓reduceIte, has01, is01, Bool.or_eq_false_iff] at this
    cases b
    · simpa [numEq_comm] using this.1
    · simpa [numEq_comm] using this.2
  · simp [Clean, hasBool] at h1

theorem pyEq_bsonEq (nb : Bool) : ∀ x v : Val, Clean nb x → Clean nb v →
    (smallDocs x = true ∨ smallDocs v = true) → pyEq x v = bsonEq x v := by
  intro x
  induction x using Val.ind with
  | hnull => intro v _ _ _; cases v <;> simp [pyEq, bsonEq]
  | hbool b =>
    intro v hx hv _
    cases v <;> simp [pyEq, bsonEq]
    · exact clean_bool_int hx hv
    · exact clean_bool_dbl hx hv
  | hint i => 
    intro v hx hv _
    cases v <;> simp [pyEq, bsonEq]
    · exact clean_bool_int hv hx
  | hdbl m e =>
    intro v hx hv _
    cases v <;> simp [pyEq, bsonEq]
    · exact clean_bool_dbl hv hx
  | hstr s => intro v _ _ _; cases v <;> simp [pyEq, bsonEq]
  | hdate u o =>
    intro v hx hv _
    cases o with
    | some o => simp [Clean, hasAware] at hx
    | none =>
      cases v with
      | date u' o' =>
        cases o' with
        | some o' => simp [Clean, hasAware] at hv
        | none => simp [pyEq, bsonEq, dateUtc]
      | _ => simp [pyEq, bsonEq]
  | hoid n => intro v _ _ _; cases v <;> simp [pyEq, bsonEq]
  | hdoc fs ih =>
    intro v hx hv hs
    cases v <;> simp [pyEq, bsonEq]
    rename_i gs
    match fs, gs, ih, hx, hv, hs with
    | [], [], _, _, _, _ => simp [pyEqFields, bsonEqFields]
    | [], _ :: _, _, _, _, _ => simp [bsonEqFields]
    | _ :: _, [], _, _, _, _ => simp [bsonEqFields]
    | [(k, a)], [(k', b)], ih, hx, hv, hs =>
      have ha : Clean nb a := (hered_clean nb).doc _ k a hx (by simp)
      have hb : Clean nb b := (hered_clean nb).doc _ k' b hv (by simp)
      have hs' : smallDocs a = true ∨ smallDocs b = true :=
        hs.imp (fun h => hered_smallDocs.doc _ k a h (by simp))
          (fun h => hered_smallDocs.doc _ k' b h (by simp))
      have := ih k a (by simp) b ha hb hs'
      by_cases hk : k = k'
      · subst hk; simp [pyEqFields, bsonEqFields, dget, this]
      · have hk' : ¬ k' = k := fun e => hk e.symm
        simp [pyEqFields, bsonEqFields, dget, hk, hk']
    | [_], _ :: _ :: _, _, _, _, _ => simp [bsonEqFields]
    | _ :: _ :: _, [_], _, _, _, _ => simp [bsonEqFields]
    | _ :: _ :: _, _ :: _ :: _, _, _, _, hs => simp [smallDocs] at hs
  | harr xs ih =>
    intro v hx hv hs
    cases v <;> simp [pyEq, bsonEq]
    rename_i ys
    exact pyEqList_bsonEqList nb xs ih ys (fun x hm => (hered_clean nb).arr xs x hx hm)
      (fun y hm => (hered_clean nb).arr ys y hv hm) (by simpa [smallDocs] using hs)


/-! ### BSON equality is symmetric -/

theorem bsonEqFields_comm (fs : Fields) (ih : ∀ k v, (k, v) ∈ fs → ∀ w, bsonEq v w = bsonEq w v) :
    ∀ gs, bsonEqFields fs gs = bsonEqFields gs fs := by
  induction fs with
  | nil => intro gs; cases gs <;> simp [bsonEqFields]
  | cons kv fs ih2 =>
    intro gs
    obtain ⟨k, v⟩ := kv
    cases gs with
    | nil => simp [bsonEqFields]
    | cons kv' gs =>
      obtain ⟨k', v'⟩ := kv'
      simp only [bsonEqFields]
      rw [ih k v (by simp) v', ih2 (fun k v hm => ih k v (by simp [hm])) gs]
      have : (k == k') = (k' == k) := by
        rw [Bool.eq_iff_iff]; simp only [beq_iff_eq]; exact eq_comm
      rw [this]

theorem bsonEqList_comm (xs : List Val) (ih : ∀ x, x ∈ xs → ∀ w, bsonEq x w = bsonEq w x) :
    ∀ ys, bsonEqList xs ys = bsonEqList ys xs := by
  induction xs with
  | nil => intro ys; cases ys <;> simp [bsonEqList]
  | cons x xs ih2 =>
    intro ys
    cases ys with
    | nil => simp [bsonEqList]
    | cons y ys =>
      simp only [bsonEqList]
      rw [ih x (by simp) y, ih2 (fun x hm => ih x (by simp [hm])) ys]

theorem beq_comm' {α} [DecidableEq α] (a b : α) : (a == b) = (b == a) := by
  rw [Bool.eq_iff_iff]; simp only [beq_iff_eq]; exact eq_comm

theorem bsonEq_comm : ∀ x v : Val, bsonEq x v = bsonEq v x := by
  intro x
  induction x using Val.ind with
  | hdoc fs ih => intro v; cases v <;> simp [bsonEq]; exact bsonEqFields_comm fs ih _
  | harr xs ih => intro v; cases v <;> simp [bsonEq]; exact bsonEqList_comm xs ih _
  | hint i => intro v; cases v <;> simp [bsonEq, numEq_comm]; exact beq_comm' _ _
  | hdbl m e => intro v; cases v <;> simp [bsonEq]; exact numEq_comm _ _
  | hbool b => intro v; cases v <;> simp [bsonEq]; exact beq_comm' _ _
  | hstr b => intro v; cases v <;> simp [bsonEq]; exact beq_comm' _ _
  | hoid b => intro v; cases v <;> simp [bsonEq]; exact beq_comm' _ _
  | hdate u o => intro v; cases v <;> simp [bsonEq]; exact beq_comm' _ _
  | hnull => intro v; cases v <;> simp [bsonEq]

/-- both argument orders of Python `==` against BSON equality with the operand on the right -/
theorem pyEq_bsonEq' (nb : Bool) (x v : Val) (hx : Clean nb x) (hv : Clean nb v)
    (hs : smallDocs v = true) : pyEq v x = bsonEq x v := by
  rw [pyEq_bsonEq nb v x hv hx (Or.inl hs), bsonEq_comm]

end MongoModel.Proofs.C01Lemmas
