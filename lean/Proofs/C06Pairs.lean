/-
  Proofs.C06Pairs — the invariant carried through the operations (`UniqS`: uniqueness among the
  value-keyed, covered documents) in its "ordered pairs" form, and the lemma that a write
  checked by `_ensure_uniques` cannot create a clash.
-/
import Proofs.C06Ensure

set_option linter.unusedSimpArgs false

namespace MongoModel.Proofs.C06Lemmas
open MongoModel MongoModel.Spec

theorem sublist_pair_filter {α : Type} {P : α → Bool} {a b : α} {l : List α} :
    [a, b].Sublist (l.filter P) ↔ [a, b].Sublist l ∧ P a = true ∧ P b = true := by
  constructor
  · intro h
    have ha : a ∈ l.filter P := h.subset (by simp)
    have hb : b ∈ l.filter P := h.subset (by simp)
    exact ⟨h.trans List.filter_sublist, (List.mem_filter.1 ha).2, (List.mem_filter.1 hb).2⟩
  · rintro ⟨h, ha, hb⟩
    have := h.filter P
    simpa [List.filter_cons, ha, hb] using this

theorem pair_mem {α : Type} {a b : α} {l : List α} (h : [a, b].Sublist l) : a ∈ l ∧ b ∈ l :=
  ⟨h.subset (by simp), h.subset (by simp)⟩

/-- the documents the carried invariant speaks about -/
def good (ix : Index) (p : Val × Val) : Bool := valueKeys ix p.2 && covers ix p.2

theorem good_iff {ix : Index} {p : Val × Val} :
    good ix p = true ↔ valueKeys ix p.2 = true ∧ covers ix p.2 = true := by
  simp [good]

/-- the two documents do not clash on the index -/
def Rk (ix : Index) (a b : Val × Val) : Prop := keyEq (keyVals ix a.2) (keyVals ix b.2) = false

/-- no two good documents (in store order) clash -/
def PairsOK (ix : Index) (docs : List (Val × Val)) : Prop :=
  ∀ a b, [a, b].Sublist docs → good ix a = true → good ix b = true → Rk ix a b

theorem PairsOK.sublist {ix : Index} {l l' : List (Val × Val)} (h : PairsOK ix l)
    (hs : l'.Sublist l) : PairsOK ix l' :=
  fun a b hab ha hb => h a b (hab.trans hs) ha hb

/-- the invariant carried through the operations -/
def UniqS (c : Coll) : Prop :=
  ∀ ix ∈ c.indexes, ix.unique = true → distinctFields ix = true → PairsOK ix c.docs

theorem uniqS_of_uniqInv {c : Coll} (h : UniqInv c) : UniqS c := by
  intro ix hix hu _ a b hab ha hb
  have hp := h ix hix hu
  rw [List.pairwise_iff_forall_sublist] at hp
  exact hp (sublist_pair_filter.2 ⟨hab, (good_iff.1 ha).2, (good_iff.1 hb).2⟩)

theorem uniqInv_of_uniqS {c : Coll} (h : UniqS c) (hs : ValueInv c) : UniqInv c := by
  intro ix hix hu
  obtain ⟨hd, hsc⟩ := hs ix hix hu
  rw [List.pairwise_iff_forall_sublist]
  intro a b hab
  obtain ⟨hab', ca, cb⟩ := sublist_pair_filter.1 hab
  obtain ⟨ma, mb⟩ := pair_mem hab'
  exact h ix hix hu hd a b hab' (good_iff.2 ⟨hsc a ma, ca⟩) (good_iff.2 ⟨hsc b mb, cb⟩)

theorem UniqS.of_sub {c c' : Coll} (h : UniqS c) (hd : c'.docs.Sublist c.docs)
    (hi : ∀ ix ∈ c'.indexes, ix ∈ c.indexes) : UniqS c' :=
  fun ix hix hu hdf => (h ix (hi ix hix) hu hdf).sublist hd

/-! ### a checked write -/

theorem two_hits {f : Val} {a b : Val × Val} {l : List (Val × Val)} (hab : [a, b].Sublist l)
    (ha : filterApplies f a.2 = .ok true) (hb : filterApplies f b.2 = .ok true) : 2 ≤ hits f l := by
  have : [a, b].Sublist (l.filter (fun p => isTrue (filterApplies f p.2))) :=
    sublist_pair_filter.2 ⟨hab, by simp [ha, isTrue], by simp [hb, isTrue]⟩
  exact this.length_le

/-- after a successful `_ensure_uniques(new)`, a pair of value-keyed covered documents one of
    which is `new` does not clash -/
theorem checked_pair' {new : Val} {ix : Index} {docs : List (Val × Val)} (hc : Checked new ix docs)
    (hu : ix.unique = true) (hd : distinctFields ix = true) {a b : Val × Val}
    (hab : [a, b].Sublist docs) (sa : valueKeys ix a.2 = true) (ca : covers ix a.2 = true)
    (sb : valueKeys ix b.2 = true) (cb : covers ix b.2 = true)
    (hnew : a.2 = new ∨ b.2 = new) : Rk ix a b := by
  have oka := okKeys_of_valueKeys sa
  have okb := okKeys_of_valueKeys sb
  have hsn : valueKeys ix new = true ∧ covers ix new = true := by
    rcases hnew with e | e <;> rw [← e]
    · exact ⟨sa, ca⟩
    · exact ⟨sb, cb⟩
  have okn := okKeys_of_valueKeys hsn.1
  have hv := valuesFor_ok ix.keys new okn (distinctFields_nodup hd)
  have hcov := hsn.2
  rw [covers_eq, Bool.and_eq_true, Bool.not_eq_true'] at hcov
  have hskip : (ix.sparse && (kwOf ix.keys new).all isNullCond) = false := by
    rw [kwOf_all_null]; exact hcov.1
  have hle := hc hu _ hv hskip
  unfold Rk
  rw [keyVals_eq, keyVals_eq]
  cases hk : keyEq (kv ix.keys a.2) (kv ix.keys b.2) with
  | false => rfl
  | true =>
    exfalso
    have pa : pfOk ix a.2 = true := by
      have := ca; rw [covers_eq, Bool.and_eq_true] at this; exact this.2
    have pb : pfOk ix b.2 = true := by
      have := cb; rw [covers_eq, Bool.and_eq_true] at this; exact this.2
    have ka : keyEq (kv ix.keys a.2) (kv ix.keys new) = true := by
      rcases hnew with e | e
      · rw [← e]; exact keyEq_refl (kv_allKeyable oka)
      · rw [← e]; exact hk
    have kb : keyEq (kv ix.keys b.2) (kv ix.keys new) = true := by
      rcases hnew with e | e
      · rw [← e, keyEq_symm (kv_allKeyable okb) (kv_allKeyable oka)]; exact hk
      · rw [← e]; exact keyEq_refl (kv_allKeyable okb)
    have h2 := two_hits hab (query_matches ix new a.2 oka pa ka)
      (query_matches ix new b.2 okb pb kb)
    omega

theorem checked_pair {new : Val} {ix : Index} {docs : List (Val × Val)} (hc : Checked new ix docs)
    (hu : ix.unique = true) (hd : distinctFields ix = true) {a b : Val × Val}
    (hab : [a, b].Sublist docs) (ga : good ix a = true) (gb : good ix b = true)
    (hnew : a.2 = new ∨ b.2 = new) : Rk ix a b :=
  checked_pair' hc hu hd hab (good_iff.1 ga).1 (good_iff.1 ga).2 (good_iff.1 gb).1
    (good_iff.1 gb).2 hnew

end MongoModel.Proofs.C06Lemmas
