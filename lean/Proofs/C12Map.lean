/-
  Proofs.C12Map — `proj_map`: projecting a query result is a map over the unprojected result.
-/
import Proofs.C12Sub

namespace MongoModel.Proofs.C12
open MongoModel MongoModel.Spec.Proj

theorem copy_null_of_ok {d p o : Val} (h : copyOnlyFields d p = .ok o) :
    copyOnlyFields d .null = .ok d := by
  unfold copyOnlyFields at h ⊢
  split at h
  · rfl
  · simp [unmodelled] at h

/-- `rs` is `sel` projected document by document -/
def MapsTo (p : Val) (sel rs : List Val) : Prop :=
  rs.length = sel.length ∧
  ∀ (i : Nat) (d : Val), sel[i]? = some d → ∃ o, rs[i]? = some o ∧ copyOnlyFields d p = .ok o

theorem mapsTo_nil (p : Val) : MapsTo p [] [] := ⟨rfl, fun i d h => by simp at h⟩

theorem mapsTo_cons {p d o : Val} {sel rs : List Val} (h0 : copyOnlyFields d p = .ok o)
    (h : MapsTo p sel rs) : MapsTo p (d :: sel) (o :: rs) := by
  refine ⟨by simp [h.1], fun i d' hi => ?_⟩
  cases i with
  | zero => simp at hi; subst hi; exact ⟨o, by simp, h0⟩
  | succ i => simp at hi; simpa using h.2 i d' hi

theorem findLoop_map (f p : Val) : ∀ (ds rs : List Val), findLoop f p ds = .ok rs →
    ∃ sel, findLoop f .null ds = .ok sel ∧ sel.Sublist ds ∧ MapsTo p sel rs
  | [], rs, h => by
    simp only [findLoop] at h; cases h
    exact ⟨[], by simp [findLoop], List.Sublist.slnil, mapsTo_nil p⟩
  | d :: ds, rs, h => by
    simp only [findLoop] at h
    obtain ⟨b, hb, h⟩ := bind_ok h
    cases b
    · simp only [Bool.false_eq_true, if_false] at h
      obtain ⟨sel, h1, h2, h3⟩ := findLoop_map f p ds rs h
      refine ⟨sel, ?_, h2.cons _, h3⟩
      simp [findLoop, hb, bind, Except.bind, h1]
    · simp only [if_true] at h
      obtain ⟨o, ho, h⟩ := bind_ok h
      obtain ⟨r, hr, h⟩ := bind_ok h
      have := pure_ok h; subst this
      obtain ⟨sel, h1, h2, h3⟩ := findLoop_map f p ds r hr
      refine ⟨d :: sel, ?_, h2.cons_cons _, mapsTo_cons ho h3⟩
      simp [findLoop, hb, bind, Except.bind, h1, copy_null_of_ok ho, pure, Except.pure]

theorem proj_map (f p : Val) (ds rs : List Val) (h : findProject f p ds = .ok rs) :
    ∃ sel, findProject f .null ds = .ok sel ∧ sel.Sublist ds ∧ MapsTo p sel rs := by
  unfold findProject at h ⊢
  split at h
  · obtain ⟨_, hv, h⟩ := bind_ok h
    have := pure_ok h; subst this
    exact ⟨[], by simp [hv, bind, Except.bind, pure, Except.pure], List.Sublist.slnil,
      mapsTo_nil p⟩
  · exact findLoop_map f p _ rs h

end MongoModel.Proofs.C12
