/-
  Proofs.C06Ops — the carried invariant `UniqS` through insert, delete, the reads and the index
  operations.
-/
import Proofs.C06Pairs
import Proofs.C09Ops
import Proofs.StoreFlag

set_option linter.unusedSimpArgs false

namespace MongoModel.Proofs.C06Lemmas
open MongoModel MongoModel.Spec
open MongoModel.Proofs.C09Lemmas (expire_ok SameMeta insErrState insertManyLoop_cons)

/-- documents only disappear, the indexes stay -/
def Sub (c c' : Coll) : Prop := c'.docs.Sublist c.docs ∧ c'.indexes = c.indexes

theorem Sub.refl (c : Coll) : Sub c c := ⟨List.Sublist.refl _, rfl⟩

theorem Sub.trans {a b c : Coll} (h1 : Sub a b) (h2 : Sub b c) : Sub a c :=
  ⟨h2.1.trans h1.1, h2.2.trans h1.2⟩

theorem UniqS.sub {c c' : Coll} (h : UniqS c) (hs : Sub c c') : UniqS c' :=
  h.of_sub hs.1 (fun _ hix => hs.2 ▸ hix)

theorem sub_expire {now : Int} {c c' : Coll} (h : expire now c = .ok c') : Sub c c' :=
  ⟨(expire_ok now c c' h).1, (expire_ok now c c' h).2.1⟩

theorem sub_iter {now : Int} {c c' : Coll} {f : Val} {ms : List Val}
    (h : iterDocuments now c f = .ok (c', ms)) : Sub c c' :=
  ⟨(iterDocuments_ok h).1, (iterDocuments_ok h).2.1.1⟩

theorem sub_ensure {now : Int} {c c' : Coll} {new : Val}
    (h : ensureUniques now c new = .ok c') : Sub c c' :=
  ⟨(ensureUniques_ok h).1, (ensureUniques_ok h).2.1.1⟩

/-! ### `setDoc` -/

theorem setDoc_indexes (c : Coll) (k d : Val) : (c.setDoc k d).indexes = c.indexes := by
  unfold Coll.setDoc; split <;> rfl

theorem setDoc_docs_append {c : Coll} {k : Val} (d : Val) (h : c.hasKey k = false) :
    (c.setDoc k d).docs = c.docs ++ [(k, d)] := by
  unfold Coll.setDoc; simp [h]

theorem setDoc_docs_map {c : Coll} {k : Val} (d : Val) (h : c.hasKey k = true) :
    (c.setDoc k d).docs = c.docs.map (fun p => if pyEq p.1 k then (p.1, d) else p) := by
  unfold Coll.setDoc; simp [h]

theorem pair_of_sublist_map {α β : Type} {f : α → β} {a b : β} {l : List α}
    (h : [a, b].Sublist (l.map f)) : ∃ a0 b0, [a0, b0].Sublist l ∧ a = f a0 ∧ b = f b0 := by
  obtain ⟨l', hl, he⟩ := List.sublist_map_iff.1 h
  match l', he, hl with
  | [a0, b0], he, hl =>
    simp only [List.map_cons, List.map_nil, List.cons.injEq, and_true] at he
    exact ⟨a0, b0, hl, he.1, he.2⟩
  | [], he, _ => simp at he
  | [_], he, _ => simp at he
  | _ :: _ :: _ :: _, he, _ => simp at he

theorem sublist_singleton' {α : Type} {l : List α} {x : α} (h : l.Sublist [x]) :
    l = [] ∨ l = [x] := by
  cases h with
  | cons _ h' => left; exact List.eq_nil_of_sublist_nil h'
  | cons_cons _ h2 => right; rw [List.eq_nil_of_sublist_nil h2]

theorem pair_of_sublist_snoc {α : Type} {a b x : α} {l : List α}
    (h : [a, b].Sublist (l ++ [x])) (hb : b ≠ x) : [a, b].Sublist l := by
  obtain ⟨l1, l2, he, h1, h2⟩ := List.sublist_append_iff.1 h
  rcases sublist_singleton' h2 with rfl | rfl
  · simp only [List.append_nil] at he; rw [he]; exact h1
  · exfalso
    have : ([a, b] : List α).getLast? = (l1 ++ [x]).getLast? := by rw [he]
    simp at this
    exact hb this

/-- a pair of the store after `setDoc k new` none of whose documents is `new` was already there -/
theorem pair_before_setDoc {c : Coll} {k new : Val} {a b : Val × Val}
    (h : [a, b].Sublist (c.setDoc k new).docs) (ha : a.2 ≠ new) (hb : b.2 ≠ new) :
    [a, b].Sublist c.docs := by
  cases hk : c.hasKey k with
  | false =>
    rw [setDoc_docs_append new hk] at h
    exact pair_of_sublist_snoc h (fun e => hb (by rw [e]))
  | true =>
    rw [setDoc_docs_map new hk] at h
    obtain ⟨a0, b0, hl, ea, eb⟩ := pair_of_sublist_map h
    have ea' : a = a0 := by
      by_cases hq : pyEq a0.1 k = true
      · simp only [hq, if_true] at ea; exact absurd (by rw [ea]) ha
      · simpa [hq] using ea
    have eb' : b = b0 := by
      by_cases hq : pyEq b0.1 k = true
      · simp only [hq, if_true] at eb; exact absurd (by rw [eb]) hb
      · simpa [hq] using eb
    rw [ea', eb']; exact hl

/-- a write followed by a successful `_ensure_uniques` keeps the invariant -/
theorem uniqS_checked_write {now : Int} {c c' : Coll} {k new : Val} (hU : UniqS c)
    (h : ensureUniques now (c.setDoc k new) new = .ok c') : UniqS c' := by
  obtain ⟨hs, hm, hck⟩ := ensureUniques_ok h
  have hi : c'.indexes = c.indexes := hm.1.trans (setDoc_indexes c k new)
  intro ix hix hu hd a b hab ga gb
  rw [hi] at hix
  by_cases hnew : a.2 = new ∨ b.2 = new
  · exact checked_pair (hck ix (by rw [setDoc_indexes]; exact hix)) hu hd hab ga gb hnew
  · simp only [not_or] at hnew
    exact hU ix hix hu hd a b (pair_before_setDoc (hab.trans hs) hnew.1 hnew.2) ga gb

/-- the same for `__setitem__` (which differs from the bare assignment by the created flag) -/
theorem uniqS_checked_store {now : Int} {c c' : Coll} {k new : Val} (hU : UniqS c)
    (h : ensureUniques now (c.storeDoc k new) new = .ok c') : UniqS c' := by
  obtain ⟨hs, hm, hck⟩ := ensureUniques_ok h
  have hs' : c'.docs.Sublist (c.setDoc k new).docs := hs
  have hi : c'.indexes = c.indexes := (show c'.indexes = (c.setDoc k new).indexes from hm.1).trans
    (setDoc_indexes c k new)
  intro ix hix hu hd a b hab ga gb
  rw [hi] at hix
  by_cases hnew : a.2 = new ∨ b.2 = new
  · exact checked_pair (hck ix (show ix ∈ (c.setDoc k new).indexes by
      rw [setDoc_indexes]; exact hix)) hu hd hab ga gb hnew
  · simp only [not_or] at hnew
    exact hU ix hix hu hd a b (pair_before_setDoc (hab.trans hs') hnew.1 hnew.2) ga gb

/-! ### insert -/

theorem uniqS_bump {c : Coll} (h : UniqS c) (n : Nat) : UniqS { c with nextOid := n } := h

theorem uniqS_insertDoc {now : Int} {c c' : Coll} {d id : Val} (hU : UniqS c)
    (h : insertDoc now c d = .ok (c', id)) : UniqS c' := by
  cases d with
  | doc fs =>
    unfold insertDoc at h
    simp only [bind, Except.bind] at h
    split at h
    · cases h
    · rename_i key hkey
      split at h
      · cases h
      · rename_i c1 h1
        have hU1 : UniqS c1 := by
          refine UniqS.sub ?_ (sub_expire h1)
          split <;> exact hU
        split at h
        · cases h
        · split at h
          · rename_i c3 h3
            simp only [pure, Except.pure, Except.ok.injEq, Prod.mk.injEq] at h
            rw [← h.1]
            exact uniqS_checked_store hU1 h3
          · cases h
  | _ => simp [insertDoc] at h

theorem uniqS_expireOr {now : Int} {c0 : Coll} (h0 : UniqS c0) :
    UniqS (match expire now c0 with | .ok x => x | .error _ => c0) := by
  cases h : expire now c0 with
  | error e => exact h0
  | ok c1 => exact h0.sub (sub_expire h)

theorem uniqS_markStored {c : Coll} (h : UniqS c) (b : Bool) : UniqS (c.markStored b) := by
  cases b with
  | false => exact h
  | true => exact h

theorem uniqS_insErrState {now : Int} {c : Coll} (d : Val) (hU : UniqS c) :
    UniqS (insErrState now c d) := by
  unfold insErrState insertRejected
  apply uniqS_markStored
  cases d with
  | doc fs =>
    by_cases hid : dhas "_id" fs = true
    · simp only [hid, if_true]
      exact uniqS_expireOr hU
    · simp only [hid, if_false]
      exact uniqS_expireOr (c0 := { c with nextOid := c.nextOid + 1 }) hU
  | _ => exact uniqS_expireOr hU

theorem uniqS_insertManyDone (c : Coll) (ids errs : List Val) (n : Nat) :
    (insertManyDone c ids errs n).1 = c := by
  unfold insertManyDone; split <;> rfl

theorem uniqS_insertManyLoop (now : Int) (ordered : Bool) (ds : List Val) (idx : Nat) (c : Coll)
    (ids errs : List Val) (n : Nat) (hU : UniqS c) :
    UniqS (insertManyLoop now ordered ds idx c ids errs n).1 := by
  induction ds generalizing idx c ids errs n with
  | nil =>
    rw [insertManyLoop, uniqS_insertManyDone]; exact hU
  | cons d rest ih =>
    rw [insertManyLoop_cons]
    cases hi : insertDoc now c d with
    | ok r =>
      obtain ⟨c', id⟩ := r
      exact ih _ _ _ _ _ (uniqS_insertDoc hU hi)
    | error e =>
      simp only []
      have hE := uniqS_insErrState (now := now) d hU
      split
      · split
        · rw [uniqS_insertManyDone]; exact hE
        · exact ih _ _ _ _ _ hE
      · exact hE

/-! ### delete and the reads -/

theorem sub_delDoc (c : Coll) (k : Val) : Sub c (c.delDoc k) :=
  ⟨List.filter_sublist, rfl⟩

theorem sub_foldl_delDoc (keys : List Val) (c : Coll) :
    Sub c (keys.foldl (fun acc k => acc.delDoc k) c) := by
  induction keys generalizing c with
  | nil => exact Sub.refl c
  | cons k keys ih => exact (sub_delDoc c k).trans (ih _)

theorem sub_delete (now : Int) (c : Coll) (f : Val) (multi : Bool) :
    Sub c (deleteColl now c f multi).1 := by
  unfold deleteColl
  simp only []
  split
  · cases hi : iterDocuments now c (patchDT (patchDT f)) with
    | error e => exact Sub.refl c
    | ok r =>
      obtain ⟨c1, ms⟩ := r
      exact (sub_iter hi).trans (sub_foldl_delDoc _ c1)
  · exact Sub.refl c

theorem sub_find (now : Int) (c : Coll) (f : Val) : Sub c (findColl now c f).1 := by
  cases f with
  | doc fs =>
    unfold findColl
    simp only []
    cases hi : iterDocuments now c (patchDT (.doc fs)) with
    | error e => exact Sub.refl c
    | ok r =>
      obtain ⟨c1, ms⟩ := r
      exact sub_iter hi
  | _ => exact Sub.refl c

theorem sub_count (now : Int) (c : Coll) (f : Val) (skip : Int) (limit : Option Val) :
    Sub c (countColl now c f skip limit).1 := by
  unfold countColl
  simp only []
  split
  · exact Sub.refl c
  · cases hi : iterDocuments now c (patchDT f) with
    | error e => exact Sub.refl c
    | ok r =>
      obtain ⟨c1, ms⟩ := r
      exact sub_iter hi

theorem sub_distinct (now : Int) (c : Coll) (key : String) (f : Val) :
    Sub c (distinctColl now c key f).1 := by
  unfold distinctColl
  have := sub_find now c f
  split
  · rename_i c1 e he; rw [he] at this; exact this
  · rename_i c1 ms he; rw [he] at this; exact this

/-! ### dropping -/

theorem uniqS_dropIndex (now : Int) (c : Coll) (name : String) (hU : UniqS c) :
    UniqS (dropIndexColl now c name).1 := by
  unfold dropIndexColl
  cases h : expire now c with
  | error e => exact hU
  | ok c1 =>
    have h1 := hU.sub (sub_expire h)
    simp only []
    split
    · exact h1.of_sub (List.Sublist.refl _) (fun ix hix => (List.mem_filter.1 hix).1)
    · exact h1

theorem uniqS_dropIndexes (c : Coll) : UniqS (dropIndexesColl c) := by
  intro ix hix; cases hix

theorem uniqS_drop (c : Coll) : UniqS (dropColl c) := by
  intro ix hix; cases hix

end MongoModel.Proofs.C06Lemmas
