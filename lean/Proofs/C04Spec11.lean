/-
  Proofs.C04Spec11 — `eval_eq_spec`: the induction over the expression.
-/
import Proofs.C04Acc

set_option linter.unusedSimpArgs false
set_option linter.unnecessarySeqFocus false

namespace MongoModel.Proofs.C04
open MongoModel MongoModel.Expr MongoModel.Spec

theorem listOps_cases (k : String) (hp : provedStrict.contains k = true)
    (hu : unaryOps.contains k = false) :
    k = "$add" ∨ k = "$multiply" ∨ k = "$subtract" ∨ k = "$divide" ∨ k = "$mod" ∨ k = "$pow" ∨
    k = "$eq" ∨ k = "$ne" ∨ k = "$gt" ∨ k = "$gte" ∨ k = "$lt" ∨ k = "$lte" ∨
    k = "$size" ∨ k = "$concatArrays" ∨ k = "$concat" ∨ k = "$arrayElemAt" ∨ k = "$strcasecmp" ∨
    k = "$sum" ∨ k = "$avg" ∨ k = "$min" ∨ k = "$max" := by
  simp only [provedStrict, arithOps, datePartOps, accOps, List.cons_append, List.nil_append,
    List.contains_cons, List.contains_nil, Bool.or_false, Bool.or_eq_true, beq_iff_eq] at hp
  rcases hp with rfl | rfl | rfl | rfl | rfl | rfl | rfl | rfl | rfl | rfl | rfl | rfl | rfl | rfl
    | rfl | rfl | rfl | rfl | rfl | rfl | rfl | rfl | rfl | rfl | rfl | rfl | rfl | rfl | rfl | rfl
    | rfl | rfl | rfl | rfl | rfl | rfl | rfl | rfl | rfl | rfl | rfl <;>
  first
    | (revert hu; decide)
    | simp

theorem wholeOps_cases (k : String) (hp : provedStrict.contains k = true)
    (hu : (unaryOps.contains k || k = "$size" || k = "$concatArrays") = true) : k ∈ wholeProved := by
  simp only [provedStrict, arithOps, datePartOps, accOps, List.cons_append, List.nil_append,
    List.contains_cons, List.contains_nil, Bool.or_false, Bool.or_eq_true, beq_iff_eq] at hp
  rcases hp with rfl | rfl | rfl | rfl | rfl | rfl | rfl | rfl | rfl | rfl | rfl | rfl | rfl | rfl
    | rfl | rfl | rfl | rfl | rfl | rfl | rfl | rfl | rfl | rfl | rfl | rfl | rfl | rfl | rfl | rfl
    | rfl | rfl | rfl | rfl | rfl | rfl | rfl | rfl | rfl | rfl | rfl <;>
  first
    | (revert hu; decide)
    | simp [wholeProved, datePartOps]

/-- a strict operator of the fragment applied to a list of operands -/
theorem list_strict (c : Ctx) (hign : c.ign = true) (k : String)
    (hp : provedStrict.contains k = true) (hu : unaryOps.contains k = false)
    (xs : List Val) (vs : List (Option Val)) (h1 : xs.map (eval c) = vs.map .ok)
    (hr : strictReasons k vs = []) (r : Option Val) (hs : applyStrict k vs = .ok r) :
    eval c (.doc [(k, .arr xs)]) = .ok r := by
  rcases listOps_cases k hp hu with h | h | h | h | h | h | h | h | h | h | h | h | h | h | h | h | h
    | h | h | h | h
  · exact nary_case c hign k (Or.inl h) xs vs h1 r hs
  · exact nary_case c hign k (Or.inr h) xs vs h1 r hs
  · exact binary_case c hign k (Or.inl h) xs vs h1 hr r hs
  · exact binary_case c hign k (Or.inr (Or.inl h)) xs vs h1 hr r hs
  · exact binary_case c hign k (Or.inr (Or.inr (Or.inl h))) xs vs h1 hr r hs
  · exact binary_case c hign k (Or.inr (Or.inr (Or.inr h))) xs vs h1 hr r hs
  · exact compare_case c k (Or.inl h) xs vs h1 hr r hs
  · exact compare_case c k (Or.inr (Or.inl h)) xs vs h1 hr r hs
  · exact compare_case c k (Or.inr (Or.inr (Or.inl h))) xs vs h1 hr r hs
  · exact compare_case c k (Or.inr (Or.inr (Or.inr (Or.inl h)))) xs vs h1 hr r hs
  · exact compare_case c k (Or.inr (Or.inr (Or.inr (Or.inr (Or.inl h))))) xs vs h1 hr r hs
  · exact compare_case c k (Or.inr (Or.inr (Or.inr (Or.inr (Or.inr h))))) xs vs h1 hr r hs
  · subst h; exact size_case c xs vs h1 r hs
  · exact concat_case c hign k (Or.inl h) xs vs h1 r hs
  · exact concat_case c hign k (Or.inr h) xs vs h1 r hs
  · subst h; exact elemAt_case c xs vs h1 hr r hs
  · subst h; exact strcasecmp_case c xs vs h1 r hs
  · exact acc_case c hign k (Or.inl h) xs vs h1 hr r hs
  · exact acc_case c hign k (Or.inr (Or.inl h)) xs vs h1 hr r hs
  · exact acc_case c hign k (Or.inr (Or.inr (Or.inl h))) xs vs h1 hr r hs
  · exact acc_case c hign k (Or.inr (Or.inr (Or.inr h))) xs vs h1 hr r hs

theorem wholeProved_mode (k : String) (hk : k ∈ wholeProved) (v : Val) (ha : v.isArr = false)
    (htz : hasTzKeys v = false) :
    mode k v = .whole ∧ ∃ cls, classify k = cls ∧ cls ≠ .plain ∧ cls ≠ .unknown ∧ cls ≠ .notImpl := by
  simp only [wholeProved, datePartOps, List.cons_append, List.nil_append, List.mem_cons,
    List.mem_nil_iff, or_false] at hk
  rcases hk with rfl | rfl | rfl | rfl | rfl | rfl | rfl | rfl | rfl | rfl | rfl | rfl | rfl | rfl
    | rfl | rfl | rfl | rfl | rfl | rfl | rfl | rfl <;>
  refine ⟨?_, _, rfl, ?_, ?_, ?_⟩ <;>
  first
    | decide
    | (cases v <;> simp [Val.isArr] at ha <;>
        simp [mode, dateOps, datePartOps, wholeOps, unaryArithOps, groupingOps, htz])

/-- a strict operator of the fragment applied to one operand that is not written as a list -/
theorem whole_strict (c : Ctx) (hign : c.ign = true) (k : String) (hk : k ∈ wholeProved) (v : Val)
    (ha : v.isArr = false) (htz : hasTzKeys v = false) (a : Option Val) (h1 : eval c v = .ok a)
    (hr : strictReasons k [a] = []) (r : Option Val) (hs : applyStrict k [a] = .ok r) :
    eval c (.doc [(k, v)]) = .ok r := by
  obtain ⟨hm, cls, hcls, c1, c2, c3⟩ := wholeProved_mode k hk v ha htz
  have hv : variadicOps.contains k = false := by
    simp only [wholeProved, datePartOps, List.cons_append, List.nil_append, List.mem_cons,
      List.mem_nil_iff, or_false] at hk
    rcases hk with rfl | rfl | rfl | rfl | rfl | rfl | rfl | rfl | rfl | rfl | rfl | rfl | rfl | rfl
      | rfl | rfl | rfl | rfl | rfl | rfl | rfl | rfl <;> decide
  rw [eval_whole c k v cls hcls c1 c2 c3 hm ha hv, h1, hign]
  exact whole_pure k hk a hr r hs

/-! ### an operator that takes one argument, given a one-item argument list -/

theorem unaryOps_cases (k : String) (hk : unaryOps.contains k = true) :
    k ∈ wholeProved ∧ unaryListOps.contains k = true ∧ k ≠ "$size" ∧ k ≠ "$concatArrays" := by
  simp only [unaryOps, datePartOps, List.cons_append, List.nil_append, List.contains_cons,
    List.contains_nil, Bool.or_false, Bool.or_eq_true, beq_iff_eq] at hk
  rcases hk with rfl | rfl | rfl | rfl | rfl | rfl | rfl | rfl | rfl | rfl | rfl | rfl | rfl | rfl
    | rfl | rfl | rfl | rfl | rfl | rfl <;> decide

theorem unary_mode (k : String) (hk : unaryOps.contains k = true) (x : Val)
    (htz : hasTzKeys x = false) : mode k x = .whole := by
  simp only [unaryOps, datePartOps, List.cons_append, List.nil_append, List.contains_cons,
    List.contains_nil, Bool.or_false, Bool.or_eq_true, beq_iff_eq] at hk
  rcases hk with rfl | rfl | rfl | rfl | rfl | rfl | rfl | rfl | rfl | rfl | rfl | rfl | rfl | rfl
    | rfl | rfl | rfl | rfl | rfl | rfl <;>
    simp [mode, dateOps, datePartOps, wholeOps, unaryArithOps, groupingOps, htz]

/-- the rules take exactly one operand -/
theorem applyStrict_unary_one (k : String) (hk : unaryOps.contains k = true)
    (vs : List (Option Val)) (r : Option Val) (hs : applyStrict k vs = .ok r) : ∃ a, vs = [a] := by
  simp only [unaryOps, datePartOps, List.cons_append, List.nil_append, List.contains_cons,
    List.contains_nil, Bool.or_false, Bool.or_eq_true, beq_iff_eq] at hk
  match vs, hs with
  | [a], _ => exact ⟨a, rfl⟩
  | [], hs =>
    rcases hk with rfl | rfl | rfl | rfl | rfl | rfl | rfl | rfl | rfl | rfl | rfl | rfl | rfl | rfl
      | rfl | rfl | rfl | rfl | rfl | rfl <;> simp [applyStrict, datePartOps] at hs
  | _ :: _ :: _, hs =>
    rcases hk with rfl | rfl | rfl | rfl | rfl | rfl | rfl | rfl | rfl | rfl | rfl | rfl | rfl | rfl
      | rfl | rfl | rfl | rfl | rfl | rfl <;> simp [applyStrict, datePartOps] at hs

/-- `{$op: [x]}` for a unary operator of the fragment: the operator applied to `x` (it used to be
    applied to the array `[x]`, unevaluated: finding `arrayliteral`) -/
theorem unary_list_strict (c : Ctx) (hign : c.ign = true) (k : String)
    (hk : unaryOps.contains k = true) (xs : List Val) (vs : List (Option Val))
    (h1 : xs.map (eval c) = vs.map .ok) (htz : xs.any hasTzKeys = false)
    (hr : strictReasons k vs = []) (r : Option Val) (hs : applyStrict k vs = .ok r) :
    eval c (.doc [(k, .arr xs)]) = .ok r := by
  obtain ⟨a, rfl⟩ := applyStrict_unary_one k hk vs r hs
  obtain ⟨x, rfl⟩ : ∃ x, xs = [x] := by
    have hlen : xs.length = 1 := by simpa using congrArg List.length h1
    match xs, hlen with
    | [x], _ => exact ⟨x, rfl⟩
  simp only [List.map_cons, List.map_nil, List.cons.injEq, and_true] at h1
  have htz' : hasTzKeys x = false := by simpa using htz
  obtain ⟨hw, hul, _, _⟩ := unaryOps_cases k hk
  obtain ⟨_, cls, hcls, c1, c2, c3⟩ := wholeProved_mode k hw .null rfl rfl
  subst hcls
  rw [eval_op_unary_list c k x c1 c2 c3 hul, unary_mode k hk x htz', h1, hign]
  exact whole_pure k hw a hr r hs


end MongoModel.Proofs.C04
