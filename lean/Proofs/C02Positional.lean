/-
  Proofs.C02Positional — the positional operator: on the domain `posDomain` the model resolves
  `$` to the index MongoDB's rule gives (`Spec.posIndex`) and edits that element only.
-/
import Spec.UpdatePositional
import Proofs.C02PosFrame
import Proofs.ValDecEq
import Proofs.C02PosLocal
import Proofs.C02Ext

set_option linter.unusedSimpArgs false
set_option linter.unusedVariables false

namespace MongoModel.Proofs.C02Lemmas
open MongoModel MongoModel.Spec

/-- decidable equality of element conditions (for concrete instances) -/
@[reducible] def elemCondDecEq : DecidableEq ElemCond := fun a b =>
  match a, b with
  | .sub x, .sub y =>
    match MongoModel.Proofs.valDecEq x y with
    | isTrue h => isTrue (h ▸ rfl)
    | isFalse h => isFalse (fun e => by cases e; exact h rfl)
  | .val x, .val y =>
    match MongoModel.Proofs.valDecEq x y with
    | isTrue h => isTrue (h ▸ rfl)
    | isFalse h => isFalse (fun e => by cases e; exact h rfl)
  | .sub _, .val _ => isFalse (fun e => by cases e)
  | .val _, .sub _ => isFalse (fun e => by cases e)

/-! ### the first item a condition applies to -/

theorem firstApplying_some (cond : Val) (p : Val → Bool) : ∀ (xs : List Val) (n i : Nat),
    (∀ el ∈ xs, filterApplies cond el = .ok (p el)) → xs.findIdx? p = some i →
    ∃ el, xs[i]? = some el ∧ p el = true ∧ firstApplying cond xs n = .ok (some (n + i, el))
  | [], n, i, _, h => by simp at h
  | x :: xs, n, i, hp, h => by
    rw [List.findIdx?_cons] at h
    have hx := hp x (by simp)
    by_cases hpx : p x = true
    · simp only [hpx, if_true, Option.some.injEq] at h
      subst h
      refine ⟨x, by simp, hpx, ?_⟩
      simp only [firstApplying, hx, hpx, bind, Except.bind, if_true, pure, Except.pure, Nat.add_zero]
    · simp only [hpx, Bool.false_eq_true, if_false, Option.map_eq_some_iff] at h
      obtain ⟨j, hj, rfl⟩ := h
      obtain ⟨el, h1, h2, h3⟩ := firstApplying_some cond p xs (n + 1) j
        (fun el hm => hp el (by simp [hm])) hj
      refine ⟨el, by simpa using h1, h2, ?_⟩
      simp only [Bool.not_eq_true] at hpx
      simp only [firstApplying, hx, hpx, bind, Except.bind, Bool.false_eq_true, if_false, h3]
      congr 3
      omega

theorem firstApplying_none (cond : Val) (p : Val → Bool) : ∀ (xs : List Val) (n : Nat),
    (∀ el ∈ xs, filterApplies cond el = .ok (p el)) → xs.findIdx? p = none →
    firstApplying cond xs n = .ok none
  | [], n, _, _ => rfl
  | x :: xs, n, hp, h => by
    rw [List.findIdx?_cons] at h
    have hx := hp x (by simp)
    by_cases hpx : p x = true
    · simp [hpx] at h
    · simp only [hpx, Bool.false_eq_true, if_false, Option.map_eq_none_iff] at h
      simp only [Bool.not_eq_true] at hpx
      simp only [firstApplying, hx, hpx, bind, Except.bind, Bool.false_eq_true, if_false]
      exact firstApplying_none cond p xs (n + 1) (fun el hm => hp el (by simp [hm])) h

/-! ### the filter narrowed to the array field -/

/-- what one condition contributes to `narrowSpec` -/
def narrowOne (kv : String × Val) : Val :=
  match splitDots kv.1 with
  | _ :: q :: r => .doc [(joinDots (q :: r), kv.2)]
  | _ => kv.2

def narrowStep (part : String) (acc : Val) (kv : String × Val) : R Val :=
  if kv.1.startsWith part then
    match splitDots kv.1 with
    | _ :: q :: r =>
      (match acc with
       | .doc ns => pure (.doc (dset (joinDots (q :: r)) kv.2 ns))
       | _ => .error .typeErr)
    | _ => pure kv.2
  else pure acc

theorem narrowSpec_eq (part : String) (ss : Fields) :
    narrowSpec part ss = ss.foldlM (narrowStep part) (.doc []) := rfl

theorem narrow_none (part : String) : ∀ (ss : Fields) (acc : Val), prefixKeys part ss = [] →
    ss.foldlM (narrowStep part) acc = .ok acc
  | [], acc, _ => rfl
  | kv :: ss, acc, h => by
    simp only [prefixKeys, List.filter_cons] at h
    by_cases hk : kv.1.startsWith part = true
    · simp [hk] at h
    · simp only [hk, Bool.false_eq_true, if_false] at h
      simp only [List.foldlM_cons, narrowStep, hk, Bool.false_eq_true, if_false, bind, Except.bind,
        pure, Except.pure]
      exact narrow_none part ss acc h

theorem narrow_single (part : String) (kv0 : String × Val) : ∀ (ss : Fields),
    prefixKeys part ss = [kv0] →
    ss.foldlM (narrowStep part) (.doc []) = .ok (narrowOne kv0)
  | [], h => by simp [prefixKeys] at h
  | kv :: ss, h => by
    simp only [prefixKeys, List.filter_cons] at h
    by_cases hk : kv.1.startsWith part = true
    · simp only [hk, if_true, List.cons.injEq] at h
      obtain ⟨rfl, hr⟩ := h
      simp only [List.foldlM_cons, narrowStep, hk, if_true]
      have : (match splitDots kv.1 with
          | _ :: q :: r => (pure (Val.doc (dset (joinDots (q :: r)) kv.2 [])) : R Val)
          | _ => pure kv.2) = .ok (narrowOne kv) := by
        simp only [narrowOne]
        split <;> rfl
      simp only [this, bind, Except.bind]
      exact narrow_none part ss _ hr
    · simp only [hk, Bool.false_eq_true, if_false] at h
      simp only [List.foldlM_cons, narrowStep, hk, Bool.false_eq_true, if_false, bind, Except.bind,
        pure, Except.pure]
      exact narrow_single part kv0 ss h


/-! ### plain names -/

theorem plainName_parts {f : String} (h : plainName f = true) :
    f ≠ "" ∧ f.toList.contains '.' = false ∧ f.toList.contains '$' = false := by
  simp only [plainName, Bool.and_eq_true, bne_iff_ne, ne_eq, Bool.not_eq_true'] at h
  exact ⟨h.1.1, h.1.2, h.2⟩

theorem plainName_split {f : String} (h : plainName f = true) : splitDots f = [f] := by
  have h' : '.' ∉ f.toList := by simpa using (plainName_parts h).2.1
  unfold splitDots
  rw [splitDotsChars_nodot _ _ h']
  simp [String.ofList_toList]

theorem plainName_ne_dollar {f : String} (h : plainName f = true) : f ≠ "$" := by
  intro e; subst e; revert h; decide +kernel

/-- on the domain the code's element condition is the rule's -/
theorem posDomain_narrow {f : String} {filter : Fields} {q : Val} (hf : plainName f = true)
    (hD : posDomain f filter q) :
    ∃ ns, narrowSpec f filter = .ok (.doc ns) ∧ dollarCond ns = q := by
  obtain ⟨_, kv, hpk, _, hec⟩ := hD
  rw [narrowSpec_eq, narrow_single f kv filter hpk]
  obtain ⟨k, c⟩ := kv
  simp only [elemCond] at hec
  split at hec
  · cases hec
  split at hec
  · rename_i hk
    subst hk
    split at hec
    · rename_i _ qf _ _
      split at hec
      · cases hec
        refine ⟨[("$elemMatch", .doc qf)], ?_, ?_⟩
        · simp only [narrowOne, plainName_split hf]
        · simp [dollarCond, dget]
      · split at hec <;> cases hec
    · split at hec <;> cases hec
    · cases hec
  · split at hec
    · rename_i x q' r hs
      split at hec
      · cases hec
      · rename_i hcond
        simp only [Bool.or_eq_true, not_or, Bool.not_eq_true, beq_eq_false_iff_ne, ne_eq] at hcond
        cases hec
        refine ⟨[(joinDots (q' :: r), c)], ?_, ?_⟩
        · simp only [narrowOne]
          rw [hs]
        · have hne : ¬ joinDots (q' :: r) = "$elemMatch" := hcond.2
          simp [dollarCond, dget, hne]
    · cases hec


/-! ### one positional entry of an `_updaters` operator -/

/-- **what the model does with `{op: {"f.$.x": v}}`** on the domain: the first element the
    condition applies to is handed to the updater; when there is none, the array itself is -/
theorem positional_updater_impl (op : String) (u : Updater) (hop : updaterOf op = some u)
    (filter : Fields) (key f x : String) (v now : Val) (wi : Bool) (fs : Fields) (xs : List Val)
    (q : Val) (hf : plainName f = true) (hx : plainName x = true)
    (hkey : splitDots key = [f, "$", x]) (hdol : hasDollarPart key = true)
    (hD : posDomain f filter q) (ha : dget f fs = some (.arr xs))
    (p : Val → Bool) (hp : ∀ el ∈ xs, filterApplies q el = .ok (p el)) :
    applyUpdate (.doc filter) (.doc [(op, .doc [(key, v)])]) now wi (.doc fs) =
      match xs.findIdx? p with
      | some i =>
        (match xs[i]? with
         | some el => (runUpdater u now el x v).map
             (fun el' => Val.doc (dset f (.arr (xs.set i el')) fs))
         | none => unmodelled)
      | none => (runUpdater u now (.arr xs) x v).map (fun l => Val.doc (dset f l fs)) := by
  obtain ⟨ns, hns, hq⟩ := posDomain_narrow hf hD
  have hpos : positionalUpdate [(op, Val.doc [(key, v)])] = true := by
    have hm : op ∈ positionalOperators := by simpa using updaterOf_positional hop
    simp [positionalUpdate, hm, hdol]
  have hko : keyOk key = true := by
    simp [keyOk, hkey, (plainName_parts hf).1, (plainName_parts hx).1]
  have hfd : (f = "$") = False := eq_false (plainName_ne_dollar hf)
  have hxd : (x == "$") = false := by
    simpa using plainName_ne_dollar hx
  have hl : lastPart ["$", x] = x := rfl
  have hdl : ["$", x].dropLast = ["$"] := rfl
  simp only [applyUpdate, hpos, if_true, applyOpsPos, hop, posFields, List.any_cons, hdol,
    List.any_nil, Bool.or_false, List.foldlM_cons, List.foldlM_nil, posUpdaterKey,
    Bool.false_eq_true, if_false, hko, Bool.not_true, hkey, hfd, SubRef.truthy, bind, Except.bind,
    hns, ha, pure, Except.pure, hl, hdl, posWalk, if_true, iterItems, hq]
  cases hfi : xs.findIdx? p with
  | some i =>
    obtain ⟨el, hel, _, hfa⟩ := firstApplying_some q p xs 0 i hp hfi
    simp only [hfa, Nat.zero_add, hel, hxd, applyAtSub, editTop, ha, editAt, List.nil_append]
    cases runUpdater u now el x v <;> rfl
  | none =>
    have hfa := firstApplying_none q p xs 0 hp hfi
    simp only [hfa, hxd, applyAtSub, editTop, ha, editAt]
    cases runUpdater u now (.arr xs) x v <;> rfl


/-! ### the rule on its domain -/

/-- the rule's element test, as a Boolean -/
def subHolds (q : Val) : Val → Bool := (ElemCond.sub q).sat

theorem posIndex_on_domain {f : String} {filter : Fields} {q : Val} (xs : List Val)
    (hD : posDomain f filter q) (hok : ∀ el ∈ xs, ∃ b, specMatches q el = .ok b) :
    posIndex f filter xs = some (xs.findIdx? (subHolds q)) := by
  obtain ⟨hnd, kv, _, hco, hec⟩ := hD
  simp only [posIndex, hnd, Bool.false_eq_true, if_false, hco, hec]
  split
  · rfl
  · rename_i hn
    exfalso
    apply hn
    rw [List.all_eq_true]
    intro el hm
    obtain ⟨b, hb⟩ := hok el hm
    simp [ElemCond.holds, hb]

theorem subHolds_applies {q : Val} {xs : List Val}
    (hC01 : ∀ el ∈ xs, filterApplies q el = specMatches q el)
    (hok : ∀ el ∈ xs, ∃ b, specMatches q el = .ok b) :
    ∀ el ∈ xs, filterApplies q el = .ok (subHolds q el) := by
  intro el hm
  obtain ⟨b, hb⟩ := hok el hm
  rw [hC01 el hm, hb]
  cases b <;> simp [subHolds, ElemCond.sat, ElemCond.holds, hb]


/-- **`f.$` as the whole path**: the first element the condition applies to is REPLACED by the
    operand — whatever the operator; without such an element the document stays as it is -/
theorem positional_whole_impl (op : String) (u : Updater) (hop : updaterOf op = some u)
    (filter : Fields) (key f : String) (v now : Val) (wi : Bool) (fs : Fields) (xs : List Val)
    (q : Val) (hf : plainName f = true)
    (hkey : splitDots key = [f, "$"]) (hdol : hasDollarPart key = true)
    (hD : posDomain f filter q) (ha : dget f fs = some (.arr xs))
    (p : Val → Bool) (hp : ∀ el ∈ xs, filterApplies q el = .ok (p el)) :
    applyUpdate (.doc filter) (.doc [(op, .doc [(key, v)])]) now wi (.doc fs) =
      match xs.findIdx? p with
      | some i => .ok (.doc (dset f (.arr (xs.set i v)) fs))
      | none => .ok (.doc fs) := by
  obtain ⟨ns, hns, hq⟩ := posDomain_narrow hf hD
  have hpos : positionalUpdate [(op, Val.doc [(key, v)])] = true := by
    have hm : op ∈ positionalOperators := by simpa using updaterOf_positional hop
    simp [positionalUpdate, hm, hdol]
  have hko : keyOk key = true := by
    simp [keyOk, hkey, (plainName_parts hf).1]
  have hfd : (f = "$") = False := eq_false (plainName_ne_dollar hf)
  have hl : lastPart ["$"] = "$" := rfl
  have hdl : ["$"].dropLast = ([] : List String) := rfl
  have hbeq : ("$" == "$") = true := by decide
  simp only [applyUpdate, hpos, if_true, applyOpsPos, hop, posFields, List.any_cons, hdol,
    List.any_nil, Bool.or_false, List.foldlM_cons, List.foldlM_nil, posUpdaterKey,
    Bool.false_eq_true, if_false, hko, Bool.not_true, hkey, hfd, SubRef.truthy, bind, Except.bind,
    hns, ha, pure, Except.pure, hl, hdl, posWalk, if_true, hq, hbeq]
  cases xs with
  | nil => simp
  | cons x0 xr =>
    simp only [List.isEmpty_cons, Bool.false_eq_true, if_false]
    cases hfi : (x0 :: xr).findIdx? p with
    | some i =>
      obtain ⟨el, hel, _, hfa⟩ := firstApplying_some q p (x0 :: xr) 0 i hp hfi
      simp only [hfa, Nat.zero_add, editTop, ha, editAt, setItemAt, bind, Except.bind, pure,
        Except.pure]
    | none =>
      have hfa := firstApplying_none q p (x0 :: xr) 0 hp hfi
      simp only [hfa]

/-- **`$push` through `f.$.l`** wants the query to hold `f: {$elemMatch: q}` (followed by exact
    key): the first element `q` applies to gets the value pushed to its `l` -/
theorem positional_push_impl (filter : Fields) (key f l : String) (v now : Val) (wi : Bool)
    (fs : Fields) (xs : List Val) (cs : Fields) (q : Val)
    (hf : plainName f = true) (hl : plainName l = true)
    (hkey : splitDots key = [f, "$", l]) (hdol : hasDollarPart key = true)
    (hq : dget f filter = some (.doc cs)) (hem : dget "$elemMatch" cs = some q)
    (ha : dget f fs = some (.arr xs))
    (p : Val → Bool) (hp : ∀ el ∈ xs, filterApplies q el = .ok (p el)) :
    applyUpdate (.doc filter) (.doc [("$push", .doc [(key, v)])]) now wi (.doc fs) =
      match xs.findIdx? p with
      | some i =>
        (match xs[i]? with
         | some el => (pushAt v el l).map (fun el' => Val.doc (dset f (.arr (xs.set i el')) fs))
         | none => unmodelled)
      | none => .error .writeErr := by
  have hpos : positionalUpdate [("$push", Val.doc [(key, v)])] = true := by
    simp [positionalUpdate, positionalOperators, hdol]
  have hko : keyOk key = true := by
    simp [keyOk, hkey, (plainName_parts hf).1, (plainName_parts hl).1]
  have hfd : (f = "$") = False := eq_false (plainName_ne_dollar hf)
  have hfd' : ("$" = f) = False := eq_false (fun e => plainName_ne_dollar hf e.symm)
  have hld : (l = "$") = False := eq_false (plainName_ne_dollar hl)
  have hu : updaterOf "$push" = none := by decide +kernel
  have hone : onePositional key = true := by
    simp [onePositional, hko, hkey, List.count_cons, hfd, hfd', hld, plainName_ne_dollar hf,
      plainName_ne_dollar hl]
  have hcont : [f, "$", l].contains "$" = true := by simp
  simp only [applyUpdate, hpos, if_true, applyOpsPos, hu,
    show ("$push" = "$rename") = False by decide, show ("$push" = "$setOnInsert") = False by decide,
    show ("$push" = "$currentDate") = False by decide, show ("$push" = "$addToSet") = False by decide,
    show ("$push" = "$pull") = False by decide, show ("$push" = "$pullAll") = False by decide,
    if_false, eachFieldS, List.foldlM_cons, List.foldlM_nil, pushFieldPos, hkey, hcont,
    Bool.not_true, Bool.false_eq_true, hone, withSubdocPos, hfd, ha, Option.isNone_some,
    Bool.and_false, Option.getD_some, Bool.not_true, hq, hem, bind, Except.bind, pure,
    Except.pure]
  cases hfi : xs.findIdx? p with
  | some i =>
    obtain ⟨el, hel, _, hfa⟩ := firstApplying_some q p xs 0 i hp hfi
    have hi : (Int.ofNat i < 0) = False := eq_false (Int.not_lt.mpr (Int.natCast_nonneg i))
    have hti : (Int.ofNat i).toNat = i := rfl
    simp only [hfa, Nat.zero_add, withSubdoc, Bool.false_eq_true, if_false, pyInt_toString, hi,
      hti, hel, bind, Except.bind, pure, Except.pure]
    cases el with
    | arr ys =>
      cases hpl : pyInt? l with
      | none => simp [pushAt, hpl, Except.map]
      | some j =>
        simp only []
        cases pushAt v (.arr ys) l <;> rfl
    | null => cases pushAt v .null l <;> rfl
    | bool b => cases pushAt v (.bool b) l <;> rfl
    | int n => cases pushAt v (.int n) l <;> rfl
    | dbl m e => cases pushAt v (.dbl m e) l <;> rfl
    | str t => cases pushAt v (.str t) l <;> rfl
    | date a b => cases pushAt v (.date a b) l <;> rfl
    | oid n => cases pushAt v (.oid n) l <;> rfl
    | doc es => cases pushAt v (.doc es) l <;> rfl
  | none =>
    have hfa := firstApplying_none q p xs 0 hp hfi
    simp only [hfa]

/-- the frame inside the array: after `{op: {"f.$.x": v}}` every other element, and every other
    field of the addressed element, is as before -/
theorem positional_inner_frame (u : Updater) (now v : Val) (x : String) (xs : List Val) (i : Nat)
    (el el' : Val) (hel : xs[i]? = some el) (hr : runUpdater u now el x v = .ok el') :
    (xs.set i el').length = xs.length ∧
    (∀ j, j ≠ i → (xs.set i el')[j]? = xs[j]?) ∧
    (xs.set i el')[i]? = some el' ∧
    (∀ es, el = .doc es → ∃ es', el' = .doc es' ∧ ∀ k, k ≠ x → dget k es' = dget k es) := by
  refine ⟨List.length_set, ?_, ?_, ?_⟩
  · intro j hj
    exact List.getElem?_set_ne (fun e => hj e.symm)
  · have hlt : i < xs.length := by
      rcases List.getElem?_eq_some_iff.mp hel with ⟨h, _⟩; exact h
    simp [List.getElem?_set_self hlt]
  · intro es he
    subst he
    obtain ⟨es', rfl, ht⟩ := runUpdater_doc_touch u now v x es el' hr
    exact ⟨es', rfl, fun k hk => ht.dget hk⟩

end MongoModel.Proofs.C02Lemmas

namespace MongoModel.Proofs.C02
open MongoModel MongoModel.Spec MongoModel.Proofs.C02Lemmas

theorem positional_resolves_first_match (filter : Fields) (key f x : String) (v now : Val)
    (fs : Fields) (xs : List Val) (q : Val) (hf : plainName f = true) (hx : plainName x = true)
    (hkey : splitDots key = [f, "$", x]) (hdol : hasDollarPart key = true)
    (hD : posDomain f filter q) (ha : dget f fs = some (.arr xs))
    (hnum : pyInt? x = none) (hdocs : xs.all isDocVal = true)
    (hC01 : ∀ el ∈ xs, filterApplies q el = specMatches q el)
    (hok : ∀ el ∈ xs, ∃ b, specMatches q el = .ok b) :
    Agrees (applyUpdate (.doc filter) (.doc [("$set", .doc [(key, v)])]) now false (.doc fs))
      (positionalEdit f filter false (setField x v) fs) := by
  have hu : updaterOf "$set" = some .set := by decide +kernel
  have himpl := positional_updater_impl "$set" .set hu filter key f x v now false fs xs q hf hx hkey
    hdol hD ha (subHolds q) (subHolds_applies hC01 hok)
  simp only [positionalEdit, Bool.false_eq_true, if_false, ha, posIndex_on_domain xs hD hok]
  cases hfi : xs.findIdx? (subHolds q) with
  | none =>
    simp only [Agrees]
    rw [himpl, hfi]
    simp only [runUpdater, listIndex, hnum, bind, Except.bind, Except.map]
    exact ⟨_, rfl⟩
  | some i =>
    obtain ⟨el, hel, _, _⟩ := firstApplying_some q (subHolds q) xs 0 i
      (subHolds_applies hC01 hok) hfi
    have hm : el ∈ xs := List.mem_of_getElem? hel
    have hd := List.all_eq_true.mp hdocs el hm
    cases el with
    | doc es =>
      simp only [hel, setField, Agrees]
      rw [himpl, hfi]
      simp only [hel, runUpdater, Except.map]
    | _ => simp [isDocVal] at hd


theorem positional_updater_resolves (op : String) (u : Updater) (hop : updaterOf op = some u)
    (filter : Fields) (key f x : String) (v now : Val) (wi : Bool) (fs : Fields) (xs : List Val)
    (q : Val) (hf : plainName f = true) (hx : plainName x = true)
    (hkey : splitDots key = [f, "$", x]) (hdol : hasDollarPart key = true)
    (hD : posDomain f filter q) (ha : dget f fs = some (.arr xs))
    (hC01 : ∀ el ∈ xs, filterApplies q el = specMatches q el)
    (hok : ∀ el ∈ xs, ∃ b, specMatches q el = .ok b) (i : Nat)
    (hi : posIndex f filter xs = some (some i)) :
    ∃ el, xs[i]? = some el ∧ (ElemCond.sub q).sat el = true ∧
      (∀ j, j < i → ∀ ej, xs[j]? = some ej → (ElemCond.sub q).sat ej = false) ∧
      applyUpdate (.doc filter) (.doc [(op, .doc [(key, v)])]) now wi (.doc fs) =
        (runUpdater u now el x v).map (fun el' => Val.doc (dset f (.arr (xs.set i el')) fs)) := by
  rw [posIndex_on_domain xs hD hok] at hi
  simp only [Option.some.injEq] at hi
  have himpl := positional_updater_impl op u hop filter key f x v now wi fs xs q hf hx hkey
    hdol hD ha (subHolds q) (subHolds_applies hC01 hok)
  obtain ⟨el, hel, hsat, _⟩ := firstApplying_some q (subHolds q) xs 0 i
    (subHolds_applies hC01 hok) hi
  refine ⟨el, hel, hsat, ?_, ?_⟩
  · intro j hj ej hej
    have := (List.findIdx?_eq_some_iff_getElem.mp hi).2.2 j hj
    have hlt : j < xs.length := (List.getElem?_eq_some_iff.mp hej).1
    have he : xs[j] = ej := (List.getElem?_eq_some_iff.mp hej).2
    rw [← he]
    simpa [subHolds] using this
  · rw [himpl, hi]
    simp only [hel]

theorem positional_no_match_is_error (op : String) (u : Updater) (hop : updaterOf op = some u)
    (hu : u ≠ .unset)
    (filter : Fields) (key f x : String) (v now : Val) (wi : Bool) (fs : Fields) (xs : List Val)
    (q : Val) (hf : plainName f = true) (hx : plainName x = true)
    (hkey : splitDots key = [f, "$", x]) (hdol : hasDollarPart key = true)
    (hD : posDomain f filter q) (ha : dget f fs = some (.arr xs)) (hnum : pyInt? x = none)
    (hC01 : ∀ el ∈ xs, filterApplies q el = specMatches q el)
    (hok : ∀ el ∈ xs, ∃ b, specMatches q el = .ok b)
    (hi : posIndex f filter xs = some none) :
    ∃ e, applyUpdate (.doc filter) (.doc [(op, .doc [(key, v)])]) now wi (.doc fs) = .error e := by
  rw [posIndex_on_domain xs hD hok] at hi
  simp only [Option.some.injEq] at hi
  have himpl := positional_updater_impl op u hop filter key f x v now wi fs xs q hf hx hkey
    hdol hD ha (subHolds q) (subHolds_applies hC01 hok)
  rw [himpl, hi]
  have hcd : u ≠ .currentDate := by
    intro e; subst e
    simp only [updaterOf] at hop
    repeat (split at hop; · cases hop)
    cases hop
  cases u with
  | unset => exact absurd rfl hu
  | currentDate => exact absurd rfl hcd
  | pop =>
    simp only [runUpdater, listIndex, hnum, bind, Except.bind, Except.map]
    cases popSpec v <;> exact ⟨_, rfl⟩
  | _ =>
    simp only [runUpdater, listIndex, hnum, bind, Except.bind, Except.map]
    exact ⟨_, rfl⟩

theorem positional_frame (op : String) (u : Updater) (hop : updaterOf op = some u)
    (filter : Fields) (key f x : String) (v now : Val) (wi : Bool) (fs fs' : Fields)
    (xs : List Val) (q : Val) (hf : plainName f = true) (hx : plainName x = true)
    (hkey : splitDots key = [f, "$", x]) (hdol : hasDollarPart key = true)
    (hD : posDomain f filter q) (ha : dget f fs = some (.arr xs))
    (hC01 : ∀ el ∈ xs, filterApplies q el = specMatches q el)
    (hok : ∀ el ∈ xs, ∃ b, specMatches q el = .ok b) (i : Nat)
    (hi : posIndex f filter xs = some (some i))
    (h : applyUpdate (.doc filter) (.doc [(op, .doc [(key, v)])]) now wi (.doc fs) = .ok (.doc fs')) :
    (∀ k, k ≠ f → dget k fs' = dget k fs) ∧
    ∃ ys, dget f fs' = some (.arr ys) ∧ ys.length = xs.length ∧
      (∀ j, j ≠ i → ys[j]? = xs[j]?) ∧
      (∀ es, xs[i]? = some (.doc es) →
        ∃ es', ys[i]? = some (.doc es') ∧ ∀ k, k ≠ x → dget k es' = dget k es) := by
  obtain ⟨el, hel, _, _, himpl⟩ := positional_updater_resolves op u hop filter key f x v now wi fs
    xs q hf hx hkey hdol hD ha hC01 hok i hi
  rw [himpl] at h
  cases hr : runUpdater u now el x v with
  | error e => simp [hr, Except.map] at h
  | ok el' =>
    simp only [hr, Except.map, Except.ok.injEq, Val.doc.injEq] at h
    subst h
    obtain ⟨h1, h2, h3, h4⟩ := positional_inner_frame u now v x xs i el el' hel hr
    refine ⟨fun k hk => dget_dset_other _ hk fs, _, dget_dset_same f _ fs, h1, h2, ?_⟩
    intro es hes
    rw [hel] at hes
    cases hes
    obtain ⟨es', rfl, hfr⟩ := h4 es rfl
    exact ⟨es', h3, hfr⟩

theorem positional_whole_element (op : String) (u : Updater) (hop : updaterOf op = some u)
    (filter : Fields) (key f : String) (v now : Val) (wi : Bool) (fs : Fields) (xs : List Val)
    (q : Val) (hf : plainName f = true)
    (hkey : splitDots key = [f, "$"]) (hdol : hasDollarPart key = true)
    (hD : posDomain f filter q) (ha : dget f fs = some (.arr xs))
    (hC01 : ∀ el ∈ xs, filterApplies q el = specMatches q el)
    (hok : ∀ el ∈ xs, ∃ b, specMatches q el = .ok b) (i : Nat)
    (hi : posIndex f filter xs = some (some i)) :
    applyUpdate (.doc filter) (.doc [(op, .doc [(key, v)])]) now wi (.doc fs) =
      .ok (.doc (dset f (.arr (xs.set i v)) fs)) := by
  rw [posIndex_on_domain xs hD hok] at hi
  simp only [Option.some.injEq] at hi
  rw [positional_whole_impl op u hop filter key f v now wi fs xs q hf hkey hdol hD ha (subHolds q)
    (subHolds_applies hC01 hok), hi]

theorem positional_push_first_match (filter : Fields) (key f l : String) (v now : Val) (wi : Bool)
    (fs : Fields) (xs : List Val) (q : Val)
    (hf : plainName f = true) (hl : plainName l = true)
    (hkey : splitDots key = [f, "$", l]) (hdol : hasDollarPart key = true)
    (hq : dget f filter = some (.doc [("$elemMatch", q)]))
    (hD : posDomain f filter q) (ha : dget f fs = some (.arr xs))
    (hC01 : ∀ el ∈ xs, filterApplies q el = specMatches q el)
    (hok : ∀ el ∈ xs, ∃ b, specMatches q el = .ok b) :
    applyUpdate (.doc filter) (.doc [("$push", .doc [(key, v)])]) now wi (.doc fs) =
      match posIndex f filter xs with
      | some (some i) =>
        (match xs[i]? with
         | some el => (pushAt v el l).map (fun el' => Val.doc (dset f (.arr (xs.set i el')) fs))
         | none => unmodelled)
      | _ => .error .writeErr := by
  rw [posIndex_on_domain xs hD hok]
  rw [positional_push_impl filter key f l v now wi fs xs [("$elemMatch", q)] q hf hl hkey hdol hq
    (by simp [dget]) ha (subHolds q) (subHolds_applies hC01 hok)]
  cases xs.findIdx? (subHolds q) <;> rfl


theorem positional_entry_reads_only_its_field (spec now : Val) (wi : Bool) (op key : String)
    (v : Val) (u : Updater) (hop : posFieldsOp op wi = some u) (hdol : hasDollarPart key = true)
    (fs gs : Fields) (hk : (dkeys fs).Nodup) (hk' : (dkeys gs).Nodup)
    (hag : dget (headOf key) fs = dget (headOf key) gs) :
    (∀ err, applyUpdate spec (.doc [(op, .doc [(key, v)])]) now wi (.doc fs) = .error err →
      applyUpdate spec (.doc [(op, .doc [(key, v)])]) now wi (.doc gs) = .error err) ∧
    (∀ fs', applyUpdate spec (.doc [(op, .doc [(key, v)])]) now wi (.doc fs) = .ok (.doc fs') →
      ∃ gs', applyUpdate spec (.doc [(op, .doc [(key, v)])]) now wi (.doc gs) = .ok (.doc gs') ∧
        dget (headOf key) fs' = dget (headOf key) gs') := by
  have ha : Agree [headOf key] fs gs := by
    intro k hkm
    cases List.mem_singleton.mp hkm
    rw [proj_of_nodup _ hk, proj_of_nodup _ hk', hag]
  have hr := positional_entry_local spec now wi op key v u hop hdol fs gs ha
  beta_reduce at hr
  generalize applyUpdate spec (.doc [(op, .doc [(key, v)])]) now wi (.doc fs) = x at hr ⊢
  generalize applyUpdate spec (.doc [(op, .doc [(key, v)])]) now wi (.doc gs) = y at hr ⊢
  cases hr with
  | err e0 => exact ⟨(fun err h => h), (fun fs' h => by cases h)⟩
  | ok fs1 gs1 hag1 _ _ =>
    refine ⟨(fun err h => by cases h), (fun fs' h => ?_)⟩
    cases h
    exact ⟨gs1, rfl, hag1.dget (List.mem_singleton.mpr rfl)⟩

end MongoModel.Proofs.C02
