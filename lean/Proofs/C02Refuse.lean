/-
  Proofs.C02Refuse — an update whose document does not pass `updatePrecheck` (the pre-5.0 "empty
  operator" rule, then `_validate_update_operators`) is refused BEFORE any document is looked
  for: `applyUpdateColl` returns the collection it was given — not even the expiry pass has run —
  whatever the filter and whether or not a document matches.
-/
import Proofs.C02Validate
import Proofs.C02Ops
import Proofs.C05Loop
import Proofs.C18

set_option linter.unusedVariables false
set_option linter.unusedSimpArgs false

namespace MongoModel.Proofs.C02Lemmas
open MongoModel MongoModel.Spec

theorem patchDT_doc (fs : Fields) : patchDT (.doc fs) = .doc (patchFields fs) := by
  simp [patchDT, patch]

/-- the datetime normalisation of the update document does not touch its keys, hence not the
    verdict of the operator validation -/
theorem validateOps_patch (u : Fields) : validateOps (patchFields u) = validateOps u :=
  validateOps_keys _ _ (MongoModel.Proofs.C18.dkeys_patchFields u)

/-- **refused before any document is looked for** -/
theorem precheck_refuses (cfg : Cfg) (now : Int) (c : Coll) (f : Val) (u : Fields)
    (upsert multi : Bool) (e : Err) (h : updatePrecheck cfg (patchFields u) = .error e) :
    ∃ e', applyUpdateColl cfg now c f (.doc u) upsert multi = (c, .error e') ∧
      (∀ fs, f = .doc fs → e' = e) := by
  rw [MongoModel.Proofs.C05Lemmas.applyUpdateColl_eq, patchDT_doc u]
  cases hf : patchDT f with
  | doc ss =>
    simp only [h]
    exact ⟨e, rfl, fun _ _ => rfl⟩
  | _ => exact ⟨.typeErr, rfl, fun fs hfs => by subst hfs; rw [patchDT_doc] at hf; cases hf⟩

/-- an unknown `$operator` anywhere in the update document fails the precheck -/
theorem precheck_unknown (cfg : Cfg) (u : Fields) (k : String) (hk : k ∈ dkeys u)
    (hd : k.startsWith "$" = true) (hu : knownOperator k = false) :
    ∃ e, updatePrecheck cfg (patchFields u) = .error e ∧ (cfg.preV5 = false → e = .valueErr) := by
  have hv : validateOps (patchFields u) = .error .valueErr := by
    rw [validateOps_patch]; exact validateOps_unknown u k hk hd hu
  unfold updatePrecheck
  cases he : emptyOperatorCheck cfg (patchFields u) with
  | error e =>
    refine ⟨e, rfl, ?_⟩
    intro hp
    unfold emptyOperatorCheck at he
    simp [hp] at he
  | ok _ =>
    refine ⟨.valueErr, ?_, fun _ => rfl⟩
    simp only [bind, Except.bind]
    exact hv

end MongoModel.Proofs.C02Lemmas

namespace MongoModel.Proofs.C02Lemmas
open MongoModel MongoModel.Spec

theorem splitChars_nodot' (cs : List Char) (h : cs.contains '.' = false) :
    ∀ cur, splitDotsChars cs cur = [String.ofList (cur.reverse ++ cs)] := by
  induction cs with
  | nil => intro cur; simp [splitDotsChars]
  | cons c r ih =>
    intro cur
    simp only [List.contains_cons, Bool.or_eq_false_iff, beq_eq_false_iff_ne, ne_eq] at h
    have hc : c ≠ '.' := fun e => h.1 e.symm
    simp only [splitDotsChars, hc, if_false]
    rw [ih h.2]
    simp

theorem splitDots_nodot' (k : String) (h : k.toList.contains '.' = false) : splitDots k = [k] := by
  unfold splitDots
  rw [splitChars_nodot' _ h]
  simp

/-- the whole update `{$addToSet: {f: {$each: …, other: …}}}` on a top-level field is refused,
    whatever the document holds -/
theorem addToSet_clause_update (spec now : Val) (wi : Bool) (f : String) (vs fs : Fields)
    (hf1 : f.toList.contains '.' = false) (hf2 : f.toList.contains '$' = false) (hf3 : f ≠ "")
    (he : (dget "$each" vs).isSome = true) (k : String) (hk : k ∈ dkeys vs) (hne : k ≠ "$each") :
    applyUpdate spec (.doc [("$addToSet", .doc [(f, .doc vs)])]) now wi (.doc fs) = .error .writeErr := by
  have h1 : updaterOf "$addToSet" = none := by decide +kernel
  have hsplit := splitDots_nodot' f hf1
  have hkey : keyOk f = true := by simp [keyOk, hsplit, hf3]
  have hdol : hasDollarPart f = false := hf2
  have hpos : positionalUpdate [("$addToSet", Val.doc [(f, Val.doc vs)])] = false := by
    simp [positionalUpdate, hdol]
  simp only [applyUpdate, hpos, Bool.false_eq_true, if_false, applyOps, h1]
  simp only [show ("$addToSet" = "$rename") = False by decide,
    show ("$addToSet" = "$setOnInsert") = False by decide,
    show ("$addToSet" = "$currentDate") = False by decide, if_false, if_true]
  simp only [eachField, List.foldlM_cons, List.foldlM_nil, addToSetField, hdol, hkey, hsplit,
    Bool.false_eq_true, if_false, Bool.not_true, bind, Except.bind]
  rw [addToSet_each_clause _ vs he k hk hne]

end MongoModel.Proofs.C02Lemmas

namespace MongoModel.Proofs.C02Lemmas
open MongoModel MongoModel.Spec

/-- `$pop` of a top-level field the document does not hold: nothing happens -/
theorem pop_missing_field (now : Val) (f : String) (fs : Fields) (h : dget f fs = none) :
    runUpdater .pop now (.doc fs) f (.int 1) = .ok (.doc fs) ∧
    runUpdater .pop now (.doc fs) f (.int (-1)) = .ok (.doc fs) := by
  constructor <;> simp [runUpdater, popSpec, pyEq, Num.eq, Val.num?, h, bind, Except.bind, pure, Except.pure]

/-- `$pop` of a dotted path whose first sub-document is missing: nothing is created, whatever the
    operand -/
theorem pop_missing_parent (now v : Val) (p q : String) (rest : List String) (fs : Fields)
    (h : dget p fs = none) :
    updateSingleField .pop now v (p :: q :: rest) (.doc fs) = .ok (.doc fs) := by
  rw [usf_doc, h]
  rfl

/-- `$pullAll` behind a path that ends in the index of an array item -/
theorem pullAllAt_item (xs vs : List Val) (last : String) (i : Nat)
    (hd : isDigits last = true) (hi : pyInt? last = some (i : Int)) :
    (∀ ys, xs[i]? = some (.arr ys) →
      pullAllAt (.arr vs) (.arr xs) last =
        .ok (.arr (xs.set i (.arr (ys.filter (fun o => !pyIn o vs)))))) ∧
    (xs[i]? = none → pullAllAt (.arr vs) (.arr xs) last = .ok (.arr xs)) := by
  have hneg : ¬ ((i : Int) < 0) := by omega
  constructor
  · intro ys hx
    simp [pullAllAt, hd, hi, hneg, hx, pullAllValue, bind, Except.bind, pure, Except.pure]
  · intro hx
    simp [pullAllAt, hd, hi, hneg, hx]

/-- … and behind a path that leads through a scalar (or null, or a string): nothing to pull from -/
theorem pullAllAt_scalar (value parent : Val) (last : String)
    (hp : ∀ fs, parent ≠ .doc fs) (ha : ∀ xs, parent ≠ .arr xs) :
    pullAllAt value parent last = .ok parent := by
  cases parent with
  | doc fs => exact absurd rfl (hp fs)
  | arr xs => exact absurd rfl (ha xs)
  | _ => rfl

end MongoModel.Proofs.C02Lemmas
