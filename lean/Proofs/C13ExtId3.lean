/-
  Proofs.C13ExtId3 — the upserted `_id` when the update `$set`s / `$setOnInsert`s it.
-/
import Proofs.C13ExtId2
import Proofs.C13ExtSet

set_option linter.unusedVariables false
set_option linter.unusedSimpArgs false

namespace MongoModel.Proofs.C13Ext
open MongoModel MongoModel.Spec MongoModel.Proofs.C05Lemmas MongoModel.Proofs.C10Lemmas
  MongoModel.Proofs.C13Lemmas MongoModel.Proofs.C02Lemmas

theorem patchFields_append : ∀ (a b : Fields), patchFields (a ++ b) = patchFields a ++ patchFields b
  | [], b => rfl
  | (k, v) :: r, b => by simp [patchFields, patchFields_append r b]

theorem upsert_id_from_set (cfg : Cfg) (now : Int) (c c1 c' : Coll) (ss pre post body : Fields)
    (op : String) (multi : Bool) (sel : List (Val × Val)) (r : UpdateResult) (id w : Val)
    (he : expire now c = .ok c1) (hne : c1.docs ≠ []) (hn : c.ttlIndexes = [])
    (hi : IdInv c) (hg : GoodKeys c)
    (hk : plainKeys ss = true) (hd : (dkeys ss).Nodup)
    (hv : ∀ v, dget "_id" ss = some v → isScalar v = true)
    (hop : op = "$set" ∨ op = "$setOnInsert")
    (hall : (pre ++ (op, .doc body) :: post).all (fun kv => kv.1.startsWith "$") = true)
    (hpre : "_id" ∉ addressed pre) (hpost : "_id" ∉ addressed post)
    (hw : dget "_id" body = some w)
    (hf : (dkeys body).filter (fun k => headOf k = "_id") = ["_id"])
    (hs : selectDocs (patchDT (.doc ss)) c1.docs = .ok sel)
    (h : applyUpdateColl cfg now c (.doc ss) (.doc (pre ++ (op, .doc body) :: post)) true multi = (c', .ok r))
    (hup : r.upserted = some id) : id = patchDT w := by
  have hdf : dget "_id" (patchFields (pre ++ (op, .doc body) :: post)) = none :=
    dget_nodollar_none "_id" id_nodollar _ (all_dollar_patch _ hall)
  have hsc : isScalar (upsertIdv (patchFields ss) (patchFields (pre ++ (op, .doc body) :: post)) c).1 = true := by
    cases hg' : dget "_id" ss with
    | some v =>
      rw [upsertIdv_from_filter _ _ _ _ (dget_patch_some hg')]
      exact isScalar_patch v (hv v hg')
    | none => simp [upsertIdv, dget_patch_none hg', hdf, isScalar]
  obtain ⟨spec', sf, bf, hsf, hap, hfin⟩ := upsert_id_core cfg now c c1 c' ss _ multi sel r id
    he hne hn hi hg hk hd hs h hup hsc
  have hpf : patchFields (pre ++ (op, .doc body) :: post) =
      patchFields pre ++ (op, .doc (patchFields body)) :: patchFields post := by
    rw [patchFields_append]; simp [patchFields, patch]
  rw [hpf] at hap
  obtain ⟨bf', hb, hx⟩ := set_id_effect spec' _ true (patchFields pre) (patchFields post)
    (patchFields body) op (patch w) sf _
    (by rcases hop with rfl | rfl
        · exact Or.inl rfl
        · exact Or.inr ⟨rfl, rfl⟩)
    (by rw [← hpf]; exact all_dollar_patch _ hall)
    (by rw [addressed_patch]; exact hpre) (by rw [addressed_patch]; exact hpost)
    (dget_patch_some hw) (by rw [dkeys_patchFields]; exact hf) hap
  cases hb
  rw [hfin _ hx, MongoModel.Proofs.C18.patch_idem]

end MongoModel.Proofs.C13Ext
