/-
  Proofs.C20Tables — the theorems about the REGENERATED tables (lean/Generated/*.lean), decided
  by kernel evaluation over the whole finite table.  They are re-checked on every run against
  what the code says now.
-/
import Proofs.C20
import Generated.Tables
import Generated.Vocab
import Generated.Options
import Generated.Sites

namespace MongoModel.Proofs.C20
open MongoModel.Vocab

/-- the numerals used for the names the model compares with literally are those names -/
theorem enc_consts :
    enc "$comment" = cComment ∧ enc "$expr" = cExpr ∧ enc "$not" = cNot ∧ enc "$all" = cAll ∧
    enc "$exists" = cExists ∧ enc "$ne" = cNe ∧ enc "$nin" = cNin ∧ enc "$each" = cEach ∧
    enc "$toInt" = cToInt ∧ enc "$toLong" = cToLong ∧ enc "$toDecimal" = cToDecimal ∧
    isOp (enc "$") = true := by
  decide +kernel

/-- the code tables used by the model are the string tables read off the source, encoded -/
theorem tables_encoded : Generated.tables = Generated.tablesS.map enc := by
  decide +kernel

/-- every row: string = code, class = classification, observed = modelled -/
theorem rows_ok_chunks :
    Generated.rowChunks.all (fun c => c.all (Row.ok Generated.tables)) = true := by
  decide +kernel

theorem rows_ok : Generated.rows.all (Row.ok Generated.tables) = true :=
  chunks_all _ _ rows_ok_chunks

/-- every observed `ignored` is a listed known finding -/
theorem rows_known_chunks :
    Generated.rowChunks.all (fun c => c.all
      (Row.ignoredKnown Generated.knownIgnoredPairs)) = true := by
  decide +kernel

theorem rows_known :
    Generated.rows.all (Row.ignoredKnown Generated.knownIgnoredPairs) = true :=
  chunks_all _ _ rows_known_chunks

/-- what is left of the list of ignored names, by name: `$ne` and `$nin` in a condition whose
    path reaches no value -/
theorem known_ignored_pairs_named :
    Generated.knownIgnoredPairs.all (fun p =>
      decide (p.1 = .queryFieldDeadEnd) && (p.2 == cNe || p.2 == cNin)) = true := by
  decide +kernel

theorem known_ignored_pairs_are_ne_nin (p : Position × Code)
    (hp : p ∈ Generated.knownIgnoredPairs) :
    p.1 = .queryFieldDeadEnd ∧ (p.2 = cNe ∨ p.2 = cNin) := by
  have := List.all_eq_true.mp known_ignored_pairs_named p hp
  simpa using this

/-- the structure over the REGENERATED tables: the pre-check of an update lets through only
    what the operator loop has a branch for, and `LOGICAL_OPERATOR_MAP` has no constant
    connective but `$not` -/
theorem update_precheck_within_loop_tbl :
    Generated.tables.updateChecked.all (fun k =>
      Generated.tables.updaters.contains k || Generated.tables.updateInline.contains k) = true := by
  decide +kernel

/-- … and the pre-check of the accumulators (`_validate_accumulators`) only what
    `_accumulate_group` has a branch for -/
theorem accumulator_precheck_within_loop_tbl :
    Generated.tables.groupChecked.all (fun k =>
      Generated.tables.groupingMap.contains k || Generated.tables.groupInline.contains k) = true := by
  decide +kernel

theorem logical_const_is_not_tbl :
    Generated.tables.logicalConst.all (fun k => k == cNot) = true := by
  decide +kernel

/-- over the regenerated tables the dispatch structure ignores NO name but `$ne` / `$nin` in a
    condition whose path reaches no value — for every name, probed or not -/
theorem generated_dispatch_ignores_only_ne_nin (pos : Position) (k : Code)
    (h : dispatch Generated.tables pos k = .ignored) :
    pos = .queryFieldDeadEnd ∧ (k = cNe ∨ k = cNin) := by
  rcases ignored_only_structurally Generated.tables pos k h with h1 | h1 | h1 | h1
  · have := List.all_eq_true.mp logical_const_is_not_tbl k h1.1
    exact absurd (by simpa using this) h1.2.2.1
  · exact h1
  · have := List.all_eq_true.mp update_precheck_within_loop_tbl k h1.2.1
    simp only [Bool.or_eq_true, List.contains_eq_mem, decide_eq_true_eq] at this
    rcases this with h2 | h2
    · exact absurd h2 h1.2.2.1
    · exact absurd h2 h1.2.2.2
  · have := List.all_eq_true.mp accumulator_precheck_within_loop_tbl k h1.2.1
    simp only [Bool.or_eq_true, List.contains_eq_mem, decide_eq_true_eq] at this
    rcases this with h2 | h2
    · exact absurd h2 h1.2.2.1
    · exact absurd h2 h1.2.2.2

/-- the full statement fails on the table: some entry is observed `ignored` -/
theorem some_entry_ignored :
    Generated.vocab.any (fun e => decide (e.disp = .ignored)) = true := by
  decide +kernel

/-! ### consumer sites of the shared dispatchers -/

/-- every site row: class = classification, observed = modelled for the dispatcher, or raises -/
theorem site_rows_ok_chunks :
    Generated.siteRowChunks.all (fun c => c.all (SiteRow.ok Generated.tables)) = true := by
  decide +kernel

theorem site_rows_ok : Generated.siteRows.all (SiteRow.ok Generated.tables) = true :=
  chunks_all _ _ site_rows_ok_chunks

/-- every `ignored` observed at a site is a listed known finding -/
theorem site_rows_known_chunks :
    Generated.siteRowChunks.all (fun c => c.all
      (SiteRow.ignoredKnown Generated.knownIgnoredSitePairs)) = true := by
  decide +kernel

theorem site_rows_known :
    Generated.siteRows.all (SiteRow.ignoredKnown Generated.knownIgnoredSitePairs) = true :=
  chunks_all _ _ site_rows_known_chunks

/-- every refusal at a site was tried again on an empty collection, and the refusals that are
    not repeated there are at the listed sites (`lazy-empty:<site>`) -/
theorem site_rows_empty_chunks :
    Generated.siteRowChunks.all (fun c => c.all
      (SiteRow.emptyKnown Generated.knownLazyEmptySites)) = true := by
  decide +kernel

theorem site_rows_empty :
    Generated.siteRows.all (SiteRow.emptyKnown Generated.knownLazyEmptySites) = true :=
  chunks_all _ _ site_rows_empty_chunks

/-- the family of the helper that site `i` hands its names to -/
def siteFamily (i : Nat) : Option Family := (Generated.sites[i]?).map (·.family)

/-- the listed sites are expression parts of stages, or a filter (`restrictSearchWithMatch`):
    no accumulator-name site, no sub-pipeline -/
theorem lazy_empty_families_tbl :
    Generated.knownLazyEmptySites.all (fun i =>
      siteFamily i == some .expr || siteFamily i == some .query) = true := by
  decide +kernel

/-- the full statement fails on the table: some refusal is not repeated on an empty collection -/
theorem some_site_silent_on_empty :
    Generated.siteVocab.any (fun e => e.disp.raises && decide (e.onEmpty = .silent)) = true := by
  decide +kernel

/-- non-vacuity of the accumulator part: refusals at accumulator-name sites, repeated on an empty
    collection -/
theorem some_accumulator_refused_on_empty :
    Generated.siteVocab.any (fun e => siteFamily e.site == some .accumulator && e.disp.raises &&
      decide (e.onEmpty = .raises)) = true := by
  decide +kernel

/-- every call of a dispatch helper in the source is reached by a probed site, and every site
    was probed with names the dispatcher refuses -/
theorem call_sites_covered :
    callSitesCovered Generated.callSites Generated.sites = true := by
  decide +kernel

theorem every_site_has_a_refusal :
    (List.range Generated.sites.length).all (fun i =>
      Generated.siteVocab.any (fun e => e.site == i && e.disp.raises)) = true := by
  decide +kernel

/-! ### options -/

def optLoud (known : List (Nat × Opt)) (e : OptEntry) : Bool :=
  e.optedOut || !e.relevant || decide (e.disp ≠ .accepted) || known.contains e.key

theorem options_loud_tbl : Generated.options.all (optLoud Generated.knownSilent) = true := by
  decide +kernel

theorem options_loud (e : OptEntry) (he : e ∈ Generated.options) (h1 : e.optedOut = false)
    (h2 : e.relevant = true) (h3 : e.disp = .accepted) : e.key ∈ Generated.knownSilent := by
  have := List.all_eq_true.mp options_loud_tbl e he
  simpa [optLoud, h1, h2, h3] using this

theorem some_option_silent :
    Generated.options.any (fun e => !e.optedOut && e.relevant && decide (e.disp = .accepted))
      = true := by
  decide +kernel

def pairLoud (known : List (Nat × Opt)) (e : OptPair) : Bool :=
  !e.relevant || decide (e.disp ≠ .accepted) || known.contains e.key

theorem options_pairs_tbl :
    Generated.optionPairChunks.all (fun c => c.all (pairLoud Generated.knownSilent)) = true := by
  decide +kernel

theorem options_pairs (e : OptPair) (he : e ∈ Generated.optionPairs) (h2 : e.relevant = true)
    (h3 : e.disp = .accepted) : e.key ∈ Generated.knownSilent := by
  have := List.all_eq_true.mp (chunks_all _ _ options_pairs_tbl) e he
  simpa [pairLoud, h2, h3] using this

theorem some_pair_rejected :
    Generated.optionPairs.any (fun e => e.relevant && e.aOptedOut &&
      decide (e.disp = .raisesNotImplemented)) = true := by
  decide +kernel

/-- `optIff` for the entries outside `ks`: accepted exactly when opted out -/
def optIff (ks : List (Nat × Opt)) (e : OptEntry) : Bool :=
  !e.option.ignorable || decide (e.disp = .raisesOther) || ks.contains e.key ||
    (decide (e.disp = .accepted) == e.optedOut)

theorem options_iff_tbl :
    Generated.options.all (optIff Generated.knownSilent) = true := by
  decide +kernel

theorem options_iff (e : OptEntry) (he : e ∈ Generated.options) (h1 : e.option.ignorable = true)
    (h2 : e.disp ≠ .raisesOther) (h3 : e.key ∉ Generated.knownSilent) :
    e.disp = .accepted ↔ e.optedOut = true := by
  have := List.all_eq_true.mp options_iff_tbl e he
  simp only [optIff, h1, h2, List.contains_eq_mem, h3, Bool.not_true, decide_false,
    Bool.or_self, Bool.false_or, beq_iff_eq] at this
  constructor
  · intro h; rw [← this]; simpa using h
  · intro h; rw [h] at this; simpa using this

/-- every opt-out works: no exception list (the whole table) -/
def optOutHonoured (e : OptEntry) : Bool :=
  !e.option.ignorable || !e.optedOut || decide (e.disp = .raisesOther) ||
    decide (e.disp = .accepted)

theorem opt_out_honoured_tbl : Generated.options.all optOutHonoured = true := by
  decide +kernel

theorem opt_out_honoured (e : OptEntry) (he : e ∈ Generated.options)
    (h1 : e.option.ignorable = true) (h2 : e.optedOut = true) (h3 : e.disp ≠ .raisesOther) :
    e.disp = .accepted := by
  have := List.all_eq_true.mp opt_out_honoured_tbl e he
  simpa [optOutHonoured, h1, h2, h3] using this

/-- the table does contain opted-out options that are let through -/
theorem some_optout_effective :
    Generated.options.any (fun e => e.option.ignorable && e.optedOut &&
      decide (e.disp = .accepted)) = true := by
  decide +kernel

/-- the full equivalence still fails in one direction: an ignorable option that is accepted
    although the caller has not opted out (`find(collation=…)`) -/
theorem some_ignorable_silent :
    Generated.options.any (fun e => e.option.ignorable && !e.optedOut &&
      decide (e.disp = .accepted)) = true := by
  decide +kernel

theorem some_ignorable_loud :
    Generated.options.any (fun e => e.option.ignorable && !e.optedOut &&
      !Generated.knownSilent.contains e.key && decide (e.disp = .raisesNotImplemented)) = true := by
  decide +kernel

/-- what is left of the list of silently dropped options, by name: `Collection.find(collation)` -/
theorem known_silent_named :
    Generated.knownSilent.all (fun k =>
      decide (Generated.methods[k.1]? = some ("Collection", "find")) && decide (k.2 = .collation))
      = true := by
  decide +kernel

theorem known_silent_is_find_collation (k : Nat × Opt) (hk : k ∈ Generated.knownSilent) :
    Generated.methods[k.1]? = some ("Collection", "find") ∧ k.2 = .collation := by
  have := List.all_eq_true.mp known_silent_named k hk
  simpa using this

end MongoModel.Proofs.C20
