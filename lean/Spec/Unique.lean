/-
  Spec.Unique — the uniqueness rule of C06 over the collection model.

  The index key of a document is the tuple of the values of the indexed fields, null for a
  missing field.  A unique index covers all documents; a sparse one those with at least one
  indexed field present and non-null on the write path (the code's reading, see the known finding
  `sparse-null`); a partial one those matching its filter expression.  `UniqInv`: no two covered
  documents have equal keys.

  The theorems are stated on the domain where an indexed path runs through sub-documents only
  and ends in a scalar (or is missing): arrays (multikey, known finding `multikey`) and paths
  that dead-end in a scalar (known finding `deadend-null`) are excluded by `ScalarKeys`.
-/
import Spec.StoreInv

namespace MongoModel.Spec
open MongoModel

/-- the path runs through sub-documents only and ends in a scalar, or is missing at a
    sub-document -/
def scalarPath : List String → Val → Bool
  | [], v => isScalar v
  | p :: ps, .doc fs =>
    (match dget p fs with
     | some v => scalarPath ps v
     | none => true)
  | _ :: _, _ => false

def scalarKeys (ix : Index) (d : Val) : Bool :=
  ix.keys.all (fun k => keyOk k.1 && !k.1.startsWith "$" && k.1 != "" && scalarPath (splitDots k.1) d)

/-- the index key of a document -/
def keyVals (ix : Index) (d : Val) : List Val :=
  ix.keys.map (fun k => match getByDot d k.1 with
    | .ok v => v
    | .error _ => .null)

def keyEq (a b : List Val) : Bool :=
  a.length == b.length && (a.zip b).all (fun p => pyEq p.1 p.2)

def isNull : Val → Bool
  | .null => true
  | _ => false

/-- the index covers the document -/
def covers (ix : Index) (d : Val) : Bool :=
  !(ix.sparse && (keyVals ix d).all isNull) &&
  (match ix.partialFilter with
   | none => true
   | some f => (match filterApplies f d with
     | .ok b => b
     | .error _ => false))

/-- field names of the index are pairwise distinct -/
def distinctFields (ix : Index) : Bool := (ix.keys.map (·.1)).eraseDups.length == ix.keys.length

/-- every unique index of the collection is over scalar keys of all its documents -/
def ScalarInv (c : Coll) : Prop :=
  ∀ ix ∈ c.indexes, ix.unique = true → distinctFields ix = true ∧ ∀ p ∈ c.docs, scalarKeys ix p.2 = true

/-- C06's invariant -/
def UniqInv (c : Coll) : Prop :=
  ∀ ix ∈ c.indexes, ix.unique = true →
    (c.docs.filter (fun p => covers ix p.2)).Pairwise
      (fun a b => keyEq (keyVals ix a.2) (keyVals ix b.2) = false)

/-! ### the domain of the step theorem (`Props.C06.step_uniq_inv_partial`)

`_apply_update` skips `_ensure_uniques` when the edited document is Python-`==` to the one it
replaces ("not modified": a change of numeric type `1 → 1.0 → True`, of key order, …) but stores
the edited document all the same.  Three hypotheses keep that branch harmless; each names what it
excludes. -/

/-- `KeysDistinct` in both orientations.  Excludes: two store entries whose keys are `==` in
    either direction (`==` as modelled is not symmetric on association lists with repeated
    names, which no Python dict can be).  Follows from `KeysDistinct c` when every store key is
    `SymmVal` (`Proofs.C06Lemmas.keysDistinctSym_of`), e.g. for scalar `_id`s. -/
def KeysDistinctSym (c : Coll) : Prop :=
  c.docs.Pairwise (fun a b => pyEq a.1 b.1 = false ∧ pyEq b.1 a.1 = false)

/-- every stored document is hereditarily well-formed (`wfVal`: no repeated field name at any
    depth — what every value built from Python dicts and lists satisfies).  Excludes: a written
    value such as `{x: 1, x: 1}`, which is `==` to `{x: 1, y: 2}` in the model. -/
def WfDocs (c : Coll) : Prop := ∀ p ∈ c.docs, wfVal p.2 = true

/-- the partial filter of every unique index does not tell a well-formed document from one it is
    `==` to.  Excludes the known finding `unchanged-branch-skips-check`: with
    `partialFilterExpression: {t: {$type: "double"}}`, `{$set: {t: 1.0}}` on `t: 1` moves a
    document into the index without any uniqueness check.  Holds trivially when no unique index
    is partial. -/
def PfStable (c : Coll) : Prop :=
  ∀ ix ∈ c.indexes, ix.unique = true → ∀ f, ix.partialFilter = some f →
    ∀ d d', wfVal d' = true → pyEq d' d = true →
      filterApplies f d' = .ok true → filterApplies f d = .ok true

end MongoModel.Spec
