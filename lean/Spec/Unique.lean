/-
  Spec.Unique — the uniqueness rule of C06 over the collection model.

  The index key of a document is the tuple of the values of the indexed fields, null for a
  missing field.  A unique index covers all documents; a sparse one those with at least one
  indexed field present and non-null on the write path (the code's reading, see the known finding
  `sparse-null`); a partial one those matching its filter expression.  `UniqInv`: no two covered
  documents have equal keys.

  The theorems are stated on the domain where an indexed path runs through sub-documents only
  and ends in a value that is not an array — a scalar, or an embedded document, whatever its keys
  look like (`$`-prefixed ones included: the look-up compares values as data) — or is missing
  (also: runs into a scalar before its end).  Arrays at or along the path (multikey, known
  finding `multikey`) are excluded by `valueKeys`.
-/
import Spec.StoreInv

namespace MongoModel.Spec
open MongoModel

/-- a value an index key may hold in the domain: anything but an array, with the keys of every
    document in it pairwise distinct (`wfVal`: what every value built from Python dicts satisfies) -/
def isKeyable (v : Val) : Bool := !v.isArr && wfVal v

/-- the path runs through sub-documents only and ends in a keyable value, or is missing: at a
    sub-document that lacks the component, or because it runs into a scalar before its end -/
def valuePath : List String → Val → Bool
  | [], v => isKeyable v
  | p :: ps, .doc fs =>
    (match dget p fs with
     | some v => valuePath ps v
     | none => true)
  | _ :: _, .arr _ => false
  | _ :: _, _ => true

def valueKeys (ix : Index) (d : Val) : Bool :=
  ix.keys.all (fun k => keyOk k.1 && !k.1.startsWith "$" && k.1 != "" && valuePath (splitDots k.1) d)

/-- the index key of a document -/
def keyVals (ix : Index) (d : Val) : List Val :=
  ix.keys.map (fun k => match getByDot d k.1 with
    | .ok v => v
    | .error _ => .null)

def keyEq (a b : List Val) : Bool :=
  a.length == b.length && (a.zip b).all (fun p => pyEq p.1 p.2)

def isNull : Val → Bool
  | .null => true
  | _ => false

/-- the index covers the document -/
def covers (ix : Index) (d : Val) : Bool :=
  !(ix.sparse && (keyVals ix d).all isNull) &&
  (match ix.partialFilter with
   | none => true
   | some f => (match filterApplies f d with
     | .ok b => b
     | .error _ => false))

/-- field names of the index are pairwise distinct -/
def distinctFields (ix : Index) : Bool := (ix.keys.map (·.1)).eraseDups.length == ix.keys.length

/-- every unique index of the collection is over keyable values in all its documents -/
def ValueInv (c : Coll) : Prop :=
  ∀ ix ∈ c.indexes, ix.unique = true → distinctFields ix = true ∧ ∀ p ∈ c.docs, valueKeys ix p.2 = true

/-- C06's invariant -/
def UniqInv (c : Coll) : Prop :=
  ∀ ix ∈ c.indexes, ix.unique = true →
    (c.docs.filter (fun p => covers ix p.2)).Pairwise
      (fun a b => keyEq (keyVals ix a.2) (keyVals ix b.2) = false)

end MongoModel.Spec
