/-
  Spec.OrderDomain — the domain D of the C11 theorems as decidable predicates, written as lists
  of *reasons* a case lies outside it.  Each reason is a named exclusion class (no known finding
  is left among them: `emptyslice`, `objectid` and `arraykey` were repaired in the library and
  their classes removed):

    scope limits (nothing is claimed)
      genoid      a sort key reaches an ObjectId the library generated (number ≥ `oidFresh`):
                  its value, hence its place in the order, is not modelled
      dockey      a sort key reaches an embedded document (order of documents not in the oracle)
      nestedarray a sort key reaches an array inside an array (order of arrays not in the oracle)
      awaredate   a sort key reaches a timezone-aware datetime (stored datetimes are naive)
      badpath     a path the traversal model does not follow (empty component, negative index)
      dollarkey   a `$`-prefixed sort key other than a lone `$natural`
      negskip     a negative skip (MongoDB rejects it; Python slices from the end)
    (`negstage` — a negative `$skip` / `$limit` argument, which the code used to take as a Python
    slice — is gone: since fix 2ed0182 the code rejects it as MongoDB does, and `$limit: 0` too;
    `Spec.Order.runStages` says so)
      badlimit    count_documents with a limit that is not a positive number (both raise)
-/
import Spec.Order

namespace MongoModel.Spec.Order
open MongoModel

/-- why a value compared as a sort key is outside the domain -/
def valReasons : Val → List String
  | .arr _ => ["nestedarray"]
  | .oid n => if n < oidFresh then [] else ["genoid"]
  | .doc _ => ["dockey"]
  | .date _ (some _) => ["awaredate"]
  | _ => []

/-- …of one reached value: an array stands for its elements -/
def candReasons : Option Val → List String
  | none => []
  | some (.arr xs) => xs.flatMap valReasons
  | some v => valReasons v

/-- why the sort key of document `d` under `key` is outside the domain -/
def keyReasons (key : String) (d : Val) : List String :=
  match candsKey key d with
  | .error _ => ["badpath"]
  | .ok cs => cs.flatMap candReasons

def specReasons (spec : SortSpec) (docs : List Val) : List String :=
  spec.flatMap (fun kd =>
    if startsWithDollar kd.1 then ["dollarkey"] else docs.flatMap (keyReasons kd.1))

def sortReasons (sort : Option SortSpec) (docs : List Val) : List String :=
  match sort with
  | none => []
  | some spec =>
    match loneNatural spec with
    | some _ => []
    | none => specReasons spec docs

/-- D for the sort theorems -/
def sortD (sort : Option SortSpec) (docs : List Val) : Bool := (sortReasons sort docs).isEmpty

def windowReasons (s : Settings) : List String :=
  if s.skip < 0 then ["negskip"] else []

/-- reasons of a whole `find` case: the settings the calls end with, and the documents -/
def findReasons (s0 : Settings) (ops : List CurOp) (docs : List Val) : List String :=
  match s0.run ops with
  | none => []
  | some s => sortReasons s.sort docs ++ windowReasons s

def stageReasons (docs : List Val) : Stage → List String
  | .sort spec => specReasons spec docs
  | .skip _ => []           -- (a negative count is rejected by the rules and by the code)
  | .limit _ => []

def pipelineReasons (stages : List Stage) (docs : List Val) : List String :=
  stages.flatMap (stageReasons docs)

def countReasons (skip : Int) (limit : CountLimit) : List String :=
  (if skip < 0 then ["negskip"] else []) ++
  (match limit with
   | .absent => []
   | .notNumber => ["badlimit"]
   | .num l => if l ≤ 0 then ["badlimit"] else [])

end MongoModel.Spec.Order
