/-
  Spec.Expr — the rules of C04 (what MongoDB defines for an aggregation expression), written
  from the property text, independently of MongoModel.Expr.

  * a field path reaches a value by descending through sub-documents; a path that does not is
    *missing* (`none`); through an array it collects the field from each sub-document element;
  * `$$ROOT` / `$$CURRENT` are the document, `$$REMOVE` is missing, user variables are those bound
    by `$let` / `$map` / `$filter` (innermost binding wins);
  * `$literal` returns its argument unevaluated; an array literal evaluates its elements
    (missing → null), a document literal evaluates its fields (missing → field omitted);
  * arithmetic: a null or missing operand makes the result null; ints stay ints, a double operand
    makes the result double; `$divide` is double; `$mod`/`$pow` of ints are ints;
    `$ceil/$floor/$trunc` keep the operand's type; booleans are not numbers;
  * comparisons follow the total cross-type BSON order
    missing < null < numbers < strings < documents < arrays < ObjectIds < booleans < dates;
  * `toBool v ↔ v ∉ {false, null, 0}` and missing is false; `$and/$or/$not` over `toBool`;
  * `$cond` picks a branch by `toBool`; `$ifNull` returns the first operand that is neither null
    nor missing; `$switch` the `then` of the first true `case`, else `default`;
  * `$let/$map/$filter` bind variables for the evaluation of `in` / `cond`;
  * `$sum $avg $min $max` as expression operators range over the values of their operand list —
    or, given one operand that is not written as a list, over the elements of its value when that
    is an array, else over that one value: `$sum` adds the numbers (anything else, booleans
    included, is ignored; no number: 0), `$avg` is their mean, a double (no number: null),
    `$min` / `$max` is the first least / greatest, in the BSON order, of the values that are
    neither null nor missing (none: null).  An array among several operands is one value.

  Shares with the model only the value type, the association-list helpers and the exact
  int / dyadic-double arithmetic of MongoModel.ExprOps (`PyNum`, `mkF`, `pyDivide`, civil dates).
  Operators the rules above do not cover answer `unmodelled`: there is no oracle there.
  Trusted: this file *is* the statement of "what MongoDB does" (no server is available offline).
-/
import MongoModel.ExprOps
import Spec.Match

namespace MongoModel.Spec
open MongoModel MongoModel.Expr

/-! ### truthiness, order -/

/-- `toBool v ↔ v ∉ {false, null, 0}`; a missing value is false -/
def toBool : Option Val → Bool
  | none => false
  | some .null => false
  | some (.bool b) => b
  | some (.int i) => i != 0
  | some (.dbl m _) => m != 0
  | some _ => true

/-- position of a value's type in the BSON comparison order (missing = 0) -/
def rank : Val → Nat
  | .null => 1
  | .int _ | .dbl _ _ => 2
  | .str _ => 3
  | .doc _ => 4
  | .arr _ => 5
  | .oid _ => 6
  | .bool _ => 7
  | .date _ _ => 8

def numOrd (x y : Num) : Ordering := if Num.lt x y then .lt else if Num.eq x y then .eq else .gt

mutual
  /-- the total BSON order on values -/
  def ord : Val → Val → Ordering
    | .doc fs, .doc gs => ordFields fs gs
    | .arr xs, .arr ys => ordList xs ys
    | .null, .null => .eq
    | .int i, .int j => numOrd ⟨i, 0⟩ ⟨j, 0⟩
    | .int i, .dbl m e => numOrd ⟨i, 0⟩ ⟨m, e⟩
    | .dbl m e, .int j => numOrd ⟨m, e⟩ ⟨j, 0⟩
    | .dbl m e, .dbl m' e' => numOrd ⟨m, e⟩ ⟨m', e'⟩
    | .str a, .str b => compare a b
    | .oid a, .oid b => compare a b
    | .bool a, .bool b => compare a.toNat b.toNat
    | .date u o, .date u' o' => compare (dateUtc u o) (dateUtc u' o')
    | a, b => compare (rank a) (rank b)
  /-- documents: field by field — type of the value, then the name, then the value -/
  def ordFields : Fields → Fields → Ordering
    | [], [] => .eq
    | [], _ :: _ => .lt
    | _ :: _, [] => .gt
    | (k, v) :: r, (k', v') :: r' =>
      if rank v ≠ rank v' then compare (rank v) (rank v')
      else if k ≠ k' then compare k k'
      else match ord v v' with
        | .eq => ordFields r r'
        | o => o
  def ordList : List Val → List Val → Ordering
    | [], [] => .eq
    | [], _ :: _ => .lt
    | _ :: _, [] => .gt
    | x :: xs, y :: ys =>
      match ord x y with
      | .eq => ordList xs ys
      | o => o
end

/-- missing sorts below everything, null included -/
def ordOpt : Option Val → Option Val → Ordering
  | none, none => .eq
  | none, some _ => .lt
  | some _, none => .gt
  | some a, some b => ord a b

def cmpHoldsOrd (op : String) (o : Ordering) : R Val :=
  if op = "$eq" then .ok (.bool (o == .eq))
  else if op = "$ne" then .ok (.bool (o != .eq))
  else if op = "$gt" then .ok (.bool (o == .gt))
  else if op = "$gte" then .ok (.bool (o != .lt))
  else if op = "$lt" then .ok (.bool (o == .lt))
  else if op = "$lte" then .ok (.bool (o != .gt))
  else if op = "$cmp" then .ok (.int (match o with | .lt => -1 | .eq => 0 | .gt => 1))
  else .error .opFail

/-! ### paths and variables -/

/-- the value a dotted path reaches; through an array, the list of what it reaches in each
    sub-document element (other elements are skipped) -/
def path : List String → Val → R (Option Val)
  | [], v => .ok (some v)
  | p :: ps, .doc fs =>
    match dget p fs with
    | some v => path ps v
    | none => .ok none
  | p :: ps, .arr xs => do
    let rs ← xs.mapM (fun x =>
      match x with
      | .doc gs => (match dget p gs with
        | some v => path ps v
        | none => .ok none)
      | .arr _ => unmodelled                  -- arrays nested in arrays: not covered by the rules
      | _ => .ok none)
    pure (some (.arr (rs.filterMap id)))
  | _ :: _, _ => .ok none

def isLower (c : Char) : Bool := 'a' ≤ c && c ≤ 'z'
def isUpper (c : Char) : Bool := 'A' ≤ c && c ≤ 'Z'
def isDigitC (c : Char) : Bool := '0' ≤ c && c ≤ '9'
def nonAscii (c : Char) : Bool := c.toNat ≥ 128

/-- a user variable name: a lower-case ASCII letter (or a character outside ASCII) followed by
    ASCII letters, digits and underscores (or characters outside ASCII) -/
def userVarName (s : String) : Bool :=
  match s.toList with
  | c :: r => (isLower c || nonAscii c) &&
      r.all (fun x => isLower x || isUpper x || isDigitC x || x == '_' || nonAscii x)
  | [] => false

/-- variable bindings, innermost first; a variable may be bound to a missing value -/
abbrev Env := List (String × Option Val)

/-- `$$name.rest` under the bindings `env` (innermost first) for document `root` -/
def varLookup (env : Env) (root : Val) (parts : List String) : R (Option Val) :=
  match parts with
  | [] => .error .opFail
  | name :: rest =>
    match env.lookup name with
    | some (some v) => path rest v
    | some none => .ok none                                 -- bound to a missing value
    | none =>
      if name = "ROOT" || name = "CURRENT" then path rest root
      else if name = "REMOVE" then .ok none
      else if userVarName name then .error .opFail          -- use of an undefined variable
      else unmodelled                                       -- $$NOW, $$CLUSTER_TIME, …

/-! ### arithmetic on evaluated operands -/

/-- a number in the sense of the rules: int or double, *not* boolean -/
def number : Val → Option PyNum
  | .int n => some (.i n)
  | .dbl m e => some (.f m e)
  | _ => none

def nullish : Option Val → Bool
  | none | some .null => true
  | _ => false

def numbers : List (Option Val) → Option (List PyNum)
  | [] => some []
  | some v :: r => match number v, numbers r with
    | some n, some ns => some (n :: ns)
    | _, _ => none
  | none :: _ => none

def isDate : Option Val → Bool
  | some (.date _ none) => true
  | _ => false

def dates : List (Option Val) → List Int
  | [] => []
  | some (.date u none) :: r => u :: dates r
  | _ :: r => dates r

def sumAll : List PyNum → PyNum → R PyNum
  | [], acc => .ok acc
  | n :: r, acc => do let a ← (acc.add n).check; sumAll r a

def mulAll : List PyNum → PyNum → R PyNum
  | [], acc => .ok acc
  | n :: r, acc => match acc.mul n with
    | none => unmodelled
    | some a => do let a ← a.check; mulAll r a

/-- `$add` / `$multiply` -/
def arithN (op : String) (vs : List (Option Val)) : R Val :=
  if vs.isEmpty then unmodelled          -- the rules do not say what an empty sum / product is
  else if vs.any nullish then
    -- null propagates; which of "null" and "type error" wins when both occur is not fixed by the rules
    (if (vs.filter (fun v => !nullish v)).all (fun v => (v.bind number).isSome) then .ok .null
     else unmodelled)
  else match numbers vs with
    | some ns =>
      if op = "$add" then do (← sumAll ns (.i 0)).toVal
      else match vs, ns with
        | [some v], _ => .ok v                    -- the product of one number is that number
        | _, n :: r => do (← mulAll r n).toVal
        | _, [] => unmodelled
    | none =>
      -- `$add` of one date and numbers: the date moved by that many milliseconds
      if op != "$add" then .error .opFail
      else match dates vs, numbers (vs.filter (fun v => !isDate v)) with
        | [u], some ns => do
          match ← sumAll ns (.i 0) with
          | .i n => mkDate (u + n * 1000)
          | .f m e =>
            if (m * 1000) % pow2 e == 0 then mkDate (u + m * 1000 / pow2 e)
            else unmodelled
        | _, _ => .error .opFail

def intRes (f : Int → Int → Int) (x y : PyNum) (dflt : R Val) : R Val :=
  match x, y with
  | .i a, .i b => .ok (.int (f a b))
  | _, _ => dflt

/-- `date − y`: another date gives milliseconds, a number moves the date by milliseconds -/
def dateMinus (u : Int) (y : Val) : R Val :=
  match y with
  | .date u' none => if (u - u') % 1000 == 0 then .ok (.int ((u - u') / 1000)) else unmodelled
  | .int n => mkDate (u - n * 1000)
  | .dbl m e =>
    if (m * 1000) % pow2 e == 0 then mkDate (u - m * 1000 / pow2 e) else unmodelled
  | _ => .error .opFail

/-- a binary operator on two numbers -/
def numOp (op : String) (p q : PyNum) : R Val :=
  if op = "$subtract" then (p.sub q).toVal
  else if op = "$divide" then (if q.isZero then .error .opFail else pyTrueDiv p q)
  else if op = "$mod" then
    (if q.isZero then .error .opFail else intRes Int.tmod p q (pyFmod p q))
  else if op = "$pow" then
    (match p, q with
     | .i a, .i b => if b ≥ 0 && b ≤ 64 then
         (if (a ^ b.toNat).natAbs < 2 ^ 63 then .ok (.int (a ^ b.toNat)) else unmodelled)
       else unmodelled
     | _, _ => pyPow p q)
  else unmodelled

/-- the binary operators -/
def arith2 (op : String) (a b : Option Val) : R Val :=
  if nullish a || nullish b then
    (if [a, b].all (fun v => nullish v || (v.bind number).isSome ||
          (match v with | some (.date _ _) => op = "$subtract" | _ => false))
     then .ok .null else unmodelled)
  else match a, b with
    | some (.date u none), some y =>
      if op = "$subtract" then dateMinus u y else .error .opFail
    | some x, some y =>
      match number x, number y with
      | some p, some q => numOp op p q
      | _, _ => .error .opFail
    | _, _ => .error .opFail

/-- `$abs $ceil $floor $trunc`: the result keeps the operand's type -/
def arith1 (op : String) (a : Option Val) : R Val :=
  if nullish a then .ok .null
  else match a with
    | some (.int n) => if op = "$abs" then .ok (.int (Int.ofNat n.natAbs)) else .ok (.int n)
    | some (.dbl m e) =>
      if op = "$abs" then mkF (Int.ofNat m.natAbs) e
      else if op = "$ceil" then mkF (ceilDy m e) 0
      else if op = "$floor" then mkF (floorDy m e) 0
      else if op = "$trunc" then mkF (if m ≥ 0 then floorDy m e else ceilDy m e) 0
      else unmodelled
    | _ => .error .opFail

/-! ### strings, arrays, dates on evaluated operands -/

def strings : List (Option Val) → Option (List String)
  | [] => some []
  | some (.str s) :: r => (strings r).map (s :: ·)
  | _ :: _ => none

def concatS (vs : List (Option Val)) : R Val :=
  if vs.any nullish then
    (if vs.all (fun v => nullish v || (match v with | some (.str _) => true | _ => false))
     then .ok .null else unmodelled)        -- null and a type error: the rules do not fix which wins
  else match strings vs with
    | some ss => .ok (.str (String.join ss))
    | none => .error .opFail

def caseS (upper : Bool) (a : Option Val) : R Val :=
  if nullish a then .ok (.str "")
  else match a with
    | some (.str s) => do pure (.str (← if upper then asciiUpper s else asciiLower s))
    | _ => unmodelled

/-- `$strcasecmp`: case-insensitive comparison (ASCII) -/
def strcasecmpS (a b : Option Val) : R Val :=
  let str (v : Option Val) : R String :=
    if nullish v then .ok "" else match v with | some (.str s) => asciiUpper s | _ => unmodelled
  do
    let x ← str a
    let y ← str b
    pure (.int (match compare x y with | .lt => -1 | .eq => 0 | .gt => 1))

def arrays : List (Option Val) → Option (List (List Val))
  | [] => some []
  | some (.arr xs) :: r => (arrays r).map (xs :: ·)
  | _ :: _ => none

def concatArraysS (vs : List (Option Val)) : R Val :=
  if vs.any nullish then
    (if vs.all (fun v => nullish v || (match v with | some (.arr _) => true | _ => false))
     then .ok .null else unmodelled)
  else match arrays vs with
    | some xss => .ok (.arr xss.flatten)
    | none => .error .opFail

/-- `$arrayElemAt`: negative indexes count from the end; out of range is missing -/
def elemAt (a i : Option Val) : R (Option Val) :=
  if nullish a || nullish i then .ok (some .null)
  else match a, i with
    | some (.arr xs), some (.int n) =>
      if n ≥ 0 then .ok xs[n.toNat]?
      else if (xs.length : Int) + n ≥ 0 then .ok xs[((xs.length : Int) + n).toNat]? else .ok none
    | some (.arr _), some (.dbl _ _) => unmodelled
    | _, _ => .error .opFail

def datePartS (op : String) (a : Option Val) : R Val :=
  if nullish a then .ok .null
  else match a with
    | some (.date u none) => datePart op u
    | some (.date _ (some _)) => unmodelled
    | _ => .error .opFail

def toStringS (a : Option Val) : R Val :=
  if nullish a then .ok .null
  else match a with
    | some (.bool b) => .ok (.str (if b then "true" else "false"))
    | some (.int n) => .ok (.str (toString n))
    | some (.str s) => .ok (.str s)
    | some (.date u none) => .ok (.str (isoZ u))     -- UTC, `YYYY-MM-DDTHH:MM:SS.mmmZ`
    | _ => unmodelled

/-! ### `$dateFromParts` on its evaluated named arguments

  The rule (server manual, `$dateFromParts`; calendar form, UTC): the argument is a document of
  named parts; `year` is required, an integer in 1 … 9999; `month` and `day` default to 1,
  `hour minute second millisecond` to 0; a part that is null or missing makes the result null; a
  part outside its calendar range is *carried* into the next larger unit (month 14 is February of
  the next year, day 0 the last day of the month before, second 60 the next minute, millisecond −1
  the second before).  Left outside (no answer): the ISO-week form and `timezone`, names that are
  no parts (the server rejects them), parts that are doubles or booleans, `month day hour minute`
  beyond ±32767, a null part next to a part of a wrong type (which of the two the server reports
  first is not stated here), and a result outside the years 1 … 9999. -/

def partKeys : List String := ["year", "month", "day", "hour", "minute", "second", "millisecond"]
def isoPartKeys : List String := ["isoWeekYear", "isoWeek", "isoDayOfWeek", "timezone"]

inductive PartArg where
  | absent | nullish | num (n : Int) | bad | outside
  deriving Repr, DecidableEq, Inhabited

def partArg (key : String) (args : Env) : PartArg :=
  match args.lookup key with
  | none => .absent
  | some none | some (some .null) => .nullish
  | some (some (.int n)) => .num n
  | some (some (.dbl _ _)) | some (some (.bool _)) => .outside
  | some (some _) => .bad

def PartArg.getD (dflt : Int) : PartArg → Int
  | .num n => n
  | _ => dflt

/-- the instant of (year, month, day, hour, minute, second, millisecond) with every part but the
    year carried: the first of the month that lies `month − 1` months after January of `y`, then
    `day − 1` days, and the time of day added up; µs since the epoch -/
def carryUs (y mo d h mi s ms : Int) : Int :=
  (daysFromCivil (y + (mo - 1) / 12) ((mo - 1) % 12 + 1) 1 + (d - 1)) * usPerDay
    + h * 3600000000 + mi * 60000000 + s * 1000000 + ms * 1000

def smallPart (n : Int) : Bool := decide (-32768 ≤ n) && decide (n ≤ 32767)

def dateFromPartsS (args : Env) : R Val :=
  if args.any (fun kv => !((partKeys ++ isoPartKeys).contains kv.1)) then unmodelled
  else if args.any (fun kv => isoPartKeys.contains kv.1) then unmodelled
  else
    let ps := partKeys.map (fun k => partArg k args)
    if partArg "year" args = .absent then .error .opFail
    else if ps.any (· = .outside) then unmodelled
    else if ps.any (· = .bad) && ps.any (· = .nullish) then unmodelled
    else if ps.any (· = .bad) then .error .opFail
    else if ps.any (· = .nullish) then .ok .null
    else
      let y := (partArg "year" args).getD 1970
      let mo := (partArg "month" args).getD 1
      let d := (partArg "day" args).getD 1
      let h := (partArg "hour" args).getD 0
      let mi := (partArg "minute" args).getD 0
      let s := (partArg "second" args).getD 0
      let ms := (partArg "millisecond" args).getD 0
      if y < 1 || y > 9999 then .error .opFail
      else if !(smallPart mo && smallPart d && smallPart h && smallPart mi) then unmodelled
      else mkDate (carryUs y mo d h mi s ms)

/-! ### `$sum $avg $min $max` on evaluated operands -/

def accOps : List String := ["$sum", "$avg", "$min", "$max"]

/-- the numbers among the operand values: null, missing, booleans and every other type are
    ignored -/
def numbersOf : List (Option Val) → List PyNum
  | [] => []
  | v :: r => match v.bind number with | some n => n :: numbersOf r | none => numbersOf r

/-- the operand values that are neither null nor missing -/
def presentOf (vs : List (Option Val)) : List Val :=
  vs.filterMap (fun v => if nullish v then none else v)

/-- the first greatest (`isMax`) / least element of `best :: vs` in the BSON order: a later value
    replaces the best one so far only when it is strictly greater / less -/
def extremumS (isMax : Bool) : List Val → Val → Val
  | [], best => best
  | v :: r, best =>
    extremumS isMax r (if (if isMax then ord best v == .lt else ord v best == .lt) then v else best)

/-- `$sum $avg $min $max` over the operand values -/
def accS (k : String) (vs : List (Option Val)) : R Val :=
  if k = "$sum" then do (← sumAll (numbersOf vs) (.i 0)).toVal
  else if k = "$avg" then
    (if (numbersOf vs).isEmpty then .ok .null
     else do pyTrueDiv (← sumAll (numbersOf vs) (.i 0)) (.f (numbersOf vs).length 0))
  else if k = "$min" || k = "$max" then
    (match presentOf vs with
     | [] => .ok .null
     | y :: r => .ok (extremumS (k = "$max") r y))
  else .error .opFail

/-- one operand that is not written as a list: an array value stands for the list of its
    elements, any other value (null and missing included) for itself -/
def accBareS (k : String) (a : Option Val) : R Val :=
  match a with
  | some (.arr xs) => accS k (xs.map some)
  | a => accS k [a]

/-! ### operators whose operands are all evaluated first -/

def strictOps : List String :=
  ["$add", "$multiply", "$subtract", "$divide", "$mod", "$pow", "$abs", "$ceil", "$floor",
   "$trunc", "$eq", "$ne", "$gt", "$gte", "$lt", "$lte", "$cmp", "$not", "$concat", "$toLower",
   "$toUpper", "$strcasecmp", "$size", "$concatArrays", "$arrayElemAt", "$in", "$isArray",
   "$isNumber", "$toString"] ++ datePartOps ++ accOps

def lazyOps : List String :=
  ["$literal", "$and", "$or", "$cond", "$ifNull", "$switch", "$let", "$map", "$filter"]

/-- a strict operator on its evaluated operands (`none` = missing) -/
def applyStrict (k : String) (vs : List (Option Val)) : R (Option Val) :=
  if k = "$add" || k = "$multiply" then (arithN k vs).map some
  else if ["$subtract", "$divide", "$mod", "$pow"].contains k then
    (match vs with | [a, b] => (arith2 k a b).map some | _ => .error .opFail)
  else if ["$abs", "$ceil", "$floor", "$trunc"].contains k then
    (match vs with | [a] => (arith1 k a).map some | _ => .error .opFail)
  else if ["$eq", "$ne", "$gt", "$gte", "$lt", "$lte", "$cmp"].contains k then
    (match vs with | [a, b] => (cmpHoldsOrd k (ordOpt a b)).map some | _ => .error .opFail)
  else if k = "$not" then
    (match vs with | [a] => .ok (some (.bool (!toBool a))) | _ => .error .opFail)
  else if k = "$concat" then (concatS vs).map some
  else if k = "$toLower" || k = "$toUpper" then
    (match vs with | [a] => (caseS (k = "$toUpper") a).map some | _ => .error .opFail)
  else if k = "$strcasecmp" then
    (match vs with | [a, b] => (strcasecmpS a b).map some | _ => .error .opFail)
  else if k = "$size" then
    (match vs with
     | [some (.arr xs)] => .ok (some (.int xs.length))
     | _ => .error .opFail)
  else if k = "$concatArrays" then (concatArraysS vs).map some
  else if k = "$arrayElemAt" then
    (match vs with | [a, i] => elemAt a i | _ => .error .opFail)
  else if k = "$in" then
    (match vs with
     | [some x, some (.arr xs)] => .ok (some (.bool (xs.any (fun y => ord x y == .eq))))
     | [none, some (.arr _)] => unmodelled
     | _ => .error .opFail)
  else if k = "$isArray" then
    (match vs with
     | [some (.arr _)] => .ok (some (.bool true))
     | [_] => .ok (some (.bool false))
     | _ => .error .opFail)
  else if k = "$isNumber" then
    (match vs with
     | [some (.int _)] | [some (.dbl _ _)] => .ok (some (.bool true))
     | [_] => .ok (some (.bool false))
     | _ => .error .opFail)
  else if k = "$toString" then
    (match vs with | [a] => (toStringS a).map some | _ => .error .opFail)
  else if datePartOps.contains k then
    (match vs with | [a] => (datePartS k a).map some | _ => .error .opFail)
  else if accOps.contains k then (accS k vs).map some
  else unmodelled

/-- `$switch` branches are well formed: documents with `case` and `then` -/
def branchesWf (bs : List Val) : Bool :=
  !bs.isEmpty && bs.all (fun b => match b with | .doc f => dhas "case" f && dhas "then" f | _ => false)

def hasDollarKey' (fs : Fields) : Bool := fs.any (fun kv => startsDollar kv.1)

/-- `$map` / `$filter` over the items of the input array, `f` being the body under the binding -/
def overItems (f : Val → R (Option Val)) : List Val → R (List (Val × Option Val))
  | [] => .ok []
  | x :: r => do let y ← f x; let ys ← overItems f r; pure ((x, y) :: ys)

def asVar (gs : Fields) : R String :=
  match dget "as" gs with
  | none => .ok "this"
  | some (.str s) =>
    if s = "CURRENT" then unmodelled else if userVarName s then .ok s else .error .opFail
  | some _ => .error .opFail

mutual
  /-- the value of expression `e` on document `root` under the bindings `env` -/
  def sEval (root : Val) (env : Env) : Val → R (Option Val)
    | .str s =>
      match strKind s with
      | .var r => varLookup env root (splitDotsChars r [])
      | .field r => path (splitDotsChars r []) root
      | .lit => .ok (some (.str s))
    | .arr xs => do                                  -- array literal: missing elements are null
      let vs ← sList root env xs
      pure (some (.arr (vs.map (·.getD .null))))
    | .doc fs => if hasDollarKey' fs then sOperator root env fs else sFields root env fs
    | v => .ok (some v)
  termination_by structural x => x

  /-- a document literal: missing fields are omitted -/
  def sFields (root : Val) (env : Env) : Fields → R (Option Val)
    | [] => .ok (some (.doc []))
    | (k, v) :: r => do
      let x ← sEval root env v
      match ← sFields root env r with
      | some (.doc fs) =>
        pure (some (.doc (match x with | some y => (k, y) :: fs | none => fs)))
      | _ => .error .opFail
  termination_by structural x => x

  def sList (root : Val) (env : Env) : List Val → R (List (Option Val))
    | [] => .ok []
    | x :: r => do let v ← sEval root env x; let vs ← sList root env r; pure (v :: vs)
  termination_by structural x => x

  /-- `{$op: argument}`: exactly one field, the operator -/
  def sOperator (root : Val) (env : Env) : Fields → R (Option Val)
    | [(k, .arr xs)] =>
      if k = "$literal" then .ok (some (.arr xs))
      else if strictOps.contains k then do applyStrict k (← sList root env xs)
      else if k = "$and" then do pure (some (.bool (← sAnd root env xs)))
      else if k = "$or" then do pure (some (.bool (← sOr root env xs)))
      else if k = "$cond" then sCond3 root env xs
      else if k = "$ifNull" then (if xs.length < 2 then .error .opFail else sIfNull root env xs)
      else if lazyOps.contains k then .error .opFail          -- $let/$map/$filter/$switch need a document
      else unmodelled
    | [(k, .doc gs)] =>
      if k = "$literal" then .ok (some (.doc gs))
      else if k = "$let" then
        match dget "vars" gs, dhas "in" gs with
        | some (.doc vs), true =>
          if gs.length ≠ 2 then .error .opFail
          else if vs.any (fun kv => kv.1 = "CURRENT") then unmodelled   -- rebinding `$$CURRENT`
          else if !(vs.all (fun kv => userVarName kv.1)) then .error .opFail
          else do
            let bs ← sVarsAt root env gs
            sAt root (bs.reverse ++ env) "in" gs
        | _, _ => .error .opFail
      else if k = "$map" then
        if !(dhas "input" gs && dhas "in" gs) || gs.any (fun kv => !(["input", "as", "in"].contains kv.1))
        then .error .opFail
        else do
          let name ← asVar gs
          match ← sAt root env "input" gs with
          | none | some .null => pure (some .null)
          | some (.arr items) =>
            let rs ← overItems (fun item => sAt root ((name, some item) :: env) "in" gs) items
            pure (some (.arr (rs.map (fun r => r.2.getD .null))))
          | some _ => .error .opFail
      else if k = "$filter" then
        if !(dhas "input" gs && dhas "cond" gs) || gs.any (fun kv => !(["input", "as", "cond"].contains kv.1))
        then .error .opFail
        else do
          let name ← asVar gs
          match ← sAt root env "input" gs with
          | none | some .null => pure (some .null)
          | some (.arr items) =>
            let rs ← overItems (fun item => sAt root ((name, some item) :: env) "cond" gs) items
            pure (some (.arr ((rs.filter (fun r => toBool r.2)).map (·.1))))
          | some _ => .error .opFail
      else if k = "$cond" then
        if !(dhas "if" gs && dhas "then" gs && dhas "else" gs) || gs.length ≠ 3 then .error .opFail
        else do
          if toBool (← sAt root env "if" gs) then sAt root env "then" gs else sAt root env "else" gs
      else if k = "$switch" then
        match dget "branches" gs with
        | some (.arr bs) =>
          if !branchesWf bs then .error .opFail
          else do
            match ← sBranchesAt root env gs with
            | some r => pure r
            | none => if dhas "default" gs then sAt root env "default" gs else .error .opFail
        | _ => .error .opFail
      else if accOps.contains k then do (accBareS k (← sEval root env (.doc gs))).map some
      else if strictOps.contains k then do applyStrict k [← sEval root env (.doc gs)]
      else if k = "$and" || k = "$or" then do
        pure (some (.bool (toBool (← sEval root env (.doc gs)))))
      else if k = "$ifNull" then .error .opFail
      else if k = "$dateFromParts" then do (dateFromPartsS (← sVars root env gs)).map some
      else unmodelled
    | [(k, v)] =>
      if k = "$literal" then .ok (some v)
      else if accOps.contains k then do (accBareS k (← sEval root env v)).map some
      else if strictOps.contains k then do applyStrict k [← sEval root env v]
      else if k = "$and" || k = "$or" then do pure (some (.bool (toBool (← sEval root env v))))
      else if lazyOps.contains k then .error .opFail
      else unmodelled
    | _ => .error .opFail                         -- several fields, one of them an operator
  termination_by structural x => x

  /-- `$and`: stops at the first false operand -/
  def sAnd (root : Val) (env : Env) : List Val → R Bool
    | [] => .ok true
    | x :: r => do if toBool (← sEval root env x) then sAnd root env r else pure false
  termination_by structural x => x

  /-- `$or`: stops at the first true operand -/
  def sOr (root : Val) (env : Env) : List Val → R Bool
    | [] => .ok false
    | x :: r => do if toBool (← sEval root env x) then pure true else sOr root env r
  termination_by structural x => x

  def sCond3 (root : Val) (env : Env) : List Val → R (Option Val)
    | [a, b, d] => do
      if toBool (← sEval root env a) then sEval root env b else sEval root env d
    | _ => .error .opFail
  termination_by structural x => x

  /-- the first operand that is neither null nor missing; the last one is the replacement -/
  def sIfNull (root : Val) (env : Env) : List Val → R (Option Val)
    | [] => .error .opFail
    | [f] => sEval root env f
    | x :: y :: r => do
      let v ← sEval root env x
      if nullish v then sIfNull root env (y :: r) else pure v
  termination_by structural x => x

  /-- the sub-expression under `key` of a named-argument document -/
  def sAt (root : Val) (env : Env) (key : String) : Fields → R (Option Val)
    | [] => .error .opFail
    | (k, v) :: r => if k = key then sEval root env v else sAt root env key r
  termination_by structural x => x

  /-- the bindings of `$let`, all evaluated under the outer bindings -/
  def sVarsAt (root : Val) (env : Env) : Fields → R Env
    | [] => .ok []
    | (k, .doc vs) :: r => if k = "vars" then sVars root env vs else sVarsAt root env r
    | (_, _) :: r => sVarsAt root env r
  termination_by structural x => x

  def sVars (root : Val) (env : Env) : Fields → R Env
    | [] => .ok []
    | (k, v) :: r => do
      let x ← sEval root env v
      let xs ← sVars root env r
      pure ((k, x) :: xs)
  termination_by structural x => x

  def sBranchesAt (root : Val) (env : Env) : Fields → R (Option (Option Val))
    | [] => .ok none
    | (k, .arr bs) :: r => if k = "branches" then sBranches root env bs else sBranchesAt root env r
    | (_, _) :: r => sBranchesAt root env r
  termination_by structural x => x

  /-- the `then` of the first branch whose `case` is true -/
  def sBranches (root : Val) (env : Env) : List Val → R (Option (Option Val))
    | [] => .ok none
    | .doc b :: r => do
      if toBool (← sAt root env "case" b) then do pure (some (← sAt root env "then" b))
      else sBranches root env r
    | _ :: _ => .error .opFail
  termination_by structural x => x
end

/-! ### the two observations of the property -/

/-- the value of `e` on `d` (`none` = missing: a computed field with this value is omitted) -/
def specEval (d e : Val) : R (Option Val) := sEval d [] e

/-- `find({$expr: e})` selects `d` iff `e` is truthy on `d` (missing is false) -/
def specFilter (e d : Val) : R Bool := (specEval d e).map toBool

end MongoModel.Spec
