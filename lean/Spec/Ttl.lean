/-
  Spec.Ttl — the expiry rule of C09, written from the property text:
  a document is expired at time `t` under a single-field TTL index of `N` seconds iff the
  indexed (top-level) field holds a date — the earliest date when it holds an array — and
  that date plus `N` seconds is not later than `t`.
-/
import Spec.StoreInv

namespace MongoModel.Spec
open MongoModel

def naiveDate? : Val → Option Int
  | .date us none => some us
  | _ => none

/-- the earliest date a field value holds -/
def earliestDate : Option Val → Option Int
  | some (.date us none) => some us
  | some (.arr xs) => (xs.filterMap naiveDate?).min?
  | _ => none

def isExpired (field : String) (secs now : Int) (d : Val) : Bool :=
  match d with
  | .doc fs =>
    (match earliestDate (dget field fs) with
     | some us => us + secs * 1000000 ≤ now
     | none => false)
  | _ => false

/-- data operations: everything that reads or writes documents -/
def dataOp (op : Val) : Bool :=
  match op with
  | .arr (.str k :: _) =>
    ["insert_one", "insert_many", "update_one", "update_many", "replace_one", "delete_one",
     "delete_many", "find", "count", "distinct"].contains k
  | _ => false

end MongoModel.Spec
