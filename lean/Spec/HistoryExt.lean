/-
  Spec.HistoryExt — histories over ALL modelled operations (the extended step `stepXS` of
  MongoModel/FindModify.lean: `find_one`, `find_one_and_update / _replace / _delete`,
  `bulk_write`, the bulk builder, and every operation of `stepColl`), and the collections such
  a history passes through.  Statement language of the extended invariant theorems of C05 / C06.
-/
import Spec.StoreInv
import MongoModel.FindModify

namespace MongoModel.Spec
open MongoModel

/-- run a history over all modelled operations, collecting `(output, observation)` after each
    step: `MongoModel.run` with `stepXS` in the place of `step` (this is what the correspondence
    harness drives, `Driver.runQ`) -/
def runX (cfg : Cfg) (ops : List Val) (s : St := {}) : List (Out × Val) × St :=
  ops.foldl (fun (acc : List (Out × Val) × St) op =>
    let (s1, out) := stepXS cfg acc.2 op
    let (s2, obs) := observe s1
    (acc.1 ++ [(out, obs)], s2)) ([], s)

/-- the requests and the `ordered` flag of a bulk operation; `none` for every other operation -/
def bulkReqs : Val → Option (List Val × Val)
  | .arr [.str "bulk_write", .arr reqs, ordered] => some (reqs, ordered)
  | .arr [.str "bulk_builder", .arr reqs, ordered, .int _] => some (reqs, ordered)
  | _ => none

/-- the collections a bulk operation passes through BETWEEN its requests: what the bulk made of
    the first `n` requests alone leaves, for every `n` (a bulk is executed request by request;
    an ordered bulk that stopped at a write error, or a bulk aborted by another exception, stays
    where it stopped).  Empty for an operation that is not a bulk. -/
def midColls (cfg : Cfg) (now : Int) (c : Coll) (op : Val) : List Coll :=
  match bulkReqs op with
  | some (reqs, ordered) =>
    (List.range (reqs.length + 1)).map (fun n =>
      (stepX cfg now c (.arr [.str "bulk_write", .arr (reqs.take n), ordered])).1)
  | none => []

/-- every collection a history passes through, from state `s`: the state before each operation,
    the collections between the requests of each bulk, and the final state (after every step the
    harness observes, as in `runX`) -/
def traceXFrom (cfg : Cfg) : List Val → St → List Coll
  | [], s => [s.c]
  | op :: ops, s =>
    s.c :: midColls cfg s.now s.c op ++ traceXFrom cfg ops (observe (stepXS cfg s op).1).1

/-- … from the empty collection -/
def traceX (cfg : Cfg) (ops : List Val) : List Coll := traceXFrom cfg ops {}

end MongoModel.Spec
