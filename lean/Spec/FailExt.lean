/-
  Spec.FailExt — the vocabulary of the C08 extension (find_one_and_*, bulk_write, update_many):
  what "a failed write leaves the collection as it was" means exactly, and which writes are
  all-or-nothing.
-/
import Spec.Single

namespace MongoModel.Spec
open MongoModel

/-- `c'` is `c` as a failed write may leave it: the very same collection, or the collection after
    the lazy expiry pass at the clock `now` (every entry point starts with that pass, which any
    read at that clock would have run as well) — in both cases up to the counter of generated
    ObjectIds (a rejected insert has consumed the id it generated).  Documents, their order, the
    index tables, the TTL table: all as before. -/
def Untouched (now : Int) (c c' : Coll) : Prop :=
  ∃ n, c' = { c with nextOid := n } ∨ ∃ c1, expire now c = .ok c1 ∧ c' = { c1 with nextOid := n }

/-- the all-or-nothing writes of `stepColl`: every write but `update_many` and `insert_many`
    (which fail at document granularity) -/
def atomicWrite (op : Val) : Bool :=
  match op with
  | .arr (.str k :: _) =>
    k == "insert_one" || k == "update_one" || k == "replace_one" || k == "delete_one" ||
    k == "delete_many"
  | _ => false

/-- the all-or-nothing requests of a bulk: every request but `UpdateMany` -/
def atomicRequest (req : Val) : Bool :=
  match req with
  | .arr (.str "UpdateMany" :: _) => false
  | _ => true

/-- the executor of a bulk request did not succeed (it raised a write error, collected by the
    bulk, or another exception, which aborts the bulk) -/
def requestFailed : BulkOut → Bool
  | .ok _ => false
  | _ => true

/-- the find_one_and_* operations of `stepX` -/
def famOp (op : Val) : Bool :=
  match op with
  | .arr [.str "find_one_and_update", _, _, _, _, _, _] => true
  | .arr [.str "find_one_and_replace", _, _, _, _, _, _] => true
  | .arr [.str "find_one_and_delete", _, _, _] => true
  | _ => false

/-- `return_document=AFTER` was requested -/
def famAfter (op : Val) : Bool :=
  match op with
  | .arr [.str "find_one_and_update", _, _, _, _, _, after] => boolOf after
  | .arr [.str "find_one_and_replace", _, _, _, _, _, after] => boolOf after
  | _ => false

/-- the projection argument of a find_one_and_* -/
def famProj (op : Val) : Val :=
  match op with
  | .arr [.str "find_one_and_update", _, _, p, _, _, _] => p
  | .arr [.str "find_one_and_replace", _, _, p, _, _, _] => p
  | .arr [.str "find_one_and_delete", _, p, _] => p
  | _ => .null

/-- the projection is acceptable in itself: applied to the empty document it does not raise.
    (What `_find_and_modify` checks before it writes; a projection that fails this test is refused
    whatever the documents are: a bad field list, an unsupported projection operator, inclusion
    mixed with exclusion, colliding paths.) -/
def projAcceptable (proj : Val) : Bool :=
  match copyOnlyFields (.doc []) proj with
  | .ok _ => true
  | .error _ => false

/-- the same operation with `return_document=BEFORE` -/
def famBefore (op : Val) : Val :=
  match op with
  | .arr [.str "find_one_and_update", f, u, p, s, up, _] =>
    .arr [.str "find_one_and_update", f, u, p, s, up, .bool false]
  | .arr [.str "find_one_and_replace", f, u, p, s, up, _] =>
    .arr [.str "find_one_and_replace", f, u, p, s, up, .bool false]
  | v => v

/-- what `update_many` does to one stored entry when it gets to it: an entry the filter does not
    select stays as it is; a selected one keeps its store key and carries the update -/
def Updated (spec document nowV : Val) (p p' : Val × Val) : Prop :=
  p'.1 = p.1 ∧
  ((filterApplies spec p.2 = .ok false ∧ p'.2 = p.2) ∨
   (filterApplies spec p.2 = .ok true ∧ applyUpdate spec document nowV false p.2 = .ok p'.2))

/-! ### the one-at-a-time reading of a batch, with its failures -/

/-- every operation succeeds when they are issued one at a time from `c` -/
def seqAllOk (cfg : Cfg) (now : Int) : List Val → Coll → Bool
  | [], _ => true
  | op :: ops, c =>
    !(stepColl cfg now c op).2.isErr && seqAllOk cfg now ops (stepColl cfg now c op).1

/-- the positions (counted from `i`) of the operations that raise when they are issued one at a
    time from `c`, each one on the collection its predecessors left -/
def seqFailures (cfg : Cfg) (now : Int) : List Val → Coll → Nat → List Nat
  | [], _, _ => []
  | op :: ops, c, i =>
    (if (stepColl cfg now c op).2.isErr then [i] else []) ++
      seqFailures cfg now ops (stepColl cfg now c op).1 (i + 1)

/-- the `index` of one entry of `writeErrors` -/
def errorIndex (entry : Val) : Val :=
  match entry with
  | .doc fs => (dget "index" fs).getD .null
  | _ => .null

/-- the positions listed in `BulkWriteError.details['writeErrors']` -/
def errorPositions (details : Val) : List Val :=
  match details with
  | .doc fs =>
    (match dget "writeErrors" fs with
     | some (.arr es) => es.map errorIndex
     | _ => [])
  | _ => []

end MongoModel.Spec
