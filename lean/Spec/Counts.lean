/-
  Spec.Counts — the selections and counts C10 relates.
  `selected now c f` = the documents the shared scan `_iter_documents` yields for filter `f` on
  the collection after the expiry pass: THE match relation every entry point is compared with.
-/
import Spec.StoreInv

namespace MongoModel.Spec
open MongoModel

/-- documents selected by `f` (already normalised) among `docs`, in natural order; `none` when
    the matcher raises on some document -/
def selectDocs (f : Val) : List (Val × Val) → R (List (Val × Val))
  | [] => .ok []
  | p :: rest => do
    let b ← filterApplies f p.2
    let more ← selectDocs f rest
    pure (if b then p :: more else more)

/-- store keys behave: `==` is symmetric and reflexive on them and documents are dicts carrying
    their `_id` (scalar, empty or single-field embedded `_id`s; see C05) -/
def GoodKeys (c : Coll) : Prop :=
  ∀ p ∈ c.docs, SymmVal p.1 ∧ pyEq p.1 p.1 = true

end MongoModel.Spec
