/-
  Spec.UpsertExt — the shapes C13's "the new document is matched by the same filter" clause is
  stated in: a filter made of plain equality conditions, an operator update, a replacement.
-/
import Spec.StoreInv
import Spec.UpdateSpec

namespace MongoModel.Spec
open MongoModel

/-- a filter made of plain equality conditions only: every key is a top-level field name (no
    dot, no leading `$`; the empty name is a field name like any other) and every value is a scalar
    (null, bool, number, string, datetime, ObjectId — not a sub-document, not an array) -/
def plainEqualities (ss : Fields) : Bool :=
  ss.all (fun kv => !kv.1.toList.contains '.' && !kv.1.startsWith "$" && isScalar kv.2)

/-- the equality conditions of a filter, as `_discard_operators` leaves them: operator conditions
    and `$`-keys are dropped, `{$eq: v}` gives `v`, operators inside an embedded value are removed -/
def equalities (ss : Fields) : Fields :=
  match (discardOps (.doc ss)).1 with
  | .doc fs => fs
  | _ => []

/-- an operator update: non-empty, every top-level key is an operator -/
def isOperatorUpdate (u : Fields) : Bool :=
  !u.isEmpty && u.all (fun kv => kv.1.startsWith "$")

/-- a replacement document: no top-level key is an operator (the empty document included) -/
def isReplacement (u : Fields) : Bool :=
  u.all (fun kv => !kv.1.startsWith "$")

/-- a filter whose keys are all top-level field names (no dot, no leading `$`); the conditions
    themselves may be anything (equalities, operator documents, sub-documents) -/
def plainKeys (ss : Fields) : Bool :=
  ss.all (fun kv => !kv.1.toList.contains '.' && !kv.1.startsWith "$")

/-- an update that leaves the `_id` of an upsert seed alone: an operator update none of whose
    paths starts at `_id`, or a replacement without an `_id` field -/
def leavesId (u : Fields) : Bool :=
  (isOperatorUpdate u && !(addressed u).contains "_id") || (isReplacement u && !dhas "_id" u)

/-- no key of the filter is a dotted prefix of (or equal to) another: `a` and `a.b` conflict,
    `a.b` and `a.c` do not -/
def prefixFree (ss : Fields) : Prop :=
  ss.Pairwise (fun a b => ¬ splitDots a.1 <+: splitDots b.1 ∧ ¬ splitDots b.1 <+: splitDots a.1)

instance (ss : Fields) : Decidable (prefixFree ss) := by unfold prefixFree; infer_instance

/-- no top-level key of the filter is an operator (`$and`, `$or`, … are outside these statements) -/
def noDollarKeys (ss : Fields) : Bool :=
  ss.all (fun kv => !kv.1.startsWith "$")

/-- the document holds every `field: value` pair of `ss` at its top level -/
def HoldsAll (ss : Fields) (fs : Fields) : Prop :=
  ∀ kv ∈ ss, dget kv.1 fs = some kv.2

end MongoModel.Spec
