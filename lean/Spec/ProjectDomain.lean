/-
  Spec.ProjectDomain — the domain D of `incl_exact` / `excl_exact` / `agg_exact` / `find_eq_agg`
  (C12) as a decidable predicate, written as the list of *reasons* a (projection, document) pair
  lies outside it.  `inD` is "no reason".  The driver evaluates `reasons` on every generated case.

  No known finding is left among the reasons: the classes `mixedarray`, `exclscalar`,
  `aggdroparr`, `slicelimit`, `sliceskip` were defects of the library, repaired since (see
  known_findings.json), and the classes went away with them — and with them every reason that
  depended on the document below its top-level keys (arrays of anything, nested arrays and
  scalars on the way of a dotted path are all inside D now).
  Scope limits (nothing claimed): ops (operator fields: judged by the per-field oracle),
    oddvalue / oddid (values other than 0/1/true/false), mixed, collision, badkey, positional,
    idpath (`_id.x`), dupkeys (not a dict), malformed.  (`$project` with `_id: 1` next to
    excluded fields, once refused by the stage — class `idinexclusion` — is accepted since the
    repair recorded as C03 `projectidexcl`, and inside D.)
-/
import Spec.Project

namespace MongoModel.Spec.Proj
open MongoModel

def nodupB : List String → Bool
  | [] => true
  | k :: r => !(r.contains k) && nodupB r

/-- the dict form of the specification, when it has one -/
def dictForm (p : Val) : Option Fields :=
  match p with
  | .doc fields => some fields
  | .arr names => listToDict names
  | _ => none

/-- reasons that depend on the specification only -/
def specReasons (fields : Fields) : List String :=
  let plain := fields.filter (fun kv => kv.1 != "_id")
  let paths := plain.map (fun kv => splitDots kv.1)
  let flags := plain.map (fun kv => flagOf kv.2)
  (if fields.any (fun kv => kv.2.isDoc) then ["ops"] else []) ++
  (match dget "_id" fields with
   | some v => if (flagOf v).isNone && !v.isDoc then ["oddid"] else []
   | none => []) ++
  (if plain.any (fun kv => (flagOf kv.2).isNone && !kv.2.isDoc) then ["oddvalue"] else []) ++
  (if flags.contains (some true) && flags.contains (some false) then ["mixed"] else []) ++
  (if !nodupB (dkeys fields) then ["dupkeys"] else []) ++
  (if !noCollision paths then ["collision"] else []) ++
  (if paths.any (fun p => p.contains "") then ["badkey"] else []) ++
  (if paths.any (fun p => p.any (fun c => c.toList.head? == some '$')) then ["positional"] else []) ++
  (if paths.any (fun p => p.head? == some "_id") then ["idpath"] else [])

/-- why `(p, d)` is outside D (empty = inside) -/
def reasons (p d : Val) : List String :=
  match d with
  | .doc fs =>
    (if !nodupB (dkeys fs) then ["dupkeys"] else []) ++
    (match p with
     | .null => []
     | .doc [] => []
     | .arr [] => []
     | _ =>
       match dictForm p with
       | none => ["malformed"]
       | some fields =>
         let rs := specReasons fields
         if !rs.isEmpty then rs
         else match normDict fields with
           | none => ["malformed"]
           | some _ => [])
  | _ => ["malformed"]

def inD (p d : Val) : Bool := (reasons p d).isEmpty

/-! ### the aggregate path (`$project` stage) -/

/-- why `($project p, d)` is outside the domain of the aggregate-path rule -/
def aggReasons (p d : Val) : List String :=
  match d, p with
  | .doc fs, .doc (f :: r) =>
    let fields := f :: r
    (if !nodupB (dkeys fs) then ["dupkeys"] else []) ++
    (let rs := specReasons fields
     if !rs.isEmpty then rs
     else match normDict fields with
       | none => ["malformed"]
       | some _ => [])
  | _, _ => ["malformed"]

def aggInD (p d : Val) : Bool := (aggReasons p d).isEmpty

/-! ### `$slice` -/

/-- why a `$slice` operand is outside the domain of `slice_spec`: only its shape counts (an int,
    or a pair of ints) -/
def sliceReasons (sv : Val) : List String :=
  match sv with
  | .int _ => []
  | .arr [.int _, .int _] => []
  | _ => ["malformed"]

end MongoModel.Spec.Proj
