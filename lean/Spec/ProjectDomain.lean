/-
  Spec.ProjectDomain — the domain D of `incl_exact` / `excl_exact` / `find_eq_agg` (C12) as a
  decidable predicate, written as the list of *reasons* a (projection, document) pair lies
  outside it.  `inD` is "no reason".  The driver evaluates `reasons` on every generated case.

  Known findings (the unchanged code departs from the rule there):
    mixedarray   a dotted path descends into an array that has a scalar element
                 (find path raises AttributeError)
    exclscalar   an exclusion's dotted path runs into a scalar / null (find path drops the scalar)
    aggdroparr   aggregate-path exclusion descending into an array drops its non-document elements
    slicelimit   `$slice: [k, n]` with `n ≤ 0` is answered instead of refused
    sliceskip    `$slice: [k, n]` with `k < -len` yields the wrong part
  Scope limits (nothing claimed): ops (operator fields: judged by the per-field oracle),
    oddvalue / oddid (values other than 0/1/true/false), mixed, collision, badkey, positional,
    idpath (`_id.x`), dupkeys (not a dict), nestedarray (array directly inside a descended
    array), malformed; for `$project` also idinexclusion (`_id: 1` next to excluded fields: the
    stage refuses it).
-/
import Spec.Project

namespace MongoModel.Spec.Proj
open MongoModel

def nodupB : List String → Bool
  | [] => true
  | k :: r => !(r.contains k) && nodupB r

/-- the dict form of the specification, when it has one -/
def dictForm (p : Val) : Option Fields :=
  match p with
  | .doc fields => some fields
  | .arr names => listToDict names
  | _ => none

/-- reasons that depend on the specification only -/
def specReasons (fields : Fields) : List String :=
  let plain := fields.filter (fun kv => kv.1 != "_id")
  let paths := plain.map (fun kv => splitDots kv.1)
  let flags := plain.map (fun kv => flagOf kv.2)
  (if fields.any (fun kv => kv.2.isDoc) then ["ops"] else []) ++
  (match dget "_id" fields with
   | some v => if (flagOf v).isNone && !v.isDoc then ["oddid"] else []
   | none => []) ++
  (if plain.any (fun kv => (flagOf kv.2).isNone && !kv.2.isDoc) then ["oddvalue"] else []) ++
  (if flags.contains (some true) && flags.contains (some false) then ["mixed"] else []) ++
  (if !nodupB (dkeys fields) then ["dupkeys"] else []) ++
  (if !noCollision paths then ["collision"] else []) ++
  (if paths.any (fun p => p.contains "") then ["badkey"] else []) ++
  (if paths.any (fun p => p.any (fun c => c.toList.head? == some '$')) then ["positional"] else []) ++
  (if paths.any (fun p => p.head? == some "_id") then ["idpath"] else [])

mutual
  /-- reasons met while descending value `v` with the non-empty remainders `ps` -/
  def descVal : Val → List Path → Bool → List String
    | .doc fs, ps, incl => descFields fs ps incl
    | .arr xs, ps, incl => descList xs ps incl
    | _, _, incl => if incl then [] else ["exclscalar"]
  def descFields : Fields → List Path → Bool → List String
    | [], _, _ => []
    | (k, v) :: rest, ps, incl =>
      let ts := tailsOf k ps
      (if ts.isEmpty || ts.contains [] then [] else descVal v ts incl) ++ descFields rest ps incl
  /-- the elements of a descended array -/
  def descList : List Val → List Path → Bool → List String
    | [], _, _ => []
    | .doc fs :: xs, ps, incl => descFields fs ps incl ++ descList xs ps incl
    | .arr _ :: xs, ps, incl => "nestedarray" :: descList xs ps incl
    | _ :: xs, ps, incl => "mixedarray" :: descList xs ps incl
end

/-- why `(p, d)` is outside D (empty = inside) -/
def reasons (p d : Val) : List String :=
  match d with
  | .doc fs =>
    (if !nodupB (dkeys fs) then ["dupkeys"] else []) ++
    (match p with
     | .null => []
     | .doc [] => []
     | .arr [] => []
     | _ =>
       match dictForm p with
       | none => ["malformed"]
       | some fields =>
         let rs := specReasons fields
         if !rs.isEmpty then rs
         else match normDict fields with
           | none => ["malformed"]
           | some n => descFields fs n.paths n.incl)
  | _ => ["malformed"]

def inD (p d : Val) : Bool := (reasons p d).isEmpty

/-! ### the aggregate path (`$project` stage) -/

mutual
  def aggDescVal : Val → List Path → Bool → List String
    | .doc fs, ps, incl => aggDescFields fs ps incl
    | .arr xs, ps, incl => aggDescList xs ps incl
    | _, _, _ => []
  def aggDescFields : Fields → List Path → Bool → List String
    | [], _, _ => []
    | (k, v) :: rest, ps, incl =>
      let ts := tailsOf k ps
      (if ts.isEmpty || ts.contains [] then [] else aggDescVal v ts incl) ++
        aggDescFields rest ps incl
  def aggDescList : List Val → List Path → Bool → List String
    | [], _, _ => []
    | .doc fs :: xs, ps, incl => aggDescFields fs ps incl ++ aggDescList xs ps incl
    | .arr _ :: xs, ps, incl => "nestedarray" :: aggDescList xs ps incl
    | _ :: xs, ps, incl => (if incl then [] else ["aggdroparr"]) ++ aggDescList xs ps incl
end

/-- why `($project p, d)` is outside the domain of the aggregate-path rule -/
def aggReasons (p d : Val) : List String :=
  match d, p with
  | .doc fs, .doc (f :: r) =>
    let fields := f :: r
    (if !nodupB (dkeys fs) then ["dupkeys"] else []) ++
    (let rs := specReasons fields
     if !rs.isEmpty then rs
     else match normDict fields with
       | none => ["malformed"]
       | some n =>
         (if !n.incl && (dget "_id" fields).bind flagOf == some true then ["idinexclusion"] else [])
         ++ aggDescFields fs n.paths n.incl)
  | _, _ => ["malformed"]

def aggInD (p d : Val) : Bool := (aggReasons p d).isEmpty

/-! ### `$slice` -/

/-- why `($slice operand, array)` is outside the domain of `slice_spec` -/
def sliceReasons (sv : Val) (xs : List Val) : List String :=
  match sv with
  | .int _ => []
  | .arr [.int skip, .int limit] =>
    (if limit ≤ 0 then ["slicelimit"] else []) ++
    (if skip + (xs.length : Int) < 0 then ["sliceskip"] else [])
  | _ => ["malformed"]

end MongoModel.Spec.Proj
