/-
  Spec.TtlExt — the data operations of the extended step `stepX` (C09 extension).
-/
import Spec.Ttl
import MongoModel.FindModify

namespace MongoModel.Spec
open MongoModel

/-- data operations of `stepX`: those of `stepColl`, `find_one` with sort / projection, the
    `find_one_and_*` family and the bulks -/
def dataOpX (op : Val) : Bool :=
  dataOp op ||
  (match op with
   | .arr (.str k :: _) =>
     ["find_one", "find_one_and_update", "find_one_and_replace", "find_one_and_delete",
      "bulk_write", "bulk_builder"].contains k
   | _ => false)

end MongoModel.Spec
