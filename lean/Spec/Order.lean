/-
  Spec.Order — the rules of C11, written from the property text (the oracle).

  * without a sort, documents come back in insertion order; updating or replacing a document
    does not move it; deleting removes it; a new document goes to the end;
  * with a sort specification, results are ordered by the BSON comparison order of the sort
    keys, key by key; a missing field sorts as null; a descending key reverses the order;
    documents that tie on every key keep their relative natural order (the *stable* sort by the
    lexicographic order of the key tuples);
  * a sort key that reaches an array is the smallest reached element for an ascending key and
    the largest for a descending key; an empty array sorts before null;
  * skip `s` and limit `l` select the contiguous slice `(sorted.drop s).take l`; limit 0 given
    to `find`/`.limit()` means "no limit", a negative limit `-l` selects like `l`; the cursor
    slice `[a:b]` is skip `a`, limit `b - a` (an empty slice selects nothing); the last value
    given to a setting wins;
  * `count_documents(filter, skip, limit)` is the length of that slice.

  Independent of the sort *algorithm* of MongoModel.Sort (successive sorts, reverse trick,
  BsonComparable): it shares the value type, the path traversal `candsKey`, the generic stable
  insertion sort `isort` (any stable sort computes the same list: `Props.C11.stable_sort_unique`).
  Trusted: this file *is* the statement of "what MongoDB does".
-/
import MongoModel.Sort

namespace MongoModel.Spec.Order
open MongoModel

/-! ### the BSON comparison order on sort-key values -/

/-- the comparison order of the BSON types: null < numbers < string < object < array <
    ObjectId < boolean < date -/
def typeOrder : Val → Nat
  | .null => 2
  | .int _ | .dbl _ _ => 3
  | .str _ => 4
  | .doc _ => 5
  | .arr _ => 6
  | .oid _ => 8
  | .bool _ => 9
  | .date _ _ => 10

/-- strict order between two values: by type, then by value within the scalar types.
    (Embedded documents and arrays are not ordered among themselves by this oracle: scope.) -/
def valLt (a b : Val) : Bool :=
  if typeOrder a ≠ typeOrder b then decide (typeOrder a < typeOrder b)
  else match a, b with
    | .bool x, .bool y => !x && y
    | .str x, .str y => decide (x < y)
    | .date x ox, .date y oy => decide (dateUtc x ox < dateUtc y oy)
    | .oid x, .oid y => decide (x < y)
    | .int x, .int y => decide (x < y)
    | .int x, .dbl m e => Num.lt ⟨x, 0⟩ ⟨m, e⟩
    | .dbl m e, .int y => Num.lt ⟨m, e⟩ ⟨y, 0⟩
    | .dbl m e, .dbl m' e' => Num.lt ⟨m, e⟩ ⟨m', e'⟩
    | _, _ => false

/-- a sort key: rank 0 = "empty array" (sorts before everything), rank 1 = a value -/
def keyLt (a b : SortKey) : Bool :=
  if a.rank ≠ b.rank then decide (a.rank < b.rank) else valLt a.val b.val

/-- what one reached candidate contributes: a missing branch is null, an array its elements -/
def candKeys : Option Val → List SortKey
  | none => [⟨1, .null⟩]
  | some (.arr []) => [⟨0, .null⟩]
  | some (.arr xs) => xs.map (fun x => ⟨1, x⟩)
  | some v => [⟨1, v⟩]

/-- smallest (`desc = false`) or largest (`desc = true`) key of a non-empty list -/
def pickKey (desc : Bool) : SortKey → List SortKey → SortKey
  | k, [] => k
  | k, k' :: r =>
    if desc then pickKey desc (if keyLt k k' then k' else k) r
    else pickKey desc (if keyLt k' k then k' else k) r

/-- the sort key of a document under one `(key, direction)` -/
def docKey (key : String) (desc : Bool) (d : Val) : SortKey :=
  match candsKey key d with
  | .error _ => ⟨1, .null⟩          -- paths outside the model (never inside the domain)
  | .ok cs =>
    match cs.flatMap candKeys with
    | [] => ⟨1, .null⟩              -- nothing reached: missing, sorts as null
    | k :: r => pickKey desc k r

/-- strict order of two documents under one `(key, direction)` -/
def docLt1 (kd : String × Int) (a b : Val) : Bool :=
  if kd.2 < 0 then keyLt (docKey kd.1 true b) (docKey kd.1 true a)
  else keyLt (docKey kd.1 false a) (docKey kd.1 false b)

/-- key by key: the first key on which the documents differ decides -/
def docLt : SortSpec → Val → Val → Bool
  | [], _, _ => false
  | kd :: rest, a, b =>
    if docLt1 kd a b then true else if docLt1 kd b a then false else docLt rest a b

/-- `[("$natural", dir)]`: natural order, forwards or backwards -/
def loneNatural : SortSpec → Option Int
  | [(k, dir)] => if k = "$natural" then some dir else none
  | _ => none

/-- the sorted sequence: *the* stable sort by `docLt` (no sort, `[]`: natural order;
    `$natural: -1` alone: reversed natural order) -/
def sortDocs (sort : Option SortSpec) (docs : List Val) : List Val :=
  match sort with
  | none => docs
  | some spec =>
    match loneNatural spec with
    | some dir => if dir < 0 then docs.reverse else docs
    | none => isort (docLt spec) docs

/-! ### skip / limit -/

/-- `none` = no limit -/
def window {α} (skip : Nat) (limit : Option Nat) (xs : List α) : List α :=
  match limit with
  | none => xs.drop skip
  | some l => (xs.drop skip).take l

/-- the settings a cursor ends with -/
structure Settings where
  sort : Option SortSpec
  skip : Int
  limit : Option Nat
  deriving Repr, Inhabited, DecidableEq

/-- limit as given to `find(limit=…)` / `.limit(…)`: 0 = none, negative = its absolute value -/
def limitArg (n : Int) : Option Nat := if n = 0 then none else some n.natAbs

def Settings.new (sort : Option SortSpec) (skip limit : Int) : Settings :=
  ⟨sort, skip, limitArg limit⟩

/-- the slice `[a:stop]` with `0 ≤ a`: skip `a`, limit `stop - a` (no limit when open-ended) -/
def Settings.slice (s : Settings) (a : Int) : Option Int → Option Settings
  | none => some { s with skip := a, limit := none }
  | some b => if b < a then none else some { s with skip := a, limit := some (b - a).toNat }

/-- the effect of one cursor-method call on the settings (`none`: the call is an error) -/
def Settings.step (s : Settings) : CurOp → Option Settings
  | .skip n => some { s with skip := n }
  | .limit n => some { s with limit := limitArg n }
  | .sortKey k d => some { s with sort := some [(k, match d with
                                                    | some d => if d = 0 then 1 else d
                                                    | none => 1)] }
  | .sortList [] => none
  | .sortList spec => some { s with sort := some spec }
  | .slice start stop =>
    match start with
    | none => s.slice 0 stop
    | some a => if a < 0 then none else s.slice a stop
  | .clone => some s
  | .rewind => some s

def Settings.run (s : Settings) : List CurOp → Option Settings
  | [] => some s
  | op :: ops => (s.step op).bind (·.run ops)

/-- what the cursor returns -/
def Settings.results (s : Settings) (docs : List Val) : List Val :=
  window s.skip.toNat s.limit (sortDocs s.sort docs)

/-- `count_documents(filter, skip=s, limit=l)` over `n` selected documents -/
def count (n : Nat) (skip : Nat) (limit : Option Nat) : Nat :=
  (window skip limit (List.replicate n ())).length

/-! ### natural order over a history of writes -/

/-- the `_id`s in natural order after a history: insertion order of the surviving documents -/
def naturalIds : List Val → List StoreOp → List Val
  | ids, [] => ids
  | ids, .insert k _ :: ops =>
    naturalIds (if ids.any (pyEq · k) then ids else ids ++ [k]) ops
  | ids, .rewrite _ _ :: ops => naturalIds ids ops
  | ids, .delete k :: ops => naturalIds (ids.eraseP (fun i => pyEq i k)) ops

/-! ### pipelines of `$sort` / `$skip` / `$limit` -/

/-- `none` = MongoDB rejects the stage: `$skip` wants a non-negative count, `$limit` a positive one -/
def stageApply (docs : List Val) : Stage → Option (List Val)
  | .sort spec => some (isort (docLt spec) docs)
  | .skip n => if n < 0 then none else some (docs.drop n.toNat)
  | .limit n => if n ≤ 0 then none else some (docs.take n.toNat)

def runStages : List Stage → List Val → Option (List Val)
  | [], docs => some docs
  | st :: rest, docs => (stageApply docs st).bind (runStages rest)

end MongoModel.Spec.Order
