/-
  Spec.Pipeline — the aggregation stages as MongoDB defines them (the oracle of C03), written
  plainly and independently of MongoModel.Pipeline.  The oracle re-uses the oracles of the other
  properties for the parts they already define: the query rules (Spec.specMatches, C01), the sort
  order (Spec.Order.sortDocs, C11), the projection rules (Spec.Proj.project, C12).

    $match      keeps the documents the query selects, in order
    $sort       the stable sort by the key-by-key BSON order
    $skip n     drops the first n documents; n must be a non-negative integer
    $limit n    keeps the first n; n must be a positive integer (a whole-number double counts as
                the integer it denotes; anything else — another type, a fraction, a count out of
                range — is REJECTED: the pipeline fails whatever its input)
    $count      one document {name: number of inputs}; NO document when there is no input; the
                name must be a non-empty string without `.` and not starting with `$` (else REJECTED)
    a stage     must be a document with exactly one field (else REJECTED)
    $project    (inclusion / exclusion) the projection of every document
    $unwind     one document per element of the array, the field replaced by the element; a
                missing / null / empty-array field drops the document unless
                preserveNullAndEmptyArrays; a non-array value counts as a one-element array;
                includeArrayIndex names a field that receives the position of the element —
                null on a value that is no array and on a document that is merely preserved; a
                dotted name creates the sub-documents it goes through (whatever is there and is
                no document is replaced)
    $group      partitions the input by key value; each group is folded by its accumulators over
                the group's documents in input order (MongoDB leaves the order of the groups
                unspecified: `specGroups` lists them by first appearance and is compared as a
                multiset)
    $lookup     attaches, as an array, the foreign documents whose foreign field equals the local
                value (a missing local value counts as null), in foreign order
    a pipeline  feeds the documents through its stages left to right

  `none` = the oracle does not speak about this stage / parameter.  What MongoDB REJECTS is said
  by `argRejected` / `stageRejected`; `specPipelineV` puts both together: a pipeline holding a
  rejected stage is rejected as a whole (the server parses the pipeline before it runs it),
  otherwise the verdict is the documents of `specPipeline`.
-/
import Spec.Match
import Spec.Order
import Spec.Project
import MongoModel.Pipeline

namespace MongoModel.Spec.Pipe
open MongoModel MongoModel.Spec.Order

/-- keep what the query selects; the oracle is silent when the query rules are -/
def specMatchAll (f : Val) : List Val → Option (List Val)
  | [] => some []
  | d :: ds =>
    match specMatches f d, specMatchAll f ds with
    | .ok b, some r => some (if b then d :: r else r)
    | _, _ => none

/-- … a query is checked even when there is nothing to select from -/
def specMatch (f : Val) (docs : List Val) : Option (List Val) :=
  match docs with
  | [] => (match specMatches f (.doc []) with
    | .ok _ => some []
    | .error _ => none)
  | _ => specMatchAll f docs

/-- `{field: 1 | -1, …}` -/
def specSortSpec : Fields → Option SortSpec
  | [] => some []
  | (k, .int i) :: r => if i = 1 ∨ i = -1 then (specSortSpec r).map ((k, i) :: ·) else none
  | _ :: _ => none

/-- the integer a `$skip` / `$limit` argument denotes: an integer, or a double without fraction -/
def sliceCount : Val → Option Int
  | .int n => some n
  | .dbl m e => if m % (2 ^ e : Int) = 0 then some (m / (2 ^ e : Int)) else none
  | _ => none

/-- a count-field name MongoDB accepts -/
def countName (s : String) : Bool :=
  s ≠ "" && !startsWithDollar s && !s.toList.contains '.'

/-- the fields with the (dotted) field `k₁.k₂.…` set to `v`: the sub-documents on the way are
    created, and whatever is there without being a document is replaced by a new one -/
def setNested : List String → Val → Fields → Fields
  | [], _, fs => fs
  | [k], v, fs => dset k v fs
  | k :: k' :: ks, v, fs =>
    dset k (.doc (setNested (k' :: ks) v (match dget k fs with | some (.doc g) => g | _ => []))) fs

/-- the value under the dotted field `k₁.k₂.…`, going through sub-documents only -/
def getNested : List String → Fields → Option Val
  | [], _ => none
  | [k], fs => dget k fs
  | k :: k' :: ks, fs =>
    match dget k fs with
    | some (.doc g) => getNested (k' :: ks) g
    | _ => none

/-- the index `i` written under the `includeArrayIndex` name, when there is one -/
def withIndex (ix : Option String) (i : Val) (gs : Fields) : Fields :=
  match ix with
  | some n => setNested (splitDots n) i gs
  | none => gs

/-- `$unwind` of the top-level field `f`; `ix` = the `includeArrayIndex` field name (possibly
    dotted): the position of the element, null for a value that is not an array and for a
    preserved document; the index is written after the element -/
def specUnwindDoc (f : String) (preserve : Bool) (ix : Option String) : Val → List Val
  | .doc fs =>
    let withIx := withIndex ix
    match dget f fs with
    | none | some .null => if preserve then [.doc (withIx .null fs)] else []
    | some (.arr []) => if preserve then [.doc (withIx .null (derase f fs))] else []
    | some (.arr xs) => (xs.zipIdx).map (fun xi => .doc (withIx (.int xi.2) (dset f xi.1 fs)))
    | some _ => [.doc (withIx .null fs)]
  | d => [d]

/-- an index field name the oracle speaks about: non-empty components, no `$`, and not the
    unwound field itself or a name below it -/
def indexName (f n : String) : Bool :=
  !n.toList.contains '$' && (splitDots n).all (· ≠ "") && (splitDots n).head? != some f

/-- a top-level field path `"$name"` -/
def fieldRef (v : Val) : Option String :=
  match v with
  | .str s =>
    match s.toList with
    | '$' :: r => if r.isEmpty || r.contains '.' || r.contains '$' then none else some (String.ofList r)
    | _ => none
  | _ => none

/-- (field, preserveNullAndEmptyArrays, includeArrayIndex) -/
def unwindArgs : Val → Option (String × Bool × Option String)
  | .doc o =>
    if o.any (fun kv => kv.1 ≠ "path" && kv.1 ≠ "preserveNullAndEmptyArrays" &&
        kv.1 ≠ "includeArrayIndex") then none
    else match dget "path" o with
      | some p =>
        (fieldRef p).bind (fun f =>
          let ix : Option (Option String) := match dget "includeArrayIndex" o with
            | none => some none
            | some (.str n) => if indexName f n then some (some n) else none
            | some _ => none
          ix.bind (fun ix =>
            match dget "preserveNullAndEmptyArrays" o with
            | none => some (f, false, ix)
            | some (.bool b) => some (f, b, ix)
            | some _ => none))
      | none => none
  | v => (fieldRef v).map (fun f => (f, false, none))

def mapOpt {α β} (f : α → Option β) : List α → Option (List β)
  | [] => some []
  | x :: xs =>
    match f x, mapOpt f xs with
    | some y, some ys => some (y :: ys)
    | _, _ => none

/-- one stage `{op: opts}` on `docs` -/
def specStage (op : String) (opts : Val) (docs : List Val) : Option (List Val) :=
  if op = "$match" then specMatch opts docs
  else if op = "$sort" then
    match opts with
    | .doc fs =>
      if fs.isEmpty then none
      else (specSortSpec fs).map (fun spec => sortDocs (some spec) docs)
    | _ => none
  else if op = "$skip" then
    match sliceCount opts with
    | some n => if 0 ≤ n then some (docs.drop n.toNat) else none
    | none => none
  else if op = "$limit" then
    match sliceCount opts with
    | some n => if 0 < n then some (docs.take n.toNat) else none
    | none => none
  else if op = "$count" then
    match opts with
    | .str s =>
      if countName s then
        some (if docs.isEmpty then [] else [.doc [(s, .int docs.length)]])
      else none
    | _ => none
  else if op = "$project" then mapOpt (Spec.Proj.project opts) docs
  else if op = "$unwind" then
    (unwindArgs opts).map (fun a => docs.flatMap (specUnwindDoc a.1 a.2.1 a.2.2))
  else none

/-- a pipeline of single-operator stages, left to right -/
def specPipeline : List Val → List Val → Option (List Val)
  | [], docs => some docs
  | .doc [(op, opts)] :: rest, docs => (specStage op opts docs).bind (specPipeline rest)
  | _ :: _, _ => none

/-! ### what MongoDB rejects -/

/-- the argument of the stage is refused whatever the input: `$limit` wants a positive integer,
    `$skip` a non-negative one, `$count` a field name -/
def argRejected (op : String) (opts : Val) : Bool :=
  if op = "$limit" then (match sliceCount opts with | some n => decide (n ≤ 0) | none => true)
  else if op = "$skip" then (match sliceCount opts with | some n => decide (n < 0) | none => true)
  else if op = "$count" then (match opts with | .str s => !countName s | _ => true)
  else false

/-- "A pipeline stage specification object must contain exactly one field", and that field's
    argument must be acceptable -/
def stageRejected : Val → Bool
  | .doc [(op, opts)] => argRejected op opts
  | _ => true

/-- what a stage or pipeline answers: documents, or it is rejected -/
inductive Verdict where
  | docs (out : List Val)
  | rejected

/-- the answer `r` of the code agrees with the verdict: these documents / no documents at all -/
def Verdict.agrees (r : R (List Val)) : Verdict → Prop
  | .docs out => r = .ok out
  | .rejected => ∀ out, r ≠ .ok out

/-- one stage: rejected, or the documents of `specStage` -/
def specStageV (op : String) (opts : Val) (docs : List Val) : Option Verdict :=
  if argRejected op opts then some .rejected else (specStage op opts docs).map .docs

/-- a pipeline: rejected as soon as one of its stages is (whatever the documents), else the
    documents of `specPipeline` -/
def specPipelineV (p docs : List Val) : Option Verdict :=
  if p.any stageRejected then some .rejected else (specPipeline p docs).map .docs

/-! ### `$group`: the partition and the accumulators -/

/-- equality of group keys as MongoDB sees it on scalar keys: numbers by value, everything else
    by type and value; a boolean is never a number -/
def keyEq (a b : Val) : Bool := !valLt a b && !valLt b a

/-- the distinct values, by first appearance -/
def distinctKeys : List Val → List Val
  | [] => []
  | k :: r => k :: (distinctKeys r).filter (fun x => !keyEq k x)

/-- the groups: keys by first appearance, each with the documents of that key in input order -/
def specGroups (kds : List (Val × Val)) : List (Val × List Val) :=
  (distinctKeys (kds.map (·.1))).map
    (fun k => (k, (kds.filter (fun p => keyEq k p.1)).map (·.2)))

/-- the accumulators over the values the expression takes on the group's documents, in input
    order (`none` = the expression is missing on that document) -/
def specPush (vals : List (Option Val)) : List Val := vals.filterMap id
def specFirst (vals : List (Option Val)) : Val := (vals.head?.getD none).getD .null
def specLast (vals : List (Option Val)) : Val := (vals.getLast?.getD none).getD .null
def specSumInt (vals : List (Option Val)) : Int :=
  (vals.filterMap (fun v => match v with | some (.int i) => some i | _ => none)).foldl (· + ·) 0
/-- first occurrences, by the key equality -/
def specAddToSet (vals : List Val) : List Val := distinctKeys vals

/-! ### `$lookup` -/

/-- the local value joins a foreign value: equal, or an element of it when it is an array;
    missing counts as null on both sides (scalar values) -/
def joins (loc : Val) (forv : Option Val) : Bool :=
  match forv with
  | none => keyEq loc .null
  | some (.arr xs) => xs.any (keyEq loc)
  | some v => keyEq loc v

def specLookupDoc (foreign : List Val) (lf ff as : String) : Val → Val
  | .doc fs =>
    let loc := (dget lf fs).getD .null
    .doc (dset as (.arr (foreign.filter (fun f =>
      match f with | .doc gs => joins loc (dget ff gs) | _ => false))) fs)
  | d => d

end MongoModel.Spec.Pipe
