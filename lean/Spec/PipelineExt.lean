/-
  Spec.PipelineExt — the oracle of C03 extended to `$group`, `$lookup`, `$addFields` / `$set`,
  `$replaceRoot`, `$bucket` and `$facet` (Spec/Pipeline.lean speaks about seven stage kinds only), and the
  domain D on which the model is proved equal to it.  Written plainly, independently of
  MongoModel.Pipeline; expression values are the values of the C04 oracle `Spec.specEval`.

    $group      every output field must be `name: {accumulator: expression}` with one of the eight
                accumulators below — a property of the stage, checked whether or not there is a
                document (`accSpecsOk`); then
                the groups of `specGroups` (keys by first appearance; a missing key is null); the
                document of a group is `{_id: key, name: accumulator value, …}` in the order of the
                specification; an accumulator folds the values its expression takes on the
                group's documents in input order (missing = the expression has no value there):
                  $sum       the sum of the integers            (non-numbers are ignored)
                  $avg       their exact average, null when there is none
                  $min/$max  the smallest / largest non-null value in the BSON order, null if none
                  $first/$last  the value on the first / last document, null when missing there
                  $push      every present value, in order
                  $addToSet  each distinct present value once
    $lookup     `specLookupDoc` on every document (top-level `localField`, `foreignField`, `as`)
    $addFields / $set   every entry's expression is evaluated on the INPUT document; the document
                gets `name: value` for each entry in order (an existing field keeps its place, a
                new one is appended, a missing value leaves the document alone); a dotted name
                writes into the sub-document it names, creating it — or putting it in the place
                of a scalar — where needed; through an ARRAY it writes into every item of the
                array (an item that is no document becomes one, an array inside the array is
                gone through) — `setDeepIn`; no name may be a prefix of another one
    $replaceRoot   the value of `newRoot`, which must be a document
    $bucket     a `$group` on the boundary `bᵢ ≤ groupBy < bᵢ₊₁` (else `default`, else the stage
                fails) followed by a sort on `_id`: see `specBucketStage`
    $facet      one document `{name: output of the sub-pipeline on the same input, …}`

  MongoDB leaves the order of the groups unspecified and a Python dict does not order its keys:
  `specGroupStage` lists `_id` first and the groups by first appearance (to be compared as a
  multiset, documents up to `Spec.Proj.idLast`); `specGroupStageSorted` is the representative the
  pipeline oracle feeds to the next stage — the same groups in ascending key order, `_id` last.

  `none` = the oracle does not speak.
-/
import Spec.Pipeline
import Spec.PipelineDomain
import Spec.Expr
import Spec.ExprDomain

namespace MongoModel.Spec.Pipe
open MongoModel MongoModel.Spec.Order

/-! ### accumulators -/

def notNull : Val → Bool
  | .null => false
  | _ => true

/-- `$min` / `$max`: the smallest / largest non-null present value in the BSON order (the earliest
    one among equals), null when there is none -/
def specExtremum (isMax : Bool) (vals : List (Option Val)) : Val :=
  match (specPush vals).filter notNull with
  | [] => .null
  | y :: r =>
    r.foldl (fun best v => if (if isMax then valLt best v else valLt v best) then v else best) y

/-- the integers among the values -/
def specInts (vals : List (Option Val)) : List Int :=
  vals.filterMap (fun v => match v with | some (.int i) => some i | _ => none)

/-- `s / n` written as the binary fraction `m / 2^e` with the least possible `e` (`none`: it is
    not a binary fraction, a double would only approximate it) -/
def binFraction (s : Int) (n : Nat) : Option (Int × Nat) :=
  (List.range (n + 1)).findSome? (fun e =>
    if (s * 2 ^ e) % (n : Int) = 0 then some (s * 2 ^ e / (n : Int), e) else none)

/-- `$avg` over integers: the exact average as a double, null when there is no number -/
def specAvgInt (vals : List (Option Val)) : Option Val :=
  let is := specInts vals
  if is.isEmpty then some .null
  else (binFraction (is.foldl (· + ·) 0) is.length).map (fun p => .dbl p.1 p.2)

/-- the accumulator `op` over the values of its expression on the documents of a group -/
def specAcc (op : String) (vals : List (Option Val)) : Option Val :=
  if op = "$sum" then some (.int (specSumInt vals))
  else if op = "$avg" then specAvgInt vals
  else if op = "$min" then some (specExtremum false vals)
  else if op = "$max" then some (specExtremum true vals)
  else if op = "$first" then some (specFirst vals)
  else if op = "$last" then some (specLast vals)
  else if op = "$push" then some (.arr (specPush vals))
  else if op = "$addToSet" then some (.arr (specAddToSet (specPush vals)))
  else none

/-- the value (or "missing") the C04 oracle gives expression `e` on document `d` -/
def exprValue (e d : Val) : Option (Option Val) :=
  match specEval d e with
  | .ok r => some r
  | .error _ => none

/-- the accumulator fields `name: {op: expression}` of one group, in order (`_id` is the key) -/
def specAccFields : Fields → List Val → Option Fields
  | [], _ => some []
  | (name, spec) :: rest, g =>
    if name = "_id" then specAccFields rest g
    else
      match spec with
      | .doc [(op, e)] =>
        match mapOpt (exprValue e) g, specAccFields rest g with
        | some vals, some r => (specAcc op vals).map (fun v => (name, v) :: r)
        | _, _ => none
      | _ => none

/-- the accumulators the oracle speaks about -/
def specAccNames : List String :=
  ["$sum", "$avg", "$min", "$max", "$first", "$last", "$push", "$addToSet"]

/-- every output field is `name: {accumulator: expression}` with one of the eight accumulators —
    a property of the STAGE, whether or not there is a document to group (MongoDB refuses an
    unknown accumulator when it parses the pipeline) -/
def accSpecsOk : Fields → Bool
  | [] => true
  | (name, spec) :: rest =>
    (name = "_id" ||
      (match spec with
       | .doc [(op, _)] => specAccNames.contains op
       | _ => false)) && accSpecsOk rest

/-- the documents paired with their group key (a missing key is null) -/
def specKeyed (idExpr : Val) (docs : List Val) : Option (List (Val × Val)) :=
  mapOpt (fun d => (exprValue idExpr d).map (fun r => (r.getD .null, d))) docs

/-- one output document per group: `_id`, then the accumulators -/
def specGroupDocs (options : Fields) (groups : List (Val × List Val)) : Option (List Val) :=
  mapOpt (fun g => (specAccFields options g.2).map (fun fs => Val.doc (("_id", g.1) :: fs))) groups

/-- `$group`: groups by first appearance -/
def specGroupStage (opts : Val) (docs : List Val) : Option (List Val) :=
  match opts with
  | .doc options =>
    if !(accSpecsOk options) then none
    else
      match dget "_id" options with
      | some idExpr => (specKeyed idExpr docs).bind (fun kds => specGroupDocs options (specGroups kds))
      | none => none
  | _ => none

/-- … the same groups in ascending key order with `_id` written last -/
def specGroupStageSorted (opts : Val) (docs : List Val) : Option (List Val) :=
  match opts with
  | .doc options =>
    if !(accSpecsOk options) then none
    else
      match dget "_id" options with
      | some idExpr =>
        (specKeyed idExpr docs).bind (fun kds =>
          (specGroupDocs options (isort (fun a b => valLt a.1 b.1) (specGroups kds))).map
            (fun out => out.map Spec.Proj.idLast))
      | none => none
  | _ => none

/-! ### `$lookup` -/

/-- a top-level field name -/
def plainName (s : String) : Bool :=
  s ≠ "" && !s.toList.contains '.' && !s.toList.contains '$'

/-- (from, localField, foreignField, as) -/
def lookupArgs : Val → Option (String × String × String × String)
  | .doc o =>
    if o.any (fun kv => !(["from", "localField", "foreignField", "as"].contains kv.1)) then none
    else
      match dget "from" o, dget "localField" o, dget "foreignField" o, dget "as" o with
      | some (.str fr), some (.str lf), some (.str ff), some (.str as) =>
        if plainName lf && plainName ff && plainName as then some (fr, lf, ff, as) else none
      | _, _, _, _ => none
  | _ => none

def specLookupStage (db : Pipe.Db) (opts : Val) (docs : List Val) : Option (List Val) :=
  (lookupArgs opts).map (fun a => docs.map (specLookupDoc (db.get a.1) a.2.1 a.2.2.1 a.2.2.2))

/-! ### `$addFields` / `$set`, `$replaceRoot` -/

/-- a (possibly dotted) field name: no `$`, no empty component -/
def pathName (s : String) : Bool :=
  !s.toList.contains '$' && (splitDots s).all (· ≠ "")

/-- the document `{k₁: {k₂: … v}}` -/
def nestDoc : List String → Val → Val
  | [], v => v
  | k :: ks, v => .doc [(k, nestDoc ks v)]

mutual
  /-- `v` written at the dotted path `ks` below the value `x`: through a document into (or next
      to) its field, through an array into every item, in the place of anything else -/
  def setDeep : Val → List String → Val → Val
    | _, [], v => v
    | .arr xs, k :: ks, v => .arr (setDeepItems xs (k :: ks) v)
    | .doc fs, k :: ks, v => .doc (setDeepIn fs k ks v)
    | _, k :: ks, v => nestDoc (k :: ks) v
  termination_by structural x _ _ => x

  def setDeepItems : List Val → List String → Val → List Val
    | [], _, _ => []
    | x :: xs, ks, v => setDeep x ks v :: setDeepItems xs ks v
  termination_by structural x _ _ => x

  /-- the fields with `k.ks` set to `v`: an existing `k` keeps its place, a new one is appended -/
  def setDeepIn : Fields → String → List String → Val → Fields
    | [], k, ks, v => [(k, nestDoc ks v)]
    | (k', x) :: r, k, ks, v =>
      if k' = k then (k', setDeep x ks v) :: r else (k', x) :: setDeepIn r k ks v
  termination_by structural x _ _ _ => x
end

/-- the entries applied to `acc`, every expression read on the input document `d` -/
def specSetFields (d : Val) : Fields → Fields → Option Fields
  | [], acc => some acc
  | (name, e) :: rest, acc =>
    match exprValue e d, splitDots name with
    | some (some v), k :: ks => specSetFields d rest (setDeepIn acc k ks v)
    | some (some _), [] => none
    | some none, _ => specSetFields d rest acc
    | none, _ => none

def specAddFieldsDoc (entries : Fields) : Val → Option Val
  | .doc fs => (specSetFields (.doc fs) entries fs).map Val.doc
  | _ => none

def specAddFieldsStage (opts : Val) (docs : List Val) : Option (List Val) :=
  match opts with
  | .doc entries =>
    if entries.isEmpty || !(entries.all (fun kv => pathName kv.1)) ||
        !(Spec.Proj.noCollision (entries.map (fun kv => splitDots kv.1))) then none
    else mapOpt (specAddFieldsDoc entries) docs
  | _ => none

def specReplaceRootStage (opts : Val) (docs : List Val) : Option (List Val) :=
  match opts with
  | .doc [("newRoot", e)] =>
    mapOpt (fun d => match exprValue e d with
      | some (some (.doc r)) => some (Val.doc r)
      | _ => none) docs
  | _ => none

/-! ### `$bucket`

  MongoDB defines `{$bucket: {groupBy, boundaries: [b₀ … bₙ], default, output}}` as a `$group`
  whose key is the boundary `bᵢ` with `bᵢ ≤ groupBy < bᵢ₊₁` (comparisons in the BSON order: a
  value that is no number lies below — null, missing — or above every numeric boundary), the
  `default` for a value outside every `[bᵢ, bᵢ₊₁)` (no default: the stage fails, the oracle is
  silent), followed by a sort on `_id`: one document per NON-EMPTY bucket, the boundary buckets
  in boundary order and the default bucket where its `_id` sorts (a number below `b₀`, null:
  first; a number `≥ bₙ`, a string, …: last); `output` holds accumulators as in `$group`, folded
  over the bucket's documents in input order, `{count: {$sum: 1}}` when it is not given.
  Options: only these four; `groupBy` a `$`-prefixed path or an expression object; at least two
  boundaries, here numbers (scope), STRICTLY ascending; a numeric `default` must lie below the
  lowest or at / above the highest boundary. -/

/-- the boundary `bᵢ` with `bᵢ ≤ x < bᵢ₊₁` -/
def specSlot : List Val → Val → Option Val
  | b :: b' :: r, x => if !valLt x b && valLt x b' then some b else specSlot (b' :: r) x
  | _, _ => none

def strictAsc : List Val → Bool
  | a :: b :: r => valLt a b && strictAsc (b :: r)
  | _ => true

/-- `groupBy` is a `$`-prefixed path or an expression object -/
def groupByForm : Val → Bool
  | .str s => startsWithDollar s
  | .doc _ => true
  | _ => false

/-- a `default` MongoDB accepts next to numeric boundaries: of another type, or a number below the
    lowest / at or above the highest boundary -/
def defaultOk (bs : List Val) (d : Val) : Bool :=
  !d.isNumber ||
    (match bs.head?, bs.getLast? with
     | some lo, some hi => valLt d lo || !valLt d hi
     | _, _ => false)

structure BucketArgs where
  groupBy : Val
  bounds : List Val
  default : Option Val
  output : Fields

def bucketOutput (o : Fields) : Option Fields :=
  match dget "output" o with
  | none => some [("count", Val.doc [("$sum", .int 1)])]
  | some (.doc f) => some f
  | some _ => none

def bucketArgs : Val → Option BucketArgs
  | .doc o =>
    if o.any (fun kv => !(["groupBy", "boundaries", "output", "default"].contains kv.1)) then none
    else
      match dget "groupBy" o, dget "boundaries" o with
      | some gb, some (.arr bs) =>
        if !(groupByForm gb) || bs.length < 2 || !(bs.all Val.isNumber) || !(strictAsc bs) then none
        else
          match bucketOutput o with
          | none => none
          | some out =>
            if !(accSpecsOk out) || dhas "_id" out then none
            else
              match dget "default" o with
              | none => some ⟨gb, bs, none, out⟩
              | some d => if defaultOk bs d then some ⟨gb, bs, some d, out⟩ else none
      | _, _ => none
  | _ => none

/-- the bucket `_id` of document `d` (a missing `groupBy` value counts as null) -/
def specBucketKey (a : BucketArgs) (d : Val) : Option Val :=
  (exprValue a.groupBy d).bind (fun r =>
    match specSlot a.bounds (r.getD .null) with
    | some b => some b
    | none => a.default)

def specBucketKeyed (a : BucketArgs) (docs : List Val) : Option (List (Val × Val)) :=
  mapOpt (fun d => (specBucketKey a d).map (fun k => (k, d))) docs

/-- `$bucket`: the non-empty buckets in ascending `_id` order (`_id` written last, like
    `specGroupStageSorted`) -/
def specBucketStage (opts : Val) (docs : List Val) : Option (List Val) :=
  (bucketArgs opts).bind (fun a =>
    (specBucketKeyed a docs).bind (fun kds =>
      (specGroupDocs a.output (isort (fun x y => valLt x.1 y.1) (specGroups kds))).map
        (fun out => out.map Spec.Proj.idLast)))

/-! ### every stage, pipelines, `$facet` -/

def specStageX (db : Pipe.Db) (op : String) (opts : Val) (docs : List Val) : Option (List Val) :=
  if op = "$group" then specGroupStageSorted opts docs
  else if op = "$lookup" then specLookupStage db opts docs
  else if op = "$addFields" || op = "$set" then specAddFieldsStage opts docs
  else if op = "$replaceRoot" then specReplaceRootStage opts docs
  else if op = "$bucket" then specBucketStage opts docs
  else specStage op opts docs

def specPipelineX (db : Pipe.Db) : List Val → List Val → Option (List Val)
  | [], docs => some docs
  | .doc [(op, opts)] :: rest, docs => (specStageX db op opts docs).bind (specPipelineX db rest)
  | _ :: _, _ => none

/-- the verdict of the extended oracle: a pipeline holding a rejected stage (`stageRejected`) is
    rejected, else the documents of `specPipelineX` -/
def specPipelineXV (db : Pipe.Db) (p docs : List Val) : Option Verdict :=
  if p.any stageRejected then some .rejected else (specPipelineX db p docs).map .docs

/-- `$facet`: every sub-pipeline on the same input -/
def specFacet (db : Pipe.Db) : Fields → List Val → Option Fields
  | [], _ => some []
  | (name, .arr p) :: rest, docs =>
    match specPipelineX db p docs, specFacet db rest docs with
    | some out, some r => some ((name, .arr out) :: r)
    | _, _ => none
  | _ :: _, _ => none

/-! ### the domain D

  known findings (named as in Spec/PipelineDomain.lean; all three are Python's `==` standing in
  for the key equality): groupboolnum, groupdockey, lookupboolnum, and addtosetboolnum
  (`$addToSet` merges `true` with `1` and `false` with `0`);
  scope limits: nospec, keyscope (group keys that are arrays, ObjectIds, aware dates), sumfloat
  (`$sum` / `$avg` over doubles: the oracle adds integers), avginexact (the average is not a
  double), minmaxscope (`$min` / `$max` over arrays, documents, aware dates, generated ObjectIds:
  not ordered by `Spec.Order.valLt`), setscope, joinscope, datenorm, nondoc, collname,
  `expr:<class of Spec/ExprDomain.lean>`; the classes of `$bucket` are listed at `bucketReasons`.
  Gone with the repairs of the library: groupnullempty, groupfalsyid, addtosetfalsy,
  firstmissing, minmaxtypes, sumbool, accmissing, and accstrict (the accumulator argument is
  evaluated like every computed field, `Expr.evalExpr`, which is what the C04 theorem is about). -/

def exprTags (e : Val) (docs : List Val) : List String :=
  docs.flatMap (fun d => tag "expr:" (exprReasons e d))

def keyReasons : Val → List String
  | .bool _ => ["groupboolnum"]
  | .doc _ => ["groupdockey"]
  | k => if groupKeyOk k then [] else ["keyscope"]

def isStr : Val → Bool
  | .str _ => true
  | _ => false
def isNaiveDate : Val → Bool
  | .date _ none => true
  | _ => false
def isBoolV : Val → Bool
  | .bool _ => true
  | _ => false
def isDblV : Val → Bool
  | .dbl _ _ => true
  | _ => false

/-- a value the integer oracle of `$sum` / `$avg` speaks about: anything but a double (what is not
    a number — a boolean included — is ignored) -/
def sumOk (v : Val) : Bool := !isDblV v

/-- a value `$addToSet` compares as MongoDB does: a scalar that is no boolean -/
def setOk (v : Val) : Bool := groupKeyOk v

def sumReasons (vals : List Val) : List String :=
  if vals.any isDblV then ["sumfloat"] else []

/-- `$min` / `$max`: a value the BSON order of `Spec.Order.valLt` places (null, booleans,
    numbers, strings, naive dates, the case's ObjectIds) -/
def orderScalar (v : Val) : Bool := (Spec.Order.valReasons v).isEmpty

def two53 : Nat := 9007199254740992

/-- the average is a double: 53 bits of mantissa (and an exponent in range) -/
def avgFits : Val → Bool
  | .dbl m e => m.natAbs < two53 && e ≤ 1000
  | _ => true

/-- why accumulator `op` over `vals` lies outside the domain -/
def accReasons (op : String) (vals : List (Option Val)) : List String :=
  if op = "$sum" then sumReasons (specPush vals)
  else if op = "$avg" then
    sumReasons (specPush vals) ++
    (match specAvgInt vals with
     | some v => if avgFits v then [] else ["avginexact"]
     | none => ["avginexact"])
  else if op = "$min" || op = "$max" then
    (if (specPush vals).all orderScalar then [] else ["minmaxscope"])
  else if op = "$first" || op = "$last" || op = "$push" then []
  else if op = "$addToSet" then
    (specPush vals).flatMap (fun v =>
      if groupKeyOk v then [] else if isBoolV v then ["addtosetboolnum"] else ["setscope"])
  else ["nospec"]

/-- the accumulator fields of one group -/
def accFieldReasons : Fields → List Val → List String
  | [], _ => []
  | (name, spec) :: rest, g =>
    if name = "_id" then accFieldReasons rest g
    else
      (match spec with
       | .doc [(op, e)] =>
         exprTags e g ++
         (match mapOpt (exprValue e) g with
          | some vals => accReasons op vals
          | none => ["nospec"])
       | _ => ["nospec"]) ++ accFieldReasons rest g

def groupReasons (opts : Val) (docs : List Val) : List String :=
  match opts with
  | .doc options =>
    match dget "_id" options with
    | some idExpr =>
      exprTags idExpr docs ++
      (match specKeyed idExpr docs with
       | some kds =>
         kds.flatMap (fun p => keyReasons p.1) ++
         (specGroups kds).flatMap (fun g => accFieldReasons options g.2)
       | none => ["nospec"])
    | none => ["nospec"]
  | _ => ["nospec"]

/-- a join value: a scalar (dates naive) -/
def joinScalar : Val → Bool
  | .null | .bool _ | .int _ | .dbl _ _ | .str _ | .date _ none | .oid _ => true
  | _ => false

/-- why the local value `q` against the foreign value `v` lies outside the domain -/
def joinPair (q v : Val) : List String :=
  (if (isBoolV q && v.isNumber) || (q.isNumber && isBoolV v) then ["lookupboolnum"] else []) ++
  (match v with | .date _ (some _) => ["joinscope"] | _ => [])

def joinReasons (q : Val) : Option Val → List String
  | none => []
  | some (.arr xs) => xs.flatMap (joinPair q)
  | some v => joinPair q v

def lookupReasons (db : Pipe.Db) (opts : Val) (docs : List Val) : List String :=
  match lookupArgs opts with
  | some (fr, lf, ff, _) =>
    (if db.colls.any (fun p => p.1 = fr) || Pipe.validCollName fr then [] else ["collname"]) ++
    docs.flatMap (fun d => match d with
      | .doc fs =>
        let q := (dget lf fs).getD .null
        (if joinScalar q then [] else ["joinscope"]) ++ (if normalV q then [] else ["datenorm"]) ++
        (db.get fr).flatMap (fun f => match f with
          | .doc gs => (if normalV f then [] else ["datenorm"]) ++ joinReasons q (dget ff gs)
          | _ => ["nondoc"])
      | _ => ["nondoc"])
  | none => ["nospec"]

def addFieldsReasons (opts : Val) (docs : List Val) : List String :=
  match opts with
  | .doc entries =>
    docs.flatMap (fun d => match d with
      | .doc _ => entries.flatMap (fun kv => tag "expr:" (exprReasons kv.2 d))
      | _ => ["nondoc"])
  | _ => ["nospec"]

def replaceRootReasons (opts : Val) (docs : List Val) : List String :=
  match opts with
  | .doc [("newRoot", e)] => exprTags e docs
  | _ => ["nospec"]

/-! `$bucket`: where the code and MongoDB's rule differ.
    known findings: bucketcrosstype (a `groupBy` value that is no number — null, a string, a
    date, … — is compared with the boundaries by Python `<`: TypeError; MongoDB places it in the
    BSON order, i.e. in the default bucket), bucketboolnum (a boolean `groupBy` value is counted as
    0 / 1), bucketdefaulttype (a null default is emitted last, MongoDB sorts it first; a boolean
    default is placed, and merged, as the number 0 / 1), and — the oracle silent, MongoDB refuses
    the stage, the code runs it — bucketdupbounds (equal neighbouring boundaries),
    bucketdefaultinside (a numeric default inside `[b₀, bₙ)`), bucketgroupbyconst (a constant
    `groupBy`);  scope: bucketexprstrict (an expression object as `groupBy` is evaluated without
    the missing-field convention, `evalExprStrict`, about which the C04 theorem does not speak),
    keyscope (a default that is an array, document, ObjectId, aware date), nospec. -/

def ascWithTies : List Val → Bool
  | a :: b :: r => !valLt b a && ascWithTies (b :: r)
  | _ => true

/-- stages MongoDB refuses and the code runs -/
def bucketRefused : Val → List String
  | .doc o =>
    match dget "groupBy" o, dget "boundaries" o with
    | some gb, some (.arr bs) =>
      (if groupByForm gb then [] else ["bucketgroupbyconst"]) ++
      (if bs.all Val.isNumber && ascWithTies bs && !strictAsc bs then ["bucketdupbounds"] else []) ++
      (match dget "default" o with
       | some d => if bs.all Val.isNumber && !defaultOk bs d then ["bucketdefaultinside"] else []
       | none => [])
    | _, _ => []
  | _ => []

def bucketValueReasons : Option Val → List String
  | none => []
  | some (.int _) | some (.dbl _ _) => []
  | some (.bool _) => ["bucketboolnum"]
  | some _ => ["bucketcrosstype"]

def bucketDefaultReasons : Option Val → List String
  | none => []
  | some .null | some (.bool _) => ["bucketdefaulttype"]
  | some d => if groupKeyOk d then [] else ["keyscope"]

def bucketReasons (opts : Val) (docs : List Val) : List String :=
  match bucketArgs opts with
  | none => if (bucketRefused opts).isEmpty then ["nospec"] else bucketRefused opts
  | some a =>
    (match a.groupBy with | .str _ => [] | _ => ["bucketexprstrict"]) ++
    exprTags a.groupBy docs ++
    docs.flatMap (fun d => match exprValue a.groupBy d with
      | some r => bucketValueReasons r
      | none => ["nospec"]) ++
    bucketDefaultReasons a.default ++
    (match specBucketKeyed a docs with
     | some kds => (specGroups kds).flatMap (fun g => accFieldReasons a.output g.2)
     | none => ["nospec"])

def stageReasonsX (db : Pipe.Db) (op : String) (opts : Val) (docs : List Val) : List String :=
  if op = "$group" then groupReasons opts docs
  else if op = "$lookup" then lookupReasons db opts docs
  else if op = "$addFields" || op = "$set" then addFieldsReasons opts docs
  else if op = "$replaceRoot" then replaceRootReasons opts docs
  else if op = "$bucket" then bucketReasons opts docs
  else stageReasons op opts docs

def pipelineReasonsX (db : Pipe.Db) : List Val → List Val → List String
  | [], _ => []
  | .doc [(op, opts)] :: rest, docs =>
    stageReasonsX db op opts docs ++
      (match specStageX db op opts docs with
       | some out => pipelineReasonsX db rest out
       | none => ["nospec"])
  | _ :: _, _ => []          -- not a one-field document: rejected (`stageRejected`), no class

def pipelineReasonsXV (db : Pipe.Db) (pipeline docs : List Val) : List String :=
  if pipeline.any stageRejected then [] else pipelineReasonsX db pipeline docs

def inDX (db : Pipe.Db) (pipeline docs : List Val) : Bool := (pipelineReasonsX db pipeline docs).isEmpty

/-- every branch of a `$facet` is in the domain on the common input -/
def facetReasons (db : Pipe.Db) : Fields → List Val → List String
  | [], _ => []
  | (_, .arr p) :: rest, docs => pipelineReasonsX db p docs ++ facetReasons db rest docs
  | _ :: _, _ => ["nospec"]

end MongoModel.Spec.Pipe
