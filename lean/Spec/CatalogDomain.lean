/-
  Spec.CatalogDomain — the domain D of the C17 refinement, as named exclusion classes.

  D is a predicate on (state, operation): a step is in D when none of the classes below applies.
  A history is in D when every one of its steps is (`histInD`).

  Known findings: none is left.
  Repaired in the library, no longer excluded (a recurrence is a violation):
    vanish_last_doc, vanish_last_index (existence is recorded now: a collection exists from its
    first insert / index creation / create_collection until it is dropped),
    rename_self_droptarget, filter_lists_uncreated, drop_database_foreign_handle,
    drop_collection_foreign_handle, system_create_existing
  Scope limits (all that D excludes):
    unobtained_handle            a handle used before it was obtained (cannot happen in Python)
    filter_falsy_name            list_collection_names(filter={'name': ''}): NotImplementedError
-/
import Spec.Catalog

namespace MongoModel.Spec.Catalog
open MongoModel MongoModel.Catalog

/-- the handles an operation uses have been obtained -/
def handlesObtained (w : World) : Op → Bool
  | .getDb _ _ => true
  | .getColl h _ => obtainedDb w h
  | .coll h _ => obtainedColl w h
  | .collRename h _ _ => obtainedColl w h
  | .createCollection h _ => obtainedDb w h
  | .dropCollection h (.byName _) => obtainedDb w h
  | .dropCollection h (.byHandle h') => obtainedDb w h && obtainedColl w h'
  | .renameCollection h _ _ _ => obtainedDb w h
  | .listCollectionNames h _ => obtainedDb w h
  | .listDatabaseNames _ => true
  | .dropDatabase _ (.byName _) => true
  | .dropDatabase _ (.byHandle h) => obtainedDb w h

def filterFalsy : Op → Bool
  | .listCollectionNames _ (some f) => f.falsy
  | _ => false

/-- the exclusion classes that apply to this step (`σ` is kept in the signature: the classes are
    per state and operation, and a class may depend on which store a client is built on) -/
def reasons (_σ : Nat → Nat) (w : World) (op : Op) : List String :=
  (if handlesObtained w op then [] else ["unobtained_handle"]) ++
  (if filterFalsy op then ["filter_falsy_name"] else [])

/-- the step is in the domain of the refinement theorem: the scope of the model - handles are
    obtained before they are used (always so in Python) and the filter of a listing has a
    non-empty name -/
def inD (_σ : Nat → Nat) (w : World) (op : Op) : Bool :=
  handlesObtained w op && !filterFalsy op

/-- every step of the history is in D at the state it is taken from -/
def histInD (σ : Nat → Nat) : World → List Op → Bool
  | _, [] => true
  | w, op :: ops => inD σ w op && histInD σ (MongoModel.Catalog.step σ w op).1 ops

/-- the exclusion classes met along a history, in order -/
def histReasons (σ : Nat → Nat) : World → List Op → List String
  | _, [] => []
  | w, op :: ops => reasons σ w op ++ histReasons σ (MongoModel.Catalog.step σ w op).1 ops

/-! ### Well-formed states and the refinement relation -/

/-- a Python dict has each key once -/
def WFdb (db : DbStore) : Prop := (alKeys db).Nodup
def WFs (s : Server) : Prop := (alKeys s).Nodup ∧ ∀ p ∈ s, WFdb p.2
def SWF (st : SStore) : Prop := (alKeys st).Nodup

/-- a state of the model is well formed when its dicts have unique keys, only validated
    collection names are cached, and existence is recorded in every collection store
    (`Coll.recorded`: one that holds a document or an index has `_is_force_created` set).
    Every state reachable from `World.init` is (`wf_run`, `reachable_wf`). -/
def WF (w : World) : Prop :=
  (∀ i, WFs (w.store i)) ∧ (∀ c d n, n ∈ w.collCache c d → validName n = true) ∧
  ∀ i d n, ((w.store i).coll d n).recorded = true

/-- the model state `w` and the oracle state `s` describe the same namespace: on every server
    the collections that count as created in `w` are exactly the ones that exist in `s`, with
    the same documents and indexes -/
def Rel (w : World) (s : SWorld) : Prop :=
  WF w ∧ (∀ i, SWF (s i)) ∧ ∀ i d n, toS ((w.store i).coll d n) = alGet? (d, n) (s i)

/-! ### Vocabulary of the corollaries -/

/-- operations that only look: obtaining handles, `find`, `index_information`, listings -/
def isRead : Op → Bool
  | .getDb _ _ | .getColl _ _ | .listCollectionNames _ _ | .listDatabaseNames _ => true
  | .coll _ o => o.isRead
  | _ => false

/-- the client an operation is issued through -/
def opClient : Op → Nat
  | .getDb c _ => c
  | .getColl h _ => h.client
  | .coll h _ => h.client
  | .collRename h _ _ => h.client
  | .createCollection h _ => h.client
  | .dropCollection h _ => h.client
  | .renameCollection h _ _ _ => h.client
  | .listCollectionNames h _ => h.client
  | .listDatabaseNames c => c
  | .dropDatabase c _ => c

/-- can this operation make the namespace `(d, n)` of server `i` go away?  A drop of it, a
    rename from it or onto it, a drop of its database. -/
def mayRemove (σ : Nat → Nat) (i : Nat) (d n : String) : Op → Bool
  | .coll h o => o.isDrop && σ h.client == i && h.db == d && h.coll == n
  | .collRename h n' _ => σ h.client == i && h.db == d && (h.coll == n || n' == n)
  | .renameCollection h m n' _ => σ h.client == i && h.db == d && (m == n || n' == n)
  | .dropCollection h (.byName m) => σ h.client == i && h.db == d && m == n
  | .dropCollection h (.byHandle h') => σ h.client == i && h.db == d && h'.coll == n
  | .dropDatabase c (.byName e) => σ c == i && e == d
  | .dropDatabase c (.byHandle h) => σ c == i && h.db == d
  | _ => false

/-- the namespace counts as existing in the model state -/
def created (w : World) (i : Nat) (d n : String) : Bool := ((w.store i).coll d n).isCreated

/-- the five ways of dropping the namespace a handle `h` denotes: `drop_collection` by name or
    by any Collection handle of that name (whatever database or client it comes from),
    `coll.drop()`, `drop_database` by name or by any Database handle of that name -/
def Drops (σ : Nat → Nat) (w : World) (op : Op) (h : CollH) : Prop :=
  (∃ hd, op = .dropCollection hd (.byName h.coll) ∧ obtainedDb w hd = true ∧
    σ hd.client = σ h.client ∧ hd.db = h.db) ∨
  (∃ h', op = .coll h' .drop ∧ obtainedColl w h' = true ∧
    σ h'.client = σ h.client ∧ h'.db = h.db ∧ h'.coll = h.coll) ∨
  (∃ c, op = .dropDatabase c (.byName h.db) ∧ σ c = σ h.client) ∨
  (∃ hd h', op = .dropCollection hd (.byHandle h') ∧ obtainedDb w hd = true ∧
    obtainedColl w h' = true ∧ σ hd.client = σ h.client ∧ hd.db = h.db ∧ h'.coll = h.coll) ∨
  (∃ c hd, op = .dropDatabase c (.byHandle hd) ∧ obtainedDb w hd = true ∧
    σ c = σ h.client ∧ hd.db = h.db)

/-- a state some history leads to from the empty world -/
def Reachable (σ : Nat → Nat) (w : World) : Prop := ∃ ops, w = (MongoModel.Catalog.run σ World.init ops).1

end MongoModel.Spec.Catalog
