/-
  Spec.Project — the projection rules of C12, written from the property text (the oracle).

  * a projection never selects, reorders or alters: the result of a query is the list of the
    selected documents, each replaced by its projection;
  * an **inclusion** projection keeps `_id` (unless `_id: 0`) plus exactly the named paths: a
    named field is kept whole; under a dotted path the rule descends through sub-documents and
    through each sub-document element of an array; scalars met on the way have nothing to
    show and are left out;
  * an **exclusion** projection removes exactly the named paths (descending the same way) and
    keeps everything else, scalars included;
  * `$slice: n` keeps the first `n` (last `-n` when negative) elements, `$slice: [skip, limit]`
    keeps `limit > 0` elements after skipping `skip` (counted from the end when negative);
  * `$elemMatch` keeps the first element the condition holds for.

  `sub o d` ("o ⊑ d") says that every leaf of `o` is a leaf of `d` at the same path with the
  same value, arrays being allowed to lose elements but not to reorder them.

  Independent of MongoModel.Project: it shares only the value type, `dget` and `splitDots`.
  Trusted: this file *is* the statement of "what MongoDB does" (no server is available offline).
-/
import MongoModel.Value

namespace MongoModel.Spec.Proj
open MongoModel

abbrev Path := List String

/-! ### o ⊑ d -/

/-- some element of `ys` satisfies `p` and the rest of the list after it satisfies `k` -/
def embedAt (p : Val → Bool) (k : List Val → Bool) : List Val → Bool
  | [] => false
  | y :: ys => (p y && k ys) || embedAt p k ys

mutual
  /-- every leaf of the first value is a leaf of the second at the same path, with the same
      value -/
  def sub : Val → Val → Bool
    | .doc fs, d => (match d with | .doc gs => subFields fs gs | _ => false)
    | .arr xs, d => (match d with | .arr ys => subList xs ys | _ => false)
    | v, d => Val.beq v d
  /-- every field of the first is a field of the second with a ⊑-larger value -/
  def subFields : Fields → Fields → Bool
    | [], _ => true
    | (k, v) :: r, gs => gs.any (fun kw => kw.1 == k && sub v kw.2) && subFields r gs
  /-- the first list embeds into the second in order, element ⊑ element -/
  def subList : List Val → List Val → Bool
    | [], _ => true
    | x :: xs, ys => embedAt (sub x) (subList xs) ys
end

/-! ### inclusion and exclusion by paths -/

/-- the remainders of the paths that start with field `k` -/
def tailsOf (k : String) (ps : List Path) : List Path :=
  ps.filterMap (fun p => match p with
    | h :: t => if h = k then some t else none
    | [] => none)

mutual
  /-- what an inclusion of the (non-empty) paths `ps` shows of a value; `none`: nothing -/
  def inclVal : Val → List Path → Option Val
    | .doc fs, ps => some (.doc (inclFields fs ps))
    | .arr xs, ps => some (.arr (inclList xs ps))
    | _, _ => none
  def inclFields : Fields → List Path → Fields
    | [], _ => []
    | (k, v) :: rest, ps =>
      let ts := tailsOf k ps
      if ts.isEmpty then inclFields rest ps                        -- not named
      else if ts.contains [] then (k, v) :: inclFields rest ps     -- named: kept whole
      else match inclVal v ts with                                 -- named deeper: descend
        | some w => (k, w) :: inclFields rest ps
        | none => inclFields rest ps
  def inclList : List Val → List Path → List Val
    | [], _ => []
    | x :: xs, ps =>
      match inclVal x ps with
      | some y => y :: inclList xs ps
      | none => inclList xs ps
end

mutual
  /-- a value with the (non-empty) paths `ps` removed -/
  def exclVal : Val → List Path → Val
    | .doc fs, ps => .doc (exclFields fs ps)
    | .arr xs, ps => .arr (exclList xs ps)
    | v, _ => v
  def exclFields : Fields → List Path → Fields
    | [], _ => []
    | (k, v) :: rest, ps =>
      let ts := tailsOf k ps
      if ts.isEmpty then (k, v) :: exclFields rest ps              -- not named: kept
      else if ts.contains [] then exclFields rest ps               -- named: removed
      else (k, exclVal v ts) :: exclFields rest ps                 -- named deeper: descend
  def exclList : List Val → List Path → List Val
    | [], _ => []
    | x :: xs, ps => exclVal x ps :: exclList xs ps
end

/-! ### reading a projection specification -/

/-- `1`, `0`, `true`, `false` -/
def flagOf : Val → Option Bool
  | .int i => if i = 1 then some true else if i = 0 then some false else none
  | .bool b => some b
  | _ => none

/-- a specification in normal form: inclusion or exclusion of `paths`, and whether `_id` stays -/
structure Norm where
  incl : Bool
  paths : List Path
  keepId : Bool

/-- no path is a prefix of (or equal to) another one -/
def noCollision : List Path → Bool
  | [] => true
  | p :: r => r.all (fun q => !(p.isPrefixOf q) && !(q.isPrefixOf p)) && noCollision r

def allSome {α} : List (Option α) → Option (List α)
  | [] => some []
  | none :: _ => none
  | some a :: r => (allSome r).map (a :: ·)

/-- read the dict form; `none`: not a plain inclusion / exclusion specification (operator
    fields, values other than flags, mixed modes, colliding paths) -/
def normDict (fields : Fields) : Option Norm :=
  let idFlag : Option (Option Bool) := match dget "_id" fields with
    | none => some none
    | some v => (flagOf v).map some
  let plain := fields.filter (fun kv => kv.1 != "_id")
  match idFlag, allSome (plain.map (fun kv => flagOf kv.2)) with
  | some idf, some flags =>
    let paths := plain.map (fun kv => splitDots kv.1)
    if !noCollision paths then none
    else match flags with
      | [] => some { incl := idf != some false, paths := [], keepId := idf != some false }
      | b :: r =>
        if r.all (· == b) then some { incl := b, paths := paths, keepId := idf != some false }
        else none
  | _, _ => none

/-- the list form `[f₁, …, fₙ]` means `{f₁: 1, …, fₙ: 1}` (a repeated name makes two equal
    paths, which `normDict` refuses) -/
def listToDict : List Val → Option Fields
  | [] => some []
  | .str s :: r => (listToDict r).map (fun fs => (s, .int 1) :: fs)
  | _ :: _ => none

/-- the projection of a document by a normal-form specification -/
def projectNorm (n : Norm) (fs : Fields) : Fields :=
  if n.incl then inclFields fs (if n.keepId then ["_id"] :: n.paths else n.paths)
  else exclFields fs (if n.keepId then n.paths else ["_id"] :: n.paths)

/-- **the rule**: the projection of document `d` by specification `p` (`none`: `p` is not a
    plain inclusion / exclusion specification, the rule does not speak) -/
def project (p d : Val) : Option Val :=
  match d with
  | .doc fs =>
    match p with
    | .null => some d
    | .doc [] => some d
    | .arr [] => some d
    | .doc fields => (normDict fields).map (fun n => .doc (projectNorm n fs))
    | .arr names => (listToDict names).bind (fun fields =>
        (normDict fields).map (fun n => .doc (projectNorm n fs)))
    | _ => none
  | _ => none

/-- `some true`: `p` is an inclusion, `some false`: an exclusion, `none`: `p` asks for the whole
    document or is not a plain specification -/
def modeOf (p : Val) : Option Bool :=
  match p with
  | .doc [] => none
  | .arr [] => none
  | .doc fields => (normDict fields).map (·.incl)
  | .arr names => ((listToDict names).bind normDict).map (·.incl)
  | _ => none

/-- the same fields with the same values, `_id` listed last (Python dicts compare equal
    whatever the order of their keys) -/
def idLast : Val → Val
  | .doc fs => .doc (fs.filter (fun kv => kv.1 != "_id") ++ fs.filter (fun kv => kv.1 == "_id"))
  | v => v

/-! ### `$slice` and `$elemMatch` -/

/-- `$slice` on the array `xs`; `none`: malformed operand (`limit ≤ 0`, wrong types) -/
def slice (sv : Val) (xs : List Val) : Option (List Val) :=
  match sv with
  | .int n => some (if n ≥ 0 then xs.take n.toNat else xs.drop (xs.length - n.natAbs))
  | .arr [.int skip, .int limit] =>
    if limit ≤ 0 then none
    else if skip ≥ 0 then some ((xs.drop skip.toNat).take limit.toNat)
    else some ((xs.drop (xs.length - skip.natAbs)).take limit.toNat)
  | _ => none

/-- `x` is the first element of `xs` the condition `m` holds for -/
def IsFirst (m : Val → Bool) (x : Val) (xs : List Val) : Prop :=
  ∃ pre post, xs = pre ++ x :: post ∧ m x = true ∧ ∀ y ∈ pre, m y = false

end MongoModel.Spec.Proj
