/-
  Spec.MatchDomain — the domain D of `matches_eq_spec` (C01) as a decidable predicate, written
  as the list of *reasons* a (filter, document) pair lies outside it.  Each reason is a named
  exclusion class of DESIGN.md §5/C01; `inD` is "no reason".

  The driver evaluates `reasons` on every generated case, so the D the harness reports is the
  D the theorem is about.
-/
import Spec.Match

namespace MongoModel.Spec
open MongoModel

/-! ### value conditions -/

mutual
  def hasBool : Val → Bool
    | .bool _ => true
    | .doc fs => hasBoolFields fs
    | .arr xs => hasBoolList xs
    | _ => false
  def hasBoolFields : Fields → Bool
    | [] => false
    | (_, v) :: r => hasBool v || hasBoolFields r
  def hasBoolList : List Val → Bool
    | [] => false
    | x :: r => hasBool x || hasBoolList r
end

def is01 (n : Num) : Bool := Num.eq n ⟨0, 0⟩ || Num.eq n ⟨1, 0⟩

mutual
  /-- contains a number equal to 0 or 1 (the values Python's `==` identifies with booleans) -/
  def has01 : Val → Bool
    | .int i => i == 0 || i == 1
    | .dbl m e => is01 ⟨m, e⟩
    | .doc fs => has01Fields fs
    | .arr xs => has01List xs
    | _ => false
  def has01Fields : Fields → Bool
    | [] => false
    | (_, v) :: r => has01 v || has01Fields r
  def has01List : List Val → Bool
    | [] => false
    | x :: r => has01 x || has01List r
end

mutual
  /-- contains an aware datetime -/
  def hasAware : Val → Bool
    | .date _ (some _) => true
    | .doc fs => hasAwareFields fs
    | .arr xs => hasAwareList xs
    | _ => false
  def hasAwareFields : Fields → Bool
    | [] => false
    | (_, v) :: r => hasAware v || hasAwareFields r
  def hasAwareList : List Val → Bool
    | [] => false
    | x :: r => hasAware x || hasAwareList r
end

mutual
  /-- every document inside the value has at most one field (so that Python's order-insensitive
      dict equality and BSON's ordered equality cannot differ) -/
  def smallDocs : Val → Bool
    | .doc fs => fs.length ≤ 1 && smallDocsFields fs
    | .arr xs => smallDocsList xs
    | _ => true
  def smallDocsFields : Fields → Bool
    | [] => true
    | (_, v) :: r => smallDocs v && smallDocsFields r
  def smallDocsList : List Val → Bool
    | [] => true
    | x :: r => smallDocs x && smallDocsList r
end

/-- operand admissible for equality-like comparison -/
def operandReasons (v : Val) : List String :=
  (if smallDocs v then [] else ["docoperand"])

/-! ### conditions -/

def coreSingleOps : List String :=
  ["$eq", "$ne", "$gt", "$gte", "$lt", "$lte", "$in", "$nin", "$exists", "$size", "$all"]

/-- an `$all` item that asks for `$elemMatch` -/
def isElemItem : Val → Bool
  | .doc gs => dhas "$elemMatch" gs
  | _ => false

def isArrCand : Option Val → Bool
  | some (.arr _) => true
  | _ => false

/-- reasons for `$all` with operand `sv` on reached values `cs` -/
def allReasons (sv : Val) (cs : List (Option Val)) : List String :=
  match sv with
  | .arr vs =>
    (if vs.any Val.isArr then ["arrayoperand"] else []) ++ operandReasons sv ++
    (if vs.any isElemItem then ["allelem"] else []) ++
    (if cs.length > 1 && cs.any isArrCand then ["allmulticand"] else [])
  | _ => ["malformed"]

/-- reasons for one operator with operand `sv` on reached values `cs` -/
def opReasons (op : String) (sv : Val) (cs : List (Option Val)) : List String :=
  if op = "$eq" || op = "$ne" then
    (if sv.isArr then ["arrayoperand"] else []) ++ operandReasons sv
  else if op = "$gt" || op = "$gte" || op = "$lt" || op = "$lte" then
    (match sv with
     | .doc _ | .arr _ => ["arrayoperand"]
     | .oid _ => ["oidorder"]
     | _ => [])
  else if op = "$in" || op = "$nin" then
    (match sv with
     | .arr vs => (if vs.any Val.isArr then ["arrayoperand"] else []) ++ operandReasons sv
     | _ => ["malformed"])
  else if op = "$exists" then
    (match sv with
     | .bool b => if !b && cs.length > 1 then ["multicand"] else []
     | .int i => if i == 0 && cs.length > 1 then ["multicand"] else []
     | _ => ["existsoperand"])
  else if op = "$size" then
    (match sv with
     | .int _ => []
     | _ => ["sizeoperand"])
  else if op = "$all" then allReasons sv cs
  else ["ext:" ++ op]

/-- reasons for a condition `c` under `key` -/
def condReasons (c : Val) (cs : List (Option Val)) : List String :=
  match c with
  | .doc fs =>
    if isOps fs then
      match fs with
      | [(op, sv)] =>
        if op = "$not" then
          (match sv with
           | .doc [(op', sv')] =>
             if op'.startsWith "$" then
               (if op' = "$not" then ["ext:$not"] else opReasons op' sv' cs) ++
               (if cs.isEmpty then ["notnocand"] else [])
             else ["malformed"]
           | _ => ["ext:$not"])
        else opReasons op sv cs
      | _ => ["multiop"]
    else if hasDollarKey fs then ["malformed"]
    else operandReasons c
  | _ => operandReasons c

mutual
  def fieldsReasons : Fields → Val → List String
    | [], _ => []
    | (key, c) :: rest, d =>
      (if key = "$comment" then []
       else if key = "$and" || key = "$or" || key = "$nor" then
         (match c with
          | .arr (q :: qs) => listReasons (q :: qs) d
          | _ => ["malformed"])
       else if key.startsWith "$" then ["malformed"]
       else
         -- where the matcher follows the path (it gives up only on a negative array index) it
         -- reaches exactly `reach` (`cands_eq_reach`); empty components are field names
         (match cands (splitDots key) d with
          | .ok _ => []
          | .error _ => ["badkey"]) ++ condReasons c (reach (splitDots key) d))
      ++ fieldsReasons rest d
  termination_by structural x _ => x
  def valReasons : Val → Val → List String
    | .doc fs, d => fieldsReasons fs d
    | _, _ => ["malformed"]
  termination_by structural x _ => x
  def listReasons : List Val → Val → List String
    | [], _ => []
    | q :: qs, d => valReasons q d ++ listReasons qs d
  termination_by structural x _ => x
end

/-- why `(filter, doc)` is outside D (empty = inside) -/
def reasons (f d : Val) : List String :=
  (if (hasBool f || hasBool d) && (has01 f || has01 d) then ["boolnum"] else []) ++
  (if hasAware f || hasAware d then ["awaredate"] else []) ++
  valReasons f d

def inD (f d : Val) : Bool := (reasons f d).isEmpty

end MongoModel.Spec
