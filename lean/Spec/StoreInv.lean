/-
  Spec.StoreInv — the predicates in which the history properties (C05, C06, C08, C09, …) are
  stated over the collection model `MongoModel.Coll`.
-/
import MongoModel.Ops

namespace MongoModel.Spec
open MongoModel

/-- the `_id` of a stored document -/
def idOf (d : Val) : Option Val :=
  match d with
  | .doc fs => dget "_id" fs
  | _ => none

/-- no two store keys are equal (Python `==`, which is what the OrderedDict of documents uses) -/
def KeysDistinct (c : Coll) : Prop := c.docs.Pairwise (fun a b => pyEq a.1 b.1 = false)

/-- every document is stored under (a value equal to) its own `_id` -/
def KeyIsId (c : Coll) : Prop :=
  ∀ p ∈ c.docs, ∃ id, idOf p.2 = some id ∧ pyEq p.1 id = true

/-- C05's invariant: `_id` is a key -/
def IdInv (c : Coll) : Prop := KeysDistinct c ∧ KeyIsId c

/-- values on which Python `==` is symmetric (all scalars; see `scalar_symm`) -/
def SymmVal (v : Val) : Prop := ∀ w, pyEq v w = pyEq w v

def isScalar : Val → Bool
  | .doc _ | .arr _ => false
  | _ => true

/-- single-document writes (C08) -/
def singleWrite (op : Val) : Bool :=
  match op with
  | .arr (.str k :: _) => k == "insert_one" || k == "update_one" || k == "replace_one" || k == "delete_one"
  | _ => false

/-- what a client can see of a state at its clock (documents after the expiry pass, index names) -/
def visible (s : St) : Val := (observe s).2

/-- the state after issuing the inserts one at a time (C08, C15) -/
def seqInsert (cfg : Cfg) (now : Int) (ds : List Val) (c : Coll) : Coll :=
  ds.foldl (fun c d => (stepColl cfg now c (.arr [.str "insert_one", d])).1) c

/-! ### C05: the domain on which "`_id` is a primary key" is proved

The model's value universe `Val` contains association lists with DUPLICATE keys
(`.doc [("a", 1), ("a", 2)]`), which no Python `dict` can be.  On those, Python `==` as modelled
(`pyEq`: equal lengths and every key of the left operand found — first occurrence — on the right
with an `==` value) is neither reflexive nor symmetric, and the C05 invariant fails on them
(Props/C05.lean: `step_inv_full_fails`, `reachable_inv_full_fails`, `id_immutable_full_fails`).
The theorems are therefore stated for collections of *well-behaved entries*.

`GoodColl` holds whenever every `_id` is a scalar (null, bool, number, string, datetime, ObjectId),
the empty sub-document or a single-field sub-document of such values (`scalar_symm`,
`symm_doc_empty`, `symm_doc_single`) and every stored document has pairwise distinct top-level
keys (as every Python dict has).  It does NOT cover multi-field embedded `_id`s such as
`{a: 1, b: 2}`: `SymmVal` quantifies over every other value of the universe, duplicate-key lists
included, and `pyEq {a:1, a:1} {a:1, b:2} = true ≠ pyEq {a:1, b:2} {a:1, a:1}`.  Multi-field embedded
`_id`s are covered by the correspondence run and the direct oracle only
(named scope limit `embedded-id-multifield`). -/

/-- a well-behaved entry `(store key, document)`: Python `==` is symmetric (against every value)
    and reflexive on the store key, and the document is dict-shaped at top level (pairwise
    distinct keys).  Excludes: keys that are duplicate-key association lists (no Python dict) and
    multi-field embedded `_id`s (scope limit `embedded-id-multifield`). -/
def GoodEntry (p : Val × Val) : Prop :=
  SymmVal p.1 ∧ pyEq p.1 p.1 = true ∧ ∃ fs, p.2 = .doc fs ∧ (dkeys fs).Nodup

/-- every entry of the collection is well-behaved (see `GoodEntry`) -/
def GoodColl (c : Coll) : Prop := ∀ p ∈ c.docs, GoodEntry p

/-- decidable sufficient condition for `GoodEntry`: scalar store key, dict-shaped document -/
def goodB (p : Val × Val) : Bool :=
  isScalar p.1 && (match p.2 with
    | .doc fs => decide ((dkeys fs).Nodup)
    | _ => false)

mutual
  /-- hereditary well-formedness: every document, at every depth, has pairwise distinct keys —
      what every value built from Python dicts and lists satisfies -/
  def wfVal : Val → Bool
    | .doc fs => decide ((dkeys fs).Nodup) && wfFields fs
    | .arr xs => wfList xs
    | _ => true
  def wfFields : Fields → Bool
    | [] => true
    | (_, v) :: r => wfVal v && wfFields r
  def wfList : List Val → Bool
    | [] => true
    | x :: r => wfVal x && wfList r
end

end MongoModel.Spec
