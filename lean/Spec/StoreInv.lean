/-
  Spec.StoreInv — the predicates in which the history properties (C05, C06, C08, C09, …) are
  stated over the collection model `MongoModel.Coll`.
-/
import MongoModel.Ops

namespace MongoModel.Spec
open MongoModel

/-- the `_id` of a stored document -/
def idOf (d : Val) : Option Val :=
  match d with
  | .doc fs => dget "_id" fs
  | _ => none

/-- no two store keys are equal (Python `==`, which is what the OrderedDict of documents uses) -/
def KeysDistinct (c : Coll) : Prop := c.docs.Pairwise (fun a b => pyEq a.1 b.1 = false)

/-- every document is stored under (a value equal to) its own `_id` -/
def KeyIsId (c : Coll) : Prop :=
  ∀ p ∈ c.docs, ∃ id, idOf p.2 = some id ∧ pyEq p.1 id = true

/-- C05's invariant: `_id` is a key -/
def IdInv (c : Coll) : Prop := KeysDistinct c ∧ KeyIsId c

/-- values on which Python `==` is symmetric (all scalars; see `scalar_symm`) -/
def SymmVal (v : Val) : Prop := ∀ w, pyEq v w = pyEq w v

def isScalar : Val → Bool
  | .doc _ | .arr _ => false
  | _ => true

/-- single-document writes (C08) -/
def singleWrite (op : Val) : Bool :=
  match op with
  | .arr (.str k :: _) => k == "insert_one" || k == "update_one" || k == "replace_one" || k == "delete_one"
  | _ => false

/-- what a client can see of a state at its clock (documents after the expiry pass, index names) -/
def visible (s : St) : Val := (observe s).2

/-- the state after issuing the inserts one at a time (C08, C15) -/
def seqInsert (cfg : Cfg) (now : Int) (ds : List Val) (c : Coll) : Coll :=
  ds.foldl (fun c d => (stepColl cfg now c (.arr [.str "insert_one", d])).1) c

end MongoModel.Spec
