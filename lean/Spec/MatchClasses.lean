/-
  Spec.MatchClasses — labels used only to attribute an observed deviation (code = model ≠ rules,
  outside D) to the known-finding classes.  `Spec.reasons` says why a pair is outside D but stops
  at the first unsupported construct (`ext:$not` for a nested `$not`, `multiop`, …); `deepLabels`
  keeps descending so that the class responsible inside such a construct is named too: through
  `$not`, multi-operator documents, the items of `$all`, and through `$elemMatch` on every
  element of the arrays the path reaches (each element being, as in the rules, the only reached
  value of an operator query, or the document of a field query).
  Not used by any theorem.
-/
import Spec.MatchDomain

namespace MongoModel.Spec
open MongoModel

/-- the elements of the arrays among the reached values -/
def arrayItems (cs : List (Option Val)) : List Val :=
  cs.flatMap (fun c => match c with | some (.arr xs) => xs | _ => [])

/-- the matcher does not follow the path (a negative array index) -/
def pathLabels (key : String) (d : Val) : List String :=
  match cands (splitDots key) d with
  | .ok _ => []
  | .error _ => ["badkey"]

mutual
  /-- labels of a condition on the reached values `cs` -/
  def deepCond : Val → List (Option Val) → List String
    | .doc fs, cs =>
      if isOps fs then deepOps fs cs ++ (if fs.length > 1 then ["multiop"] else [])
      else if hasDollarKey fs then ["malformed"]
      else operandReasons (.doc fs)
    | v, _ => operandReasons v
  termination_by structural x _ => x

  def deepOps : Fields → List (Option Val) → List String
    | [], _ => []
    | (op, .doc gs) :: rest, cs =>
      (if op = "$not" then
         deepCond (.doc gs) cs ++ (if cs.isEmpty then ["notnocand"] else [])
       else if op = "$elemMatch" then
         "ext:$elemMatch" :: (arrayItems cs).flatMap (fun e =>
           if elemIsOps gs then deepOps gs [some e] else deepFilter gs e)
       else opReasons op (.doc gs) cs) ++ deepOps rest cs
    | (op, .arr vs) :: rest, cs =>
      (if op = "$all" then allReasons (.arr vs) cs ++ deepList vs cs
       else opReasons op (.arr vs) cs) ++ deepOps rest cs
    | (op, sv) :: rest, cs => opReasons op sv cs ++ deepOps rest cs
  termination_by structural x _ => x

  /-- the `$elemMatch` items of an `$all` -/
  def deepList : List Val → List (Option Val) → List String
    | [], _ => []
    | .doc fs :: rest, cs => (if isOps fs then deepOps fs cs else []) ++ deepList rest cs
    | _ :: rest, cs => deepList rest cs
  termination_by structural x _ => x

  /-- deep labels of every condition of a filter (also of an `$elemMatch` field query, `d` being
      the array element) -/
  def deepFilter : Fields → Val → List String
    | [], _ => []
    | (key, c) :: rest, d =>
      (if key = "$and" || key = "$or" || key = "$nor" then
         (match c with
          | .arr qs => deepFilterList qs d
          | _ => [])
       else if key.startsWith "$" then []
       else pathLabels key d ++ deepCond c (reach (splitDots key) d)) ++ deepFilter rest d
  termination_by structural x _ => x

  def deepFilterVal : Val → Val → List String
    | .doc fs, d => deepFilter fs d
    | _, _ => []
  termination_by structural x _ => x

  def deepFilterList : List Val → Val → List String
    | [], _ => []
    | q :: rest, d => deepFilterVal q d ++ deepFilterList rest d
  termination_by structural x _ => x
end

def deepLabels (f d : Val) : List String := deepFilterVal f d

end MongoModel.Spec
