/-
  Spec.MatchClasses — labels used only to attribute an observed deviation (code = model ≠ rules,
  outside D) to the known-finding classes.  `Spec.reasons` says why a pair is outside D but stops
  at the first unsupported construct (`ext:$not` for a nested `$not`, `multiop`, …); `deepLabels`
  keeps descending so that the class responsible inside such a construct is named too.
  Not used by any theorem.
-/
import Spec.MatchDomain

namespace MongoModel.Spec
open MongoModel

mutual
  /-- labels of a condition, descending through `$not`, multi-operator documents, `$elemMatch`
      and `$all` items; `cs` = values reached by the path (`none` when unknown: inside
      `$elemMatch`) -/
  def deepCond : Val → Option (List (Option Val)) → List String
    | .doc fs, cs =>
      if isOps fs then deepOps fs cs ++ (if fs.length > 1 then ["multiop"] else [])
      else if hasDollarKey fs then ["malformed"]
      else if fs.isEmpty then ["emptydocoperand"]
      else operandReasons (.doc fs)
    | v, _ => operandReasons v
  termination_by structural x _ => x

  def deepOps : Fields → Option (List (Option Val)) → List String
    | [], _ => []
    | (op, .doc gs) :: rest, cs =>
      (if op = "$not" then
         deepCond (.doc gs) cs ++ (if cs == some [] then ["deadend"] else [])
       else if op = "$elemMatch" then
         "ext:$elemMatch" :: (if elemIsOps gs then deepOps gs none else deepFields gs)
       else opReasons op (.doc gs) (cs.getD [none, none])) ++ deepOps rest cs
    | (op, .arr vs) :: rest, cs =>
      (if op = "$all" then "ext:$all" :: deepList vs
       else opReasons op (.arr vs) (cs.getD [none, none])) ++ deepOps rest cs
    | (op, sv) :: rest, cs => opReasons op sv (cs.getD [none, none]) ++ deepOps rest cs
  termination_by structural x _ => x

  /-- field conditions inside an `$elemMatch` query / connectives inside it -/
  def deepFields : Fields → List String
    | [] => []
    | (k, c) :: rest =>
      (if k = "$and" || k = "$or" || k = "$nor" then
         (match c with
          | .arr qs => deepList qs
          | _ => ["malformed"])
       else if k.startsWith "$" then (if k = "$comment" then [] else ["malformed"])
       else deepCond c none) ++ deepFields rest
  termination_by structural x => x

  def deepList : List Val → List String
    | [] => []
    | .doc fs :: rest =>
      (if isOps fs then deepOps fs none else deepFields fs) ++ deepList rest
    | v :: rest => operandReasons v ++ deepList rest
  termination_by structural x => x
end

mutual
  /-- deep labels of every condition of a filter -/
  def deepFilter : Fields → Val → List String
    | [], _ => []
    | (key, c) :: rest, d =>
      (if key = "$and" || key = "$or" || key = "$nor" then
         (match c with
          | .arr qs => deepFilterList qs d
          | _ => [])
       else if key.startsWith "$" || !keyOk key then []
       else deepCond c (some (reach (splitDots key) d))) ++ deepFilter rest d
  termination_by structural x _ => x
  def deepFilterVal : Val → Val → List String
    | .doc fs, d => deepFilter fs d
    | _, _ => []
  termination_by structural x _ => x
  def deepFilterList : List Val → Val → List String
    | [], _ => []
    | q :: rest, d => deepFilterVal q d ++ deepFilterList rest d
  termination_by structural x _ => x
end

def deepLabels (f d : Val) : List String := deepFilterVal f d

end MongoModel.Spec
