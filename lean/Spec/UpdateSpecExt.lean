/-
  Spec.UpdateSpecExt — the parts of an operator update: its entries `(operator, path, argument)`
  and the update made of one entry alone.  Used to state that a whole update is the pointwise
  combination of its entries (`update_is_pointwise`, `update_error_iff`,
  `update_order_irrelevant` in Props/C02.lean).
-/
import Spec.UpdateSpec

namespace MongoModel.Spec
open MongoModel

/-- one entry of an operator update: operator name, dotted path, argument -/
abbrev Entry := String × String × Val

/-- the entries of an operator update `{op: {path: arg, …}, …}`, in the order written -/
def entries (u : Fields) : List Entry :=
  u.flatMap (fun kv =>
    match kv.2 with
    | .doc body => body.map (fun fv => (kv.1, fv.1, fv.2))
    | _ => [])

/-- the update consisting of the one entry `e` -/
def single (e : Entry) : Fields := [(e.1, .doc [(e.2.1, e.2.2)])]

/-- the update operators of the model -/
def operatorNames : List String :=
  ["$set", "$unset", "$inc", "$max", "$min", "$pop", "$rename", "$setOnInsert", "$currentDate",
   "$addToSet", "$pull", "$pullAll", "$push"]

/-- every key is an update operator and every operator's argument is a document -/
def wellShaped (u : Fields) : Bool :=
  u.all (fun kv => operatorNames.contains kv.1 &&
    (match kv.2 with | .doc _ => true | _ => false))

/-- the value a replacement document gives to the key `k`: its LAST entry under that key (a
    Python dict built from the pairs keeps the last one; without duplicate keys this is `dget`) -/
def lastGet (k : String) (doc : Fields) : Option Val := dget k doc.reverse

end MongoModel.Spec
