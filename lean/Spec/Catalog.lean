/-
  Spec.Catalog — the oracle for C17: the namespace with *explicit* existence.

  A server is a finite map from namespaces `(db, coll)` to `(documents, indexes)`.  A collection
  exists from its first insert, index creation or `create_collection` until it is dropped (or
  renamed away, or its database dropped); a database is listed iff one of its collections
  exists.  Reads never change the map.  `rename` moves documents and indexes.  Listings are the
  existing names.  Handles are just names; clients built on one server store see one map,
  independently created clients see different maps.

  Written from the property text, independently of MongoModel/Catalog.lean (it shares only the
  vocabulary: operations, outputs, index documents, name validity, association lists).
-/
import MongoModel.Catalog

namespace MongoModel.Spec.Catalog
open MongoModel MongoModel.Catalog

/-- an existing collection -/
structure SColl where
  docs : List Nat
  indexes : List (String × IndexInfo)
  deriving DecidableEq, Repr, Inhabited

abbrev Ns := String × String

/-- the existing namespaces of one server -/
abbrev SStore := List (Ns × SColl)

/-- the servers, by index -/
abbrev SWorld := Nat → SStore

def SWorld.init : SWorld := fun _ => []

/-- a handle operation on a collection that may or may not exist -/
def scollOp : CollOp → Option SColl → Option SColl × Out
  | .find, none => (none, .ids [])
  | .find, some c => (some c, .ids c.docs)
  | .indexInformation, none => (none, .indexes [])
  | .indexInformation, some c => (some c, .indexes (("_id_", idIndex) :: c.indexes))
  | .insert id, none => (some ⟨[id], []⟩, .ok)
  | .insert id, some c =>
    if c.docs.contains id then (some c, .err .dupKey)
    else (some { c with docs := c.docs ++ [id] }, .ok)
  | .deleteOne _, none => (none, .count 0)
  | .deleteOne id, some c =>
    if c.docs.contains id then (some { c with docs := c.docs.erase id }, .count 1)
    else (some c, .count 0)
  | .deleteAll, none => (none, .count 0)
  | .deleteAll, some c => (some { c with docs := [] }, .count c.docs.length)
  | .createIndex nm info, none =>
    let name := nm.getD (genIndexName info.key)
    (some ⟨[], [(name, info)]⟩, .name name)
  | .createIndex nm info, some c =>
    let name := nm.getD (genIndexName info.key)
    match alGet? name c.indexes with
    | some ex =>
      if ex = info then (some { c with indexes := alUpsert name info c.indexes }, .name name)
      else (some c, .err .opFail)
    | none => (some { c with indexes := alUpsert name info c.indexes }, .name name)
  | .dropIndex _, none => (none, .err .opFail)
  | .dropIndex r, some c =>
    if alHas r.name c.indexes then (some { c with indexes := alErase r.name c.indexes }, .ok)
    else (some c, .err .opFail)
  | .dropIndexes, none => (none, .ok)
  | .dropIndexes, some c => (some { c with indexes := [] }, .ok)
  | .drop, _ => (none, .ok)

/-- write back an optional collection -/
def setOpt (s : SStore) (k : Ns) : Option SColl → SStore
  | none => alErase k s
  | some c => alUpsert k c s

/-- `list_collection_names()`: the existing collections of the database (system collections are
    not listed) -/
def listColls (s : SStore) (d : String) : List String :=
  ((alKeys s).filter (·.1 = d)).map (·.2) |>.filter (!isSystem ·)

def listCollsFiltered (s : SStore) (d : String) (f : NameFilter) : List String :=
  (listColls s d).filter f.applies

/-- each name once -/
def dedupNames : List String → List String
  | [] => []
  | a :: r => if r.contains a then dedupNames r else a :: dedupNames r

/-- `list_database_names()`: the databases that have an existing collection -/
def listDbs (s : SStore) : List String := dedupNames ((alKeys s).map (·.1))

def dropDb (s : SStore) (d : String) : SStore := s.filter (·.1.1 ≠ d)

/-- `rename_collection`: fails when the new name is invalid, the source is absent, the names are
    equal, or the target exists and `dropTarget` is not set; otherwise the source's documents and
    indexes are found under the new name and the old name no longer exists -/
def renameStep (s : SStore) (d n n' : String) (dropTarget : Bool) : SStore × Out :=
  if !validName n' then (s, .err .invalidName)
  else match alGet? (d, n) s with
    | none => (s, .err .opFail)
    | some c =>
      if n = n' then (s, .err .opFail)
      else if alHas (d, n') s && !dropTarget then (s, .err .opFail)
      else (alUpsert (d, n') c (alErase (d, n) s), .ok)

def step (σ : Nat → Nat) (s : SWorld) : Op → SWorld × Out
  | .getDb _ _ => (s, .ok)
  | .getColl _ n => (s, if validName n then .ok else .err .invalidName)
  | .coll h o =>
    let i := σ h.client
    let r := scollOp o (alGet? (h.db, h.coll) (s i))
    (upd s i (setOpt (s i) (h.db, h.coll) r.1), r.2)
  | .collRename h n' dt =>
    let i := σ h.client
    let r := renameStep (s i) h.db h.coll n' dt
    (upd s i r.1, r.2)
  | .createCollection h n =>
    let i := σ h.client
    if !validName n then (s, .err .invalidName)
    else if alHas (h.db, n) (s i) then (s, .err .collInvalid)
    else (upd s i (alUpsert (h.db, n) ⟨[], []⟩ (s i)), .ok)
  | .dropCollection h (.byName n) =>
    let i := σ h.client
    (upd s i (alErase (h.db, n) (s i)), .ok)
  -- pymongo takes only the *name* of a Collection argument
  | .dropCollection h (.byHandle h') =>
    let i := σ h.client
    (upd s i (alErase (h.db, h'.coll) (s i)), .ok)
  | .renameCollection h n n' dt =>
    let i := σ h.client
    let r := renameStep (s i) h.db n n' dt
    (upd s i r.1, r.2)
  | .listCollectionNames h none => (s, .names (listColls (s (σ h.client)) h.db))
  | .listCollectionNames h (some f) => (s, .names (listCollsFiltered (s (σ h.client)) h.db f))
  | .listDatabaseNames c => (s, .names (listDbs (s (σ c))))
  | .dropDatabase c (.byName d) => (upd s (σ c) (dropDb (s (σ c)) d), .ok)
  -- pymongo takes only the *name* of a Database argument
  | .dropDatabase c (.byHandle h) => (upd s (σ c) (dropDb (s (σ c)) h.db), .ok)

def run (σ : Nat → Nat) : SWorld → List Op → SWorld × List Out
  | s, [] => (s, [])
  | s, op :: ops =>
    let r := step σ s op
    let rs := run σ r.1 ops
    (rs.1, r.2 :: rs.2)

/-- outputs agree: listings are sets (compared up to order), everything else literally -/
def OutEquiv : Out → Out → Prop
  | .names l, .names l' => l.Perm l'
  | o, o' => o = o'

instance (o o' : Out) : Decidable (OutEquiv o o') := by
  unfold OutEquiv; split <;> infer_instance

def OutsEquiv : List Out → List Out → Prop
  | [], [] => True
  | o :: os, o' :: os' => OutEquiv o o' ∧ OutsEquiv os os'
  | _, _ => False

instance decOutsEquiv : (a b : List Out) → Decidable (OutsEquiv a b)
  | [], [] => isTrue trivial
  | [], _ :: _ => isFalse (fun h => h)
  | _ :: _, [] => isFalse (fun h => h)
  | o :: os, o' :: os' =>
    match (inferInstance : Decidable (OutEquiv o o')), decOutsEquiv os os' with
    | isTrue h1, isTrue h2 => isTrue ⟨h1, h2⟩
    | isFalse h1, _ => isFalse (fun h => h1 h.1)
    | _, isFalse h2 => isFalse (fun h => h2 h.2)

/-- two spec states denote the same finite maps -/
def SEq (s s' : SWorld) : Prop := ∀ i k, alGet? k (s i) = alGet? k (s' i)

/-! ### The abstraction of an Impl state: forget everything that is not an existing collection -/

/-- what a CollectionStore amounts to: nothing unless `is_created` -/
def toS (c : Coll) : Option SColl := if c.isCreated then some ⟨c.docs, c.indexes⟩ else none

def absDb (d : String) (db : DbStore) : SStore :=
  db.filterMap (fun p => (toS p.2).map (fun sc => ((d, p.1), sc)))

def absServer (s : Server) : SStore := s.flatMap (fun p => absDb p.1 p.2)

def abs (w : World) : SWorld := fun i => absServer (w.store i)

end MongoModel.Spec.Catalog
