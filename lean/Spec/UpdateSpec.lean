/-
  Spec.UpdateSpec — the notions C02's theorems are stated in: reading a dotted path, the shape
  of a writable path, membership-free descriptions of the array operators.
-/
import MongoModel.Update

namespace MongoModel.Spec
open MongoModel

/-- the value a dotted path holds: sub-documents by key, arrays by (non-negative) index -/
def getPath : List String → Val → Option Val
  | [], v => some v
  | p :: ps, .doc fs =>
    (match dget p fs with
     | some v => getPath ps v
     | none => none)
  | p :: ps, .arr xs =>
    (match pyInt? p with
     | some i => if i < 0 then none else
       (match xs[i.toNat]? with
        | some v => getPath ps v
        | none => none)
     | none => none)
  | _ :: _, _ => none

/-- the path can be written by `$set`-like operators: every container on the way that exists is
    a sub-document, or an array addressed by an index inside it (the last component may be any
    non-negative index: arrays are padded); what does not exist yet is created -/
def writable : List String → Val → Bool
  | [], _ => true
  | [_], .doc _ => true
  | [last], .arr _ => (match pyInt? last with | some i => decide (0 ≤ i) | none => false)
  | [_], _ => false
  | p :: ps, .doc fs =>
    (match dget p fs with
     | some v => writable ps v
     | none => true)      -- a missing intermediate: the rest of the path is created
  | p :: ps, .arr xs =>
    (match pyInt? p with
     | some i => if i < 0 then false else
       (match xs[i.toNat]? with
        | some v => writable ps v
        | none => false)
     | none => false)
  | _ :: _, _ => false

/-- `xs` with the element at `i` replaced, padded with nulls when `i` is past the end -/
def padSet (xs : List Val) (i : Nat) (v : Val) : List Val :=
  if i < xs.length then xs.set i v else xs ++ List.replicate (i - xs.length) .null ++ [v]

/-- `$addToSet` of one value: appended at the end unless an equal element is there -/
def addOne (xs : List Val) (v : Val) : List Val := if pyIn v xs then xs else xs ++ [v]

/-- `$addToSet` with `$each`: the listed values are added one after the other, so a value listed
    twice is added once -/
def addAll (xs es : List Val) : List Val := es.foldl addOne xs

/-- the first component of a dotted field name -/
def headOf (field : String) : String := (splitDots field).headD ""

/-- top-level field names an update specification addresses (first components of its paths;
    `$rename` also addresses its targets) -/
def addressed (u : Fields) : List String :=
  u.flatMap (fun kv =>
    match kv.2 with
    | .doc body => body.flatMap (fun fv =>
        headOf fv.1 :: (if kv.1 = "$rename" then (match fv.2 with | .str d => [d] | _ => []) else []))
    | _ => [])

end MongoModel.Spec
