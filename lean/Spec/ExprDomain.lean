/-
  Spec.ExprDomain — the domain D of `eval_eq_spec` (C04) as a decidable predicate, written as the
  list of *reasons* an (expression, document) pair lies outside it.  Each reason is a named
  exclusion class: a **known finding** (the unchanged code departs from the rules there; witness
  in known_findings.json) or a **scope limit**.  `exprInD` is "no reason".

  Known-finding classes (what mongomock does / what the rules say):
    arraypath      a numeric path component that meets an array indexes it / names a field of
                   its sub-documents (the other half of this class — a path through an array was
                   missing unless every element had the field — was repaired by f19df5e)
    scalararg      `$strcasecmp` given a bare operand iterates over it (`{$strcasecmp: "ab"}`
                   compares the characters `a` and `b`) / is rejected.  (The variadic operators
                   and `$sum $avg $min $max` were repaired by f32e005, e7bd52b; the operators of
                   a fixed arity — comparisons, `$subtract … $log`, `$in $split $arrayElemAt
                   $cond $ifNull $setEquals` — reject a wrong number of arguments, a bare operand
                   counting as one, since d10f41c.)
    boolnum        `$eq $ne $in` and array comparison identify true/false with 1/0 (Python ==)
    docorder       documents equal up to key order compare equal (Python ==)
    andstrict      `$and` parses every operand: one that raises after the first false operand
                   makes the `$and` raise              / evaluation stops at the first false
                   (kept: C20 relies on an unsupported operator in that position raising)
    partsnull      `$dateFromParts` with a part that is null or missing: `month … millisecond`
                   take their default, a null `year` is a TypeError        / the result is null
    partszero      `$dateFromParts` with `month` or `day` 0 (or any part but the year "", [], {}):
                   `value or default` takes the default (January, the 1st)
                                      / 0 is carried: December of the year before, the last day
                                        of the month before ("", [], {} are rejected)
    partscarry     `$dateFromParts` with a part outside its calendar range (month 13, day 31 in
                   April, hour 24, second 60, negative parts): ValueError / the excess is carried
                   (`millisecond` is carried by the code as by the rules)
  Repaired in the library (no longer classes; their witnesses are run as ordinary cases):
    exprtruth, exprmissing, strcasecmp, numtype, adddate, concatstr, nullarg, condkeys, undefvar,
    filtertruth, mapmissing, missingcmp, minmaxtypes, sumbool; arrayliteral (fce7e55, 9ff1475: an
    array in expression position evaluates its items, `{$not: [x]}` takes `x`), boolarith
    (10aa9e1: booleans are rejected in arithmetic and as indexes), letmissing (9957044: a `$let`
    variable bound to a missing value is missing where it is used), laxargs (442ff51, b53c397:
    `$ifNull` arity, extra fields, variable names), accbaremissing (50b60be: `{$sum: "$zz"}` is 0,
    `$avg $min $max` of a missing bare operand null).
  Scope limits: specraises (the rules reject the expression: no value to compare),
    specunmodelled (no oracle), deepcmp (comparison of documents, nested arrays, ObjectIds, aware
    dates), dupkeys, tzform (the `{date:, timezone:}` argument form of the date operators),
    unproved:<op> (operator outside the fragment the theorem covers).
-/
import Spec.Expr
import Spec.MatchDomain

namespace MongoModel.Spec
open MongoModel MongoModel.Expr

/-! ### constants: expressions that evaluate to themselves -/

mutual
  def isConst : Val → Bool
    | .str s => !(startsDollar s)
    | .arr xs => isConstList xs
    | .doc fs => isConstFields fs
    | _ => true
  def isConstFields : Fields → Bool
    | [] => true
    | (k, v) :: r => !(startsDollar k) && isConst v && isConstFields r
  def isConstList : List Val → Bool
    | [] => true
    | x :: r => isConst x && isConstList r
end

def nodupKeys : Fields → Bool
  | [] => true
  | (k, _) :: r => !(dhas k r) && nodupKeys r

/-! ### conditions on evaluated operands -/

def cmpScalar : Val → Bool
  | .null | .bool _ | .int _ | .dbl _ _ | .str _ | .date _ none => true
  | _ => false

/-- a scalar, or an array of scalars -/
def cmpFlat : Val → Bool
  | .arr xs => xs.all cmpScalar
  | v => cmpScalar v

/-- a boolean on one side and a number equal to 0 or 1 on the other may be compared -/
def boolNumClash (a b : Val) : Bool := (hasBool a || hasBool b) && (has01 a || has01 b)

mutual
  /-- contains a document with two or more fields -/
  def hasWideDoc : Val → Bool
    | .doc fs => fs.length ≥ 2 || hasWideDocFields fs
    | .arr xs => hasWideDocList xs
    | _ => false
  def hasWideDocFields : Fields → Bool
    | [] => false
    | (_, v) :: r => hasWideDoc v || hasWideDocFields r
  def hasWideDocList : List Val → Bool
    | [] => false
    | x :: r => hasWideDoc x || hasWideDocList r
end

def eqReasons (a b : Val) : List String :=
  (if boolNumClash a b then ["boolnum"] else []) ++
  (if hasWideDoc a && hasWideDoc b then ["docorder"] else []) ++
  (if cmpFlat a && cmpFlat b then [] else ["deepcmp"])

/-- reasons for one comparison of the BSON order between two present values, as the ordering
    operators and `$min` / `$max` make it -/
def ordReasons (a b : Val) : List String :=
  (if (a.isArr || b.isArr) && boolNumClash a b then ["boolnum"] else []) ++
  (if hasWideDoc a && hasWideDoc b then ["docorder"] else []) ++
  (if cmpFlat a && cmpFlat b then [] else ["deepcmp"])

/-- every value against every later one -/
def pairwiseReasons : List Val → List String
  | [] => []
  | a :: r => (r.map (ordReasons a)).flatten ++ pairwiseReasons r

def isBoolO : Option Val → Bool
  | some (.bool _) => true
  | _ => false
def arithOps : List String :=
  ["$add", "$multiply", "$subtract", "$divide", "$mod", "$pow", "$abs", "$ceil", "$floor", "$trunc"]

/-- the strict operators inside the fragment `eval_eq_spec` covers; the others (`$cmp $in`) are
    compared by the harness only -/
def provedStrict : List String :=
  arithOps ++ ["$eq", "$ne", "$gt", "$gte", "$lt", "$lte", "$not", "$isArray", "$isNumber",
    "$size", "$concatArrays", "$concat", "$arrayElemAt", "$strcasecmp", "$toLower", "$toUpper",
    "$toString"] ++ datePartOps ++ accOps

def unproved (k : String) : List String :=
  if provedStrict.contains k then [] else ["unproved:" ++ k]

/-- reasons local to a strict operator, from its evaluated operands -/
def strictReasons (k : String) (vs : List (Option Val)) : List String :=
  if arithOps.contains k then
    []                             -- booleans are rejected by the code as by the rules
  else if ["$eq", "$ne", "$gt", "$gte", "$lt", "$lte"].contains k then
    match vs with
    | [some a, some b] =>
      if k = "$eq" || k = "$ne" then eqReasons a b
      else
        -- ordering operators see a boolean/number clash only inside arrays
        (if (a.isArr || b.isArr) && boolNumClash a b then ["boolnum"] else []) ++
        (if hasWideDoc a && hasWideDoc b then ["docorder"] else []) ++
        (if cmpFlat a && cmpFlat b then [] else ["deepcmp"])
    | _ => []                      -- a missing operand sorts below everything on both sides
  else if k = "$in" then
    match vs with
    | [some x, some (.arr xs)] => (xs.map (eqReasons x)).flatten.eraseDups
    | _ => []
  else if k = "$min" || k = "$max" then pairwiseReasons (presentOf vs)
  else []                          -- `$sum` / `$avg` included: every value that is not a number is ignored

/-! ### `$dateFromParts`: the classes of its evaluated named arguments -/

/-- a part that Python counts as false and the rules do not read as its default -/
def falsyPart (key : String) (args : Env) : Bool :=
  match args.lookup key with
  | some (some (.int n)) => n == 0 && (key = "month" || key = "day")
  | some (some (.str s)) => s == ""
  | some (some (.arr xs)) => xs.isEmpty
  | some (some (.doc fs)) => fs.isEmpty
  | _ => false

/-- a part (taken with its default) outside its calendar range, 0 for month / day apart -/
def partOutOfRange (args : Env) : Bool :=
  let y := (partArg "year" args).getD 1970
  let mo := (partArg "month" args).getD 1
  let d := (partArg "day" args).getD 1
  let h := (partArg "hour" args).getD 0
  let mi := (partArg "minute" args).getD 0
  let s := (partArg "second" args).getD 0
  (mo != 0 && (mo < 1 || mo > 12)) ||
  (d != 0 && (d < 1 || d > daysInMonth y (if mo < 1 || mo > 12 then 1 else mo))) ||
  h < 0 || h > 23 || mi < 0 || mi > 59 || s < 0 || s > 59

def partsReasons (args : Env) : List String :=
  (if (partKeys.map (fun k => partArg k args)).any (· = .nullish) then ["partsnull"] else []) ++
  (if (partKeys.drop 1).any (fun k => falsyPart k args) then ["partszero"] else []) ++
  (if partOutOfRange args then ["partscarry"] else [])

def okReasons {α} (r : R α) : List String :=
  match r with
  | .ok _ => []
  | .error .unmodelled => ["specunmodelled"]
  | .error _ => ["specraises"]

/-- does the path meet an array at a numeric component?  (The code takes the component as an
    index into the array, the rules as the name of a field of its documents.) -/
def pathIndexesArray : List String → Val → Bool
  | [], _ => false
  | p :: ps, .doc fs =>
    match dget p fs with
    | some v => pathIndexesArray ps v
    | none => false
  | p :: ps, .arr xs =>
    (match keyInt p with | .ok none => false | _ => true) ||
    xs.any (fun x =>
      match x with
      | .doc gs => (match dget p gs with
        | some v => pathIndexesArray ps v
        | none => false)
      | _ => false)
  | _ :: _, _ => false

def strReasons (root : Val) (env : Env) (s : String) : List String :=
  match strKind s with
  | .var r =>
    match splitDotsChars r [] with
    | name :: rest =>
      match env.lookup name with
      | some (some v) => if pathIndexesArray rest v then ["arraypath"] else []
      | some none => []
      | none =>
        if name = "ROOT" || name = "CURRENT" then
          (if pathIndexesArray rest root then ["arraypath"] else [])
        else []                 -- `$$REMOVE` is missing; any other name is rejected by the rules
    | [] => []
  | .field r => if pathIndexesArray (splitDotsChars r []) root then ["arraypath"] else []
  | .lit => []

/-- `$and` stops at the first false operand by the rules; the code parses every operand, so an
    operand after that point that raises makes the whole `$and` raise -/
def andStrict : List (R (Option Val)) → Bool
  | [] => false
  | .ok v :: r => if toBool v then andStrict r else r.any (fun x => match x with | .ok _ => false | .error _ => true)
  | .error _ :: _ => false

/-- the unary operators: `{$op: [x]}` is an array literal to the code -/
def unaryOps : List String :=
  ["$abs", "$ceil", "$floor", "$trunc", "$not", "$toLower", "$toUpper", "$isArray", "$isNumber",
   "$toString"] ++ datePartOps

/-- the strict operators that take a bare operand as their one operand: the unary ones, `$size`,
    `$concatArrays`, and the variadic `$add $multiply $concat` -/
def bareOk (k : String) : Bool :=
  unaryOps.contains k || ["$size", "$concatArrays", "$add", "$multiply", "$concat"].contains k

mutual
  /-- reasons for expression `e` on `root` under `env`, children included -/
  def rExpr (root : Val) (env : Env) : Val → List String
    | .str s => strReasons root env s
    | .arr xs => rList root env xs
    | .doc fs =>
      if hasDollarKey' fs then rOperator root env fs
      else (if nodupKeys fs then [] else ["dupkeys"]) ++ rFields root env fs
    | _ => []
  termination_by structural x => x

  def rFields (root : Val) (env : Env) : Fields → List String
    | [] => []
    | (_, v) :: r => okReasons (sEval root env v) ++ rExpr root env v ++ rFields root env r
  termination_by structural x => x

  def rList (root : Val) (env : Env) : List Val → List String
    | [] => []
    | x :: r => okReasons (sEval root env x) ++ rExpr root env x ++ rList root env r
  termination_by structural x => x

  def rOperator (root : Val) (env : Env) : Fields → List String
    | [(k, .arr xs)] =>
      if k = "$literal" then []
      else if strictOps.contains k then
        unproved k ++ rList root env xs ++
        (if unaryOps.contains k && xs.any hasTzKeys then ["tzform"] else []) ++
        (match sList root env xs with
         | .ok vs => strictReasons k vs
         | .error _ => [])
      else if ["$and", "$or", "$cond", "$ifNull"].contains k then
        (if k = "$and" && andStrict (xs.map (sEval root env)) then ["andstrict"] else []) ++
        rList root env xs
      else ["unproved:" ++ k]
    | [(k, .doc gs)] =>
      if k = "$literal" then []
      else if k = "$let" then
        rVarsAt root env gs ++
        (match sVarsAt root env gs with
         | .ok bs => rAt root (bs.reverse ++ env) "in" gs
         | .error _ => [])
      else if k = "$map" then
        rAt root env "input" gs ++
        (match asVar gs, sAt root env "input" gs with
         | .ok name, .ok (some (.arr items)) =>
           (items.map (fun item => rAt root ((name, some item) :: env) "in" gs)).flatten
         | _, _ => [])
      else if k = "$filter" then
        rAt root env "input" gs ++
        (match asVar gs, sAt root env "input" gs with
         | .ok name, .ok (some (.arr items)) =>
           (items.map (fun item => rAt root ((name, some item) :: env) "cond" gs)).flatten
         | _, _ => [])
      else if k = "$cond" then
        rAt root env "if" gs ++ rAt root env "then" gs ++ rAt root env "else" gs
      else if k = "$switch" then
        rBranchesAt root env gs ++ (if dhas "default" gs then rAt root env "default" gs else [])
      else if accOps.contains k then
        okReasons (sEval root env (.doc gs)) ++ rExpr root env (.doc gs) ++
        (match sEval root env (.doc gs) with
         | .ok (some (.arr xs)) => strictReasons k (xs.map some)
         | .ok (some _) => []                     -- the one value the operator ranges over
         | .ok none => []                         -- nothing to range over: 0 / null
         | .error _ => [])
      else if strictOps.contains k then
        unproved k ++ (if hasTzKeys (.doc gs) then ["tzform"] else []) ++
        okReasons (sEval root env (.doc gs)) ++ rExpr root env (.doc gs) ++
        (if k = "$strcasecmp" then ["scalararg"] else []) ++
        (match sEval root env (.doc gs) with
         | .ok v => strictReasons k [v]
         | .error _ => [])
      else if k = "$and" || k = "$or" then
        okReasons (sEval root env (.doc gs)) ++ rExpr root env (.doc gs)
      else if k = "$dateFromParts" then
        ["unproved:" ++ k] ++ (if nodupKeys gs then [] else ["dupkeys"]) ++ rFields root env gs ++
        (match sVars root env gs with
         | .ok args => partsReasons args
         | .error _ => [])
      else ["unproved:" ++ k]
    | [(k, v)] =>
      if k = "$literal" then []
      else if accOps.contains k then
        okReasons (sEval root env v) ++ rExpr root env v ++
        (match sEval root env v with
         | .ok (some (.arr xs)) => strictReasons k (xs.map some)
         | .ok (some _) => []                     -- the one value the operator ranges over
         | .ok none => []                         -- nothing to range over: 0 / null
         | .error _ => [])
      else if strictOps.contains k then
        unproved k ++ okReasons (sEval root env v) ++ rExpr root env v ++
        (if k = "$strcasecmp" then ["scalararg"] else []) ++
        (match sEval root env v with
         | .ok r => strictReasons k [r]
         | .error _ => [])
      else if k = "$and" || k = "$or" then
        okReasons (sEval root env v) ++ rExpr root env v
      else ["unproved:" ++ k]
    | _ => []
  termination_by structural x => x

  def rAt (root : Val) (env : Env) (key : String) : Fields → List String
    | [] => []
    | (k, v) :: r =>
      if k = key then okReasons (sEval root env v) ++ rExpr root env v else rAt root env key r
  termination_by structural x => x

  def rVarsAt (root : Val) (env : Env) : Fields → List String
    | [] => []
    | (k, .doc vs) :: r => if k = "vars" then rFields root env vs else rVarsAt root env r
    | (_, _) :: r => rVarsAt root env r
  termination_by structural x => x

  def rBranchesAt (root : Val) (env : Env) : Fields → List String
    | [] => []
    | (k, .arr bs) :: r => if k = "branches" then rBranches root env bs else rBranchesAt root env r
    | (_, _) :: r => rBranchesAt root env r
  termination_by structural x => x

  def rBranches (root : Val) (env : Env) : List Val → List String
    | [] => []
    | .doc b :: r => rAt root env "case" b ++ rAt root env "then" b ++ rBranches root env r
    | _ :: r => rBranches root env r
  termination_by structural x => x
end

/-- the reasons `(e, d)` lies outside D; empty = inside -/
def exprReasons (e d : Val) : List String :=
  (okReasons (specEval d e) ++ rExpr d [] e).eraseDups

def exprInD (e d : Val) : Bool := (exprReasons e d).isEmpty

/-- `find({$expr: e})`: the matcher applies `toBool` to the value and reads a missing value as
    false, so nothing is excluded beyond the reasons of the value -/
def filterReasons (e d : Val) : List String := exprReasons e d

end MongoModel.Spec
