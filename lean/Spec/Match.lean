/-
  Spec.Match — the matching rules of C01, written from the property text (the oracle).

  * a dotted path reaches values by descending through sub-documents, through each
    sub-document element of an array, and through array indexes; a branch that has no such
    field is "missing"; every dot-separated component is a field name, the empty one included
    (`''` names the field `''`, `'a.'` the field `''` inside `a`);
  * a positive leaf predicate holds on a path iff some reached value satisfies it — the value
    itself, or, when it is an array, one of its elements; equality to null (and `$in` with
    null) also holds on a missing branch;
  * ordering operators relate only values of one BSON type class;
  * `$ne`, `$nin`, `$not` hold exactly when the positive form does not;
  * `$and`, `$or`, `$nor` are conjunction, disjunction and negated disjunction.

  Independent of MongoModel.Filter: it shares only the value type, `Val.tc`, the literal-regex
  helper and the leaf comparison of two values of one class.
  Trusted: this file *is* the statement of "what MongoDB does" (no server is available offline).
-/
import MongoModel.Bson
import MongoModel.Filter

namespace MongoModel.Spec
open MongoModel

/-! ### BSON equality and order -/

mutual
  /-- MongoDB value equality: numbers by numeric value, everything else by type and content,
      documents field by field in order. -/
  def bsonEq : Val → Val → Bool
    | .null, .null => true
    | .bool a, .bool b => a == b
    | .int i, .int j => i == j
    | .int i, .dbl m e => Num.eq ⟨i, 0⟩ ⟨m, e⟩
    | .dbl m e, .int i => Num.eq ⟨i, 0⟩ ⟨m, e⟩
    | .dbl m e, .dbl m' e' => Num.eq ⟨m, e⟩ ⟨m', e'⟩
    | .str a, .str b => a == b
    | .date u o, .date u' o' => dateUtc u o == dateUtc u' o'
    | .oid a, .oid b => a == b
    | .doc fs, .doc gs => bsonEqFields fs gs
    | .arr xs, .arr ys => bsonEqList xs ys
    | _, _ => false
  def bsonEqFields : Fields → Fields → Bool
    | [], [] => true
    | (k, v) :: r, (k', v') :: r' => k == k' && bsonEq v v' && bsonEqFields r r'
    | _, _ => false
  def bsonEqList : List Val → List Val → Bool
    | [], [] => true
    | x :: xs, y :: ys => bsonEq x y && bsonEqList xs ys
    | _, _ => false
end

/-- the order of two scalars of one type class (`none`: not ordered by the model — ObjectIds) -/
def scalarCmp : Val → Val → Option Ordering
  | .null, .null => some .eq
  | .bool a, .bool b => some (compare a.toNat b.toNat)
  | .str a, .str b => some (compare a b)
  | .date u o, .date u' o' => some (compare (dateUtc u o) (dateUtc u' o'))
  | a, b =>
    match a.num?, b.num?, a.isNumber, b.isNumber with
    | some x, some y, true, true => some (if Num.lt x y then .lt else if Num.eq x y then .eq else .gt)
    | _, _, _, _ => none

/-! ### paths -/

/-- the values a dotted path reaches; `none` = a branch on which the field is missing -/
def reach : List String → Val → List (Option Val)
  | [], v => [some v]
  | p :: ps, .doc fs =>
    match dget p fs with
    | some v => reach ps v
    | none => [none]
  | p :: ps, .arr xs =>
    match pyInt? p with
    | some i => if i < 0 then [] else match xs[i.toNat]? with
      | some v => reach ps v
      | none => []
    | none =>
      xs.flatMap (fun x =>
        match x with
        | .doc gs => (match dget p gs with
          | some v => reach ps v
          | none => [none])
        | _ => [])
  | _ :: _, _ => [none]

/-! ### leaf predicates -/

/-- a positive predicate on one value, with its verdict on a missing branch -/
structure Leaf where
  onVal : Val → Bool
  onMissing : Bool
  /-- whether array elements are also tried (false for `$size`, `$elemMatch`) -/
  elems : Bool := true

def Leaf.holdsOn (l : Leaf) : Option Val → Bool
  | none => l.onMissing
  | some (.arr xs) => l.onVal (.arr xs) || (l.elems && xs.any l.onVal)
  | some v => l.onVal v

/-- the predicate holds on the path -/
def Leaf.holds (l : Leaf) (cs : List (Option Val)) : Bool := cs.any l.holdsOn

def eqLeaf (v : Val) : Leaf :=
  { onVal := fun x => bsonEq x v, onMissing := (match v with | .null => true | _ => false) }

def cmpLeaf (op : CmpOp) (v : Val) : Leaf :=
  { onVal := fun x => x.tc == v.tc && (match scalarCmp x v with
      | some o => op.holds o
      | none => false),
    onMissing := (match v, op with
      | .null, .gte => true
      | .null, .lte => true
      | _, _ => false) }

def inLeaf (vs : List Val) : Leaf :=
  { onVal := fun x => vs.any (bsonEq x), onMissing := vs.any (fun v => match v with | .null => true | _ => false) }

def typeLeaf (p : Val → Bool) : Leaf := { onVal := p, onMissing := false }

def sizeLeaf (n : Int) : Leaf :=
  { onVal := fun x => match x with | .arr xs => (xs.length : Int) == n | _ => false,
    onMissing := false, elems := false }

def regexLeaf (r : LitRegex) : Leaf :=
  { onVal := fun x => match x with | .str s => r.search s | _ => false, onMissing := false }

/-- the operand is a scalar the ordering operators are specified on -/
def orderable : Val → Bool
  | .doc _ | .arr _ | .oid _ => false
  | _ => true

/-! ### conditions and filters -/

/-- a condition is an operator document when it is non-empty and every key starts with `$` -/
def isOps (fs : Fields) : Bool := !fs.isEmpty && fs.all (fun kv => kv.1.startsWith "$")

def hasDollarKey (fs : Fields) : Bool := fs.any (fun kv => kv.1.startsWith "$")

def cmpHolds (op : CmpOp) (sv : Val) (cs : List (Option Val)) : R Bool :=
  if orderable sv then .ok ((cmpLeaf op sv).holds cs) else unmodelled

/-- operators that do not nest -/
def leafHolds (op : String) (sv : Val) (cs : List (Option Val)) : R Bool :=
  if op = "$eq" then .ok ((eqLeaf sv).holds cs)
  else if op = "$ne" then .ok (!(eqLeaf sv).holds cs)
  else if op = "$gt" then cmpHolds .gt sv cs
  else if op = "$gte" then cmpHolds .gte sv cs
  else if op = "$lt" then cmpHolds .lt sv cs
  else if op = "$lte" then cmpHolds .lte sv cs
  else if op = "$in" then (match sv with
    | .arr vs => .ok ((inLeaf vs).holds cs)
    | _ => .error .opFail)
  else if op = "$nin" then (match sv with
    | .arr vs => .ok (!(inLeaf vs).holds cs)
    | _ => .error .opFail)
  else if op = "$exists" then .ok (sv.truthy == cs.any Option.isSome)
  else if op = "$type" then (match sv with
    | .str a => if !typeAliases.contains a then .error .opFail
      else (match typePred a with
        | some p => .ok ((typeLeaf p).holds cs)
        | none => .error .notImpl)
    | _ => .error .opFail)
  else if op = "$size" then (match sv with
    | .int n => .ok ((sizeLeaf n).holds cs)
    | _ => unmodelled)
  else if op = "$regex" then (match sv with
    | .str p => (match parseLitRegex p with
      | some r => .ok ((regexLeaf r).holds cs)
      | none => unmodelled)
    | _ => unmodelled)
  else if notImplementedOperators.contains op then .error .notImpl
  else .error .opFail

/-- an `$elemMatch` query made of operator conditions (applied to the element itself) rather
    than of field conditions -/
def elemIsOps : Fields → Bool
  | (k, _) :: _ => k.startsWith "$" && !(["$and", "$or", "$nor", "$comment"].contains k)
  | [] => false

mutual
  /-- every item of the filter holds -/
  def matchFields : Fields → Val → R Bool
    | [], _ => .ok true
    | (key, c) :: rest, d => do
      let here ← (
        if key = "$comment" then pure true
        else if key = "$and" then (match c with
          | .arr (q :: qs) => allMatch (q :: qs) d
          | _ => .error .opFail)
        else if key = "$or" then (match c with
          | .arr (q :: qs) => anyMatch (q :: qs) d
          | _ => .error .opFail)
        else if key = "$nor" then (match c with
          | .arr (q :: qs) => (anyMatch (q :: qs) d).map (!·)
          | _ => .error .opFail)
        else if key = "$expr" then unmodelled
        else if key.startsWith "$" then .error .opFail      -- includes a top-level `$not`
        else condHolds c (reach (splitDots key) d))
      let more ← matchFields rest d
      pure (here && more)
  termination_by structural x _ => x

  def matchVal : Val → Val → R Bool
    | .doc fs, d => matchFields fs d
    | _, _ => .error .opFail
  termination_by structural x _ => x

  def allMatch : List Val → Val → R Bool
    | [], _ => .ok true
    | q :: qs, d => do
      let a ← matchVal q d
      let b ← allMatch qs d
      pure (a && b)
  termination_by structural x _ => x

  def anyMatch : List Val → Val → R Bool
    | [], _ => .ok false
    | q :: qs, d => do
      let a ← matchVal q d
      let b ← anyMatch qs d
      pure (a || b)
  termination_by structural x _ => x

  /-- a condition (the right-hand side of `path: …`) holds on the reached values `cs` -/
  def condHolds : Val → List (Option Val) → R Bool
    | .doc fs, cs =>
      if isOps fs then opsHold fs cs
      else if hasDollarKey fs then unmodelled
      else .ok ((eqLeaf (.doc fs)).holds cs)
    | v, cs => .ok ((eqLeaf v).holds cs)
  termination_by structural x _ => x

  /-- every operator of an operator document holds (each on its own) -/
  def opsHold : Fields → List (Option Val) → R Bool
    | [], _ => .ok true
    | (op, .doc gs) :: rest, cs => do
      let here ← (
        if op = "$not" then
          (if isOps gs then (opsHold gs cs).map (!·) else .error .opFail)
        else if op = "$elemMatch" then
          anyM (fun c => match c with
            | some (.arr xs) => anyM (fun e => if elemIsOps gs then opsHold gs [some e] else matchFields gs e) xs
            | _ => .ok false) cs
        else leafHolds op (.doc gs) cs)
      let more ← opsHold rest cs
      pure (here && more)
    | (op, .arr vs) :: rest, cs => do
      let here ← (
        if op = "$all" then (if vs.isEmpty then pure false else allHold vs cs)
        else if op = "$not" || op = "$elemMatch" then .error .opFail
        else leafHolds op (.arr vs) cs)
      let more ← opsHold rest cs
      pure (here && more)
    | (op, sv) :: rest, cs => do
      let here ← (
        if op = "$not" || op = "$elemMatch" || op = "$all" then .error .opFail
        else leafHolds op sv cs)
      let more ← opsHold rest cs
      pure (here && more)
  termination_by structural x _ => x

  /-- `$all`: every listed value is matched by equality, or its `$elemMatch` by some array -/
  def allHold : List Val → List (Option Val) → R Bool
    | [], _ => .ok true
    | .doc [("$elemMatch", .doc gs)] :: rest, cs => do
      let here ← anyM (fun c => match c with
        | some (.arr xs) => anyM (fun e => if elemIsOps gs then opsHold gs [some e] else matchFields gs e) xs
        | _ => .ok false) cs
      let more ← allHold rest cs
      pure (here && more)
    | v :: rest, cs => do
      let more ← allHold rest cs
      pure ((eqLeaf v).holds cs && more)
  termination_by structural x _ => x
end

/-- the oracle: does `filter` select `doc`? -/
def specMatches (filter doc : Val) : R Bool := matchVal filter doc

end MongoModel.Spec
