/-
  Spec.Single — what C14 and C15 are stated in: the target of a single-document operation and
  the one-at-a-time reading of a bulk.
-/
import Spec.Counts
import MongoModel.FindModify

namespace MongoModel.Spec
open MongoModel

/-- the document a sorted single-document operation must act on: the first selected document in
    the requested sort order (natural order when there is no sort) -/
def firstSorted (sort : Option SortSpec) (sel : List (Val × Val)) : R (Option Val) :=
  (getDataset sort (sel.map (·.2))).map List.head?

/-- every entry of `a` whose key is not `k` is an entry of `b`, and conversely: the two
    collections differ at most in the document stored under `k` -/
def sameExcept (k : Val) (a b : List (Val × Val)) : Prop :=
  (∀ p ∈ a, pyEq p.1 k = false → p ∈ b) ∧ (∀ p ∈ b, pyEq p.1 k = false → p ∈ a)

/-- a bulk request as the single operation it stands for -/
def asSingle (req : Val) : Val :=
  match req with
  | .arr [.str "InsertOne", d] => .arr [.str "insert_one", d]
  | .arr [.str "UpdateOne", f, u, up] => .arr [.str "update_one", f, u, up]
  | .arr [.str "UpdateMany", f, u, up] => .arr [.str "update_many", f, u, up]
  | .arr [.str "ReplaceOne", f, u, up] => .arr [.str "replace_one", f, u, up]
  | .arr [.str "DeleteOne", f] => .arr [.str "delete_one", f]
  | .arr [.str "DeleteMany", f] => .arr [.str "delete_many", f]
  | v => v

/-- the state after issuing the operations one at a time -/
def seqOps (cfg : Cfg) (now : Int) (ops : List Val) (c : Coll) : Coll :=
  ops.foldl (fun c op => (stepColl cfg now c op).1) c

/-- requests the bulk builder and the single-operation entry points validate alike: a
    `ReplaceOne` whose replacement passes `validate_ok_for_replace`, deletes with a mapping
    filter (the bulk accepts a `$`-replacement the single call rejects: known finding) -/
def plainRequest (req : Val) : Bool :=
  match req with
  | .arr [.str "ReplaceOne", _, u, _] => (match validateReplace u with | .ok _ => true | .error _ => false)
  | .arr [.str "InsertOne", _] => true
  | .arr [.str "UpdateOne", _, _, _] => true
  | .arr [.str "UpdateMany", _, _, _] => true
  | .arr [.str "DeleteOne", .doc _] => true
  | .arr [.str "DeleteMany", .doc _] => true
  | _ => false

end MongoModel.Spec
