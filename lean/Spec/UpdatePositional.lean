/-
  Spec.UpdatePositional — MongoDB's rule for the positional operator `$` of update paths
  (manual, "$ (update)"), written from the property text; C02's positional theorems are stated
  against it.

  * `{<op>: {"f.$.x": v}}` with a query that holds a condition on the array field `f`: the `$`
    "acts as a placeholder for the FIRST element that matches the query document": the index of
    the first element of `f` that satisfies the query's condition on that array.
  * "the array field must appear as part of the query document": a query without a condition on
    `f`, or one whose condition no element satisfies, makes the update an ERROR ("The positional
    operator did not find the match needed from the query").
  * a positional path on an upsert is an error (no array element was matched).
  * everything but the addressed element — the other elements, the other fields of the element —
    is left as it was.

  What the manual leaves open, or what we are not sure of, is OUTSIDE the rule as stated here
  (`posIndex` answers `none`): several conditions on the same array outside one `$elemMatch`
  (which of them fixes the position), conditions on the array inside `$and` / `$or` / `$nor`,
  negations (`$ne`, `$nin`, `$not`: "cannot be used"), an `$elemMatch` next to other operators,
  nested arrays (several `$`), `$[]` / `$[id]`.
-/
import Spec.UpdateSpec
import Spec.Match

namespace MongoModel.Spec
open MongoModel

/-- a field name as the rule is stated for: not empty, no dot, no `$` -/
def plainName (s : String) : Bool :=
  s != "" && !s.toList.contains '.' && !s.toList.contains '$'

/-- what ONE query condition on the array field asks of an element of the array -/
inductive ElemCond where
  | sub (q : Val)      -- the element must match the query `q` (`f.k: c` gives `{k: c}`, `$elemMatch`
                       -- over fields gives its argument)
  | val (c : Val)      -- the element, as a value, must satisfy the condition `c` (`f: 3`,
                       -- `f: {$gt: 2}`, `$elemMatch` made of operators)

/-- the query's conditions on the array field `f`: the entries `f: …` and `f.<path>: …` -/
def condsOn (f : String) (filter : Fields) : Fields :=
  filter.filter (fun kv => kv.1 == f || (splitDots kv.1).head? == some f)

/-- operators under which the manual forbids (or does not define) the positional operator -/
def negationOps : List String := ["$ne", "$nin", "$not", "$nor"]

/-- the condition mentions a negation at its top -/
def negated (c : Val) : Bool :=
  match c with
  | .doc cs => cs.any (fun kv => negationOps.contains kv.1)
  | _ => false

/-- the element condition of one entry of `condsOn f filter` (`none`: outside the rule) -/
def elemCond (f : String) (kv : String × Val) : Option ElemCond :=
  if negated kv.2 then none
  else if kv.1 = f then
    match kv.2 with
    | .doc [("$elemMatch", .doc q)] =>
      if q.all (fun e => !e.1.startsWith "$") then some (.sub (.doc q))
      else if elemIsOps q && !q.any (fun e => negationOps.contains e.1) then some (.val (.doc q))
      else none
    | .doc cs => if dhas "$elemMatch" cs then none else some (.val kv.2)
    | c => some (.val c)
  else
    match splitDots kv.1 with
    | _ :: q :: r =>
      -- `f.0.k` addresses one element by its index and `f.$elemMatch` is no field path: outside
      if (pyInt? q).isSome || joinDots (q :: r) == "$elemMatch" then none
      else some (.sub (.doc [(joinDots (q :: r), kv.2)]))
    | _ => none

/-- the element satisfies the condition (the oracle of C01 decides) -/
def ElemCond.holds : ElemCond → Val → R Bool
  | .sub q, el => specMatches q el
  | .val c, el => specMatches (.doc [("v", c)]) (.doc [("v", .arr [el])])

/-- … as a Boolean (an evaluation error is no satisfaction) -/
def ElemCond.sat (c : ElemCond) (el : Val) : Bool := c.holds el == .ok true

/-- **the rule**: what `$` stands for in a path through the array field `f` holding `xs`, under
    the query `filter`.  `some (some i)`: the index `i` of the first element satisfying the
    query's condition on `f`; `some none`: the update is an error (the query does not constrain
    `f`, or no element satisfies the condition); `none`: outside the rule as stated here. -/
def posIndex (f : String) (filter : Fields) (xs : List Val) : Option (Option Nat) :=
  if filter.any (fun kv => kv.1.startsWith "$") then none
  else
    match condsOn f filter with
    | [] => some none
    | [kv] =>
      (match elemCond f kv with
       | none => none
       | some c =>
         if xs.all (fun el => match c.holds el with | .ok _ => true | .error _ => false) then
           some (xs.findIdx? c.sat)
         else none)
    | _ => none

/-- the document after `{$set-like: {"f.$.x": …}}`: the element at the resolved index edited by
    `edit`, everything else as it was; an error when `$` resolves to nothing or on an upsert -/
def positionalEdit (f : String) (filter : Fields) (wasInsert : Bool) (edit : Val → Option Val)
    (fs : Fields) : Option (Option Val) :=
  if wasInsert then some none
  else
    match dget f fs with
    | some (.arr xs) =>
      (match posIndex f filter xs with
       | none => none
       | some none => some none
       | some (some i) =>
         (match xs[i]? with
          | some el =>
            (match edit el with
             | some el' => some (some (.doc (dset f (.arr (xs.set i el')) fs)))
             | none => some none)
          | none => none))
    | _ => none

def isDocVal : Val → Bool
  | .doc _ => true
  | _ => false

/-- model answer and rule agree: the same document, or an error on both sides; nothing is said
    where the rule is silent -/
def Agrees (impl : R Val) (spec : Option (Option Val)) : Prop :=
  match spec with
  | some (some d') => impl = .ok d'
  | some none => ∃ e, impl = .error e
  | none => True

/-- `$set` of the field `x` of an element: the element must be a document -/
def setField (x : String) (v : Val) (el : Val) : Option Val :=
  match el with
  | .doc es => some (.doc (dset x v es))
  | _ => none

/-- the operator applies an `_updaters` function to the addressed place (`$setOnInsert` only on
    an insert): these go through `_update_document_fields_positional` -/
def posFieldsOp (op : String) (wi : Bool) : Option Updater :=
  match updaterOf op with
  | some u => some u
  | none =>
    if op = "$setOnInsert" then (if wi then some .set else none)
    else if op = "$currentDate" then some .currentDate
    else none

/-! ### the classes where the code departs from the rule (each a known finding)

`positional-unconstrained`        the query holds no condition on the array (or hides it in
                                  `$and`/`$or`, or the call is `find_one_and_update`, which hands
                                  `{_id: …}` to the update): the code takes the first element
                                  instead of failing;
`positional-value-condition`      the condition is on the elements as values (`d: 2`,
                                  `d: {$gt: 1}`): the code raises instead of updating;
`positional-prefix-key`           a query key that merely STARTS WITH the array's name (`ab` for
                                  `a`) is taken for a condition on the array;
`positional-carried-container`    after the first positional key the code keeps the container
                                  it reached and applies every later positional key to it;
`positional-whole-element-op`     `f.$` as the whole path: every operator stores its operand as
                                  the element;
`positional-missing-intermediate` `f.$.c.y` with `c` missing in the element: KeyError;
`positional-needs-elemmatch`      `$push`/`$addToSet`/`$pull`/`$pullAll` want an `$elemMatch`;
`positional-upsert`               a positional path on an upsert writes into the seed document. -/

/-- the query keys the CODE takes for conditions on `f` (`el.startswith(part)`) -/
def prefixKeys (f : String) (filter : Fields) : Fields :=
  filter.filter (fun kv => kv.1.startsWith f)

/-- the domain of `positional_resolves_first_match`: one condition on the array, asking the
    element to match a query, no other key sharing the prefix, no `$`-key in the query -/
def posDomain (f : String) (filter : Fields) (q : Val) : Prop :=
  filter.any (fun kv => kv.1.startsWith "$") = false ∧
  ∃ kv, prefixKeys f filter = [kv] ∧ condsOn f filter = [kv] ∧ elemCond f kv = some (.sub q)

end MongoModel.Spec
