/-
  Spec.CountsExt — vocabulary of the C10 extension: what `distinct` reads from a document, the
  change test behind `modified_count`, and the counts a bulk must report.
  Everything is compared with `Spec.selectDocs` (Spec/Counts.lean), THE match relation.
-/
import Spec.Single

namespace MongoModel.Spec
open MongoModel

/-! ### distinct -/

/-- the values `distinct(key)` reads from one document: every value the dotted path reaches
    (`candsKey`, the traversal the matcher uses), an array standing for its elements; a branch
    on which the field is missing contributes nothing -/
def distinctItems (key : String) (d : Val) : R (List Val) :=
  (candsKey key d).map (fun cs => cs.flatMap (fun cv =>
    match cv with
    | none => []
    | some (.arr xs) => xs
    | some x => [x]))

/-- keep the first occurrence of every value, up to Python `==` (`pyEq`: `1 == 1.0 == True`) -/
def dedupe (xs : List Val) : List Val :=
  xs.foldl (fun acc x => if pyIn x acc then acc else acc ++ [x]) []

/-! ### modified_count -/

/-- the content of the entry's document changed: the document stored under the entry's key AFTER
    the call (`c'`) is no longer `==`, as a dict, to what it was.  This is also the code's change
    test `_copy_field(existing_document, dict) != snapshot` (collection.py `_apply_update`): Python
    `!=` between plain dicts — blind to key order and to the numeric type (`1 == 1.0`), whatever
    built the stored document -/
def contentChangedAfter (c' : Coll) (p : Val × Val) : Bool :=
  match c'.lookup p.1 with
  | some new => !pyEq new p.2
  | none => false

/-- the `UpdateResult` the client sees (`updateOut`) for an update that matched `n` documents,
    modified `k` and upserted nothing -/
def reportOf (n k : Nat) : Val :=
  .doc [("matched", .int n), ("modified", .int k), ("upserted", .null)]

/-! ### inserted ids -/

/-- the document as `insert` stores it: normalised (`patchDT`), carrying the `_id` the call
    returned when it had none -/
def storedForm (d id : Val) : Val :=
  patchDT (match d with
    | .doc fs => .doc (if dhas "_id" fs then fs else dset "_id" id fs)
    | v => v)

/-! ### bulk_write: the counts as sums of selection sizes -/

/-- how many documents the filter `f` selects on `c` at the clock `now` (after the expiry pass
    every entry point starts with); an error when the expiry pass or the matcher raises -/
def selectedCount (now : Int) (c : Coll) (f : Val) : R Nat := do
  let c1 ← expire now c
  let sel ← selectDocs (patchDT f) c1.docs
  pure sel.length

/-- what one (non-upserting) request must add to `(nMatched, nRemoved)`: the size of its
    selection on the collection it runs on — at most one for the single-document forms -/
def requestCounts (now : Int) (c : Coll) (req : Val) : R (Nat × Nat) :=
  match req with
  | .arr [.str "UpdateOne", f, _, _] => (selectedCount now c f).map (fun n => (min n 1, 0))
  | .arr [.str "ReplaceOne", f, _, _] => (selectedCount now c f).map (fun n => (min n 1, 0))
  | .arr [.str "UpdateMany", f, _, _] => (selectedCount now c f).map (fun n => (n, 0))
  | .arr [.str "DeleteOne", f] => (selectedCount now c f).map (fun n => (0, min n 1))
  | .arr [.str "DeleteMany", f] => (selectedCount now c f).map (fun n => (0, n))
  | _ => .ok (0, 0)

/-- the sums over the requests, each one counted on the collection its predecessors — issued one
    at a time (`asSingle`, `stepColl`) — leave -/
def bulkCounts (cfg : Cfg) (now : Int) : List Val → Coll → R (Nat × Nat)
  | [], _ => .ok (0, 0)
  | r :: rest, c => do
    let a ← requestCounts now c r
    let b ← bulkCounts cfg now rest (stepColl cfg now c (asSingle r)).1
    pure (a.1 + b.1, a.2 + b.2)

/-- the request does not ask for an upsert -/
def noUpsert (req : Val) : Bool :=
  match req with
  | .arr [.str "UpdateOne", _, _, up] => !boolOf up
  | .arr [.str "UpdateMany", _, _, up] => !boolOf up
  | .arr [.str "ReplaceOne", _, _, up] => !boolOf up
  | _ => true

/-- the request is an `InsertOne` -/
def isInsertOne (req : Val) : Bool :=
  match req with
  | .arr [.str "InsertOne", _] => true
  | _ => false

end MongoModel.Spec
