/-
  Spec.PipelineDomain — the domain D of the C03 theorems as decidable predicates, written as
  lists of *reasons* a case lies outside it (see Spec/Pipeline.lean for the oracle).  Each reason
  is a named exclusion class:

    known findings (the code departs from MongoDB's definition; witnesses in
    known_findings.json, replayed on every run)
      groupboolnum   group keys mixing booleans and numbers (`true == 1` in Python): merged when
                     the sort happens to leave them adjacent
      groupdockey    document-valued group keys equal up to field order are merged
      addtosetboolnum  `$addToSet` merges `true` with `1`, `false` with `0` (Python `==`)
      lookupboolnum  `$lookup` joins `true` to `1` (Python `==`)
      bucketcrosstype / bucketboolnum / bucketdefaulttype / bucketdupbounds /
      bucketdefaultinside / bucketgroupbyconst   `$bucket` (Spec/PipelineExt.lean, `bucketReasons`):
                     Python `<` / `>=` / `sorted` standing in for the BSON order and for the
                     server's option checks
    repaired in the library since (classes deleted, theorems strengthened; the witnesses stay
    regression cases of the check): countempty, groupnullempty, groupfalsyid, addtosetfalsy,
    firstmissing, minmaxtypes, sumbool, unwindindex, unwindindexparent, multiopstage, neglimit,
    projectidexcl, accmissing, addfieldsorder, limitdouble
    scope limits (nothing is claimed; the model may still be compared with the code)
      nospec         the stage has no oracle in Spec/Pipeline.lean
      filterdomain / sortdomain / projdomain   the parameter is outside the domain of the
                     C01 / C11 / C12 oracle that the stage's oracle is built from
-/
import MongoModel.Pipeline
import Spec.Pipeline
import Spec.MatchDomain
import Spec.OrderDomain
import Spec.ProjectDomain

namespace MongoModel.Spec.Pipe
open MongoModel

/-- group keys on which Python `==` and the BSON order agree about "same key": null, numbers,
    strings, naive datetimes (booleans excluded: `true == 1`) -/
def groupKeyOk : Val → Bool
  | .null | .int _ | .dbl _ _ | .str _ | .date _ none => true
  | _ => false

/-- every datetime in the value is in stored form (naive, whole milliseconds) -/
def normalV (v : Val) : Bool := allDatesB normalB v

def tag (t : String) (rs : List String) : List String := rs.map (fun r => t ++ r)

/-- why the stage `{op: opts}` on `docs` lies outside the domain of `stage_eq_spec_partial` -/
def stageReasons (op : String) (opts : Val) (docs : List Val) : List String :=
  if op = "$match" then
    (if normalV opts then [] else ["datenorm"]) ++
    (if docs.isEmpty then tag "filter:" (Spec.reasons opts (.doc [])) else []) ++
    docs.flatMap (fun d => (if normalV d then [] else ["datenorm"]) ++
      tag "filter:" (Spec.reasons opts d))
  else if op = "$sort" then
    match opts with
    | .doc fs =>
      (match specSortSpec fs with
       | some spec => tag "sort:" (Spec.Order.specReasons spec docs)
       | none => ["nospec"])
    | _ => ["nospec"]
  else if op = "$skip" || op = "$limit" then []
  else if op = "$count" then []
  else if op = "$project" then
    match opts with
    | .doc options =>
      (if options.all (fun kv => isFlag kv.2) then [] else ["nospec"]) ++
      tag "proj:" (Spec.Proj.aggReasons opts (.doc [])) ++
      docs.flatMap (fun d => tag "proj:" (Spec.Proj.aggReasons opts d))
    | _ => ["nospec"]
  else if op = "$unwind" then
    match unwindArgs opts with
    | some _ =>
      docs.flatMap (fun d => match d with
        | .doc _ => []
        | _ => ["nondoc"])
    | none => ["nospec"]
  else ["nospec"]

/-- D along a pipeline: the reasons of every stage on the documents the oracle feeds it -/
def pipelineReasons : List Val → List Val → List String
  | [], _ => []
  | .doc [(op, opts)] :: rest, docs =>
    stageReasons op opts docs ++
      (match specStage op opts docs with
       | some out => pipelineReasons rest out
       | none => ["nospec"])
  | _ :: _, _ => []          -- not a one-field document: rejected (`stageRejected`), no class

/-- … for the verdict `specPipelineV`: a rejected pipeline is rejected whatever its stages hold -/
def pipelineReasonsV (pipeline docs : List Val) : List String :=
  if pipeline.any stageRejected then [] else pipelineReasons pipeline docs

def inD (pipeline docs : List Val) : Bool := (pipelineReasons pipeline docs).isEmpty

end MongoModel.Spec.Pipe
