import Generated.Tables
import Generated.Vocab
import Generated.Options
