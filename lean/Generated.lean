import Generated.Tables
import Generated.Vocab
import Generated.Options
import Generated.RWLockProtocol
import Generated.LockDiscipline
import Generated.RWLockCert_2
import Generated.RWLockCert_3
import Generated.AggDiscipline
