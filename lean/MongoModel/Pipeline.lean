/-
  MongoModel.Pipeline — the aggregation pipeline (property C03): `process_pipeline`, the dispatch
  table `_PIPELINE_HANDLERS` and the stage handlers of mongomock/aggregate.py, followed handler by
  handler, quirks included (line numbers of the tree at the time of writing):

    process_pipeline / _PIPELINE_HANDLERS        aggregate.py:1609-1662
    _handle_match_stage                          1601-1606
    _handle_sort_stage                           1367-1376
    _handle_skip_stage / _handle_limit_stage     (after _handle_match_stage)
    _handle_count_stage                          1583-1590
    _handle_project_stage (+ _combine_projection_spec, _project_by_spec)   1425-1538
    _handle_group_stage / _accumulate_group / _GROUPING_OPERATOR_MAP       175-219, 1073-1111, 1259-1286
    _handle_bucket_stage                         1289-1349
    _handle_unwind_stage                         1379-1420
    _handle_lookup_stage                         1124-1163
    _handle_add_fields_stage ($addFields, $set)  1541-1559
    _handle_replace_root_stage                   1486-1501  (the function is named in the file)
    _handle_facet_stage                          1593-1598
    Collection.aggregate                         collection.py (normalises the pipeline's datetimes,
                                                 reads the stored documents, runs process_pipeline)

  A pipeline is a raw `Val` list of stage dicts exactly as the Python code sees it; the documents
  flowing through are `List Val`.  The database is the list of its collections' contents (what
  `find()` returns for each), enough for `$lookup`.

  Values are immutable here.  Some Python handlers mutate in place (`$lookup` sets a key on the
  input documents, `$unwind` writes into a deep copy that keeps internal sharing; `$addFields`
  copies every level of a dotted name before it writes, so it never touches its input).  What a
  value model cannot see — one object reachable twice (`$facet` siblings, a sub-document captured
  by an earlier expression) and then mutated — is delimited by the static predicate `aliasRisk`
  (a scope limit; the separation property itself is C16's); the driver answers `unmodelled` there.

  Outside the fidelity zone (answer `unmodelled`): `$sample`, `$out`, `$graphLookup` (C16 / not
  this property), stage operands of an unexpected Python type where the code's behaviour is an
  accident of `in` / iteration on that type, sort / group keys on which `bson_compare` is not a
  strict weak order (see MongoModel.Sort.keyShallow), comparisons of library-generated ObjectIds,
  inexact floats.

  Everything lives in namespace `MongoModel.Pipe`.  Core Lean only.
-/
import MongoModel.Project
import MongoModel.Sort
import MongoModel.DateTime

namespace MongoModel.Pipe
open MongoModel

/-! ### the database seen by `$lookup` -/

/-- collection name ↦ the documents `find()` returns, in natural order -/
structure Db where
  colls : List (String × List Val) := []
  deriving Inhabited

/-- `database.get_collection(name)`: a collection that was never written is empty -/
def Db.get (db : Db) (name : String) : List Val :=
  match db.colls.find? (fun p => p.1 = name) with
  | some p => p.2
  | none => []

/-- `[x for x in xs if p(x)]` where `p` may raise -/
def filterR (p : Val → R Bool) : List Val → R (List Val)
  | [] => .ok []
  | x :: xs =>
    match p x with
    | .error e => .error e
    | .ok b =>
      match filterR p xs with
      | .error e => .error e
      | .ok ys => .ok (if b then x :: ys else ys)

/-- `list(collection.find(filter))` on a collection holding `docs` (no TTL index):
    `Cursor.__init__` normalises the filter, `_iter_documents` validates it on `{}` when the
    collection is empty (collection.py:1311-1317) -/
def findDocs (filter : Val) (docs : List Val) : R (List Val) :=
  let f := patch filter
  match docs with
  | [] =>
    match filterApplies f (.doc []) with
    | .error e => .error e
    | .ok _ => .ok []
  | _ => filterR (filterApplies f) docs

/-! ### `$match` (aggregate.py:1601-1606) -/

def matchStage (opts : Val) (docs : List Val) : R (List Val) :=
  match docs with
  | [] =>
    -- "validate the filter even if no documents can be returned (as find does)"
    match filterApplies (patch opts) (.doc []) with
    | .error e => .error e
    | .ok _ => .ok []
  | _ => filterR (fun d => filterApplies (patch opts) (patch d)) docs

/-! ### `$sort` (aggregate.py:1367-1376) -/

/-- what `sortDirection < 0` needs: a number (`bool` is an `int`); anything else is a TypeError -/
def sortDir : Val → R Int
  | .int i => .ok i
  | .bool b => .ok (if b then 1 else 0)
  | .dbl m _ => .ok (if m < 0 then -1 else if m = 0 then 0 else 1)
  | _ => .error .typeErr

/-- the loop over `reversed(options.items())`: the last key is sorted first; `reverse=` is
    evaluated just before each `sorted` call -/
def sortFields : Fields → List Val → R (List Val)
  | [], docs => .ok docs
  | (k, dir) :: rest, docs =>
    match sortFields rest docs with
    | .error e => .error e
    | .ok ds =>
      match sortDir dir with
      | .error e => .error e
      | .ok d => sortedByKey k (decide (d < 0)) ds

def sortStage : Val → List Val → R (List Val)
  | .doc fs, docs => sortFields fs docs
  | _, _ => .error .attrErr                     -- `options.items()`

/-! ### `$skip`, `$limit`: `_handle_skip_stage`, `_handle_limit_stage` -/

/-- a double that holds a whole number is read as that integer (`stageCount`); then
    `isinstance(options, bool) or not isinstance(options, int)` → OperationFailure; a negative
    count → OperationFailure; else `in_collection[options:]` -/
def skipStage (o : Val) (docs : List Val) : R (List Val) :=
  match stageCount o with
  | some n => if n < 0 then .error .opFail else .ok (docs.drop n.toNat)
  | none => .error .opFail

/-- … `options <= 0` → OperationFailure ('the limit must be positive'); else `in_collection[:options]` -/
def limitStage (o : Val) (docs : List Val) : R (List Val) :=
  match stageCount o with
  | some n => if n ≤ 0 then .error .opFail else .ok (docs.take n.toNat)
  | none => .error .opFail

/-! ### `$count` (aggregate.py:1583-1590) -/

def countStage : Val → List Val → R (List Val)
  | .str s, docs =>
    if s = "" then .error .opFail
    else if startsWithDollar s then .error .opFail
    else if s.toList.contains '.' then .error .opFail
    else if docs.isEmpty then .ok []              -- `if not in_collection: return []`
    else .ok [.doc [(s, .int docs.length)]]
  | _, _ => .error .opFail

/-! ### `$replaceRoot` -/

def replaceRootDoc (e : Val) (d : Val) : R Val :=
  match Expr.evalExpr d e with
  | .error err => .error err
  | .ok (some (.doc r)) => .ok (.doc r)
  | .ok _ => .error .opFail                     -- NOTHING / not a dict

def replaceRootStage : Val → List Val → R (List Val)
  | .doc fs, docs =>
    match dget "newRoot" fs with
    | none => .error .opFail
    | some e => mapR (replaceRootDoc e) docs
  | _, _ => unmodelled                          -- `'newRoot' not in options` on a non-dict

/-! ### `$addFields` / `$set` (aggregate.py:1541-1559) -/

/-- the walk of `$unwind`'s `_set_index`: `parent[subfield] = {}` unless it is a dict …;
    `parent[parts[-1]] = value`, on the dict `g` -/
def nestedSet : Fields → List String → Val → Fields
  | g, [], _ => g
  | g, [k], v => dset k v g
  | g, k :: ks, v =>
    dset k (.doc (nestedSet (match dget k g with | some (.doc h) => h | _ => []) ks v)) g

/-- `_add_field(value, parts, new)` for a value that gives way to new documents (missing, null,
    a scalar): `{k₁: {k₂: … new}}` -/
def freshPath : List String → Val → Val
  | [], new => new
  | k :: ks, new => .doc [(k, freshPath ks new)]

mutual
  /-- `_add_field(value, parts, new_value)`: the value with `new` at the dotted path below it — in
      every item of an array (each gets its own deep copy of `new`; nested arrays are gone
      through, an item that is no document becomes one), inside a (shallow-copied) document,
      and in the place of anything else -/
  def addField : Val → List String → Val → Val
    | _, [], new => new
    | .arr xs, k :: ks, new => .arr (addFieldItems xs (k :: ks) new)
    | .doc fs, k :: ks, new => .doc (addFieldIn fs k ks new)
    | _, k :: ks, new => freshPath (k :: ks) new
  termination_by structural x _ _ => x

  def addFieldItems : List Val → List String → Val → List Val
    | [], _, _ => []
    | x :: xs, parts, new => addField x parts new :: addFieldItems xs parts new
  termination_by structural x _ _ => x

  /-- `value[k] = _add_field(value.get(k), ks, new)` on the fields of a dict: an existing key
      keeps its place, a new one is appended -/
  def addFieldIn : Fields → String → List String → Val → Fields
    | [], k, ks, new => [(k, freshPath ks new)]
    | (k', v) :: r, k, ks, new =>
      if k' = k then (k', addField v ks new) :: r else (k', v) :: addFieldIn r k ks new
  termination_by structural x _ _ _ => x
end

/-- per document: `in_doc` — read by every expression of the stage and never written: each level
    of a dotted name is shallow-copied (`copy.copy`) before the write — and `out_doc` -/
structure AfState where
  inD : Fields
  outD : Fields

/-- one `(field, value)` of the stage on one document -/
def afStep (field : String) (e : Val) (s : AfState) : R AfState :=
  match Expr.evalExpr (.doc s.inD) e with
  | .error err => .error err
  | .ok none => .ok s                                         -- KeyError: `continue`
  | .ok (some v) =>
    match splitDots field with
    | [] => unmodelled
    -- `out_doc[parts[0]] = _add_field(out_doc.get(parts[0]), parts[1:], out_value)`
    | k :: ks => .ok { s with outD := addFieldIn s.outD k ks v }

def afInit : Val → R AfState
  | .doc fs => .ok { inD := fs, outD := fs }
  | _ => unmodelled

def afFields : Fields → List AfState → R (List AfState)
  | [], st => .ok st
  | (f, e) :: rest, st =>
    match mapR (afStep f e) st with
    | .error err => .error err
    | .ok st' => afFields rest st'

def addFieldsStage : Val → List Val → R (List Val)
  | .doc [], _ => .error .opFail
  | .doc fs, docs =>
    match mapR afInit docs with
    | .error e => .error e
    | .ok st =>
      match afFields fs st with
      | .error e => .error e
      | .ok st' => .ok (st'.map (fun s => .doc s.outD))
  | v, _ => if v.truthy then .error .attrErr else .error .opFail

/-! ### `$unwind` (aggregate.py:1379-1420) -/

/-- `parent[int(child_key)] = value` on a list -/
def listSet (xs : List Val) (c : String) (v : Val) : R (List Val) :=
  match pyInt? c with
  | none => .error .keyErr
  | some i =>
    if i < 0 then unmodelled
    else if i.toNat < xs.length then .ok (xs.set i.toNat v) else .error .keyErr

/-- `helpers.set_value_by_dot(doc, key, value)` as a functional update: walk to the parent as
    `get_value_by_dot` does, then `parent[child] = value` -/
def setByDotParts : List String → Val → Val → R Val
  | [], _, v => .ok v
  | [c], parent, v =>
    match parent with
    | .doc fs => .ok (.doc (dset c v fs))
    | .arr xs => (listSet xs c v).map .arr
    | _ => .error .keyErr
  | p :: ps, d, v =>
    match d with
    | .doc fs =>
      match dget p fs with
      | none => .error .keyErr
      | some sub =>
        match setByDotParts ps sub v with
        | .error e => .error e
        | .ok sub' => .ok (.doc (dset p sub' fs))
    | .arr xs =>
      match pyInt? p with
      | none => .error .keyErr
      | some i =>
        if i < 0 then unmodelled
        else match xs[i.toNat]? with
          | none => .error .keyErr
          | some sub =>
            match setByDotParts ps sub v with
            | .error e => .error e
            | .ok sub' => .ok (.arr (xs.set i.toNat sub'))
    | _ => .error .keyErr

def setByDot (d : Val) (key : String) (v : Val) : R Val := setByDotParts (splitDots key) d v

/-- `helpers.delete_value_by_dot(doc, key)`: `del parent[child_key]` (a list parent raises
    TypeError: the child key is a string) -/
def delByDotParts : List String → Val → R Val
  | [], d => .ok d
  | [c], parent =>
    match parent with
    | .doc fs => if dhas c fs then .ok (.doc (derase c fs)) else .error .keyErr
    | _ => .error .typeErr
  | p :: ps, d =>
    match d with
    | .doc fs =>
      match dget p fs with
      | none => .error .keyErr
      | some sub =>
        match delByDotParts ps sub with
        | .error e => .error e
        | .ok sub' => .ok (.doc (dset p sub' fs))
    | .arr xs =>
      match pyInt? p with
      | none => .error .keyErr
      | some i =>
        if i < 0 then unmodelled
        else match xs[i.toNat]? with
          | none => .error .keyErr
          | some sub =>
            match delByDotParts ps sub with
            | .error e => .error e
            | .ok sub' => .ok (.arr (xs.set i.toNat sub'))
    | _ => .error .keyErr

def delByDot (d : Val) (key : String) : R Val := delByDotParts (splitDots key) d

structure UnwindOpts where
  path : String                 -- without the leading `$`
  preserve : Bool
  index : Option String         -- `includeArrayIndex` when truthy

/-- `_set_index(doc, index)`: the index field written where the dotted name says, every parent
    that is not a dict (missing, scalar, list) replaced by `{}` — the walk of `$addFields` -/
def setIndex (d : Val) (ix : String) (v : Val) : R Val :=
  match d with
  | .doc fs => .ok (.doc (nestedSet fs (splitDots ix) v))
  | _ => unmodelled                               -- `parent.get` on something that is no dict

/-- one output document for the item `item` at position `idx` (`none` = the value was no list) -/
def unwindItem (o : UnwindOpts) (d : Val) (idx : Option Nat) (item : Val) : R Val :=
  match setByDot d o.path item with
  | .error e => .error e
  | .ok nd =>
    match o.index with
    | none => .ok nd
    | some ix => setIndex nd ix (match idx with | some i => .int i | none => .null)

def unwindItems (o : UnwindOpts) (d : Val) : Nat → List Val → R (List Val)
  | _, [] => .ok []
  | i, x :: xs =>
    match unwindItem o d (some i) x with
    | .error e => .error e
    | .ok nd =>
      match unwindItems o d (i + 1) xs with
      | .error e => .error e
      | .ok r => .ok (nd :: r)

/-- `_preserved(doc)`: a document kept by `preserveNullAndEmptyArrays` gets a null index -/
def preserved (o : UnwindOpts) (d : Val) : R Val :=
  match o.index with
  | none => .ok d
  | some ix => setIndex d ix .null

/-- the body of the loop of `_handle_unwind_stage` for one document -/
def unwindDoc (o : UnwindOpts) (d : Val) : R (List Val) :=
  match getByDot d o.path with
  | .error .keyErr => if o.preserve then (preserved o d).map (fun nd => [nd]) else .ok []
  | .error e => .error e
  | .ok .null => if o.preserve then (preserved o d).map (fun nd => [nd]) else .ok []
  | .ok (.arr []) =>
    if o.preserve then
      match delByDot d o.path with
      | .error e => .error e
      | .ok nd => (preserved o nd).map (fun nd' => [nd'])
    else .ok []
  | .ok (.arr xs) => unwindItems o d 0 xs
  | .ok v => (unwindItem o d none v).map (fun nd => [nd])

def flatMapR (f : Val → R (List Val)) : List Val → R (List Val)
  | [] => .ok []
  | d :: ds =>
    match f d with
    | .error e => .error e
    | .ok xs =>
      match flatMapR f ds with
      | .error e => .error e
      | .ok ys => .ok (xs ++ ys)

/-- the path check: `not isinstance(path, str) or path[0] != '$'` → ValueError (`''[0]` IndexError) -/
def unwindPath : Val → R String
  | .str s =>
    match s.toList with
    | [] => .error .indexErr
    | c :: r => if c = '$' then .ok (String.ofList r) else .error .valueErr
  | _ => .error .valueErr

def unwindOpts : Val → R UnwindOpts
  | .doc o =>
    match dget "path" o with
    | none => .error .keyErr
    | some p =>
      match unwindPath p with
      | .error e => .error e
      | .ok path =>
        let pres := match dget "preserveNullAndEmptyArrays" o with | some v => v.truthy | none => false
        match dget "includeArrayIndex" o with
        | none => .ok ⟨path, pres, none⟩
        | some (.str s) => .ok ⟨path, pres, if s = "" then none else some s⟩
        | some v => if v.truthy then unmodelled else .ok ⟨path, pres, none⟩
  | v => (unwindPath v).map (fun p => ⟨p, false, none⟩)

def unwindStage (opts : Val) (docs : List Val) : R (List Val) :=
  match unwindOpts opts with
  | .error e => .error e
  | .ok o => flatMapR (unwindDoc o) docs

/-! ### `$lookup` (aggregate.py:1124-1163) -/

/-- the validation loop over `('from', 'localField', 'foreignField', 'as')` -/
def lookupArg (o : Fields) (name : String) : R String :=
  match dget name o with
  | some (.str s) =>
    if name ≠ "from" && startsWithDollar s then .error .opFail else .ok s
  | _ => .error .opFail

/-- the query `$lookup` runs for a document: the local value, `None` when missing (KeyError),
    `{'$in': value}` for a list -/
def lookupQuery (fs : Fields) (lf : String) : R Val :=
  match getByDot (.doc fs) lf with
  | .error .keyErr => .ok .null
  | .error e => .error e
  | .ok (.arr xs) => .ok (.doc [("$in", .arr xs)])
  | .ok v => .ok v

def lookupDoc (foreign : List Val) (lf ff as : String) : Val → R Val
  | .doc fs =>
    match lookupQuery fs lf with
    | .error e => .error e
    | .ok q =>
      match findDocs (.doc [(ff, q)]) foreign with
      | .error e => .error e
      -- the fetched documents go through `patch_datetime_awareness_in_document`: as stored
      | .ok ms => .ok (.doc (dset as (.arr (patchList ms)) fs))
  | _ => unmodelled

def hasDotDot : List Char → Bool
  | '.' :: '.' :: _ => true
  | _ :: r => hasDotDot r
  | [] => false

/-- `Database._ensure_valid_collection_name` (database.py:160-171), run by `get_collection` for
    a name that was not accessed before -/
def validCollName (s : String) : Bool :=
  let cs := s.toList
  !cs.isEmpty && !hasDotDot cs && cs.head? != some '.' && cs.getLast? != some '.' &&
  !cs.contains '$' && !cs.contains (Char.ofNat 0)

def lookupStage (db : Db) : Val → List Val → R (List Val)
  | .doc o, docs =>
    if dhas "let" o || dhas "pipeline" o then .error .notImpl
    else
      match lookupArg o "from", lookupArg o "localField", lookupArg o "foreignField",
            lookupArg o "as" with
      | .ok fr, .ok lf, .ok ff, .ok as =>
        if as.toList.contains '.' then .error .notImpl
        else if !(db.colls.any (fun p => p.1 = fr)) && !validCollName fr then .error .invalidName
        else mapR (lookupDoc (db.get fr) lf ff as) docs
      | _, _, _, _ => .error .opFail
  | _, _ => unmodelled

/-! ### accumulators: `_accumulate_group` / `_GROUPING_OPERATOR_MAP` -/

/-- `values`: the expression on every document of the group, evaluated like a computed field
    (`ignore_missing_keys=True`: an operator reads a missing operand as null); a KeyError — the
    value itself is missing — is skipped, except by `$first` / `$last`, which take None for it -/
def accValues (firstLast : Bool) (key : Val) : List Val → R (List Val)
  | [] => .ok []
  | d :: ds =>
    match Expr.evalExpr d key with
    | .error e => .error e
    | .ok r =>
      match accValues firstLast key ds with
      | .error e => .error e
      | .ok vs => .ok (match r with
                       | some v => v :: vs
                       | none => if firstLast then .null :: vs else vs)

/-- `isinstance(v, numbers.Number) and not isinstance(v, bool)` -/
def accNums : List Val → List Expr.PyNum
  | [] => []
  | .int n :: r => .i n :: accNums r
  | .dbl m e :: r => .f m e :: accNums r
  | _ :: r => accNums r

/-- `_sum_operation`: `sum` of the numbers (booleans are no numbers here) -/
def accSum (xs : List Val) : R Val :=
  match Expr.sumNums (accNums xs) (.i 0) with
  | .error e => .error e
  | .ok s => s.toVal

/-- `_avg_operation`: None without numbers, else `sum(values) / float(len(values))` -/
def accAvg (xs : List Val) : R Val :=
  let ns := accNums xs
  if ns.isEmpty then .ok .null
  else
    match Expr.sumNums ns (.i 0) with
    | .error e => .error e
    | .ok s => Expr.pyDivide s (.f ns.length 0)

/-- Python `min(values, key=BsonComparable)` / `max(…)`: one pass, the first extremal element
    wins; `min` replaces on `key(item) < key(best)`, `max` on `key(item) > key(best)`, which —
    `BsonComparable` defining `__lt__` only — is the reflected `key(best) < key(item)`; a
    comparison that raises (naive against aware datetime) makes the accumulator raise -/
def accMinMaxGo (isMax : Bool) : List Val → Val → R Val
  | [], best => .ok best
  | v :: r, best =>
    match (if isMax then bsonCompare .lt best v true else bsonCompare .lt v best true) with
    | .error e => .error e
    | .ok b => accMinMaxGo isMax r (if b then v else best)

/-- `_group_operation(values, min | max)`: None dropped, None when nothing is left -/
def accMinMax (isMax : Bool) (xs : List Val) : R Val :=
  match xs.filter (fun v => !Expr.isNull v) with
  | [] => .ok .null
  | y :: r => accMinMaxGo isMax r y

/-- the `$addToSet` loop: first occurrences (Python `in`: `==`) -/
def addToSetLoop : List Val → List Val → List Val
  | [], acc => acc
  | v :: r, acc => addToSetLoop r (if pyIn v acc then acc else acc ++ [v])

/-- `dict.update` over the dict values -/
def mergeObjects : List Val → Fields → Fields
  | [], acc => acc
  | .doc fs :: r, acc => mergeObjects r (fs.foldl (fun a kv => dset kv.1 kv.2 a) acc)
  | _ :: r, acc => mergeObjects r acc

/-- one accumulator on the values of its group -/
def accApply (op : String) (values : List Val) : R Val :=
  if op = "$sum" then accSum values
  else if op = "$avg" then accAvg values
  else if op = "$first" then .ok (values.head?.getD .null)
  else if op = "$last" then .ok (values.getLast?.getD .null)
  else if op = "$min" then accMinMax false values
  else if op = "$max" then accMinMax true values
  else if op = "$mergeObjects" then .ok (.doc (mergeObjects values []))
  else if op = "$addToSet" then .ok (.arr (addToSetLoop values []))
  else if op = "$push" then .ok (.arr values)
  else .error .notImpl

/-- `_accumulate_group(output_fields, group_list)`: the fields in order, `_id` skipped; a field
    whose value is a dict with no operator is not set; several operators in one field: not
    modelled -/
def accumulate : Fields → List Val → R Fields
  | [], _ => .ok []
  | (field, spec) :: rest, group =>
    if field = "_id" then accumulate rest group
    else
      match spec with
      | .doc [] => accumulate rest group
      | .doc [(op, key)] =>
        match accValues (op = "$first" || op = "$last") key group with
        | .error e => .error e
        | .ok values =>
          match accApply op values with
          | .error e => .error e
          | .ok v =>
            match accumulate rest group with
            | .error e => .error e
            | .ok r => .ok ((field, v) :: r)         -- `doc_dict[field] = …` in loop order
      | .doc _ => unmodelled
      | _ => .error .attrErr                          -- `value.items()`

/-! ### `$group` (aggregate.py:1259-1286) -/

/-- `itertools.groupby` over (key, document) pairs: a run lasts while `tgtkey == currkey` -/
def groupGo (cur : Val) (acc : List Val) : List (Val × Val) → List (Val × List Val)
  | [] => [(cur, acc.reverse)]
  | (k, d) :: rest =>
    if pyEq cur k then groupGo cur (d :: acc) rest
    else (cur, acc.reverse) :: groupGo k [d] rest

def groupRuns : List (Val × Val) → List (Val × List Val)
  | [] => []
  | (k, d) :: rest => groupGo k [d] rest

/-- `_key_getter`: the `_id` expression with `ignore_missing_keys`, KeyError → None -/
def groupKey (idExpr : Val) (d : Val) : R Val :=
  match Expr.evalExpr d idExpr with
  | .error e => .error e
  | .ok none => .ok .null
  | .ok (some v) => .ok v

/-- `BsonComparable(a) < BsonComparable(b)` on the keys of two (key, document) pairs -/
def keyedLt (a b : Val × Val) : R Bool := bsonCompare .lt a.1 b.1 true

/-- decorate with the key (all keys are computed before any comparison) -/
def keyed (idExpr : Val) : List Val → R (List (Val × Val))
  | [] => .ok []
  | d :: ds =>
    match groupKey idExpr d with
    | .error e => .error e
    | .ok k =>
      match keyed idExpr ds with
      | .error e => .error e
      | .ok r => .ok ((k, d) :: r)

/-- `for doc_id, group in grouped: doc_dict = _accumulate_group(...); doc_dict['_id'] = doc_id` -/
def emitGroups (options : Fields) : List (Val × List Val) → R (List Val)
  | [] => .ok []
  | (k, g) :: rest =>
    match accumulate options g with
    | .error e => .error e
    | .ok fs =>
      match emitGroups options rest with
      | .error e => .error e
      | .ok r => .ok (.doc (dset "_id" k fs) :: r)

/-- the accumulators mongomock implements: `_GROUPING_OPERATOR_MAP`, `$addToSet`, `$push` -/
def accNames : List String :=
  ["$sum", "$avg", "$mergeObjects", "$min", "$max", "$first", "$last", "$addToSet", "$push"]

/-- `_validate_accumulators(output_fields)`: before any document is read, every operator of
    every field (`_id` skipped) must be an implemented accumulator — `$stdDevPop` / `$stdDevSamp`
    and unknown names alike are a NotImplementedError; a field value that is no dict has no
    `.keys()` -/
def validateAccs : Fields → R Unit
  | [] => .ok ()
  | (field, spec) :: rest =>
    if field = "_id" then validateAccs rest
    else
      match spec with
      | .doc ops =>
        if ops.all (fun kv => accNames.contains kv.1) then validateAccs rest
        else .error .notImpl
      | _ => .error .attrErr

/-- `_handle_group_stage` once the accumulators are validated -/
def groupBody (options : Fields) (docs : List Val) : R (List Val) :=
  match dget "_id" options with
  | none => .error .keyErr
  | some idExpr =>
    if !(Expr.isNull idExpr) then                   -- `if _id is not None`
      match keyed idExpr docs with
      | .error e => .error e
      | .ok kds =>
        if !(kds.all (fun kd => keyShallow kd.1)) then unmodelled
        else
          match pySorted keyedLt false kds with
          | .error e => .error e
          | .ok sorted => emitGroups options (groupRuns sorted)
    else emitGroups options (if docs.isEmpty then [] else [(.null, docs)])

def groupStage : Val → List Val → R (List Val)
  | .doc options, docs =>
    match validateAccs options with                   -- before `options['_id']` is even read
    | .error e => .error e
    | .ok _ => groupBody options docs
  | _, _ => .error .attrErr                           -- `output_fields.items()` on a non-dict

/-! ### `$bucket` (aggregate.py:1289-1349) -/

def numLe (a b : Num) : Bool := Num.le a b

def sortedNums : List Num → Bool
  | [] => true
  | [_] => true
  | a :: b :: r => Num.le a b && sortedNums (b :: r)

/-- the sort key `(is_default_last, bucket id)` -/
abbrev BKey := Bool × Val

/-- tuple `<`: the first differing item decides (items compared with `==` first) -/
def bkeyLt (a b : BKey × Val) : R Bool :=
  if a.1.1 ≠ b.1.1 then .ok (!a.1.1)
  else if pyEq a.1.2 b.1.2 then .ok false
  else match a.1.2.num?, b.1.2.num? with
    | some x, some y => .ok (Num.lt x y)
    | _, _ => .error .typeErr

def bkeyEq (a b : BKey) : Bool := a.1 == b.1 && pyEq a.2 b.2

def bucketGo (cur : BKey) (acc : List Val) : List (BKey × Val) → List (Val × List Val)
  | [] => [(cur.2, acc.reverse)]
  | (k, d) :: rest =>
    if bkeyEq cur k then bucketGo cur (d :: acc) rest
    else (cur.2, acc.reverse) :: bucketGo k [d] rest

def bucketRuns : List (BKey × Val) → List (Val × List Val)
  | [] => []
  | (k, d) :: rest => bucketGo k [d] rest

structure BucketCfg where
  groupBy : Val
  bounds : List Val               -- numbers, ascending
  default : Option Val
  defaultLast : Bool

/-- `_get_bucket_id(doc)` -/
def bucketId (c : BucketCfg) (d : Val) : R BKey :=
  let dflt : R BKey := match c.default with
    | some v => .ok (c.defaultLast, v)
    | none => .error .opFail
  match Expr.evalExprStrict d c.groupBy with
  | .error e => .error e
  | .ok none => dflt
  | .ok (some v) =>
    match v.num? with
    | none => if v.isArr || v.isDoc then unmodelled else .error .typeErr   -- `value < boundary`
    | some x =>
      -- bisect_right on a sorted list: the number of boundaries ≤ value
      let index := (c.bounds.filter (fun b => match b.num? with
                                              | some y => Num.le y x | none => false)).length
      if index ≠ 0 && index < c.bounds.length then
        match c.bounds[index - 1]? with
        | some b => .ok (false, b)
        | none => unmodelled
      else dflt

def bucketKeyed (c : BucketCfg) : List Val → R (List (BKey × Val))
  | [] => .ok []
  | d :: ds =>
    match bucketId c d with
    | .error e => .error e
    | .ok k =>
      match bucketKeyed c ds with
      | .error e => .error e
      | .ok r => .ok ((k, d) :: r)

def bucketStage : Val → List Val → R (List Val)
  | .doc o, docs =>
    if o.any (fun kv => !(["groupBy", "boundaries", "output", "default"].contains kv.1)) then
      .error .opFail
    else
      match dget "groupBy" o, dget "boundaries" o with
      | some gb, some (.arr bs) =>
        if bs.length < 2 then .error .opFail
        else if !(bs.all Val.isNumber) then unmodelled          -- scope: numeric boundaries
        else if !(sortedNums (bs.filterMap Val.num?)) then .error .opFail
        else
          match (match dget "output" o with
                 | none => some [("count", Val.doc [("$sum", .int 1)])]
                 | some (.doc f) => some f
                 | some _ => none) with
          | none => .error .attrErr                               -- `output_fields.items()`
          | some output =>
            match validateAccs output with
            | .error e => .error e
            | .ok _ =>
            let dflt := dget "default" o
            let last : Bool := match dflt, bs.getLast? with
              | some v, some b =>
                (match v.num?, b.num? with
                 | some x, some y => Num.le y x
                 | _, _ => true)                                  -- TypeError → True
              | _, _ => true                                      -- `None >= number` → TypeError
            match bucketKeyed ⟨gb, bs, dflt, last⟩ docs with
            | .error e => .error e
            | .ok kds =>
              match pySorted bkeyLt false kds with
              | .error e => .error e
              | .ok sorted => emitGroups output (bucketRuns sorted)
      | some _, some _ => .error .opFail                          -- boundaries is not a list
      | _, _ => .error .opFail
  | _, _ => unmodelled

/-! ### `$project` (aggregate.py:1504-1538) -/

structure ProjState where
  method : PMethod := .unset
  filterList : List String := []
  newFields : Option (List Fields) := none

/-- the computed field `field` on every document: `out_doc[field] = parse(value, in_doc)`,
    KeyError ignored -/
def projCompute (field : String) (e : Val) : List Val → List Fields → R (List Fields)
  | d :: ds, o :: os =>
    match Expr.evalExpr d e with
    | .error err => .error err
    | .ok r =>
      match projCompute field e ds os with
      | .error err => .error err
      | .ok rest => .ok ((match r with | some v => dset field v o | none => o) :: rest)
  | _, _ => .ok []

/-- one iteration of `for field, value in options.items()` -/
def projStep (docs : List Val) (s : ProjState) (field : String) (value : Val) : R ProjState :=
  let m : R PMethod :=
    if s.method = .unset && (field != "_id" || value.truthy) then
      .ok (if value.truthy then .inc else .exc)
    else if s.method = .inc && !value.truthy && field != "_id" then .error .opFail
    else if s.method = .exc && value.truthy && (field != "_id" || !(pyEq value (.int 1))) then
      .error .opFail                                -- `value not in (1, True)`
    else .ok s.method
  match m with
  | .error e => .error e
  | .ok m' =>
    if Expr.isInclusionFlag value then
      .ok { s with method := m',
                   filterList := if field != "_id" then s.filterList ++ [field] else s.filterList }
    else
      let cur : List Fields := match s.newFields with
        | some l => if l.isEmpty then docs.map (fun _ => []) else l
        | none => docs.map (fun _ => [])
      match projCompute field value docs cur with
      | .error e => .error e
      | .ok nf => .ok { s with method := m', newFields := some nf }

def projLoop (docs : List Val) : Fields → ProjState → R ProjState
  | [], s => .ok s
  | (f, v) :: rest, s =>
    match projStep docs s f v with
    | .error e => .error e
    | .ok s' => projLoop docs rest s'

/-- `dict(a, **b)` -/
def dictMerge (a b : Fields) : Fields := b.foldl (fun acc kv => dset kv.1 kv.2 acc) a

def zipMerge : List Val → List Fields → List Val
  | .doc a :: as, b :: bs => .doc (dictMerge a b) :: zipMerge as bs
  | _, _ => []

/-- `none` = the stage returns `None` (no inclusion / exclusion and no computed field) -/
def projectStageOpt : Val → List Val → R (Option (List Val))
  | .doc options, docs =>
    -- the first field other than `_id` decides between inclusion and exclusion
    match projLoop docs options { method := aggInitMethod options } with
    | .error e => .error e
    | .ok s =>
      let idIncluded : Bool := !(pyEq ((dget "_id" options).getD (.int 1)) (.int 0))
      let fl := if (s.method = .inc) == idIncluded then s.filterList ++ ["_id"] else s.filterList
      if fl.isEmpty then .ok (s.newFields.map (fun nf => nf.map Val.doc))
      else
        match combineSpec true (fl.map (fun k => (splitDots k, Val.int 1))) with
        | .error e => .error e
        | .ok cs =>
          match mapR (aggProjectDoc cs (s.method = .inc)) docs with
          | .error e => .error e
          | .ok out =>
            match s.newFields with
            | some nf => if nf.isEmpty then .ok (some out) else .ok (some (zipMerge out nf))
            | none => .ok (some out)
  | _, _ => unmodelled

/-- the stage as the last one of a pipeline: `CommandCursor(None)` raises TypeError -/
def projectStage (opts : Val) (docs : List Val) : R (List Val) :=
  match projectStageOpt opts docs with
  | .error e => .error e
  | .ok none => .error .typeErr
  | .ok (some out) => .ok out

/-! ### dispatch: `_PIPELINE_HANDLERS`, `process_pipeline` -/

/-- handlers that are `None` in the table: "valid but not implemented" -/
def noneHandlers : List String :=
  ["$bucketAuto", "$collStats", "$currentOp", "$geoNear", "$indexStats", "$listLocalSessions",
   "$listSessions", "$merge", "$planCacheStats", "$redact", "$replaceWith", "$sortByCount",
   "$unset"]

/-- stages with a handler that this property does not model -/
def unmodelledStages : List String := ["$graphLookup", "$out", "$sample"]

/-- every handler except `$facet` (which runs sub-pipelines) -/
def simpleStage (db : Db) (op : String) (opts : Val) (docs : List Val) : R (List Val) :=
  if op = "$match" then matchStage opts docs
  else if op = "$sort" then sortStage opts docs
  else if op = "$skip" then skipStage opts docs
  else if op = "$limit" then limitStage opts docs
  else if op = "$count" then countStage opts docs
  else if op = "$project" then projectStage opts docs
  else if op = "$group" then groupStage opts docs
  else if op = "$unwind" then unwindStage opts docs
  else if op = "$lookup" then lookupStage db opts docs
  else if op = "$addFields" || op = "$set" then addFieldsStage opts docs
  else if op = "$replaceRoot" then replaceRootStage opts docs
  else if op = "$bucket" then bucketStage opts docs
  else if unmodelledStages.contains op then unmodelled
  else .error .notImpl                -- a `None` handler, or not in the table at all

mutual
  /-- `process_pipeline`: `for stage in pipeline` -/
  def runPipeline (db : Db) : List Val → List Val → R (List Val)
    | [], docs => .ok docs
    | st :: rest, docs =>
      match runStage db st docs with
      | .error e => .error e
      | .ok docs' => runPipeline db rest docs'
  termination_by structural x _ => x

  /-- one element of the pipeline: `if len(stage) != 1: raise OperationFailure`, then
      `for operator, options in stage.items()`.  `len` of a value without a length is a TypeError;
      a string or list of length one has no `.items()` -/
  def runStage (db : Db) : Val → List Val → R (List Val)
    | .doc fs, docs => runOps db fs docs
    | .str s, _ => if s.length = 1 then .error .attrErr else .error .opFail
    | .arr xs, _ => if xs.length = 1 then .error .attrErr else .error .opFail
    | _, _ => .error .typeErr
  termination_by structural x _ => x

  /-- the fields of a stage document: exactly one operator, or OperationFailure ('A pipeline
      stage specification object must contain exactly one field.') -/
  def runOps (db : Db) : Fields → List Val → R (List Val)
    | [], _ => .error .opFail
    | (op, opts) :: rest, docs =>
      match rest with
      | [] => runOp db op opts docs
      | _ :: _ => .error .opFail
  termination_by structural x _ => x

  /-- `handler(collection, database, options)` -/
  def runOp (db : Db) (op : String) : Val → List Val → R (List Val)
    | .doc gs, docs =>
      if op = "$facet" then
        match facetBranches db gs docs with
        | .error e => .error e
        | .ok out => .ok [.doc out]
      else simpleStage db op (.doc gs) docs
    | v, docs => if op = "$facet" then .error .attrErr else simpleStage db op v docs
  termination_by structural x _ => x

  /-- `_handle_facet_stage`: every sub-pipeline on the same input -/
  def facetBranches (db : Db) : Fields → List Val → R Fields
    | [], _ => .ok []
    | (title, .arr p) :: rest, docs =>
      match runPipeline db p docs with
      | .error e => .error e
      | .ok out =>
        match facetBranches db rest docs with
        | .error e => .error e
        | .ok r => .ok ((title, .arr out) :: r)
    | (_, _) :: _, _ => unmodelled                  -- a sub-pipeline that is not a list
  termination_by structural x _ => x
end

/-- `pipeline = helpers.patch_datetime_awareness_in_document(pipeline)` in `Collection.aggregate`
    (a client with `tz_aware=False`; `MongoModel.aggPipeline false`): every datetime written in
    the pipeline reaches the stages as UTC milliseconds, naive — like the stored ones -/
def normPipeline (stages : List Val) : List Val := patchList stages

/-- `list(collection.aggregate(pipeline))` for a pipeline given as a value: the pipeline is
    normalised, the input is the documents as stored (`_get_dataset({}, …)`: a copy of each, naive
    datetimes whatever `tz_aware`), then `process_pipeline`.  (A `tz_aware=True` client gets the
    results rebuilt with aware datetimes at the very end — MongoModel.DateTime, C18; for a naive
    client, modelled here, the results are handed out as they are.) -/
def aggregate (db : Db) (coll : String) (pipeline : Val) : R (List Val) :=
  match pipeline with
  | .arr stages => runPipeline db (normPipeline stages) (db.get coll)
  | _ => unmodelled

/-! ### scope: where in-place mutation could be observed through a second reference -/

/-- the `$unwind` path has a dot (the write goes below the top level of the deep copy) -/
def unwindDotted : Val → Bool
  | .str s => s.toList.contains '.'
  | .doc o =>
    (match dget "path" o with | some (.str s) => s.toList.contains '.' | _ => false) ||
    (match dget "includeArrayIndex" o with | some (.str s) => s.toList.contains '.' | _ => false)
  | _ => false

/-- stages after which one document may hold the same sub-document twice -/
def sharingStages : List String :=
  ["$addFields", "$set", "$project", "$group", "$bucket", "$replaceRoot", "$facet"]

mutual
  /-- `shared`: a stage that may create internal sharing ran before.  Returns (risk found,
      shared afterwards).  (Every `$facet` branch works on its own deep copy of the input — a
      copy that keeps the sharing inside the input —, so being inside a branch adds no risk.) -/
  def riskPipeline (shared : Bool) : List Val → Bool × Bool
    | [] => (false, shared)
    | st :: rest =>
      let r := riskStage shared st
      let r' := riskPipeline r.2 rest
      (r.1 || r'.1, r'.2)
  termination_by structural x => x

  def riskStage (shared : Bool) : Val → Bool × Bool
    | .doc fs => riskOps shared fs
    | _ => (false, shared)
  termination_by structural x => x

  def riskOps (shared : Bool) : Fields → Bool × Bool
    | [] => (false, shared)
    | (op, opts) :: rest =>
      let here : Bool :=
        -- (`$addFields` / `$set` with a dotted name copy each level before writing, `$lookup`
        -- writes a top-level key of a document nobody else holds: no risk)
        -- `$unwind` writes the item (dotted path) and the index (dotted `includeArrayIndex`)
        -- into sub-documents of a deep copy, which keeps the sharing inside the document
        (op = "$unwind" && unwindDotted opts && shared)
      let sub : Bool := if op = "$facet" then riskFacet shared opts else false
      let r' := riskOps (shared || sharingStages.contains op) rest
      (here || sub || r'.1, r'.2)
  termination_by structural x => x

  def riskFacet (shared : Bool) : Val → Bool
    | .doc gs => riskBranches shared gs
    | _ => false
  termination_by structural x => x

  def riskBranches (shared : Bool) : Fields → Bool
    | [] => false
    | (_, .arr p) :: rest => (riskPipeline shared p).1 || riskBranches shared rest
    | _ :: rest => riskBranches shared rest
  termination_by structural x => x
end

/-- the pipeline may observe an in-place write through a second reference: outside the value
    model (scope limit, see the header) -/
def aliasRisk (pipeline : List Val) : Bool := (riskPipeline false pipeline).1

/-- a `$project` that returns `None` followed by further stages: which error surfaces depends
    on the next handler — outside the model -/
def noneThenStage (db : Db) : List Val → List Val → Bool
  | [], _ => false
  | [_], _ => false
  | st :: rest, docs =>
    match st with
    | .doc [("$project", opts)] =>
      (match projectStageOpt opts docs with
       | .ok none => true
       | .ok (some out) => noneThenStage db rest out
       | .error _ => false)
    | _ =>
      match runStage db st docs with
      | .ok out => noneThenStage db rest out
      | .error _ => false

end MongoModel.Pipe
