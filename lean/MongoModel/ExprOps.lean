/-
  MongoModel.ExprOps — the non-recursive part of the aggregation-expression model: the
  operator vocabulary of `mongomock/aggregate.py:53-172`, Python helpers (`str()`, slicing,
  `str.split`, `get_value_by_dot` with `can_generate_array=True`), exact int / dyadic-float
  arithmetic with Python's result typing, civil dates, and the operator bodies applied to
  already-evaluated operands.  The recursive evaluator is MongoModel/Expr.lean.

  Everything the model does not express answers `unmodelled` (non-dyadic float results,
  non-ASCII strings, aware datetimes, `str()` of containers, `$dateToString`, …) — never a guess.
-/
import MongoModel.Bson

namespace MongoModel.Expr
open MongoModel

/-! ### vocabulary (aggregate.py:53-172) and the dispatch order of `_Parser.parse` (:243-274) -/

def unaryArithOps : List String :=
  ["$abs", "$ceil", "$exp", "$floor", "$ln", "$log10", "$sqrt", "$trunc"]
def binaryArithOps : List String := ["$divide", "$log", "$mod", "$pow", "$subtract"]
def arithmeticOps : List String := unaryArithOps ++ binaryArithOps ++ ["$add", "$multiply"]
def groupingOps : List String := ["$sum", "$avg", "$min", "$max", "$first", "$last"]
def projectOps : List String :=
  ["$max", "$min", "$avg", "$sum", "$stdDevPop", "$stdDevSamp", "$arrayElemAt", "$first", "$last"]
def projectionOps : List String := ["$let", "$literal"]
def comparisonOps : List String := ["$cmp", "$eq", "$ne", "$gt", "$gte", "$lt", "$lte"]
def datePartOps : List String :=
  ["$dayOfMonth", "$dayOfWeek", "$dayOfYear", "$hour", "$millisecond", "$minute", "$month",
   "$second", "$week", "$year"]
def dateOps : List String :=
  ["$dateFromString", "$dateToString", "$dateFromParts", "$isoDayOfWeek", "$isoWeek",
   "$isoWeekYear"] ++ datePartOps
def arrayOps : List String :=
  ["$concatArrays", "$filter", "$indexOfArray", "$map", "$range", "$reduce", "$reverseArray",
   "$size", "$slice", "$zip"]
def conditionalOps : List String := ["$cond", "$ifNull"]
def controlFlowOps : List String := ["$switch"]
def setOps : List String :=
  ["$in", "$setEquals", "$setIntersection", "$setDifference", "$setUnion", "$setIsSubset",
   "$anyElementTrue", "$allElementsTrue"]
def stringOps : List String :=
  ["$concat", "$indexOfBytes", "$indexOfCP", "$regexMatch", "$split", "$strcasecmp",
   "$strLenBytes", "$strLenCP", "$substr", "$substrBytes", "$substrCP", "$toLower", "$toUpper",
   "$trim"]
def typeConvOps : List String :=
  ["$convert", "$toString", "$toInt", "$toDecimal", "$toLong", "$arrayToObject", "$objectToArray"]
def typeOps : List String := ["$isNumber", "$isArray"]
def booleanOps : List String := ["$and", "$or", "$not"]
/-- `text_search_operators + projection_operators + object_operators` -/
def otherKnownOps : List String := ["$meta", "$let", "$literal", "$mergeObjects"]

inductive OpClass where
  | arith | project | projection | comparison | date | array | conditional | control | set
  | string | typeConv | typeOp | boolean | notImpl | unknown | plain
  deriving Repr, DecidableEq, Inhabited

/-- the `if k in …` chain of `_Parser.parse`, in the order of the code -/
def classify (k : String) : OpClass :=
  if arithmeticOps.contains k then .arith
  else if projectOps.contains k then .project
  else if projectionOps.contains k then .projection
  else if comparisonOps.contains k then .comparison
  else if dateOps.contains k then .date
  else if arrayOps.contains k then .array
  else if conditionalOps.contains k then .conditional
  else if controlFlowOps.contains k then .control
  else if setOps.contains k then .set
  else if stringOps.contains k then .string
  else if typeConvOps.contains k then .typeConv
  else if typeOps.contains k then .typeOp
  else if booleanOps.contains k then .boolean
  else if otherKnownOps.contains k then .notImpl
  else if k.toList.head? = some '$' then .unknown
  else .plain

def startsDollar (k : String) : Bool := k.toList.head? = some '$'

/-- the `{date: …, timezone: …}` argument form of the date operators (aggregate.py:581) -/
def hasTzKeys (v : Val) : Bool :=
  match v with
  | .doc [(a, _), (b, _)] => (a = "date" && b = "timezone") || (a = "timezone" && b = "date")
  | _ => false

/-- how `_parse_basic_expression` reads a string: `'$$name.path'`, `'$path'`, or a literal -/
inductive StrKind where
  | var (rest : List Char)
  | field (rest : List Char)
  | lit
  deriving Repr, Inhabited

def strKind (s : String) : StrKind :=
  match s.toList with
  | '$' :: '$' :: r => .var r
  | '$' :: r => .field r
  | _ => .lit

/-! ### Python numbers: ints and exact dyadic floats -/

inductive PyNum where
  | i (n : Int)
  | f (m : Int) (e : Nat)
  deriving Repr, Inhabited

/-- `isinstance(v, numbers.Number)` view (bool is an int) -/
def toPyNum : Val → Option PyNum
  | .bool b => some (.i (if b then 1 else 0))
  | .int n => some (.i n)
  | .dbl m e => some (.f m e)
  | _ => none

def PyNum.num : PyNum → Num
  | .i n => ⟨n, 0⟩
  | .f m e => ⟨m, e⟩

def PyNum.isFloat : PyNum → Bool
  | .f _ _ => true
  | _ => false

/-- strip common factors of two: `m / 2^e` with `m` odd or `e = 0` -/
def normDy : Int → Nat → Int × Nat
  | m, 0 => (m, 0)
  | m, e + 1 => if m % 2 == 0 then normDy (m / 2) e else (m, e + 1)

def two53 : Int := 9007199254740992

/-- a float result `m / 2^e`: exact in IEEE double only when the odd mantissa fits in 53 bits;
    otherwise Python rounds and the model has no answer -/
def mkF (m : Int) (e : Nat) : R Val :=
  let p := normDy m e
  if p.1.natAbs < two53.natAbs && p.2 ≤ 1000 then .ok (.dbl p.1 p.2) else unmodelled

def PyNum.toVal : PyNum → R Val
  | .i n => .ok (.int n)
  | .f m e => mkF m e

/-- `float(x)` -/
def PyNum.asF : PyNum → Int × Nat
  | .i n => (n, 0)
  | .f m e => (m, e)

def pow2 (e : Nat) : Int := (2 : Int) ^ e

/-- odd part of a non-zero natural number (fuel = the number itself) -/
def oddPartAux : Nat → Nat → Nat
  | 0, n => n
  | fuel + 1, n => if n % 2 == 0 && n != 0 then oddPartAux fuel (n / 2) else n

def oddPart (n : Nat) : Nat := oddPartAux n n

/-- does `float(n)` keep the integer `n`?  Only when its odd part fits in 53 bits: every int up to
    2^53 does, above that `float()` rounds (2^53 + 1 becomes 2^53). -/
def intIsDouble (n : Int) : Bool := decide ((oddPart n.natAbs : Int) < two53)

/-- an int operand that a float operation (`int + float`, `int / float`, `math.fmod`) would round
    before computing: the exact arithmetic of this model does not describe the result -/
def PyNum.roundedByFloat : PyNum → Bool
  | .i n => !intIsDouble n
  | .f _ _ => false

/-- what a mixed sum answers when its int operand is `roundedByFloat`: a dyadic that is not a
    double, so that `check` / `toVal` (every consumer of a sum goes through one of them) answer
    `unmodelled` -/
def PyNum.notADouble : PyNum := .f 1 2000

/-- `a + b`: int when both are ints, else float -/
def PyNum.add : PyNum → PyNum → PyNum
  | .i a, .i b => .i (a + b)
  | x, y =>
    if x.roundedByFloat || y.roundedByFloat then PyNum.notADouble
    else
      let (m1, e1) := x.asF; let (m2, e2) := y.asF
      .f (m1 * pow2 e2 + m2 * pow2 e1) (e1 + e2)

def PyNum.neg : PyNum → PyNum
  | .i a => .i (-a)
  | .f m e => .f (-m) e

def PyNum.sub (a b : PyNum) : PyNum := a.add b.neg

def PyNum.isZero : PyNum → Bool
  | .i a => a == 0
  | .f m _ => m == 0

def PyNum.isNeg : PyNum → Bool
  | .i a => a < 0
  | .f m _ => m < 0

/-- `a * b`; a float zero with exactly one negative factor is `-0.0`, which `Val` cannot
    represent (`str(-0.0)` differs from `str(0.0)`) → `none` -/
def PyNum.mul : PyNum → PyNum → Option PyNum
  | .i a, .i b => some (.i (a * b))
  | x, y =>
    let (m1, e1) := x.asF; let (m2, e2) := y.asF
    if m1 * m2 == 0 && (x.isNeg != y.isNeg) && (x.isNeg || y.isNeg) then none
    else some (.f (m1 * m2) (e1 + e2))

/-- every partial result must be exactly representable -/
def PyNum.check : PyNum → R PyNum
  | .i n => .ok (.i n)
  | .f m e => do let _ ← mkF m e; pure (.f m e)

/-- number of factors of two -/
def twoAdicAux : Nat → Nat → Nat
  | 0, _ => 0
  | fuel + 1, n => if n % 2 == 0 && n != 0 then twoAdicAux fuel (n / 2) + 1 else 0

def twoAdic (n : Nat) : Nat := twoAdicAux n n

/-- `x / y` (true division, always float): exact iff the odd part of the divisor's mantissa
    divides the dividend's mantissa -/
def pyDivide (x y : PyNum) : R Val :=
  let (m1, e1) := x.asF; let (m2, e2) := y.asF
  if m2 == 0 then .error .other                           -- ZeroDivisionError
  else if m1 == 0 && m2 < 0 then unmodelled               -- -0.0
  else
    let o := oddPart m2.natAbs
    let k := twoAdic m2.natAbs
    if m1 % (o : Int) != 0 then unmodelled
    else
      -- m1/2^e1 / (s·o·2^k/2^e2) = s·(m1/o)·2^e2 / 2^(e1+k)
      let s : Int := if m2 < 0 then -1 else 1
      mkF (s * (m1 / (o : Int)) * pow2 e2) (e1 + k)

/-- the `/` of `$divide`: two ints are divided exactly and the quotient rounded once (`pyDivide`
    has it whenever it is a double); next to a float operand an int is converted first, and the
    model has no answer when that conversion rounds -/
def pyTrueDiv (x y : PyNum) : R Val :=
  if (x.roundedByFloat || y.roundedByFloat) && (x.isFloat || y.isFloat) && !y.isZero
  then unmodelled else pyDivide x y

/-- `math.fmod(x, y)` (always float; exact) -/
def pyFmod (x y : PyNum) : R Val :=
  let (m1, e1) := x.asF; let (m2, e2) := y.asF
  if m2 == 0 then .error .valueErr                        -- math domain error
  else if x.roundedByFloat || y.roundedByFloat then unmodelled   -- `math.fmod` takes doubles
  else
    let a := m1 * pow2 e2
    let b := m2 * pow2 e1
    let r := Int.tmod a b
    if r == 0 && m1 < 0 then unmodelled                   -- -0.0
    else mkF r (e1 + e2)

def isIntegral (x : PyNum) : Option Int :=
  match x with
  | .i n => some n
  | .f m e => let p := normDy m e; if p.2 == 0 then some p.1 else none

/-- `math.pow(x, y)` (always float): modelled for non-negative integral `y ≤ 64` -/
def pyPow (x y : PyNum) : R Val :=
  let (m1, e1) := x.asF
  match isIntegral y with
  | some n =>
    if n ≥ 0 then
      if n > 64 then unmodelled else mkF (m1 ^ n.toNat) (e1 * n.toNat)
    else if m1 == 0 then .error .valueErr
    else unmodelled
  | none =>
    if m1 < 0 then .error .valueErr else unmodelled

/-- `$mod` (aggregate.py:383-388): two ints with a non-zero divisor give the int remainder with the
    sign of the dividend, anything else goes through `math.fmod` -/
def pyMod (x y : PyNum) : R Val :=
  match x, y with
  | .i a, .i b => if b == 0 then pyFmod x y else .ok (.int (Int.tmod a b))
  | _, _ => pyFmod x y

/-- `$pow` (aggregate.py:389-396): `math.pow` first (so its errors are kept); two ints with a
    non-negative exponent whose exact power fits in 64 bits give that int -/
def pyPowT (x y : PyNum) : R Val :=
  match x, y with
  | .i a, .i b =>
    if b ≥ 0 && b ≤ 64 && decide (-(2 : Int) ^ 63 ≤ a ^ b.toNat) && decide (a ^ b.toNat < (2 : Int) ^ 63)
    then .ok (.int (a ^ b.toNat))
    else pyPow x y
  | _, _ => pyPow x y

/-- integer square root by bisection on a fuel -/
def isqrtAux : Nat → Nat → Nat → Nat → Nat
  | 0, lo, _, _ => lo
  | fuel + 1, lo, hi, n =>
    if lo + 1 ≥ hi then lo
    else
      let mid := (lo + hi) / 2
      if mid * mid ≤ n then isqrtAux fuel mid hi n else isqrtAux fuel lo mid n

def isqrt (n : Nat) : Nat := isqrtAux (n + 2) 0 (n + 1) n

/-- `math.sqrt(x)`: correctly rounded, so exact when the root is representable -/
def pySqrt (x : PyNum) : R Val :=
  let (m, e) := x.asF
  if m < 0 then .error .valueErr
  else
    let (m', e') := if e % 2 == 0 then (m, e) else (m * 2, e + 1)
    let r := isqrt m'.toNat
    if (r * r : Nat) == m'.toNat then mkF r (e' / 2) else unmodelled

def floorDy (m : Int) (e : Nat) : Int := m / pow2 e
def ceilDy (m : Int) (e : Nat) : Int := -((-m) / pow2 e)

/-- the unary arithmetic operators on a number (aggregate.py:349-364); `$ceil $floor $trunc` keep
    the operand's type: `float(math.ceil(x))` for a float -/
def unaryArith (op : String) (x : PyNum) : R Val :=
  if op = "$abs" then (match x with | .i n => .ok (.int (Int.ofNat n.natAbs)) | .f m e => mkF (Int.ofNat m.natAbs) e)
  else if op = "$ceil" then (match x with | .i n => .ok (.int n) | .f m e => mkF (ceilDy m e) 0)
  else if op = "$floor" then (match x with | .i n => .ok (.int n) | .f m e => mkF (floorDy m e) 0)
  else if op = "$trunc" then
    (match x with
     | .i n => .ok (.int n)
     | .f m e => mkF (if m ≥ 0 then floorDy m e else ceilDy m e) 0)
  else if op = "$sqrt" then pySqrt x
  else if op = "$exp" then (if x.isZero then .ok (.dbl 1 0) else unmodelled)
  else if op = "$ln" || op = "$log10" then
    (if x.isZero || x.isNeg then .error .valueErr
     else if Num.eq x.num ⟨1, 0⟩ then .ok (.dbl 0 0) else unmodelled)
  else unmodelled

/-! ### Python `str()`, ASCII case mapping, slicing, `str.split` -/

def pad0 (width : Nat) (s : String) : String :=
  String.ofList (List.replicate (width - s.length) '0') ++ s

/-- `repr(float)` for `m / 2^e`: the exact decimal expansion, which is what Python prints
    whenever it has at most 15 significant digits and no exponent notation is used -/
def pyFloatStr (m0 : Int) (e0 : Nat) : R String :=
  let p := normDy m0 e0
  let m := p.1; let e := p.2
  let a := m.natAbs
  if a * 5 ^ e ≥ 10 ^ 15 then unmodelled
  else if a != 0 && a * 10 ^ 4 < 2 ^ e then unmodelled
  else
    let ip := a / 2 ^ e
    let fp := (a % 2 ^ e) * 5 ^ e
    let frac := if e == 0 then "0" else pad0 e (toString fp)
    .ok ((if m < 0 then "-" else "") ++ toString ip ++ "." ++ frac)

/-- Python `str(v)` as used by `$concat`, `$toLower`, `$substr`, `$strcasecmp`, `$toString` -/
def pyStr : Val → R String
  | .null => .ok "None"
  | .bool b => .ok (if b then "True" else "False")
  | .int n => .ok (toString n)
  | .dbl m e => pyFloatStr m e
  | .str s => .ok s
  | _ => unmodelled

def isAscii (s : String) : Bool := s.toList.all (fun c => c.toNat < 128)

def asciiLower (s : String) : R String :=
  if isAscii s then .ok (String.ofList (s.toList.map Char.toLower)) else unmodelled
def asciiUpper (s : String) : R String :=
  if isAscii s then .ok (String.ofList (s.toList.map Char.toUpper)) else unmodelled

/-- Python sequence index with negative wrap-around; `none` = IndexError -/
def pyIndex {α} (xs : List α) (i : Int) : Option α :=
  if i ≥ 0 then xs[i.toNat]?
  else if (xs.length : Int) + i ≥ 0 then xs[((xs.length : Int) + i).toNat]?
  else none

/-- clamp a slice bound as Python does -/
def sliceBound (len : Nat) (i : Int) : Nat :=
  if i ≥ 0 then min i.toNat len
  else ((len : Int) + i).toNat          -- `toNat` clamps negatives to 0

/-- `xs[start:stop]`; `stop = none` is an omitted bound -/
def pySlice {α} (xs : List α) (start : Int) (stop : Option Int) : List α :=
  let a := sliceBound xs.length start
  let b := match stop with | none => xs.length | some s => sliceBound xs.length s
  (xs.drop a).take (b - a)

/-- `s.split(d)` for a non-empty `d`, on character lists (left to right, non-overlapping) -/
def splitChars (d : List Char) : List Char → Nat → List Char → List String
  | [], _, cur => [String.ofList cur.reverse]
  | _ :: r, skip + 1, cur => splitChars d r skip cur
  | c :: r, 0, cur =>
    if d.isPrefixOf (c :: r) then String.ofList cur.reverse :: splitChars d r (d.length - 1) []
    else splitChars d r 0 (c :: cur)

def pySplit (s d : String) : List String := splitChars d.toList s.toList 0 []

/-! ### `helpers.get_value_by_dot` (helpers.py:356-381); `none` = KeyError -/

/-- `int(key_item)`: `.ok none` = ValueError; forms Python accepts beyond sign+ASCII digits
    (whitespace, underscores, non-ASCII digits) are outside F -/
def keyInt (p : String) : R (Option Int) :=
  match pyInt? p with
  | some i => .ok (some i)
  | none =>
    if p.toList.any (fun c => c.isDigit || c.toNat ≥ 128) &&
       p.toList.any (fun c => c == '_' || c == ' ' || c.toNat < 32 || c.toNat ≥ 128)
    then unmodelled else .ok none

/-- `can_generate_array=False` -/
def getDotPlain : List String → Val → R (Option Val)
  | [], d => .ok (some d)
  | p :: ps, .doc fs =>
    match dget p fs with
    | some v => getDotPlain ps v
    | none => .ok none
  | p :: ps, .arr xs => do
    match ← keyInt p with
    | none => pure none
    | some i =>
      match pyIndex xs i with
      | some v => getDotPlain ps v
      | none => pure none
  | _ :: _, _ => .ok none

/-- all-or-nothing list comprehension: a KeyError in any element propagates -/
def allSome : List (Option Val) → Option (List Val)
  | [] => some []
  | none :: _ => none
  | some v :: r => (allSome r).map (v :: ·)

/-- `can_generate_array=True` (helpers.py:359-395): a non-numeric component on a list gives the
    values that the documents of the list have at the rest of the path — the same rule applied to
    each element that is a document, the ones where the path is missing (a KeyError) left out;
    elements that are not documents are skipped; a numeric component indexes the list -/
def getDotGen : List String → Val → R (Option Val)
  | [], d => .ok (some d)
  | p :: ps, .doc fs =>
    match dget p fs with
    | some v => getDotGen ps v
    | none => .ok none
  | p :: ps, .arr xs => do
    match ← keyInt p with
    | none =>
      let rs ← xs.mapM (fun x =>
        match x with
        | .doc gs => (match dget p gs with
          | some v => getDotGen ps v
          | none => .ok none)
        | _ => .ok none)
      pure (some (.arr (rs.filterMap id)))
    | some i =>
      match pyIndex xs i with
      | some v => getDotGen ps v
      | none => pure none
  | _ :: _, _ => .ok none

/-! ### civil dates (proleptic Gregorian), from days since 1970-01-01 -/

def usPerDay : Int := 86400000000

/-- days since the epoch → (year, month, day); Hinnant's `civil_from_days` -/
def civilFromDays (z0 : Int) : Int × Int × Int :=
  let z := z0 + 719468
  let era := z / 146097
  let doe := z % 146097
  let yoe := (doe - doe / 1460 + doe / 36524 - doe / 146096) / 365
  let doy := doe - (365 * yoe + yoe / 4 - yoe / 100)
  let mp := (5 * doy + 2) / 153
  let d := doy - (153 * mp + 2) / 5 + 1
  let m := if mp < 10 then mp + 3 else mp - 9
  let y := yoe + era * 400 + (if m ≤ 2 then 1 else 0)
  (y, m, d)

/-- (year, month, day) → days since the epoch; `days_from_civil` -/
def daysFromCivil (y0 m d : Int) : Int :=
  let y := if m ≤ 2 then y0 - 1 else y0
  let era := y / 400
  let yoe := y % 400
  let mp := if m > 2 then m - 3 else m + 9
  let doy := (153 * mp + 2) / 5 + d - 1
  let doe := yoe * 365 + yoe / 4 - yoe / 100 + doy
  era * 146097 + doe - 719468

def dayOf (us : Int) : Int := us / usPerDay
def usOfDay (us : Int) : Int := us % usPerDay

/-- the date-part operators on a naive datetime given as µs since the epoch
    (aggregate.py:588-607) -/
def datePart (op : String) (us : Int) : R Val :=
  let days := dayOf us
  let rem := usOfDay us
  let ymd := civilFromDays days
  let wday := (days + 4) % 7                       -- 0 = Sunday
  let yday := days - daysFromCivil ymd.1 1 1       -- 0-based
  if op = "$year" then .ok (.int ymd.1)
  else if op = "$month" then .ok (.int ymd.2.1)
  else if op = "$dayOfMonth" then .ok (.int ymd.2.2)
  else if op = "$hour" then .ok (.int (rem / 3600000000))
  else if op = "$minute" then .ok (.int (rem / 60000000 % 60))
  else if op = "$second" then .ok (.int (rem / 1000000 % 60))
  else if op = "$millisecond" then .ok (.int (rem % 1000000 / 1000))
  else if op = "$dayOfWeek" then .ok (.int (wday + 1))
  else if op = "$dayOfYear" then .ok (.int (yday + 1))
  else if op = "$week" then .ok (.int ((yday + 7 - wday) / 7))
  else unmodelled

def pad (w : Nat) (n : Int) : String := pad0 w (toString n.toNat)

/-- `parsed.isoformat(timespec='milliseconds') + 'Z'` of a naive datetime: always
    `YYYY-MM-DDTHH:MM:SS.mmmZ`, the microseconds cut to milliseconds -/
def isoZ (us : Int) : String :=
  let ymd := civilFromDays (dayOf us)
  let rem := usOfDay us
  pad 4 ymd.1 ++ "-" ++ pad 2 ymd.2.1 ++ "-" ++ pad 2 ymd.2.2 ++ "T" ++
    pad 2 (rem / 3600000000) ++ ":" ++ pad 2 (rem / 60000000 % 60) ++ ":" ++
    pad 2 (rem / 1000000 % 60) ++ "." ++ pad 3 (rem % 1000000 / 1000) ++ "Z"

/-! ### operator bodies on evaluated operands -/

/-- `helpers.mongodb_to_bool` with a KeyError counted as false (`_parse_to_bool`) -/
def toBoolOpt : Option Val → Bool
  | none => false
  | some v => v.mongoBool

def isNull : Val → Bool
  | .null => true
  | _ => false

/-- the `for value in parsed_values` loop of `$add`/`$multiply` (aggregate.py:397-400):
    `.ok none` = `return None` -/
def isBoolV : Val → Bool
  | .bool _ => true
  | _ => false

def checkNums : List Val → R (Option (List PyNum))
  | [] => .ok (some [])
  | .null :: _ => .ok none
  | .bool _ :: _ => .error .opFail             -- "only supports numeric types, not bool"
  | v :: r =>
    match toPyNum v with
    | none => .error .other                       -- AssertionError
    | some n => do
      match ← checkNums r with
      | none => pure none
      | some ns => pure (some (n :: ns))

def sumNums : List PyNum → PyNum → R PyNum
  | [], acc => .ok acc
  | n :: r, acc => do let a ← (acc.add n).check; sumNums r a

def mulNums : List PyNum → PyNum → R PyNum
  | [], acc => .ok acc
  | n :: r, acc =>
    match acc.mul n with
    | none => unmodelled
    | some a => do let a ← a.check; mulNums r a

/-- the same loop for `$add` (aggregate.py:409-419): one datetime is set aside (`date`), a second
    one is an OperationFailure; `.ok none` = `return None`; the numbers come back in order -/
def checkAdd : List Val → Option Int → R (Option (Option Int × List PyNum))
  | [], d => .ok (some (d, []))
  | .null :: _, _ => .ok none
  | .date _ (some _) :: _, _ => unmodelled
  | .date u none :: r, none => checkAdd r (some u)
  | .date _ none :: _, some _ => .error .opFail
  | .bool _ :: _, _ => .error .opFail           -- "only supports numeric or date types, not bool"
  | v :: r, d =>
    match toPyNum v with
    | none => .error .other                       -- AssertionError
    | some n => do
      match ← checkAdd r d with
      | none => pure none
      | some (d', ns) => pure (some (d', n :: ns))

/-- `datetime.min` / `datetime.max` in microseconds since the epoch (years 1 to 9999) -/
def dateMinUs : Int := -62135596800000000
def dateMaxUs : Int := 253402300799999999

/-- a date computed by arithmetic: Python's `datetime` holds the years 1 to 9999 only (beyond,
    `date + timedelta` and `timedelta(milliseconds=…)` itself raise OverflowError where the
    server has a date): no answer outside that range -/
def mkDate (u : Int) : R Val :=
  if decide (dateMinUs ≤ u) && decide (u ≤ dateMaxUs) then .ok (.date u none) else unmodelled

/-- `date + timedelta(milliseconds=n)`: exact when the sum is a whole number of microseconds -/
def datePlus (u : Int) (n : PyNum) : R Val :=
  match n with
  | .i k => mkDate (u + k * 1000)
  | .f m e => if (m * 1000) % pow2 e == 0 then mkDate (u + m * 1000 / pow2 e) else unmodelled

/-- `$add` / `$multiply` on `list(parse_many(values))` (aggregate.py:405-425) -/
def naryArith (op : String) (vals : List Val) : R Val :=
  if vals.isEmpty then .error .other               -- AssertionError
  else if op = "$add" then do
    match ← checkAdd vals none with
    | none => pure .null
    | some (none, ns) => do (← sumNums ns (.i 0)).toVal
    | some (some u, ns) => do datePlus u (← sumNums ns (.i 0))
  else do
    match ← checkNums vals with
    | none => pure .null
    | some ns =>
      match vals, ns with
      | [v], _ => pure v                          -- `reduce` over one item returns it (a bool stays a bool)
      | _, n :: r => do (← mulNums r n).toVal
      | _, [] => .error .other

/-- `$subtract` (aggregate.py:383-390) -/
def pySubtract (a b : Val) : R Val :=
  match a, b with
  | .date _ (some _), _ => unmodelled
  | _, .date _ (some _) => unmodelled
  | .date u none, .date u' none =>
    if (u - u') % 1000 == 0 then .ok (.int ((u - u') / 1000)) else unmodelled
  | .date u none, y =>
    match toPyNum y with
    | some (.i n) => mkDate (u - n * 1000)
    | some (.f m e) =>
      if (m * 1000) % pow2 e == 0 then mkDate (u - m * 1000 / pow2 e) else unmodelled
    | none => .error .typeErr
  | x, y =>
    match toPyNum x, toPyNum y with
    | some p, some q => (p.sub q).toVal
    | _, _ => .error .typeErr

/-- the binary arithmetic operators on `number_0, number_1` (aggregate.py:372-390) -/
def binaryArith (op : String) (a b : Val) : R Val :=
  if isNull a || isNull b then .ok .null
  else if isBoolV a || isBoolV b then .error .opFail     -- "only supports numeric types, not bool"
  else if op = "$subtract" then pySubtract a b
  else
    match toPyNum a, toPyNum b with
    | some x, some y =>
      if op = "$divide" then pyTrueDiv x y
      else if op = "$mod" then pyMod x y
      else if op = "$pow" then pyPowT x y
      else if op = "$log" then
        (if x.isZero || x.isNeg || y.isZero || y.isNeg then .error .valueErr
         else if Num.eq y.num ⟨1, 0⟩ then .error .other      -- ZeroDivisionError
         else unmodelled)
      else unmodelled
    | _, _ =>
      match a, b with
      | .date _ _, _ | _, .date _ _ | .str _, _ | _, .str _ | .doc _, _ | _, .doc _
      | .arr _, _ | _, .arr _ | .oid _, _ | _, .oid _ => .error .typeErr
      | _, _ => unmodelled

/-- unary arithmetic on the parsed operand; `none` = KeyError (aggregate.py:334-345) -/
def unaryArithOpt (op : String) (r : Option Val) : R Val :=
  match r with
  | none | some .null => .ok .null
  | some (.bool _) => .error .opFail                     -- a boolean is not a number
  | some v =>
    match toPyNum v with
    | none => .error .opFail
    | some x => unaryArith op x

/-- `$eq $ne $gt $gte $lt $lte $cmp` on two parsed values (aggregate.py:456-465) -/
def compareOp (op : String) (a b : Val) : R Val :=
  if op = "$eq" then .ok (.bool (pyEq a b))
  else if op = "$ne" then .ok (.bool (!pyEq a b))
  else if op = "$gt" then (bsonCompare .gt a b true).map .bool
  else if op = "$gte" then (bsonCompare .gte a b true).map .bool
  else if op = "$lt" then (bsonCompare .lt a b true).map .bool
  else if op = "$lte" then (bsonCompare .lte a b true).map .bool
  else .error .notImpl                                       -- `$cmp`

/-- a comparison on `_parse_or_nothing` of both operands (aggregate.py:498-511): NOTHING is equal
    to NOTHING only and sorts before every value (`op(a is not NOTHING, b is not NOTHING)`) -/
def compareOpt (op : String) (a b : Option Val) : R Val :=
  match a, b with
  | some x, some y => compareOp op x y
  | _, _ =>
    let p := a.isSome
    let q := b.isSome
    if op = "$gt" then .ok (.bool (p && !q))
    else if op = "$gte" then .ok (.bool (p || !q))
    else if op = "$lt" then .ok (.bool (!p && q))
    else if op = "$lte" then .ok (.bool (!p || q))
    else if op = "$eq" then .ok (.bool (!p && !q))
    else if op = "$ne" then .ok (.bool (p || q))
    else .error .notImpl                                       -- `$cmp`

def strVals : List Val → R (List String)
  | [] => .ok []
  | v :: r => do let s ← pyStr v; let ss ← strVals r; pure (s :: ss)

def isStr : Val → Bool
  | .str _ => true
  | _ => false

/-- `$concat` on `list(parse_many(values))` (aggregate.py:497-503): an operand that is neither
    null nor a string is an OperationFailure -/
def concatOp (vals : List Val) : R Val :=
  if vals.any (fun v => !isNull v && !isStr v) then .error .opFail
  else if vals.any isNull then .ok .null
  else do pure (.str (String.join (← strVals vals)))

/-- `$toLower` / `$toUpper` on the parsed operand (aggregate.py:468-473) -/
def caseOp (upper : Bool) (v : Val) : R Val :=
  match v with
  | .null => .ok (.str "")
  | v => do
    let s ← pyStr v
    pure (.str (← if upper then asciiUpper s else asciiLower s))

/-- `$split` on both parsed operands (aggregate.py:486-492) -/
def splitOp (a b : Val) : R Val :=
  if isNull a || isNull b then .ok .null
  else
    match a, b with
    | .str s, .str d =>
      if d = "" then .error .valueErr
      else if isAscii s && isAscii d then .ok (.arr ((pySplit s d).map .str)) else unmodelled
    | _, _ => .error .typeErr

def intLike : Val → Option Int
  | .int n => some n
  | .bool b => some (if b then 1 else 0)
  | _ => none

/-- `$substr` on `str(parse(v0))`, `parse(v1)`, `parse(v2)` (aggregate.py:496-509) -/
def substrOp (sv first len : Val) : R Val := do
  let s ← pyStr sv
  match toPyNum first with
  | none => (match first with
             | .null | .str _ | .arr _ | .doc _ | .date _ _ | .oid _ => .error .typeErr
             | _ => unmodelled)
  | some f =>
    if f.isNeg then pure (.str "")
    else
      match toPyNum len with
      | none => (match len with
                 | .null | .str _ | .arr _ | .doc _ | .date _ _ | .oid _ => .error .typeErr
                 | _ => unmodelled)
      | some l =>
        if !isAscii s then unmodelled
        else
          match intLike first with
          | none => .error .typeErr                  -- slice indices must be integers
          | some fi =>
            if l.isNeg then pure (.str (String.ofList (pySlice s.toList fi none)))
            else
              match intLike len with
              | none => .error .typeErr
              | some li => pure (.str (String.ofList (pySlice s.toList fi (some (fi + li)))))

/-- one operand of `$strcasecmp`: `'' if parsed is None or parsed is NOTHING else
    str(parsed).upper()` (the caller has read a missing operand as null) -/
def upperArg (v : Val) : R String :=
  match v with
  | .null => .ok ""
  | v => do asciiUpper (← pyStr v)

/-- `$strcasecmp` (aggregate.py:540-547): compares the upper-cased `str()` of the operands -/
def strcasecmpOp (a b : Val) : R Val := do
  let x ← upperArg a
  let y ← upperArg b
  pure (.int (if x = y then 0 else if x < y then -1 else 1))

/-- `$toString` on the parsed operand (aggregate.py:809-813) -/
def toStringOp (v : Val) : R Val :=
  match v with
  | .null => .ok .null
  | .bool b => .ok (.str (if b then "true" else "false"))
  | .date u none => .ok (.str (isoZ u))
  | .date _ (some _) => unmodelled
  | v => do pure (.str (← pyStr v))

/-! ### `$dateFromParts` (aggregate.py:791-825) -/

/-- Python truthiness, as `value or default` reads it -/
def pyFalsy : Val → Bool
  | .null => true
  | .bool b => !b
  | .int n => n == 0
  | .dbl m _ => m == 0
  | .str s => s == ""
  | .arr xs => xs.isEmpty
  | .doc fs => fs.isEmpty
  | .date _ _ | .oid _ => false

/-- `out_value.get(key, dflt) or dflt`: an absent part, and one that is null, 0, false, "" … too,
    is the default -/
def partOr (key : String) (dflt : Int) (fs : Fields) : Val :=
  match dget key fs with
  | none => .int dflt
  | some v => if pyFalsy v then .int dflt else v

/-- an argument of `datetime.datetime(…)` as a C int: `__index__` (ints, booleans; anything else
    is a TypeError), then the range of a C int (OverflowError) -/
def cInt : Val → R Int
  | .int n => if decide (-2147483648 ≤ n) && decide (n ≤ 2147483647) then .ok n else .error .other
  | .bool b => .ok (if b then 1 else 0)
  | _ => .error .typeErr

def isLeap (y : Int) : Bool := y % 4 == 0 && (y % 100 != 0 || y % 400 == 0)

/-- `datetime._days_in_month` -/
def daysInMonth (y m : Int) : Int :=
  if m = 2 then (if isLeap y then 29 else 28)
  else if m = 4 || m = 6 || m = 9 || m = 11 then 30 else 31

/-- `datetime.datetime(year, month, day, hour, minute, second)` in µs since the epoch: the
    arguments are converted in order (TypeError / OverflowError), then their ranges are checked in
    order (ValueError): nothing is carried -/
def pyDatetime (y mo d h mi s : Val) : R Int := do
  let y ← cInt y
  let mo ← cInt mo
  let d ← cInt d
  let h ← cInt h
  let mi ← cInt mi
  let s ← cInt s
  if y < 1 || y > 9999 then .error .valueErr
  else if mo < 1 || mo > 12 then .error .valueErr
  else if d < 1 || d > daysInMonth y mo then .error .valueErr
  else if h < 0 || h > 23 then .error .valueErr
  else if mi < 0 || mi > 59 then .error .valueErr
  else if s < 0 || s > 59 then .error .valueErr
  else .ok (daysFromCivil y mo d * usPerDay + h * 3600000000 + mi * 60000000 + s * 1000000)

/-- `$dateFromParts` on the parsed operand: a document with exactly one of `year` /
    `isoWeekYear`; the iso parts and `timezone` are refused; `year` as it is, the other parts
    `or` their default; the milliseconds are added as a `timedelta` (any number, carried) -/
def dateFromPartsOp (v : Val) : R Val :=
  match v with
  | .doc fs =>
    if dhas "year" fs == dhas "isoWeekYear" fs then .error .opFail
    else if ["isoWeekYear", "isoWeek", "isoDayOfWeek", "timezone"].any (fun k => dhas k fs) then
      .error .notImpl
    else do
      let u ← pyDatetime ((dget "year" fs).getD .null) (partOr "month" 1 fs) (partOr "day" 1 fs)
        (partOr "hour" 0 fs) (partOr "minute" 0 fs) (partOr "second" 0 fs)
      match toPyNum (partOr "millisecond" 0 fs) with
      | some n => datePlus u n
      | none => .error .typeErr
  | _ => .error .opFail

/-- a date operator on the parsed operand (aggregate.py:586-678) -/
def dateOp (op : String) (v : Val) : R Val :=
  if datePartOps.contains op then
    match v with
    | .null => .ok .null                   -- the parts of a null (or missing) date are null
    | .date u none => datePart op u
    | .date _ (some _) => unmodelled
    | _ => .error .attrErr
  else if op = "$isoDayOfWeek" || op = "$isoWeek" || op = "$isoWeekYear" then .error .notImpl
  else if op = "$dateFromParts" then dateFromPartsOp v
  else if op = "$dateFromString" then .error .notImpl   -- parsed, then "not implemented"
  else unmodelled

/-! ### `_GROUPING_OPERATOR_MAP` inside `$project` (aggregate.py:175-219, 411-414) -/

def numsOf : List Val → List PyNum
  | [] => []
  | v :: r => match toPyNum v with | some n => n :: numsOf r | none => numsOf r

/-- Python `max` / `min` over numbers: the first extremal element wins -/
def extremum (isMax : Bool) : List Val → Val → Val
  | [], best => best
  | v :: r, best =>
    match v.num?, best.num? with
    | some x, some y =>
      if (if isMax then Num.lt y x else Num.lt x y) then extremum isMax r v else extremum isMax r best
    | _, _ => extremum isMax r best

def extremumStr (isMax : Bool) : List String → String → String
  | [], best => best
  | s :: r, best =>
    if (if isMax then best < s else s < best) then extremumStr isMax r s else extremumStr isMax r best

def strsOf : List Val → Option (List String)
  | [] => some []
  | .str s :: r => (strsOf r).map (s :: ·)
  | _ :: _ => none

/-- the grouping operators as they were BEFORE the library repairs 94aa9ad (`$min` / `$max` by
    BSON order) and 2f66991 (`$sum` / `$avg` ignore booleans).  Kept under its old name and
    meaning only because MongoModel/Pipeline.lean (`accApply`) and Proofs/C03* still refer to it;
    the expression evaluator uses `groupingList` below, which follows the repaired code. -/
def groupingOnList (op : String) (xs : List Val) : R Val :=
  if op = "$sum" then do (← sumNums (numsOf xs) (.i 0)).toVal
  else if op = "$avg" then
    let ns := numsOf xs
    if ns.isEmpty then .ok .null
    else do
      let s ← sumNums ns (.i 0)
      -- `sum(values) / float(len(values))`
      pyDivide s (.f ns.length 0)
  else if op = "$min" || op = "$max" then
    let ys := xs.filter (fun v => !isNull v)
    match ys with
    | [] => .ok .null
    | y :: r =>
      if ys.all (fun v => (toPyNum v).isSome) then .ok (extremum (op = "$max") r y)
      else match strsOf ys with
        | some (s :: ss) => .ok (.str (extremumStr (op = "$max") ss s))
        | _ => unmodelled
  else if op = "$first" then .ok (xs.head?.getD .null)
  else if op = "$last" then .ok (xs.getLast?.getD .null)
  else .error .notImpl

/-- `isinstance(v, numbers.Number) and not isinstance(v, bool)` (`_sum_operation`,
    `_avg_operation`, aggregate.py:188-215) -/
def toPyNumNB : Val → Option PyNum
  | .int n => some (.i n)
  | .dbl m e => some (.f m e)
  | _ => none

/-- the values `$sum` / `$avg` keep: numbers, booleans excluded; everything else is ignored -/
def numsOfNB : List Val → List PyNum
  | [] => []
  | v :: r => match toPyNumNB v with | some n => n :: numsOfNB r | none => numsOfNB r

/-- `max(values, key=filtering.BsonComparable)` / `min(…)` (`_group_operation`,
    aggregate.py:195-199).  CPython keeps the first extremal item: `max` replaces the best item
    when `key(v) > key(best)`, which `BsonComparable` (it only has `__lt__`) answers by the
    reflected `key(best) < key(v)` = `bson_compare(lt, best, v)`; `min` replaces it when
    `key(v) < key(best)` = `bson_compare(lt, v, best)`. -/
def bsonExtremum (isMax : Bool) : List Val → Val → R Val
  | [], best => .ok best
  | v :: r, best =>
    match (if isMax then bsonCompare .lt best v true else bsonCompare .lt v best true) with
    | .error e => .error e
    | .ok lt => bsonExtremum isMax r (if lt then v else best)

/-- `_GROUPING_OPERATOR_MAP[op](values)` on an iterable of values (aggregate.py:188-234):
    `$sum` / `$avg` over the numbers that are not booleans, `$min` / `$max` over the values that
    are not None in the BSON order, `$first` / `$last` by position -/
def groupingList (op : String) (xs : List Val) : R Val :=
  if op = "$sum" then do (← sumNums (numsOfNB xs) (.i 0)).toVal
  else if op = "$avg" then
    let ns := numsOfNB xs
    if ns.isEmpty then .ok .null
    else do
      let s ← sumNums ns (.i 0)
      -- `sum(values_list) / float(len(values_list))`
      pyDivide s (.f ns.length 0)
  else if op = "$min" || op = "$max" then
    match xs.filter (fun v => !isNull v) with
    | [] => .ok .null
    | y :: r => bsonExtremum (op = "$max") r y
  else if op = "$first" then .ok (xs.head?.getD .null)
  else if op = "$last" then .ok (xs.getLast?.getD .null)
  else .error .notImpl

/-- the grouping operators as expression operators: `$avg` divides `sum(values)` by the float
    `len(values)`, so an int sum that `float()` rounds has no answer in this model (as in
    `pyTrueDiv`) -/
def groupingInExpr (op : String) (xs : List Val) : R Val :=
  if op = "$avg" &&
      (match sumNums (numsOfNB xs) (.i 0) with | .ok s => s.roundedByFloat | .error _ => false)
  then unmodelled else groupingList op xs

/-- the operator applied to `self.parse(values)` (one operand that is not written as a list): an
    array value is ranged over; any other value is the only value `$sum $avg $min $max` accumulate
    (`values = [values]`); `$first` / `$last` read `values[0] if values else None` off it -/
def groupingOnValue (op : String) (v : Val) : R Val :=
  match v with
  | .arr xs => groupingInExpr op xs
  | v =>
    if !(op = "$first" || op = "$last") then groupingInExpr op [v]
    else match v with
      | .null => .ok .null
      | .int n | .dbl n _ => if n == 0 then .ok .null else .error .typeErr
      | .bool b => if !b then .ok .null else .error .typeErr
      | .date _ _ | .oid _ => .error .typeErr
      | _ => unmodelled                                   -- strings / dicts are subscripted

/-- `$arrayElemAt` on the parsed array and index (aggregate.py:431-441), a missing operand having
    been read as null; `none` = KeyError -/
def arrayElemAtOp (a i : Val) : R (Option Val) :=
  if isNull a || isNull i then .ok (some .null)
  else if isBoolV i then .error .opFail                   -- "must be a numeric value, but is bool"
  else
  match a with
  | .arr xs =>
    match intLike i with
    | some n => .ok (pyIndex xs n)
    | none => .error .typeErr
  | .null | .int _ | .dbl _ _ | .bool _ | .date _ _ | .oid _ => .error .typeErr
  | _ => unmodelled

/-! ### array and set operators -/

def arrsOf : List Val → Option (List (List Val))
  | [] => some []
  | .arr xs :: r => (arrsOf r).map (xs :: ·)
  | _ :: _ => none

/-- `$concatArrays` on `list(parse_many(value))` (aggregate.py:685-692) -/
def concatArraysOp (vals : List Val) : R Val :=
  if vals.any (fun v => !isNull v && !v.isArr) then .error .opFail
  else if vals.any isNull then .ok .null
  else match arrsOf vals with
    | some xss => .ok (.arr xss.flatten)
    | none => .error .opFail

/-- `$size` on `_parse_or_nothing(value)` (aggregate.py:737-742) -/
def sizeOp (r : Option Val) : R Val :=
  match r with
  | some (.arr xs) => .ok (.int xs.length)
  | _ => .error .opFail

/-- `isinstance(v, int) and not isinstance(v, bool)` -/
def intOnly : Val → Option Int
  | .int n => some n
  | _ => none

/-- `$slice` with the parsed array and the *unparsed* remaining arguments (aggregate.py:772-796) -/
def sliceOp (a : Val) (rest : List Val) : R Val :=
  match a with
  | .arr xs =>
    match rest.map intOnly with
    | [some n] =>
      if n < 0 then .ok (.arr (pySlice xs n none)) else .ok (.arr (pySlice xs 0 (some n)))
    | [some start, some cnt] =>
      if cnt ≤ 0 then .error .opFail
      else if start < 0 then .ok (.arr (pySlice xs start (some ((xs.length : Int) + start + cnt))))
      else .ok (.arr (pySlice xs start (some (start + cnt))))
    | _ => .error .opFail
  | _ => .error .opFail

/-- iterating (or `len()`, unpacking, subscripting) a parsed value that is not a list -/
def iterErr {α} (v : Val) : R α :=
  match v with
  | .null | .int _ | .dbl _ _ | .bool _ | .date _ _ | .oid _ => .error .typeErr
  | _ => unmodelled                       -- strings and dicts iterate (characters / keys)

/-- `x in container` for `$in` (aggregate.py:1090-1101): the container must be a list -/
def inOp (x a : Val) : R Val :=
  match a with
  | .arr xs => .ok (.bool (pyIn x xs))
  | _ => .error .opFail

/-- `$in` on `_parse_or_nothing` of both operands: a missing container is not a list, a missing
    value (`NOTHING`) is in no list -/
def inOpt (x a : Option Val) : R Val :=
  match a with
  | none => .error .opFail
  | some c =>
    match x with
    | none => (inOp .null c).map (fun _ => .bool false)
    | some v => inOp v c

def unionLoop : List Val → List Val → List Val
  | [], acc => acc
  | v :: r, acc => if pyIn v acc then unionLoop r acc else unionLoop r (acc ++ [v])

def hashable : Val → Bool
  | .doc _ | .arr _ => false
  | .date _ (some _) => false
  | _ => true

/-- `set(parsed)` for one operand of `$setEquals` -/
def setOf (v : Val) : R (List Val) :=
  match v with
  | .arr xs =>
    if xs.all hashable then .ok xs
    else if xs.any (fun v => match v with | .date _ (some _) => true | _ => false) then unmodelled
    else .error .typeErr
  | v => iterErr v

def subsetPy (xs ys : List Val) : Bool := xs.all (fun x => pyIn x ys)

def allPairsEq : List (List Val) → Bool
  | [] => true
  | s :: r => r.all (fun t => subsetPy s t && subsetPy t s) && allPairsEq r

/-! ### type operators -/

def isNumberOp : Option Val → Val
  | some (.int _) | some (.dbl _ _) => .bool true
  | _ => .bool false

def isArrayOp : Option Val → Val
  | some (.arr _) => .bool true
  | _ => .bool false

def kvPair : Val → Option (Val × Val)
  | .doc [(a, x), (b, y)] =>
    if a = "k" && b = "v" then some (x, y)
    else if a = "v" && b = "k" then some (y, x) else none
  | _ => none

def pairOf : Val → Option (Val × Val)
  | .arr [k, v] => some (k, v)
  | _ => none

def buildDoc : List (Val × Val) → Fields → R Val
  | [], acc => .ok (.doc acc)
  | (.str k, v) :: r, acc => buildDoc r (dset k v acc)
  | _ :: _, _ => unmodelled                           -- non-string keys

/-- `$arrayToObject` on the parsed operand (aggregate.py:884-901) -/
def arrayToObjectOp (r : Option Val) : R Val :=
  match r with
  | none | some .null => .ok .null
  | some (.arr xs) =>
    if xs.all (fun x => (kvPair x).isSome) then buildDoc (xs.filterMap kvPair) []
    else if xs.all (fun x => (pairOf x).isSome) then buildDoc (xs.filterMap pairOf) []
    else if xs.any (fun x => match x with | .str _ => true | _ => false) then unmodelled
    else .error .opFail
  | some _ => .error .opFail

/-- `$objectToArray` on the parsed operand (aggregate.py:910-923) -/
def objectToArrayOp (r : Option Val) : R Val :=
  match r with
  | none | some .null => .ok .null
  | some (.doc fs) => .ok (.arr (fs.map (fun kv => .doc [("k", .str kv.1), ("v", kv.2)])))
  | some _ => .error .opFail

end MongoModel.Expr
