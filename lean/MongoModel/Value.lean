/-
  MongoModel.Value — the value universe shared by every component of the model.

  A `Val` is what a Python value stored in / passed to mongomock looks like after the wire
  encoding of the harness:  None, bool, int, float (exact dyadic m / 2^e), str, datetime,
  ObjectId (numbered by first appearance), dict (insertion ordered) and list.
  `Option Val` is "a value or NOTHING / missing".

  Core Lean only (no Mathlib) so that the driver links as a plain executable.
-/
namespace MongoModel

inductive Val where
  | null
  | bool (b : Bool)
  | int (i : Int)
  | dbl (m : Int) (e : Nat)            -- the float m / 2^e (exact)
  | str (s : String)
  | date (us : Int) (off : Option Int) -- wall clock µs since epoch, utcoffset in minutes when aware
  | oid (n : Nat)
  | doc (fs : List (String × Val))
  | arr (xs : List Val)
  deriving Repr, Inhabited

abbrev Fields := List (String × Val)

/-- Errors, mapped to a small enum on both sides of the correspondence. -/
inductive Err where
  | opFail        -- OperationFailure (not a WriteError)
  | writeErr      -- WriteError (not DuplicateKey)
  | dupKey        -- DuplicateKeyError
  | notImpl       -- NotImplementedError
  | typeErr       -- TypeError
  | valueErr      -- ValueError
  | keyErr        -- KeyError
  | indexErr      -- IndexError
  | attrErr       -- AttributeError
  | invalidOp     -- InvalidOperation
  | collInvalid   -- CollectionInvalid
  | invalidName   -- InvalidName
  | bulk          -- BulkWriteError (details carried separately)
  | other
  | unmodelled    -- not a Python error: the model does not express this behaviour (outside F)
  deriving Repr, DecidableEq, Inhabited

def Err.name : Err → String
  | .opFail => "OperationFailure" | .writeErr => "WriteError" | .dupKey => "DuplicateKeyError"
  | .notImpl => "NotImplementedError" | .typeErr => "TypeError" | .valueErr => "ValueError"
  | .keyErr => "KeyError" | .indexErr => "IndexError" | .attrErr => "AttributeError"
  | .invalidOp => "InvalidOperation" | .collInvalid => "CollectionInvalid"
  | .invalidName => "InvalidName" | .bulk => "BulkWriteError" | .other => "Error"
  | .unmodelled => "?unmodelled"

/-- `isinstance(e, WriteError)`: DuplicateKeyError is a subclass. -/
def Err.isWriteError : Err → Bool
  | .writeErr | .dupKey => true
  | _ => false

/-- `isinstance(e, OperationFailure)`. -/
def Err.isOpFailure : Err → Bool
  | .opFail | .writeErr | .dupKey | .bulk => true
  | _ => false

abbrev R (α : Type) := Except Err α

instance {ε α : Type} [DecidableEq ε] [DecidableEq α] : DecidableEq (Except ε α)
  | .ok a, .ok b => if h : a = b then isTrue (by rw [h]) else isFalse (by intro h'; cases h'; exact h rfl)
  | .error a, .error b => if h : a = b then isTrue (by rw [h]) else isFalse (by intro h'; cases h'; exact h rfl)
  | .ok _, .error _ => isFalse (by intro h; cases h)
  | .error _, .ok _ => isFalse (by intro h; cases h)

/-! ### Association-list helpers (Python dict with insertion order) -/

def dget (k : String) : Fields → Option Val
  | [] => none
  | (k', v) :: r => if k' = k then some v else dget k r

def dhas (k : String) (fs : Fields) : Bool := (dget k fs).isSome

/-- `d[k] = v`: overwrite in place when present, else append. -/
def dset (k : String) (v : Val) : Fields → Fields
  | [] => [(k, v)]
  | (k', v') :: r => if k' = k then (k, v) :: r else (k', v') :: dset k v r

/-- `d.pop(k, None)`. -/
def derase (k : String) : Fields → Fields
  | [] => []
  | (k', v') :: r => if k' = k then r else (k', v') :: derase k r

def dkeys (fs : Fields) : List String := fs.map (·.1)

/-! ### Numbers: ints and exact dyadic floats, compared by cross multiplication -/

structure Num where
  m : Int
  e : Nat
  deriving Repr, Inhabited

def Num.lt (a b : Num) : Bool := a.m * (2 : Int) ^ b.e < b.m * (2 : Int) ^ a.e
def Num.eq (a b : Num) : Bool := a.m * (2 : Int) ^ b.e == b.m * (2 : Int) ^ a.e
def Num.le (a b : Num) : Bool := a.m * (2 : Int) ^ b.e ≤ b.m * (2 : Int) ^ a.e

/-- Python numeric view of a value (`bool` is an `int` subclass). -/
def Val.num? : Val → Option Num
  | .bool b => some ⟨if b then 1 else 0, 0⟩
  | .int i => some ⟨i, 0⟩
  | .dbl m e => some ⟨m, e⟩
  | _ => none

/-- `isinstance(v, numbers.Number) and not isinstance(v, bool)`. -/
def Val.isNumber : Val → Bool
  | .int _ | .dbl _ _ => true
  | _ => false

def Val.isArr : Val → Bool
  | .arr _ => true
  | _ => false

def Val.isDoc : Val → Bool
  | .doc _ => true
  | _ => false

/-- UTC instant of a datetime in µs (aware: wall clock minus offset). -/
def dateUtc (us : Int) (off : Option Int) : Int :=
  match off with
  | none => us
  | some o => us - o * 60000000

/-! ### Python `==` -/

mutual
  /-- Python `a == b` on the value universe (no NaN). -/
  def pyEq : Val → Val → Bool
    | .null, .null => true
    | .bool a, .bool b => a == b
    | .bool a, .int i => (if a then 1 else 0) == i
    | .int i, .bool a => (if a then 1 else 0) == i
    | .bool a, .dbl m e => Num.eq ⟨if a then 1 else 0, 0⟩ ⟨m, e⟩
    | .dbl m e, .bool a => Num.eq ⟨if a then 1 else 0, 0⟩ ⟨m, e⟩
    | .int i, .int j => i == j
    | .int i, .dbl m e => Num.eq ⟨i, 0⟩ ⟨m, e⟩
    | .dbl m e, .int i => Num.eq ⟨i, 0⟩ ⟨m, e⟩
    | .dbl m e, .dbl m' e' => Num.eq ⟨m, e⟩ ⟨m', e'⟩
    | .str a, .str b => a == b
    | .date u none, .date u' none => u == u'
    | .date u (some o), .date u' (some o') => dateUtc u (some o) == dateUtc u' (some o')
    | .oid a, .oid b => a == b
    | .doc fs, .doc gs => fs.length == gs.length && pyEqFields fs gs
    | .arr xs, .arr ys => pyEqList xs ys
    | _, _ => false
  /-- every key of `fs` is in `gs` with a `==` value (dict equality, given equal lengths) -/
  def pyEqFields : Fields → Fields → Bool
    | [], _ => true
    | (k, v) :: r, gs =>
      (match dget k gs with
       | some v' => pyEq v v'
       | none => false) && pyEqFields r gs
  def pyEqList : List Val → List Val → Bool
    | [], [] => true
    | x :: xs, y :: ys => pyEq x y && pyEqList xs ys
    | _, _ => false
end

/-- `x in xs` (Python list membership through `==`). -/
def pyIn (x : Val) (xs : List Val) : Bool := xs.any (pyEq · x)

/-- `a == b` where either side may be NOTHING (a sentinel equal only to itself). -/
def pyEqOpt : Option Val → Option Val → Bool
  | none, none => true
  | some a, some b => pyEq a b
  | _, _ => false

/-! ### Structural (exact) equality — used to state "unchanged" -/

mutual
  def Val.beq : Val → Val → Bool
    | .null, .null => true
    | .bool a, .bool b => a == b
    | .int a, .int b => a == b
    | .dbl m e, .dbl m' e' => m == m' && e == e'
    | .str a, .str b => a == b
    | .date u o, .date u' o' => u == u' && o == o'
    | .oid a, .oid b => a == b
    | .doc fs, .doc gs => beqFields fs gs
    | .arr xs, .arr ys => beqList xs ys
    | _, _ => false
  def beqFields : Fields → Fields → Bool
    | [], [] => true
    | (k, v) :: r, (k', v') :: r' => k == k' && Val.beq v v' && beqFields r r'
    | _, _ => false
  def beqList : List Val → List Val → Bool
    | [], [] => true
    | x :: xs, y :: ys => Val.beq x y && beqList xs ys
    | _, _ => false
end

instance : BEq Val := ⟨Val.beq⟩

/-! ### BSON comparison type classes (`_get_compare_type`) -/

def Val.tc : Val → Nat
  | .null => 5
  | .bool _ => 40
  | .int _ | .dbl _ _ => 10
  | .str _ => 15
  | .doc _ => 20
  | .arr _ => 25
  | .oid _ => 35
  | .date _ _ => 45

/-- Python truthiness (`bool(v)`). -/
def Val.truthy : Val → Bool
  | .null => false
  | .bool b => b
  | .int i => i != 0
  | .dbl m _ => m != 0
  | .str s => s != ""
  | .date _ _ => true
  | .oid _ => true
  | .doc fs => !fs.isEmpty
  | .arr xs => !xs.isEmpty

/-- `helpers.mongodb_to_bool`: `value not in [False, None, 0]`. -/
def Val.mongoBool (v : Val) : Bool :=
  !(pyIn v [.bool false, .null, .int 0])

/-! ### `key.split('.')`, `int(s)` -/

/-- `key.split('.')` on the character list (structural, so that it reduces in the kernel) -/
def splitDotsChars : List Char → List Char → List String
  | [], cur => [String.ofList cur.reverse]
  | c :: r, cur =>
    if c = '.' then String.ofList cur.reverse :: splitDotsChars r []
    else splitDotsChars r (c :: cur)

def splitDots (s : String) : List String := splitDotsChars s.toList []

def joinDots (ps : List String) : String := ".".intercalate ps

/-- Python `int(s)` for the strings that occur as path components: optional sign and ASCII
    digits (whitespace / underscores are outside the generators' alphabet). -/
def pyInt? (s : String) : Option Int :=
  let cs := s.toList
  let digits (ds : List Char) : Option Nat :=
    if ds.isEmpty then none
    else if ds.all Char.isDigit then some (ds.foldl (fun n c => n * 10 + (c.toNat - '0'.toNat)) 0)
    else none
  match cs with
  | '-' :: r => (digits r).map (fun n => - (Int.ofNat n))
  | '+' :: r => (digits r).map Int.ofNat
  | _ => (digits cs).map Int.ofNat

end MongoModel
