/-
  MongoModel.Vocab — C20: the dispatch STRUCTURE of every syntactic position of mongomock that
  accepts an operator name, and the opt-out switches of `not_implemented.py`.

  What is hand-written here is only the *shape* of each dispatch (membership tests in the code's
  order, with the default branch); the *tables* it consults (`Tables`) are regenerated from the
  current source on every run (`lean/Generated/Tables.lean`, written by
  `harness/extract_vocab.py` from `_Filterer()._operator_map`, `LOGICAL_OPERATOR_MAP`,
  `_TOP_LEVEL_OPERATORS`, `_NOT_IMPLEMENTED_OPERATORS`, `collection._updaters`, the in-line
  branches of `Collection._apply_update`, the names `_validate_update_operators` lets through, `aggregate._PIPELINE_HANDLERS`, the `if k in <list>`
  chain of `_Parser.parse` with the branches of every `_handle_*`, `_GROUPING_OPERATOR_MAP`, the
  names `_validate_accumulators` lets through,
  `group_operators`, `TYPE_MAP`).

  Names are `Code`s: the UTF-8 bytes of the name read as a little-endian base-256 numeral
  (`enc`).  Kernel evaluation of `Nat` equality is fast, of `String` equality it is not, and the
  table theorems of Props/C20 are `decide`d by the kernel over several thousand entries; the
  generated files carry every name both as a string and as its code, and `enc name = code` is
  part of what is checked.  A name "starts with `$`" iff its code is ≡ 36 (mod 256).

  Core Lean only (the driver links this file).
-/

namespace MongoModel.Vocab

/-! ## names -/

abbrev Code := Nat

/-- UTF-8 bytes, little-endian base 256 (the first character is the lowest digit). -/
def enc (s : String) : Code :=
  s.toUTF8.data.toList.foldr (fun b acc => b.toNat + 256 * acc) 0

/-- `name.startswith('$')` -/
def isOp (k : Code) : Bool := k % 256 == 36

/-- the names the code compares with literally (`key == '$comment'` …); `enc_consts` in
    Proofs/C20 checks each numeral against its string -/
def cComment : Code := 8389754676499669796     -- "$comment"
def cExpr : Code := 491513210148               -- "$expr"
def cNot : Code := 1953459748                  -- "$not"
def cAll : Code := 1819042084                  -- "$all"
def cExists : Code := 32497661361284388        -- "$exists"
def cNe : Code := 6647332                      -- "$ne"
def cNin : Code := 1852403236                  -- "$nin"
def cEach : Code := 448343926052               -- "$each"
def cToInt : Code := 128017027265572           -- "$toInt"
def cToLong : Code := 29113346903995428        -- "$toLong"
def cToDecimal : Code := 511812798266980789351460 -- "$toDecimal"

/-! ## positions and dispositions -/

/-- every syntactic position that accepts an operator name -/
inductive Position
  | queryField        -- `find({path: {NAME: x}})`, the path has at least one candidate value
  | queryFieldDeadEnd -- the same, the path reaches nothing (a field name over an array of
                      -- scalars, an index past the end): no candidate value (the operators
                      -- are checked all the same, before the candidates are looked for)
  | queryTop          -- `find({NAME: x})`
  | queryNot          -- `find({path: {$not: {NAME: x}}})`
  | queryElemMatch    -- `find({path: {$elemMatch: {NAME: x}}})`
  | updateOp          -- `update_*(filter, {NAME: x})`, a document matches (or upsert)
  | updateNoMatch     -- the same, no document matches and no upsert (the operators are
                      -- checked all the same, before any document is looked for)
  | pushModifier      -- `{$push: {f: {$each: [..], NAME: x}}}`
  | addToSetModifier  -- `{$addToSet: {f: {$each: [..], NAME: x}}}`
  | stage             -- `aggregate([{NAME: x}])`
  | exprProject       -- `{$project: {f: {NAME: x}}}`
  | exprAddFields     -- `{$addFields: {f: {NAME: x}}}`
  | exprMatchExpr     -- `{$match: {$expr: {NAME: x}}}`
  | exprGroupId       -- `{$group: {_id: {NAME: x}}}`
  | accumulator       -- `{$group: {_id: .., f: {NAME: x}}}`
  | typeAlias         -- `find({path: {$type: NAME}})`
  deriving DecidableEq, Repr, Inhabited

def Position.all : List Position :=
  [.queryField, .queryFieldDeadEnd, .queryTop, .queryNot, .queryElemMatch, .updateOp,
   .updateNoMatch, .pushModifier, .addToSetModifier, .stage, .exprProject, .exprAddFields,
   .exprMatchExpr, .exprGroupId, .accumulator, .typeAlias]

/-- what the code does with a name at a position -/
inductive Disposition
  | implemented             -- evaluated
  | raisesNotImplemented    -- NotImplementedError
  | raisesOther             -- OperationFailure / WriteError / ValueError … (what a server would say)
  | ignored                 -- accepted, takes no part in the result
  | plainKey                -- not an operator at all (no `$`): a field name / literal key
  deriving DecidableEq, Repr, Inhabited

def Disposition.raises : Disposition → Bool
  | .raisesNotImplemented | .raisesOther => true
  | _ => false

/-! ## the tables of the code (regenerated) -/

structure Tables (α : Type) where
  operatorMap : List α      -- `_Filterer()._operator_map`
  logicalOps : List α       -- `LOGICAL_OPERATOR_MAP`
  logicalConst : List α     -- … whose value is truthy whatever the sub-filters say
  topLevelNI : List α       -- `_TOP_LEVEL_OPERATORS`
  fieldNI : List α          -- `_NOT_IMPLEMENTED_OPERATORS`
  updaters : List α         -- `collection._updaters`
  updateInline : List α     -- `elif k == '$op'` branches of `_apply_update`
  updateChecked : List α    -- the names `_validate_update_operators` lets through (`_updaters`
                            -- and `_OTHER_UPDATE_OPERATORS`), before any document is looked for
  pushModifiers : List α    -- the clause set of the `$push` branch
  stagesImpl : List α       -- `_PIPELINE_HANDLERS` with a handler
  stagesNone : List α       -- `_PIPELINE_HANDLERS` with `None`
  /-- `_Parser.parse`: the `if k in <list>: return self._handle_X(k, v)` tests in source order;
      each with the names `_handle_X` has a branch for -/
  exprChain : List (List α × List α)
  exprNI : List α           -- the `raise NotImplementedError` test that ends the chain
  groupingMap : List α      -- `_GROUPING_OPERATOR_MAP`
  groupInline : List α      -- `elif operator == '$op'` branches of `_accumulate_group`
  groupOperators : List α   -- `group_operators`
  groupChecked : List α     -- the names `_validate_accumulators` lets through (before `$group` /
                            -- `$bucket` read any document); every other name raises there
  typeImpl : List α         -- `TYPE_MAP` with a predicate
  typeNone : List α         -- `TYPE_MAP` with `None`
  decimalSupport : Bool     -- `aggregate.decimal_support` (bson importable)
  deriving DecidableEq, Repr

def Tables.map {α β} (f : α → β) (T : Tables α) : Tables β :=
  { operatorMap := T.operatorMap.map f, logicalOps := T.logicalOps.map f,
    logicalConst := T.logicalConst.map f, topLevelNI := T.topLevelNI.map f,
    fieldNI := T.fieldNI.map f, updaters := T.updaters.map f,
    updateInline := T.updateInline.map f, updateChecked := T.updateChecked.map f,
    pushModifiers := T.pushModifiers.map f,
    stagesImpl := T.stagesImpl.map f, stagesNone := T.stagesNone.map f,
    exprChain := T.exprChain.map (fun p => (p.1.map f, p.2.map f)),
    exprNI := T.exprNI.map f, groupingMap := T.groupingMap.map f,
    groupInline := T.groupInline.map f, groupOperators := T.groupOperators.map f,
    groupChecked := T.groupChecked.map f,
    typeImpl := T.typeImpl.map f, typeNone := T.typeNone.map f,
    decimalSupport := T.decimalSupport }

def Tables.empty : Tables Code :=
  { operatorMap := [], logicalOps := [], logicalConst := [], topLevelNI := [], fieldNI := [],
    updaters := [], updateInline := [], updateChecked := [], pushModifiers := [], stagesImpl := [], stagesNone := [],
    exprChain := [], exprNI := [], groupingMap := [], groupInline := [], groupOperators := [],
    groupChecked := [],
    typeImpl := [], typeNone := [], decimalSupport := false }

/-! ## classification of a name against the tables (computed once per name) -/

/-- `_Parser.parse`: the first list of the chain that contains the name, and whether the handler
    it leads to has a branch for the name (otherwise the handler falls through to its final
    `raise NotImplementedError`). -/
def chainHit (k : Code) : List (List Code × List Code) → Option Bool
  | [] => none
  | (l, br) :: rest => if l.contains k then some (br.contains k) else chainHit k rest

structure NameClass where
  op : Bool             -- starts with `$`
  comment : Bool
  expr : Bool
  not_ : Bool
  all : Bool
  exists_ : Bool
  neNin : Bool          -- `$ne` / `$nin`
  each : Bool
  needsDecimal : Bool   -- `$toInt` / `$toLong` / `$toDecimal`: the branch raises without bson
  operatorMap : Bool
  logical : Bool
  logicalConst : Bool
  topNI : Bool
  fieldNI : Bool
  updater : Bool
  updateInline : Bool
  updateChecked : Bool
  pushMod : Bool
  stageImpl : Bool
  exprHit : Option Bool
  exprNI : Bool
  grouping : Bool
  groupInline : Bool
  groupChecked : Bool
  typeImpl : Bool
  typeNone : Bool
  deriving DecidableEq, Repr

def classify (T : Tables Code) (k : Code) : NameClass :=
  { op := isOp k,
    comment := k == cComment, expr := k == cExpr, not_ := k == cNot, all := k == cAll,
    exists_ := k == cExists, neNin := k == cNe || k == cNin, each := k == cEach,
    needsDecimal := k == cToInt || k == cToLong || k == cToDecimal,
    operatorMap := T.operatorMap.contains k,
    logical := T.logicalOps.contains k,
    logicalConst := T.logicalConst.contains k,
    topNI := T.topLevelNI.contains k,
    fieldNI := T.fieldNI.contains k,
    updater := T.updaters.contains k,
    updateInline := T.updateInline.contains k,
    updateChecked := T.updateChecked.contains k,
    pushMod := T.pushModifiers.contains k,
    stageImpl := T.stagesImpl.contains k,
    exprHit := chainHit k T.exprChain,
    exprNI := T.exprNI.contains k,
    grouping := T.groupingMap.contains k,
    groupInline := T.groupInline.contains k,
    groupChecked := T.groupChecked.contains k,
    typeImpl := T.typeImpl.contains k,
    typeNone := T.typeNone.contains k }

/-! ## the dispatch of each position -/

/-- `_Filterer.apply`, the key of the filter itself (filtering.py:82-102):
    `$comment` skipped by design; `key in LOGICAL_OPERATOR_MAP and key != '$not'` evaluated — a
    connective whose value is always truthy (as the lambda of `$not`, which returns a generator
    object) would never reject a document, i.e. be ignored; `$not` itself is not taken here;
    `$expr`; `_TOP_LEVEL_OPERATORS` → NotImplementedError; any other `$name`, `$not` included →
    OperationFailure('unknown top level operator'). -/
def topDispatch (c : NameClass) : Disposition :=
  if c.comment then .implemented
  else if c.logical && !c.not_ then (if c.logicalConst then .ignored else .implemented)
  else if c.expr then .implemented
  else if c.topNI then .raisesNotImplemented
  else if c.op then .raisesOther
  else .plainKey

/-- the operator of a condition `{path: {NAME: x}}`, for a candidate value (filtering.py:123-135):
    `unknown = set(search) - set(_operator_map) - {'$not'}`; unknown ∩ `_NOT_IMPLEMENTED_OPERATORS`
    → NotImplementedError, else OperationFailure('unknown operator'). -/
def fieldDispatch (c : NameClass) : Disposition :=
  if !c.op then .plainKey
  else if c.operatorMap || c.not_ then .implemented
  else if c.fieldNI then .raisesNotImplemented
  else .raisesOther

/-- the same condition when the path yields NO candidate value (it reaches nothing).  The
    operators are checked BEFORE the candidates are looked for (filtering.py, "The operators are
    checked whether or not the key leads to a value"), exactly as `fieldDispatch` does; then the
    candidate loop is not entered: `$all` is evaluated before the loop, `{$exists: false}` is
    special-cased, `$ne`/`$nin` alone make the document match whatever their operand is — their
    operand takes no part in the result (known findings `ignored:queryFieldDeadEnd:$ne`,
    `…:$nin`) —, every other operator makes it not match. -/
def deadEndDispatch (c : NameClass) : Disposition :=
  if !c.op then .plainKey
  else if c.operatorMap || c.not_ then (if c.neNin then .ignored else .implemented)
  else if c.fieldNI then .raisesNotImplemented
  else .raisesOther

/-- `_not_op`: every key must be in `_operator_map` or `LOGICAL_OPERATOR_MAP`, else
    OperationFailure; then `apply({path: {NAME: x}})`, i.e. the field-level dispatch. -/
def notDispatch (c : NameClass) : Disposition :=
  if c.operatorMap || c.logical then fieldDispatch c else .raisesOther

/-- `_elem_match_op`: `apply(query, item)` (the top-level dispatch); on OperationFailure the
    query is retried as a condition on the item, `apply({'field': query}, {'field': item})`. -/
def elemMatchDispatch (c : NameClass) : Disposition :=
  match topDispatch c with
  | .raisesOther => fieldDispatch c
  | d => d

/-- `_validate_update_operators` (before any document is looked for): a key that is neither in
    `_updaters` nor in `_OTHER_UPDATE_OPERATORS` → ValueError; then the operator loop of
    `Collection._apply_update` for a matched (or upserted) document: `_updaters`, the in-line
    branches, else the "replace entire document" branch, which raises ValueError for a `$` key
    (a key without `$` is rejected before, by `validate_ok_for_update`). -/
def updateDispatch (c : NameClass) : Disposition :=
  if !c.updateChecked then .raisesOther
  else if c.updater || c.updateInline then .implemented else .raisesOther

/-- no document matches and no upsert: `_validate_update_operators` has run, the loop body never
    does.  A name the pre-check lets through and the loop has no branch for would be accepted
    silently here (`update_precheck_within_loop` in Props/C20: the regenerated tables have none). -/
def updateNoMatchDispatch (c : NameClass) : Disposition :=
  if !c.updateChecked then .raisesOther
  else if c.updater || c.updateInline then .implemented
  else .ignored

/-- `$push` with `$each`: `set(value) - {'$each', '$slice', '$position', '$sort'}` → WriteError. -/
def pushDispatch (c : NameClass) : Disposition :=
  if c.pushMod then .implemented else .raisesOther

/-- `$addToSet` with `$each` (`_each_of_add_to_set`): any key other than `$each` → WriteError. -/
def addToSetDispatch (c : NameClass) : Disposition :=
  if c.each then .implemented else .raisesOther

/-- `process_pipeline`: `_PIPELINE_HANDLERS[operator]`; KeyError and `None` both →
    NotImplementedError. -/
def stageDispatch (c : NameClass) : Disposition :=
  if c.stageImpl then .implemented else .raisesNotImplemented

/-- `_Parser.parse` on `{NAME: x}` (aggregate.py:238-274). -/
def exprDispatch (dec : Bool) (c : NameClass) : Disposition :=
  match c.exprHit with
  | some true => if c.needsDecimal && !dec then .raisesNotImplemented else .implemented
  | some false => .raisesNotImplemented
  | none =>
    if c.exprNI then .raisesNotImplemented
    else if c.op then .raisesOther
    else .plainKey

/-- `_validate_accumulators` (called by `$group` and `$bucket` before any document is read): a
    name outside `_GROUPING_OPERATOR_MAP`, `$addToSet`, `$push` → NotImplementedError, whether
    it is one of `group_operators` or not; then `_accumulate_group`: `_GROUPING_OPERATOR_MAP`,
    the `$addToSet` and `$push` branches — and NO default branch any more: a name the pre-check
    lets through and the loop has no branch for would give no output field, silently
    (`accumulator_precheck_within_loop` in Props/C20: the regenerated tables have none). -/
def accDispatch (c : NameClass) : Disposition :=
  if !c.groupChecked then .raisesNotImplemented
  else if c.grouping || c.groupInline then .implemented else .ignored

/-- `_type_op`: not in `TYPE_MAP` → OperationFailure; `None` → NotImplementedError. -/
def typeDispatch (c : NameClass) : Disposition :=
  if c.typeImpl then .implemented
  else if c.typeNone then .raisesNotImplemented
  else .raisesOther

def dispatchC (dec : Bool) : Position → NameClass → Disposition
  | .queryField, c => fieldDispatch c
  | .queryFieldDeadEnd, c => deadEndDispatch c
  | .queryTop, c => topDispatch c
  | .queryNot, c => notDispatch c
  | .queryElemMatch, c => elemMatchDispatch c
  | .updateOp, c => updateDispatch c
  | .updateNoMatch, c => updateNoMatchDispatch c
  | .pushModifier, c => pushDispatch c
  | .addToSetModifier, c => addToSetDispatch c
  | .stage, c => stageDispatch c
  | .exprProject, c => exprDispatch dec c
  | .exprAddFields, c => exprDispatch dec c
  | .exprMatchExpr, c => exprDispatch dec c
  | .exprGroupId, c => exprDispatch dec c
  | .accumulator, c => accDispatch c
  | .typeAlias, c => typeDispatch c

/-- the disposition of name `k` at position `pos`, given the tables of the code -/
def dispatch (T : Tables Code) (pos : Position) (k : Code) : Disposition :=
  dispatchC T.decimalSupport pos (classify T k)

/-- the names a position has ANY branch for (implemented or deliberately "not implemented") -/
def recognised (T : Tables Code) : Position → List Code
  | .queryField | .queryFieldDeadEnd => T.operatorMap ++ [cNot] ++ T.fieldNI
  | .queryTop => [cComment, cExpr] ++ T.logicalOps ++ T.topLevelNI
  | .queryNot => T.operatorMap ++ T.logicalOps
  | .queryElemMatch =>
      [cComment, cExpr] ++ T.logicalOps ++ T.topLevelNI ++ T.operatorMap ++ [cNot] ++ T.fieldNI
  | .updateOp => T.updaters ++ T.updateInline
  | .updateNoMatch => T.updateChecked
  | .pushModifier => T.pushModifiers
  | .addToSetModifier => [cEach]
  | .stage => T.stagesImpl
  | .exprProject | .exprAddFields | .exprMatchExpr | .exprGroupId =>
      (T.exprChain.map (·.1)).flatten ++ T.exprNI
  | .accumulator => T.groupChecked
  | .typeAlias => T.typeImpl ++ T.typeNone

/-- the error of the default branch of a position -/
def defaultRaise : Position → Disposition
  | .stage | .accumulator => .raisesNotImplemented
  | _ => .raisesOther

/-! ## generated table rows -/

/-- one vocabulary name with what was OBSERVED for it at each probed position -/
structure Row where
  name : String
  code : Code
  cls : NameClass                       -- `classify tables code`, precomputed by the translator
  disps : List (Position × Disposition)

structure Entry where
  pos : Position
  name : String
  code : Code
  disp : Disposition

def Row.entries (r : Row) : List Entry :=
  r.disps.map (fun pd => ⟨pd.1, r.name, r.code, pd.2⟩)

def entriesOf (rows : List Row) : List Entry := rows.flatMap Row.entries

/-- the per-row check behind `dispatch_agrees`: the string is the code, the class is the
    classification against the tables, and every observed disposition is the modelled one -/
def Row.ok (T : Tables Code) (r : Row) : Bool :=
  enc r.name == r.code && decide (classify T r.code = r.cls) &&
    r.disps.all (fun pd => decide (dispatchC T.decimalSupport pd.1 r.cls = pd.2))

/-- the per-row check behind `no_vocab_name_ignored`: an observed `ignored` is a listed one
    (single (position, name) pairs: no position is excused as a whole any more) -/
def Row.ignoredKnown (knownPairs : List (Position × Code)) (r : Row) : Bool :=
  r.disps.all (fun pd => decide (pd.2 ≠ .ignored) || knownPairs.contains (pd.1, r.code))

/-! ## consumer sites of the shared dispatchers (pipeline language)

The dispatchers of the pipeline language are shared helpers (`_validate_accumulators`,
`_accumulate_group`, `_parse_expression`, `process_pipeline`, `filtering.filter_applies`) that several stage handlers
call, each on another part of the stage's specification (`output` of `$bucket`, its `groupBy`,
the sub-pipelines of `$facet`, `restrictSearchWithMatch` / `startWith` of `$graphLookup`, the
operand of every accumulator, …).  `harness/extract_sites.py` derives the list of those parts
from the source (calls of the helpers in the syntax tree of `mongomock/aggregate.py`, and a traced
run of every stage on a fully-optioned specification) and probes the names there. -/

/-- a call of a dispatch helper in the source of `mongomock/aggregate.py` -/
structure CallSite where
  fn : String        -- the module-level function the call stands in
  helper : String    -- the helper it calls
  line : Nat
  deriving DecidableEq, Repr

/-- the vocabulary a dispatch helper is about -/
inductive Family | accumulator | expr | stage | query
  deriving DecidableEq, Repr, Inhabited

/-- a part of a stage's specification that reaches a dispatcher: `<stage>/<key path>:<family>` -/
structure Site where
  id : String
  call : Nat         -- index into the generated list of call sites
  family : Family    -- of the helper the call site calls
  deriving DecidableEq, Repr

/-- what the probing calls of a name that is REFUSED at a site (they all raise on the populated
    collection) do when the collection the pipeline runs on is empty -/
inductive OnEmpty
  | notProbed        -- the name is not refused at the site: nothing to compare
  | raises           -- every probing call raises on the empty collection as well
  | silent           -- some probing call returns: the name is not looked at without input
  deriving DecidableEq, Repr, Inhabited

/-- one observation: site index, the position whose dispatcher the site's helper is, observed
    disposition (populated collection), and the same calls on an empty collection -/
structure SiteObs where
  site : Nat
  pos : Position
  disp : Disposition
  onEmpty : OnEmpty
  deriving DecidableEq, Repr

/-- one name with what was OBSERVED for it at each probed site -/
structure SiteRow where
  code : Code
  cls : NameClass
  disps : List SiteObs

structure SiteEntry where
  site : Nat
  pos : Position
  code : Code
  disp : Disposition
  onEmpty : OnEmpty

def SiteRow.entries (r : SiteRow) : List SiteEntry :=
  r.disps.map (fun d => ⟨d.site, d.pos, r.code, d.disp, d.onEmpty⟩)

def siteEntriesOf (rows : List SiteRow) : List SiteEntry := rows.flatMap SiteRow.entries

/-- the per-row check behind `sites_follow_dispatch`: the class is the classification against the
    tables, and at every site the name meets what the dispatcher does with it — or the site is
    louder (it raises where the dispatcher would evaluate: `newRoot` must give a document, …) -/
def SiteRow.ok (T : Tables Code) (r : SiteRow) : Bool :=
  decide (classify T r.code = r.cls) &&
    r.disps.all (fun d =>
      decide (dispatchC T.decimalSupport d.pos r.cls = d.disp) || d.disp.raises)

/-- the per-row check behind `no_site_name_ignored`: an observed `ignored` is a listed one -/
def SiteRow.ignoredKnown (known : List (Nat × Code)) (r : SiteRow) : Bool :=
  r.disps.all (fun d => decide (d.disp ≠ .ignored) || known.contains (d.site, r.code))

/-- the per-row check behind `sites_loud_on_empty_input`: every refusal was tried again on an
    empty collection, and a refusal that is not repeated there is at a listed site -/
def SiteRow.emptyKnown (knownLazy : List Nat) (r : SiteRow) : Bool :=
  r.disps.all (fun d =>
    (!d.disp.raises || decide (d.onEmpty ≠ .notProbed)) &&
    (decide (d.onEmpty ≠ .silent) || knownLazy.contains d.site))

/-- every call of a dispatch helper in the source is reached by a probed site -/
def callSitesCovered (calls : List CallSite) (sites : List Site) : Bool :=
  (List.range calls.length).all (fun i => sites.any (fun s => s.call == i))

/-! ## options -/

inductive Opt | session | collation | arrayFilters | let_ | hint
  deriving DecidableEq, Repr, Inhabited

def Opt.ignorable : Opt → Bool
  | .hint => false
  | _ => true

inductive OptDisp | raisesNotImplemented | raisesOther | accepted
  deriving DecidableEq, Repr, Inhabited

/-- one probe of the option matrix: method number `mid` (index into `Generated.methods`) called
    with `option`, with the feature opted out (`ignore_feature`) or not -/
structure OptEntry where
  mid : Nat
  option : Opt
  named : Bool       -- a named parameter of the signature (false: reaches the method via **kwargs)
  write : Bool       -- the method modifies documents
  optedOut : Bool
  disp : OptDisp
  deriving DecidableEq, Repr

/-- the options whose loss matters: session, collation, array_filters, let everywhere;
    hint on writes -/
def OptEntry.relevant (e : OptEntry) : Bool := e.option != .hint || e.write

def OptEntry.key (e : OptEntry) : Nat × Opt := (e.mid, e.option)

/-- one probe of the option matrix with TWO options present: `a` (opted out with `ignore_feature`
    or not) and `b` (never opted out); what is observed is whether `b` is still rejected -/
structure OptPair where
  mid : Nat
  a : Opt
  b : Opt
  write : Bool
  aOptedOut : Bool
  disp : OptDisp
  deriving DecidableEq, Repr

/-- `b` is an option whose loss matters on this method -/
def OptPair.relevant (e : OptPair) : Bool := e.b != .hint || e.write

def OptPair.key (e : OptPair) : Nat × Opt := (e.mid, e.b)

/-! ## `not_implemented.py` -/

/-- `_IGNORED_FEATURES` -/
abbrev Features := List (String × Bool)

inductive GuardResult | passes | raisesNotImplemented | keyError
  deriving DecidableEq, Repr

def Features.set (fs : Features) (f : String) (b : Bool) : Features :=
  fs.map (fun p => if p.1 == f then (p.1, b) else p)

/-- `ignore_feature` (none = KeyError) -/
def ignoreFeature (fs : Features) (f : String) : Option Features :=
  if (fs.lookup f).isSome then some (fs.set f true) else none

/-- `warn_on_feature` -/
def warnOnFeature (fs : Features) (f : String) : Option Features :=
  if (fs.lookup f).isSome then some (fs.set f false) else none

/-- `raise_for_feature` -/
def raiseForFeature (fs : Features) (f : String) : GuardResult :=
  match fs.lookup f with
  | none => .keyError
  | some true => .passes
  | some false => .raisesNotImplemented

/-- the guard the methods use: `if value: raise_for_feature(feature, …)` -/
def optionGuard (fs : Features) (f : String) (given : Bool) : GuardResult :=
  if given then raiseForFeature fs f else .passes

/-- several guards one after the other, each an independent `if` (as in `_apply_update`,
    `_delete`, `count_documents`): `(feature, given)` in the order of the code -/
def guardSeq (fs : Features) : List (String × Bool) → GuardResult
  | [] => .passes
  | (f, given) :: rest =>
    match optionGuard fs f given with
    | .passes => guardSeq fs rest
    | r => r

end MongoModel.Vocab
