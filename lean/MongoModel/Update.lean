/-
  MongoModel.Update — what `Collection._apply_update` does to ONE document
  (mongomock/collection.py: the operator loop, `_update_document_single_field`,
  `_get_subdocument`, `_each_of_add_to_set`, `_validate_update_operators` (`validateOps`: the
  operator names, checked by the callers in Store / FindModify before any document is looked
  for), `_discard_operators` then `_expand_dots` (`upsertSeed`), the `_updaters`), followed line by
  line, quirks included.  Python mutates the stored document in place; the model is functional
  (every function returns the new container).  Since the `fix:` commit "a failed single-document
  update restores the document" an exception leaves no partial state, so an error simply aborts.

  The positional operator `$` of update paths is modelled (section "the positional operator `$`"
  below: `applyOpsPos`, taken by `applyUpdate` as soon as an operator document holds a key with a
  `$` in it; the plain loop `applyOps` and its per-operator functions are untouched and still
  answer `unmodelled` for such keys).

  Outside F (`unmodelled`): `array_filters` (refused by the callers: NotImplementedError), the
  corners of the positional operator listed in that section, negative
  array indexes (Python negative indexing), `$each`/`$pullAll`/`$sort` operands of non-list type,
  `$push.$sort` over values Python cannot order natively or of mixed classes, some
  type-confused targets (`$addToSet` into a string or sub-document), `$currentDate` of type
  timestamp, `_get_subdocument`'s spec-following through a list.
-/
import MongoModel.Filter

namespace MongoModel

/-! ### Python list slicing -/

/-- clamp a Python slice bound for a list of length `n` -/
def sliceBound (n : Nat) (i : Int) : Nat :=
  if i < 0 then (if (n : Int) + i < 0 then 0 else ((n : Int) + i).toNat)
  else if i > n then n else i.toNat

/-- `xs[start:stop]` (`none` = omitted bound) -/
def pySlice {α} (xs : List α) (start stop : Option Int) : List α :=
  let n := xs.length
  let s := match start with | none => 0 | some i => sliceBound n i
  let e := match stop with | none => n | some i => sliceBound n i
  (xs.drop s).take (e - s)

def listSet (xs : List Val) (i : Nat) (v : Val) : List Val := xs.set i v

/-- `doc += [None] * len_diff; doc[idx] = value` (and plain assignment when in range) -/
def listSetPad (xs : List Val) (i : Nat) (v : Val) : List Val :=
  if i < xs.length then xs.set i v
  else xs ++ List.replicate (i - xs.length) .null ++ [v]

/-! ### the `_updaters` -/

inductive Updater where
  | set | unset | inc | max | min | pop | currentDate
  deriving Repr, DecidableEq

/-- Python `a + b` as `$inc` meets it -/
def pyAdd (a b : Val) : R Val :=
  match a, b with
  | .str x, .str y => .ok (.str (x ++ y))
  | .arr x, .arr y => .ok (.arr (x ++ y))
  | _, _ =>
    match a.num?, b.num? with
    | some x, some y =>
      (match a, b with
       | .dbl _ _, _ | _, .dbl _ _ =>
         -- float result: x.m/2^x.e + y.m/2^y.e
         .ok (.dbl (x.m * (2 : Int) ^ y.e + y.m * (2 : Int) ^ x.e) (x.e + y.e))
       | _, _ => .ok (.int (x.m + y.m)))
    | _, _ => .error .typeErr

/-- three-way native Python comparison used by `max`/`min`/`sorted` (`none`: TypeError or an
    ordering the model does not follow) -/
def pyNativeCmp (a b : Val) : Option Ordering :=
  match a, b with
  | .str x, .str y => some (compare x y)
  | .date u none, .date u' none => some (compare u u')
  | _, _ =>
    match a.num?, b.num? with
    | some x, some y => some (if Num.lt x y then .lt else if Num.eq x y then .eq else .gt)
    | _, _ => none

def pyMax (a b : Val) : R Val :=
  match pyNativeCmp b a with
  | some .gt => .ok b
  | some _ => .ok a
  | none => (match a, b with
    | .arr _, .arr _ => unmodelled
    | _, _ => .error .typeErr)

def pyMin (a b : Val) : R Val :=
  match pyNativeCmp b a with
  | some .lt => .ok b
  | some _ => .ok a
  | none => (match a, b with
    | .arr _, .arr _ => unmodelled
    | _, _ => .error .typeErr)

/-- `value not in {1, -1}` and which end to pop -/
def popSpec (v : Val) : R Bool :=          -- true = pop the last element
  match v with
  | .arr _ | .doc _ => .error .typeErr     -- unhashable
  | _ =>
    if pyEq v (.int 1) then .ok true
    else if pyEq v (.int (-1)) then .ok false
    else .error .writeErr

def popList (xs : List Val) (last : Bool) : List Val :=
  if last then xs.dropLast else xs.drop 1

/-- `int(field_name)` for a list parent: ValueError when not numeric -/
def listIndex (field : String) : R Int :=
  match pyInt? field with
  | some i => .ok i
  | none => .error .valueErr

/-- `updater(doc, field_name, value)`: the parent container after the call -/
def runUpdater (u : Updater) (now : Val) (parent : Val) (field : String) (value : Val) : R Val :=
  match u, parent with
  | .set, .doc fs => .ok (.doc (dset field value fs))
  | .set, .arr xs => do
    let i ← listIndex field
    if i < 0 then .error .writeErr else pure (.arr (listSetPad xs i.toNat value))
  | .set, p => .ok p
  | .unset, .doc fs => .ok (.doc (derase field fs))
  | .unset, p => .ok p
  | .inc, .doc fs => do
    let r ← pyAdd ((dget field fs).getD (.int 0)) value
    pure (.doc (dset field r fs))
  | .inc, .arr xs => do
    let i ← listIndex field
    if i < 0 then .error .writeErr
    else match xs[i.toNat]? with
      | some old => do
        -- `doc[i] += value`: in-place add; on a list element that is `extend`
        let r ← (match old, value with
          | .arr ys, .arr zs => pure (.arr (ys ++ zs))
          | .arr ys, .str z => pure (.arr (ys ++ z.toList.map (fun c => .str (String.singleton c))))
          | .arr ys, .doc fs => pure (.arr (ys ++ (dkeys fs).map .str))
          | .arr _, _ => .error .typeErr
          | _, _ => pyAdd old value)
        pure (.arr (xs.set i.toNat r))
      | none => pure (.arr (listSetPad xs i.toNat value))
  | .inc, p => .ok p
  | .max, .doc fs => do
    let r ← pyMax ((dget field fs).getD value) value
    pure (.doc (dset field r fs))
  | .max, .arr xs => do
    -- `_pick_updater` on a list: compare with the element, or pad and store (`_set_updater`)
    let i ← listIndex field
    if i < 0 then .error .writeErr
    else match xs[i.toNat]? with
      | some old => do
        let r ← pyMax old value
        pure (.arr (xs.set i.toNat r))
      | none => pure (.arr (listSetPad xs i.toNat value))
  | .max, p => .ok p
  | .min, .doc fs => do
    let r ← pyMin ((dget field fs).getD value) value
    pure (.doc (dset field r fs))
  | .min, .arr xs => do
    let i ← listIndex field
    if i < 0 then .error .writeErr
    else match xs[i.toNat]? with
      | some old => do
        let r ← pyMin old value
        pure (.arr (xs.set i.toNat r))
      | none => pure (.arr (listSetPad xs i.toNat value))
  | .min, p => .ok p
  | .pop, p => do
    let last ← popSpec value
    match p with
    | .doc fs =>
      (match dget field fs with
       | none => pure (.doc fs)          -- nothing to pop from
       | some (.arr xs) => pure (.doc (dset field (.arr (popList xs last)) fs))
       | some _ => .error .writeErr)
    | .arr xs => do
      let i ← listIndex field
      if i < 0 then .error .writeErr
      else match xs[i.toNat]? with
        | none => pure (.arr xs)
        | some (.arr ys) => pure (.arr (xs.set i.toNat (.arr (popList ys last))))
        | some v => if v.truthy then unmodelled else pure (.arr xs)
    | p => pure p
  | .currentDate, .doc fs =>
    if pyEq value (.doc [("$type", .str "timestamp")]) then .error .notImpl
    else .ok (.doc (dset field now fs))
  | .currentDate, p => .ok p

/-- `_update_document_single_field(doc, field_name, field_value, updater)` on path components -/
def updateSingleField (u : Updater) (now : Val) (value : Val) : List String → Val → R Val
  | [], d => .ok d
  | [last], d => runUpdater u now d last value
  | part :: rest, d =>
    match d with
    | .arr xs =>
      if part = "$" then unmodelled
      else match pyInt? part with
        | some i =>
          if i < 0 then unmodelled
          else match xs[i.toNat]? with
            | some sub => do
              let sub' ← updateSingleField u now value rest sub
              pure (.arr (xs.set i.toNat sub'))
            | none => .error .indexErr
        | none => updateSingleField u now value rest d     -- `except ValueError: pass`
    | .doc fs =>
      match dget part fs with
      | some sub => do
        let sub' ← updateSingleField u now value rest sub
        pure (.doc (dset part sub' fs))
      | none =>
        -- `$unset` and `$pop`: "if the parent doesn't exist, so does its child" - nothing is created
        if u = .unset || u = .pop then .ok d
        else do
          let sub' ← updateSingleField u now value rest (.doc [])
          pure (.doc (dset part sub' fs))
    | _ => .ok d

def hasDollarPart (key : String) : Bool := key.toList.contains '$'

/-- `_update_document_fields_with_positional_awareness` (non-positional branch) -/
def updateFields (u : Updater) (now : Val) (v : Val) (d : Val) : R Val :=
  match v with
  | .doc fs =>
    if fs.any (fun kv => hasDollarPart kv.1) then unmodelled
    else fs.foldlM (fun acc kv =>
      if !keyOk kv.1 then unmodelled else updateSingleField u now kv.2 (splitDots kv.1) acc) d
  | _ => .error .attrErr        -- `v.keys()` on a non-mapping

/-! ### `_get_subdocument` (non-positional) as a path transformer

`withSubdoc f create parts following subspec d` = the document after `subdocument, field =
_get_subdocument(d, spec, parts, create_missing=create)` followed by the in-place edit
`f subdocument field`; with `create = false` a missing intermediate sub-document ends the walk
(`return None, None`) and the caller leaves the document alone. -/

def withSubdoc (f : Val → String → R Val) (create : Bool) :
    List String → Bool → Val → Val → R Val
  | [], _, _, d => .ok d
  | [last], following, _, d =>
    (match d with
     | .arr _ =>
       if following then unmodelled
       else match pyInt? last with
         | none => .error .valueErr
         | some _ => f d last
     | _ => f d last)
  | part :: rest, following, subspec, d =>
    match d with
    | .arr xs =>
      if following then unmodelled
      else match pyInt? part with
        | none => .error .valueErr
        | some i =>
          if i < 0 then unmodelled
          else match xs[i.toNat]? with
            | none => .error .indexErr
            | some sub => do
              let sub' ← withSubdoc f create rest false .null sub
              pure (.arr (xs.set i.toNat sub'))
    | .doc fs =>
      if !create && (dget part fs).isNone then .ok d
      else
      let sub := (dget part fs).getD (.doc [])
      -- spec following only matters for `$`; it must not trip over a non-document spec
      let (following', subspec', bad) :=
        if !following then (false, Val.null, false)
        else match subspec with
          | .doc ss => (match dget part ss with
            | some s' => (true, s', false)
            | none => (false, Val.null, false))
          | _ => (false, Val.null, true)
      if bad then unmodelled
      else do
        let sub' ← withSubdoc f create rest following' subspec' sub
        pure (.doc (dset part sub' fs))
    | .str s =>
      -- `subfield not in parent_doc` is a substring test: without `create` the walk ends there
      if !create && !isInfixChars part.toList s.toList then .ok d else .error .typeErr
    | _ => .error .typeErr

/-! ### the in-line array operators -/

/-- `_values_to_add_to_set(existing, values)`: the values not in `existing` yet, each once -/
def valuesToAdd (existing : List Val) (values : List Val) : List Val :=
  values.foldl (fun toAdd v => if !pyIn v existing && !pyIn v toAdd then toAdd ++ [v] else toAdd) []

/-- `target += _values_to_add_to_set(target, each)` -/
def addEach (target each : List Val) : List Val :=
  target ++ valuesToAdd target each

/-- `'$each' in value` with another key next to it (`_each_of_add_to_set` raises WriteError:
    unlike `$push`, `$addToSet` takes no clause next to `$each`) -/
def eachWithOtherClause (value : Val) : Bool :=
  match value with
  | .doc vs => (dget "$each" vs).isSome && vs.any (fun kv => kv.1 != "$each")
  | _ => false

/-- the `$addToSet` edit of an existing target value `cur` (a list in the normal case) -/
def addToSetValue (cur : Val) (value : Val) : R Val :=
  -- `_each_of_add_to_set(value)` is evaluated first: any clause next to `$each` is refused
  if eachWithOtherClause value then .error .writeErr else
  match cur with
  | .arr xs =>
    (match value with
     | .doc vs =>
       (match dget "$each" vs with
        | some (.arr es) => .ok (.arr (addEach xs es))
        | some _ => unmodelled
        | none => .ok (.arr (if pyIn value xs then xs else xs ++ [value])))
     | _ => .ok (.arr (if pyIn value xs then xs else xs ++ [value])))
  | .str _ | .doc _ => unmodelled
  | _ => .error .typeErr

/-- every existing intermediate container along the path is a sub-document -/
def docsAlong : List String → Val → Bool
  | [], _ => true
  | [_], _ => true            -- the container of the LAST part is not looked at by that loop
  | part :: rest, .doc fs =>
    (match dget part fs with
     | some sub => docsAlong rest sub
     | none => true)
  | _ :: _, _ => false

def addToSetField (spec : Val) (d : Val) (field : String) (value : Val) : R Val :=
  if hasDollarPart field then unmodelled
  else if !keyOk field then unmodelled
  else
    match splitDots field, d with
    | [f], .doc fs => do
      let cur := (dget f fs).getD (.arr [])
      let r ← addToSetValue cur value
      pure (.doc (dset f r fs))
    | parts, _ =>
      -- nested: the first loop creates missing intermediates and fails (TypeError) on any
      -- intermediate that is not a sub-document; then `_get_subdocument`
      if !docsAlong parts d then .error .typeErr
      else withSubdoc (fun parent last =>
        match parent with
        | .doc ps => do
          let cur := (dget last ps).getD (.arr [])
          let r ← addToSetValue cur value
          pure (.doc (dset last r ps))
        | .arr _ => unmodelled
        | .str p =>
          -- `last in subdocument` is a substring test: when it fails the value to add is computed
          -- from an empty list (the clause next to `$each` is refused here) before the assignment
          -- `subdocument[last] = …` raises TypeError; when it holds, `subdocument[last]` raises
          if isInfixChars last.toList p.toList then .error .typeErr
          else do
            let _ ← addToSetValue (.arr []) value
            .error .typeErr
        | _ => .error .typeErr) true parts true spec d

/-- remove the first element `==` to `o` (`list.remove`) -/
def removeFirst (o : Val) : List Val → List Val
  | [] => []
  | x :: r => if pyEq x o then r else x :: removeFirst o r

/-- the `$pull` edit of a list -/
def pullList (value : Val) (xs : List Val) : R (List Val) :=
  match value with
  | .doc _ =>
    xs.foldlM (fun arr obj => do
      let m1 ← (match filterApplies value obj with
        | .ok b => pure b
        | .error e => if e.isOpFailure then pure false else .error e)
      if m1 then pure (removeFirst obj arr)
      else do
        let m2 ← filterApplies (.doc [("field", value)]) (.doc [("field", obj)])
        pure (if m2 then removeFirst obj arr else arr)) xs
  | _ => .ok (xs.foldl (fun arr obj => if pyEq value obj then removeFirst obj arr else arr) xs)

/-- the `$pull` walk: `arr = helpers.get_value_by_dot(existing, field)` (KeyError: nothing to
    do), then the edit of `arr` when it is a list.  Sub-documents by key, arrays by index. -/
def pullWalk (value : Val) : List String → Val → R Val
  | [], d =>
    (match d with
     | .arr xs => do pure (.arr (← pullList value xs))
     | _ => .ok d)
  | part :: rest, d =>
    match d with
    | .doc fs =>
      (match dget part fs with
       | some sub => do
         let sub' ← pullWalk value rest sub
         pure (.doc (dset part sub' fs))
       | none => .ok d)
    | .arr xs =>
      (match pyInt? part with
       | none => .ok d
       | some i =>
         if i < 0 then unmodelled       -- Python negative indexing
         else match xs[i.toNat]? with
           | some sub => do
             let sub' ← pullWalk value rest sub
             pure (.arr (xs.set i.toNat sub'))
           | none => .ok d)
    | _ => .ok d

def pullField (d : Val) (field : String) (value : Val) : R Val :=
  if hasDollarPart field then unmodelled
  else if !keyOk field then unmodelled
  else pullWalk value (splitDots field) d

def pullAllValue (cur : Val) (value : Val) : R Val :=
  match cur, value with
  | .arr xs, .arr vs => .ok (.arr (xs.filter (fun o => !pyIn o vs)))
  | _, _ => unmodelled

/-- `str.isdigit()` on a path component (ASCII digits) -/
def isDigits (s : String) : Bool := s != "" && s.toList.all Char.isDigit

/-- the `$pullAll` edit behind `_get_subdocument(…, create_missing=False)`: `parent` is the
    container of the last component.  A sub-document: the field, when it is there.  An array with a
    last component made of digits: the item at that index, when it is there (the array to pull
    from is an item of an array).  Anything else - a scalar, null, a string, an array with another
    last component - holds nothing to pull from. -/
def pullAllAt (value : Val) (parent : Val) (last : String) : R Val :=
  match parent with
  | .doc ps =>
    (match dget last ps with
     | some cur => do
       let r ← pullAllValue cur value
       pure (.doc (dset last r ps))
     | none => .ok parent)
  | .arr xs =>
    if isDigits last then
      match pyInt? last with
      | some i =>
        if i < 0 then .ok parent       -- (digits only: never negative)
        else match xs[i.toNat]? with
          | some cur => do
            let r ← pullAllValue cur value
            pure (.arr (xs.set i.toNat r))
          | none => .ok parent
      | none => unmodelled
    else .ok parent
  | _ => .ok parent

def pullAllField (spec : Val) (d : Val) (field : String) (value : Val) : R Val :=
  if hasDollarPart field then unmodelled
  else if !keyOk field then unmodelled
  else
    match splitDots field, d with
    | [f], .doc fs =>
      (match dget f fs with
       | some cur => do
         let r ← pullAllValue cur value
         pure (.doc (dset f r fs))
       | none => .ok d)
    | parts, _ => withSubdoc (pullAllAt value) false parts true spec d

/-- stable insertion into a list sorted by `lt` (ties keep their order) -/
def insertSorted (lt : Val → Val → Bool) (x : Val) : List Val → List Val
  | [] => [x]
  | y :: r => if lt y x then y :: insertSorted lt x r else x :: y :: r

def stableSort (lt : Val → Val → Bool) (xs : List Val) : List Val :=
  xs.foldr (fun x acc => insertSorted lt x acc) []

/-- all keys mutually comparable by Python's native `<` in a way the model follows -/
def nativeSortable (ks : List Val) : Bool :=
  ks.all (fun a => ks.all (fun b => (pyNativeCmp a b).isSome))

/-- `sorted(xs, key=…, reverse=…)` on precomputed keys -/
def pySortedBy (keys : List Val) (xs : List Val) (reverse : Bool) : R (List Val) :=
  if !nativeSortable keys then unmodelled
  else
    let tagged := keys.zip xs
    let lt (a b : Val × Val) : Bool :=
      if reverse then pyNativeCmp a.1 b.1 == some .gt else pyNativeCmp a.1 b.1 == some .lt
    let sorted := tagged.foldr (fun x acc =>
      let rec ins : List (Val × Val) → List (Val × Val)
        | [] => [x]
        | y :: r => if lt y x then y :: ins r else x :: y :: r
      ins acc) []
    .ok (sorted.map (·.2))

def intOf (v : Val) : R Int :=
  match v with
  | .int i => .ok i
  | .bool b => .ok (if b then 1 else 0)
  | _ => unmodelled

/-- the `$push` edit of the current target value -/
def pushValue (cur : Val) (value : Val) : R Val :=
  match value with
  | .doc vs =>
    (match dget "$each" vs with
     | some each =>
       (match cur, each with
        | .arr xs, .arr es => do
          let r1 ← (match dget "$position" vs with
            | some p => do
              let i ← intOf p
              pure (pySlice xs (some 0) (some i) ++ es ++ pySlice xs (some i) none)
            | none => pure (xs ++ es))
          let r2 ← (match dget "$sort" vs with
            | some (.doc [(k, dir)]) => do
              let keys ← r1.mapM (fun x => getByDot x k)
              let dv ← intOf dir
              pySortedBy keys r1 (dv < 0)
            | some (.doc _) => unmodelled
            | some s => do
              let dv ← intOf s
              pySortedBy r1 r1 (dv < 0)
            | none => pure r1)
          let r3 ← (match dget "$slice" vs with
            | some s => do
              let n ← intOf s
              pure (if n < 0 then pySlice r2 (some n) none
                    else if n = 0 then [] else pySlice r2 none (some n))
            | none => pure r2)
          if vs.any (fun kv => !(["$each", "$slice", "$position", "$sort"].contains kv.1)) then
            .error .writeErr
          else pure (.arr r3)
        | .arr _, _ => unmodelled
        | .str _, _ | .doc _, _ => unmodelled
        | _, _ => .error .typeErr)
     | none =>
       (match cur with
        | .arr xs => .ok (.arr (xs ++ [value]))
        | _ => .error .attrErr))
  | _ =>
    (match cur with
     | .arr xs => .ok (.arr (xs ++ [value]))
     | _ => .error .attrErr)

def pushField (spec : Val) (d : Val) (field : String) (value : Val) : R Val :=
  if hasDollarPart field then unmodelled
  else if !keyOk field then unmodelled
  else
    withSubdoc (fun parent last =>
      match parent with
      | .doc ps => do
        let cur := (dget last ps).getD (.arr [])
        let r ← pushValue cur value
        pure (.doc (dset last r ps))
      | .arr xs =>
        (match pyInt? last with
         | some i =>
           if i < 0 then unmodelled
           else match xs[i.toNat]? with
             | none => .error .indexErr
             | some cur => do
               let r ← pushValue cur value
               pure (.arr (xs.set i.toNat r))
         | none => .error .valueErr)
      | _ => .error .typeErr) true (splitDots field) true spec d

/-- `for field, value in v.items()` of an in-line operator (`v` must be a mapping) -/
def eachField (v : Val) (d : Val) (f : Val → String → Val → R Val) : R Val :=
  match v with
  | .doc fs => fs.foldlM (fun acc kv => f acc kv.1 kv.2) d
  | _ => .error .attrErr

/-- `$rename` -/
def renameFields (v : Val) (d : Val) : R Val :=
  eachField v d (fun acc src dstv =>
    match dstv with
    | .str dst =>
      if src.toList.contains '.' || dst.toList.contains '.' then .error .notImpl
      else match acc with
        | .doc fs =>
          (match dget src fs with
           | some x => .ok (.doc (dset dst x (derase src fs)))
           | none => .ok acc)
        | _ => unmodelled
    | .arr _ | .doc _ => unmodelled
    | _ => if src.toList.contains '.' then .error .notImpl else .error .typeErr)

def updaterOf (k : String) : Option Updater :=
  if k = "$set" then some .set else if k = "$unset" then some .unset
  else if k = "$inc" then some .inc else if k = "$max" then some .max
  else if k = "$min" then some .min else if k = "$pop" then some .pop else none

def updaterKeys : List String := ["$set", "$unset", "$inc", "$max", "$min", "$pop"]

/-- the replacement branch (`else: if first: …`): the whole document is replaced; the `_id`
    is the one of the document being replaced (when it has one) -/
def replaceWhole (document : Fields) (existing : Val) : R Val :=
  if document.any (fun kv => kv.1.startsWith "$") then .error .valueErr
  else
    match existing with
    | .doc es =>
      let id := dget "_id" es
      let base : Fields := match id with
        | some x => [("_id", x)]
        | none => []
      let merged := document.foldl (fun acc kv => dset kv.1 kv.2 acc) base
      (match id, dget "_id" merged with
       | some x, some nid => if !(pyEq nid x) then .error .opFail else .ok (.doc merged)
       | _, _ => .ok (.doc merged))
    | _ => unmodelled

/-- the operator loop of `_apply_update` on one document.  `first` mirrors the Python flag
    (note: a skipped `$setOnInsert` leaves it untouched because of the `continue`). -/
def applyOps (spec : Val) (now : Val) (wasInsert : Bool) (whole : Fields) :
    Fields → Bool → Val → R Val
  | [], _, d => .ok d
  | (k, v) :: rest, first, d =>
    match updaterOf k with
    | some u => do
      let d' ← updateFields u now v d
      applyOps spec now wasInsert whole rest false d'
    | none =>
      if k = "$rename" then do
        let d' ← renameFields v d
        applyOps spec now wasInsert whole rest false d'
      else if k = "$setOnInsert" then
        if !wasInsert then applyOps spec now wasInsert whole rest first d
        else do
          let d' ← updateFields .set now v d
          applyOps spec now wasInsert whole rest false d'
      else if k = "$currentDate" then do
        let d' ← updateFields .currentDate now v d
        applyOps spec now wasInsert whole rest false d'
      else if k = "$addToSet" then do
        let d' ← eachField v d (addToSetField spec)
        applyOps spec now wasInsert whole rest false d'
      else if k = "$pull" then do
        let d' ← eachField v d pullField
        applyOps spec now wasInsert whole rest false d'
      else if k = "$pullAll" then do
        let d' ← eachField v d (pullAllField spec)
        applyOps spec now wasInsert whole rest false d'
      else if k = "$push" then do
        let d' ← eachField v d (pushField spec)
        applyOps spec now wasInsert whole rest false d'
      else if first then replaceWhole whole d
      else .error .valueErr

/-! ### the positional operator `$`

`{'$set': {'arr.$.x': 1}}` with a filter that matched an array element.  The code has TWO
resolutions of the `$` component:

* the `_updaters` (`$set $unset $inc $max $min $pop`, and `$setOnInsert`, `$currentDate`) go through
  `_update_document_fields_positional` as soon as ONE key of the operator's document contains the
  character `$`: the walk narrows the filter to the conditions whose key STARTS WITH the component
  (`narrowSpec`), and at a `$` component takes the first item of the value in view that satisfies
  `subspec.get('$elemMatch', subspec)` — no match leaves the value in view where it is; the
  container reached is kept in the variable `subdocument`, which `_apply_update` hands on to the
  next key and the next operator: while it is truthy NO walk is made and the updater is applied to
  it (`SubRef`);
* `$push`, `$addToSet`, `$pullAll`, `$pull` go through `_get_subdocument`, which follows the filter
  by exact keys and wants an `$elemMatch` there (`withSubdocPos`).

Outside F (`unmodelled`): a key whose first component is `$` or that has one component only; a
carried container used by a key that starts with another top-level field (the first `$push` of an
update makes the document itself the carried container) or after a non-positional write under the
same top-level field; containers carried over from `$push`/`$addToSet`/`$pullAll`/`$pull`; any
further key of an operator document behind `f.$` on a non-empty array (the code rebinds its `doc`
variable there); two `$` components in a `$push`/`$addToSet`/`$pullAll`/`$pull` path; a `$` of
these operators that meets a sub-document or a string; a filter narrowed to a string or an array. -/

/-- one resolved step inside a value: a key of a sub-document or an index of an array -/
inductive PStep where
  | key (k : String)
  | idx (i : Nat)
  deriving Repr, DecidableEq

def valAt : List PStep → Val → Option Val
  | [], v => some v
  | .key k :: r, .doc fs =>
    (match dget k fs with
     | some sub => valAt r sub
     | none => none)
  | .idx i :: r, .arr xs =>
    (match xs[i]? with
     | some sub => valAt r sub
     | none => none)
  | _ :: _, _ => none

/-- edit the container a resolved path leads to -/
def editAt (f : Val → R Val) : List PStep → Val → R Val
  | [], d => f d
  | .key k :: r, .doc fs =>
    (match dget k fs with
     | some sub => do
       let sub' ← editAt f r sub
       pure (.doc (dset k sub' fs))
     | none => unmodelled)
  | .idx i :: r, .arr xs =>
    (match xs[i]? with
     | some sub => do
       let sub' ← editAt f r sub
       pure (.arr (xs.set i sub'))
     | none => unmodelled)
  | _ :: _, _ => unmodelled

/-- edit the value of the top-level field `h` of a document (the field must be there) -/
def editTop (h : String) (f : Val → R Val) (d : Val) : R Val :=
  match d with
  | .doc fs =>
    (match dget h fs with
     | some top => do
       let top' ← f top
       pure (.doc (dset h top' fs))
     | none => unmodelled)
  | _ => unmodelled

/-- the variable `subdocument` of `_apply_update` -/
inductive SubRef where
  | nil                                   -- `None`
  | inside (h : String) (p : List PStep)   -- the container at `p` inside the top-level field `h`
  | gone (v : Val)                        -- a value that is no part of the document (a key or a
                                          -- character met while iterating)
  | untracked                             -- a container the model does not follow
  deriving Repr

/-- `bool(subdocument)` -/
def SubRef.truthy (s : SubRef) (d : Val) : R Bool :=
  match s, d with
  | .nil, _ => .ok false
  | .inside h p, .doc fs =>
    (match dget h fs with
     | some top =>
       (match valAt p top with
        | some v => .ok v.truthy
        | none => unmodelled)
     | none => unmodelled)
  | .inside _ _, _ => unmodelled
  | .gone v, _ => .ok v.truthy
  | .untracked, _ => unmodelled

/-- a write under the top-level field `h` that does not go through the carried container may
    detach or move it: the model stops following it -/
def SubRef.staleIf (h : String) (s : SubRef) : SubRef :=
  match s with
  | .inside h' p => if h' = h then .untracked else .inside h' p
  | s => s

/-- `for item in value` -/
def iterItems : Val → R (List Val)
  | .arr xs => .ok xs
  | .doc fs => .ok ((dkeys fs).map Val.str)
  | .str s => .ok (charsOf s)
  | _ => .error .typeErr

/-- index and value of the first item `filter_applies(cond, item)` holds for -/
def firstApplying (cond : Val) : List Val → Nat → R (Option (Nat × Val))
  | [], _ => .ok none
  | x :: r, i => do
    if (← filterApplies cond x) then pure (some (i, x)) else firstApplying cond r (i + 1)

/-- `subspec.get('$elemMatch', subspec)` -/
def dollarCond (ss : Fields) : Val := (dget "$elemMatch" ss).getD (.doc ss)

/-- the filter narrowed to one path component: `new_spec = {}; for el in subspec: if
    el.startswith(part): …` — a dotted key gives its remainder, an undotted one REPLACES what was
    collected so far (and a dotted one after that raises TypeError unless that is a document) -/
def narrowSpec (part : String) (ss : Fields) : R Val :=
  ss.foldlM (fun acc kv =>
    if kv.1.startsWith part then
      match splitDots kv.1 with
      | _ :: q :: r =>
        (match acc with
         | .doc ns => pure (.doc (dset (joinDots (q :: r)) kv.2 ns))
         | _ => .error .typeErr)
      | _ => pure kv.2
    else pure acc) (.doc [])

/-- the walk of `_update_document_fields_positional` over `field_name_parts[:-1]` (behind the first
    component): value in view, filter in view, and where the value sits (`none`: nowhere in the
    document) -/
def posWalk : List String → Val → Val → Option (List PStep) → R (Val × Val × Option (List PStep))
  | [], cur, subspec, path => .ok (cur, subspec, path)
  | part :: rest, cur, subspec, path =>
    if part = "$" then
      match subspec with
      | .doc ss => do
        let items ← iterItems cur
        match ← firstApplying (dollarCond ss) items 0 with
        | some (i, item) =>
          let path' := match cur, path with
            | .arr _, some p => some (p ++ [PStep.idx i])
            | _, _ => none
          posWalk rest item subspec path'
        | none => posWalk rest cur subspec path
      | _ => .error .attrErr
    else
      match subspec with
      | .doc ss => do
        let newSpec ← narrowSpec part ss
        match cur with
        | .doc fs =>
          (match dget part fs with
           | some sub => posWalk rest sub newSpec (path.map (· ++ [PStep.key part]))
           | none => .error .keyErr)
        | _ => .error .typeErr
      | .str _ | .arr _ => unmodelled
      | _ => .error .typeErr

/-- `updater(subdocument, field, value)` on the carried container -/
def applyAtSub (u : Updater) (now : Val) (sub : SubRef) (last : String) (v : Val) (d : Val) : R Val :=
  match sub with
  | .inside h p => editTop h (editAt (fun c => runUpdater u now c last v) p) d
  | .gone c => do
    let _ ← runUpdater u now c last v
    pure d
  | _ => unmodelled

/-- `subdocument[i] = v` -/
def setItemAt (i : Nat) (v : Val) (c : Val) : R Val :=
  match c with
  | .arr ys => .ok (.arr (ys.set i v))
  | _ => unmodelled

structure PosState where
  d : Val
  sub : SubRef
  docLost : Bool        -- the loop variable `doc` no longer names the document (see above)

def lastPart (parts : List String) : String := parts.getLast?.getD ""

/-- one key of the operator's document in `_update_document_fields_positional` -/
def posUpdaterKey (u : Updater) (now spec : Val) (st : PosState) (k : String) (v : Val) : R PosState :=
  if st.docLost then unmodelled
  else if !keyOk k then unmodelled
  else if !hasDollarPart k then do
    let d' ← updateSingleField u now v (splitDots k) st.d
    pure { st with d := d', sub := st.sub.staleIf ((splitDots k).headD "") }
  else
    match splitDots k with
    | head :: p2 :: more =>
      if head = "$" then unmodelled
      else do
        let mid := (p2 :: more).dropLast
        let last := lastPart (p2 :: more)
        if (← st.sub.truthy st.d) then
          -- the carried container: no walk
          match st.sub with
          | .inside h _ =>
            if h = head then do
              let d' ← applyAtSub u now st.sub last v st.d
              pure { st with d := d' }
            else unmodelled
          | .gone _ => do
            let d' ← applyAtSub u now st.sub last v st.d
            pure { st with d := d' }
          | _ => unmodelled
        else
          match st.d, spec with
          | .doc fs, .doc ss => do
            let newSpec ← narrowSpec head ss
            match dget head fs with
            | none => .error .keyErr
            | some top => do
              let (cur, subspec, path) ← posWalk mid top newSpec (some [])
              let sub' := match path with
                | some p => SubRef.inside head p
                | none => SubRef.gone cur
              match last == "$", cur with
              | true, .arr xs =>
                if xs.isEmpty then pure { st with sub := sub' }
                else
                  (match subspec with
                   | .doc cs => do
                     match ← firstApplying (dollarCond cs) xs 0 with
                     | some (i, _) => do
                       let d' ← (match path with
                         | some p => editTop head (editAt (setItemAt i v) p) st.d
                         | none => pure st.d)
                       pure { d := d', sub := sub', docLost := true }
                     | none => pure { st with sub := sub', docLost := true }
                   | _ => .error .attrErr)
              | _, _ => do
                let d' ← applyAtSub u now sub' last v st.d
                pure { st with d := d', sub := sub' }
          | _, _ => unmodelled
    | _ => unmodelled

/-- `_update_document_fields_with_positional_awareness(existing_document, v, spec, updater,
    subdocument)`: the document and the new `subdocument` -/
def posFields (u : Updater) (now spec : Val) (v : Val) (d : Val) (sub : SubRef) : R (Val × SubRef) :=
  match v with
  | .doc fs =>
    if fs.any (fun kv => hasDollarPart kv.1) then do
      let st ← fs.foldlM (fun st kv => posUpdaterKey u now spec st kv.1 kv.2) ⟨d, sub, false⟩
      pure (st.d, st.sub)
    else do
      let d' ← updateFields u now v d
      pure (d', fs.foldl (fun s kv => s.staleIf ((splitDots kv.1).headD "")) sub)
  | _ => .error .attrErr

/-- `_get_subdocument` with ONE `$` component: up to the `$` like `withSubdoc`; there the filter
    followed so far must hold an `$elemMatch`, the first item satisfying it is entered by its
    index, and the rest of the walk no longer follows the filter -/
def withSubdocPos (f : Val → String → R Val) (create : Bool) :
    List String → Bool → Val → Val → R Val
  | [], _, _, d => .ok d
  | part :: rest, following, subspec, d =>
    if part = "$" then
      if !following then .error .writeErr
      else
        match subspec with
        | .doc ss =>
          (match dget "$elemMatch" ss with
           | none => .error .keyErr
           | some cond =>
             (match d with
              | .arr xs => do
                match ← firstApplying cond xs 0 with
                | none => .error .writeErr
                | some (i, _) => withSubdoc f create (toString i :: rest) false .null d
              | .doc _ | .str _ => unmodelled
              | _ => .error .typeErr))
        | _ => .error .typeErr
    else
      match rest with
      | [] => withSubdoc f create [part] following subspec d
      | _ :: _ =>
        match d with
        | .arr xs =>
          if following then unmodelled
          else match pyInt? part with
            | none => .error .valueErr
            | some i =>
              if i < 0 then unmodelled
              else match xs[i.toNat]? with
                | none => .error .indexErr
                | some sub => do
                  let sub' ← withSubdocPos f create rest false .null sub
                  pure (.arr (xs.set i.toNat sub'))
        | .doc fs =>
          if !create && (dget part fs).isNone then .ok d
          else
          let sub := (dget part fs).getD (.doc [])
          let (following', subspec', bad) :=
            if !following then (false, Val.null, false)
            else match subspec with
              | .doc ss => (match dget part ss with
                | some s' => (true, s', false)
                | none => (false, Val.null, false))
              | _ => (false, Val.null, true)
          if bad then unmodelled
          else do
            let sub' ← withSubdocPos f create rest following' subspec' sub
            pure (.doc (dset part sub' fs))
        | .str s =>
          if !create && !isInfixChars part.toList s.toList then .ok d else .error .typeErr
        | _ => .error .typeErr

/-- the path has exactly one `$` component, not the first one, and no empty component -/
def onePositional (field : String) : Bool :=
  let parts := splitDots field
  keyOk field && parts.count "$" == 1 && parts.headD "" != "$"

/-- the `$addToSet` edit at the container `_get_subdocument` returns -/
def addToSetAt (value : Val) (parent : Val) (last : String) : R Val :=
  match parent with
  | .doc ps => do
    let cur := (dget last ps).getD (.arr [])
    let r ← addToSetValue cur value
    pure (.doc (dset last r ps))
  | .arr _ => unmodelled
  | .str p =>
    if isInfixChars last.toList p.toList then .error .typeErr
    else do
      let _ ← addToSetValue (.arr []) value
      .error .typeErr
  | _ => .error .typeErr

def addToSetFieldPos (spec : Val) (d : Val) (field : String) (value : Val) : R Val :=
  let parts := splitDots field
  if !parts.contains "$" then addToSetField spec d field value
  else if !onePositional field then unmodelled
  else if !docsAlong (parts.takeWhile (· != "$") ++ ["$"]) d then .error .typeErr
  else withSubdocPos (addToSetAt value) true parts true spec d

def pullAllFieldPos (spec : Val) (d : Val) (field : String) (value : Val) : R Val :=
  let parts := splitDots field
  if !parts.contains "$" then pullAllField spec d field value
  else if !onePositional field then unmodelled
  else withSubdocPos (pullAllAt value) false parts true spec d

def pushAt (value : Val) (parent : Val) (last : String) : R Val :=
  match parent with
  | .doc ps => do
    let cur := (dget last ps).getD (.arr [])
    let r ← pushValue cur value
    pure (.doc (dset last r ps))
  | .arr xs =>
    (match pyInt? last with
     | some i =>
       if i < 0 then unmodelled
       else match xs[i.toNat]? with
         | none => .error .indexErr
         | some cur => do
           let r ← pushValue cur value
           pure (.arr (xs.set i.toNat r))
     | none => .error .valueErr)
  | _ => .error .typeErr

def pushFieldPos (spec : Val) (d : Val) (field : String) (value : Val) : R Val :=
  let parts := splitDots field
  if !parts.contains "$" then pushField spec d field value
  else if !onePositional field then unmodelled
  else withSubdocPos (pushAt value) true parts true spec d

/-- the positional `$pull`: `for obj in subdocument[last]: …` keeps a sub-document once for every
    `pull_key` whose value differs (KeyError when it lacks the key), anything else when it differs
    from the operand -/
def pullPosList (value : Val) (xs : List Val) : R (List Val) :=
  xs.foldlM (fun acc obj =>
    match obj with
    | .doc os =>
      (match value with
       | .doc vs => vs.foldlM (fun acc' kv =>
           match dget kv.1 os with
           | none => .error .keyErr
           | some w => pure (if pyEq w kv.2 then acc' else acc' ++ [obj])) acc
       | _ => .error .attrErr)
    | _ => pure (if pyEq obj value then acc else acc ++ [obj])) []

/-- `subdocument[nested_field_list[-1]] = pull_results` (`last` is the LAST COMPONENT AS WRITTEN:
    `$` is no index here) -/
def pullPosAt (value : Val) (last : String) (parent : Val) : R Val :=
  match parent with
  | .doc ps =>
    (match dget last ps with
     | none => .error .keyErr
     | some (.arr xs) => do
       let r ← pullPosList value xs
       pure (.doc (dset last (.arr r) ps))
     | some (.doc _) | some (.str _) => unmodelled
     | some _ => .error .typeErr)
  | _ => .error .typeErr

def pullFieldPos (spec : Val) (sub : SubRef) (d : Val) (field : String) (value : Val) :
    R (Val × SubRef) :=
  let parts := splitDots field
  if !parts.contains "$" then do
    let d' ← pullField d field value
    pure (d', sub.staleIf (parts.headD ""))
  else if !keyOk field || parts.headD "" == "$" then unmodelled
  else do
    let last := lastPart parts
    if (← sub.truthy d) then
      match sub with
      | .inside h p =>
        if h = parts.headD "" then do
          let d' ← editTop h (editAt (pullPosAt value last) p) d
          pure (d', sub)
        else unmodelled
      | .gone c => do
        let _ ← pullPosAt value last c
        pure (d, sub)
      | _ => unmodelled
    else if !onePositional field then unmodelled
    else do
      let d' ← withSubdocPos (fun parent _ => pullPosAt value last parent) true parts true spec d
      pure (d', .untracked)

/-- `for field, value in v.items()` with the carried container -/
def eachFieldS (v : Val) (d : Val) (sub : SubRef)
    (f : Val → SubRef → String → Val → R (Val × SubRef)) : R (Val × SubRef) :=
  match v with
  | .doc fs => fs.foldlM (fun acc kv => f acc.1 acc.2 kv.1 kv.2) (d, sub)
  | _ => .error .attrErr

/-- what `$rename` does to the carried container: not followed under the two names -/
def renameStale (v : Val) (sub : SubRef) : SubRef :=
  match v with
  | .doc fs => fs.foldl (fun s kv =>
      let s1 := s.staleIf kv.1
      match kv.2 with
      | .str dst => s1.staleIf dst
      | _ => s1) sub
  | _ => sub

/-- the `subdocument` an in-line array operator leaves: a top-level `$addToSet` / `$pullAll` does
    not assign it; everything else assigns the container it worked on -/
def subAfterArrayOp (assignsAlways : Bool) (field : String) (sub : SubRef) : SubRef :=
  match splitDots field with
  | [f] => if assignsAlways then .untracked else sub.staleIf f
  | _ => .untracked

/-- the operator loop of `_apply_update` for an update with a positional key: as `applyOps`, with
    the variable `subdocument` handed from operator to operator -/
def applyOpsPos (spec : Val) (now : Val) (wasInsert : Bool) (whole : Fields) :
    Fields → Bool → SubRef → Val → R Val
  | [], _, _, d => .ok d
  | (k, v) :: rest, first, sub, d =>
    match updaterOf k with
    | some u => do
      let (d', sub') ← posFields u now spec v d sub
      applyOpsPos spec now wasInsert whole rest false sub' d'
    | none =>
      if k = "$rename" then do
        let d' ← renameFields v d
        applyOpsPos spec now wasInsert whole rest false (renameStale v sub) d'
      else if k = "$setOnInsert" then
        if !wasInsert then applyOpsPos spec now wasInsert whole rest first sub d
        else do
          let (d', sub') ← posFields .set now spec v d sub
          applyOpsPos spec now wasInsert whole rest false sub' d'
      else if k = "$currentDate" then do
        let (d', sub') ← posFields .currentDate now spec v d sub
        applyOpsPos spec now wasInsert whole rest false sub' d'
      else if k = "$addToSet" then do
        let (d', sub') ← eachFieldS v d sub (fun d s field value => do
          let d' ← addToSetFieldPos spec d field value
          pure (d', subAfterArrayOp false field s))
        applyOpsPos spec now wasInsert whole rest false sub' d'
      else if k = "$pull" then do
        let (d', sub') ← eachFieldS v d sub (fun d s field value => pullFieldPos spec s d field value)
        applyOpsPos spec now wasInsert whole rest false sub' d'
      else if k = "$pullAll" then do
        let (d', sub') ← eachFieldS v d sub (fun d s field value => do
          let d' ← pullAllFieldPos spec d field value
          pure (d', subAfterArrayOp false field s))
        applyOpsPos spec now wasInsert whole rest false sub' d'
      else if k = "$push" then do
        let (d', sub') ← eachFieldS v d sub (fun d s field value => do
          let d' ← pushFieldPos spec d field value
          pure (d', subAfterArrayOp true field s))
        applyOpsPos spec now wasInsert whole rest false sub' d'
      else if first then replaceWhole whole d
      else .error .valueErr

/-- the operators whose paths may hold a `$` -/
def positionalOperators : List String :=
  ["$set", "$unset", "$inc", "$max", "$min", "$pop", "$setOnInsert", "$currentDate",
   "$addToSet", "$pull", "$pullAll", "$push"]

/-- some operator's document has a key with a `$` in it: the update goes through `applyOpsPos` -/
def positionalUpdate (fs : Fields) : Bool :=
  fs.any (fun kv => positionalOperators.contains kv.1 &&
    (match kv.2 with
     | .doc body => body.any (fun fv => hasDollarPart fv.1)
     | _ => false))

/-- the per-document part of `_apply_update`: operators, then the empty-document branch -/
def applyUpdate (spec : Val) (document : Val) (now : Val) (wasInsert : Bool) (existing : Val) :
    R Val :=
  match document with
  | .doc [] =>
    (match existing with
     | .doc es =>
       (match dget "_id" es with
        | some x => .ok (.doc [("_id", x)])
        | none => .ok (.doc []))
     | _ => unmodelled)
  | .doc fs =>
    if positionalUpdate fs then applyOpsPos spec now wasInsert fs fs true .nil existing
    else applyOps spec now wasInsert fs fs true existing
  | _ => .error .typeErr

/-! ### `_validate_update_operators`: the operators of an update, checked before any document is
    looked for -/

/-- the operators `_apply_update` implements itself (`_OTHER_UPDATE_OPERATORS`) -/
def otherUpdateOperators : List String :=
  ["$rename", "$setOnInsert", "$currentDate", "$addToSet", "$pull", "$pullAll", "$push"]

/-- `k in _updaters or k in _OTHER_UPDATE_OPERATORS` -/
def knownOperator (k : String) : Bool := (updaterOf k).isSome || otherUpdateOperators.contains k

/-- the walk of `_validate_update_operators` from position `index` (`atStart` = `index == 0`) on:
    a known operator is passed; another key is 'Invalid modifier' behind the first position, at the
    first position 'field names cannot start with $' when some key of the whole document starts
    with `$`, and otherwise marks a replacement document (the walk stops) -/
def validateOpsFrom (whole : Fields) : Fields → Bool → R Unit
  | [], _ => .ok ()
  | (k, _) :: rest, atStart =>
    if knownOperator k then validateOpsFrom whole rest false
    else if !atStart then .error .valueErr
    else if whole.any (fun kv => kv.1.startsWith "$") then .error .valueErr
    else .ok ()

/-- `_validate_update_operators(document)`: called by `_apply_update` after the pre-5.0 "empty
    operator" check and before the filter is evaluated for the first time, and by
    `_find_and_modify` before the target is looked up -/
def validateOps (document : Fields) : R Unit := validateOpsFrom document document true

/-- the same on an update given as a value (`_find_and_modify`: `if update:
    _validate_update_operators(update)`); the callers have refused non-mappings before -/
def validateOpsVal (u : Val) : R Unit :=
  match u with
  | .doc ufs => validateOps ufs
  | _ => .ok ()

/-! ### upsert seed: `_discard_operators`, then `_expand_dots` -/

/-- `_expand_dots`: one key.  `given` = the keys stated so far (`paths[k] == k`), `inter` = the
    proper prefixes walked so far (`paths[prefix] = k'`), `pre` = the dotted prefix walked in this
    key.  A path that passes through a key that was itself given as an equality, or whose
    intermediate is not a sub-document, is the WriteError 'cannot infer query fields to set' (a
    KeyError from `paths[subkey]` if that prefix had never been recorded). -/
def expandOne (given inter : List String) (v : Val) : List String → List String → Fields → R Fields
  | [], _, acc => .ok acc
  | [last], _, acc => .ok (dset last v acc)
  | part :: rest, pre, acc =>
    match dget part acc with
    | none =>
      -- `sub_expanded[key_part] = {}`, then the same test (it cannot fire here: a stated key has
      -- put a value at its path)
      if given.contains (joinDots (pre ++ [part])) then .error .writeErr
      else do
        let sub ← expandOne given inter v rest (pre ++ [part]) []
        pure (dset part (.doc sub) acc)
    | some (.doc sub) =>
      if given.contains (joinDots (pre ++ [part])) then .error .writeErr
      else do
        let sub' ← expandOne given inter v rest (pre ++ [part]) sub
        pure (dset part (.doc sub') acc)
    | some _ =>
      if given.contains (joinDots (pre ++ [part])) || inter.contains (joinDots (pre ++ [part])) then
        .error .writeErr
      else .error .keyErr

/-- the proper dotted prefixes of a key: `a.b.c` ↦ `a`, `a.b` -/
def properPrefixes (parts : List String) : List String :=
  (List.range (parts.length - 1)).map (fun i => joinDots (parts.take (i + 1)))

/-- `_expand_dots(doc)`: `k in paths` fires for a key stated twice and for a key that is a prefix
    of an earlier one; the test inside the walk for a key that runs through an earlier one.  (The
    state `paths` of the code is kept as two lists: `paths[key] == key` holds exactly for the
    keys stated so far — a stated key is never re-recorded as the prefix of a later one, the
    walk raises there.) -/
def expandDots (doc : Fields) : R Fields :=
  let step (st : Fields × List String × List String) (kv : String × Val) :
      R (Fields × List String × List String) :=
    let (acc, given, inter) := st
    if given.contains kv.1 || inter.contains kv.1 then .error .writeErr
    else
      let parts := splitDots kv.1
      (expandOne (given ++ [kv.1]) inter kv.2 parts [] acc).map
        (fun acc' => (acc', given ++ [kv.1], inter ++ properPrefixes parts))
  (doc.foldlM step ([], [], [])).map (·.1)

mutual
  /-- `_discard_operators(doc)`: `(new_doc, discarded)` -/
  def discardOps : Val → Val × Bool
    | .doc fs => if fs.isEmpty then (.doc fs, false) else discardFields fs []
    | v => (v, false)
  termination_by structural x => x
  def discardFields : Fields → Fields → Val × Bool
    | [], acc => (.doc acc, acc.isEmpty)
    | (k, v) :: rest, acc =>
      if k = "$eq" then (v, false)
      else if k.startsWith "$" then discardFields rest acc
      else
        let (nv, discarded) := discardOps v
        if discarded then discardFields rest acc else discardFields rest (dset k nv acc)
  termination_by structural x _ => x
end

/-- the document an upsert starts from: `dict(spec, _id=_id)`, `_discard_operators` (only the
    equality conditions stay: operator conditions and `$`-keys are dropped, `{$eq: v}` gives `v`),
    then `_expand_dots` on what is left (dotted paths become sub-documents; an equality below
    another one is a conflict) -/
def upsertSeed (ss : Fields) (idv : Val) : R Val :=
  match (discardOps (.doc (dset "_id" idv ss))).1 with
  | .doc eqs => (expandDots eqs).map Val.doc
  | _ => .error .attrErr        -- a top-level `$eq`: `_expand_dots` of a non-mapping

end MongoModel
