/-
  MongoModel.Project — projection, followed line by line, quirks included.

  find path (mongomock/collection.py):
    `_copy_only_fields`               1202-1261
    `helpers.fields_list_to_dict`     helpers.py 173-187
    `_extract_projection_operators`   1120-1134
    `_combine_projection_spec`        186-219
    `_refuse_positional_projection`   222-226
    `_project_by_spec`                229-247
    `_project_array_by_spec`          250-268
    `_apply_projection_operators`     1136-1200
    `_get_dataset` / `find` / `find_one` (selection, then projection of each selected document)
  aggregate path (mongomock/aggregate.py), plain inclusion / exclusion specifications only:
    `_handle_project_stage`           1517-1567
    `_combine_projection_spec`        1425-1456
    `_project_by_spec`                1459-1479
    `_project_array_by_spec`          1482-1496

  The model follows the library after the repairs of the C12 findings (known_findings.json:
  slicelimit, sliceskip, exclscalar, mixedarray, aggdroparr, slicealone): a `[skip, limit]`
  `$slice` refuses `limit <= 0` and clamps a far negative skip to the first element; a dotted
  path that runs into a scalar keeps it on exclusion; the items of a descended array are
  projected when they are documents, walked when they are arrays, and otherwise left out by an
  inclusion and kept by an exclusion (both paths); a projection made only of `$slice` fields
  starts from the whole document.  A `[skip, limit]` pair that holds a double is followed
  through Python's `max` / `min` (`slicePairNum`): the cut works exactly when they leave int
  bounds behind (`skip + limit` beyond the end, a negative skip at or before the first element).

  `_copy_field` is a deep copy; values are immutable here, so it is the identity.

  Outside the fidelity zone (answer `unmodelled`): a projection argument that is neither None,
  a dict nor a list (a `str` is iterated character by character by the code); computed fields in
  `$project` (any value other than 0 / 1 / True / False); non-dict `$project` operand.

  A `Fields` value stands for a Python dict, so its keys are pairwise distinct; the functions
  below are total on every `Fields` but only claimed faithful on those.
-/
import MongoModel.Filter

namespace MongoModel

/-! ### the combined (nested) projection specification -/

/-- the nested dictionary built by `_combine_projection_spec`: a leaf carries the value the caller
    wrote (`1`, `0`, `True`, …), a node the sub-specification -/
inductive PTree where
  | leaf (v : Val)
  | node (cs : List (String × PTree))
  deriving Inhabited

abbrev PSpec := List (String × PTree)

/-- `combined_projection_spec.get(key, NOTHING)` -/
def tget (k : String) : PSpec → Option PTree
  | [] => none
  | (k', t) :: r => if k' = k then some t else tget k r

/-- `'$' in combined_projection_spec` -/
def thas (k : String) (cs : PSpec) : Bool := (tget k cs).isSome

/-- a flat specification with its keys already split at the dots: `'a.b.c': v` is
    `(["a","b","c"], v)`.  Splitting at the first dot level after level (as the code does with
    `f.split('.', 1)` / `key.partition('.')`) visits exactly these components. -/
abbrev Items := List (List String × Val)

def itemsOf (fs : Fields) : Items := fs.map (fun kv => (splitDots kv.1, kv.2))

/-- an entry of `tmp_spec` / `filter_dict` during the first loop: a plain value, or the dict
    (list) of remainders collected for a base field -/
inductive Slot where
  | leaf (v : Val)
  | sub (items : Items)

abbrev Slots := List (String × Slot)

def sget (k : String) : Slots → Option Slot
  | [] => none
  | (k', s) :: r => if k' = k then some s else sget k r

/-- `tmp_spec[k] = s` -/
def sset (k : String) (s : Slot) : Slots → Slots
  | [] => [(k, s)]
  | (k', s') :: r => if k' = k then (k, s) :: r else (k', s') :: sset k s r

/-- one iteration of the first loop of `_combine_projection_spec`.
    `agg = false`: collection.py:193-209;  `agg = true`: aggregate.py:1437-1451 (every collision
    is an `OperationFailure` there). -/
def combineStep (agg : Bool) (acc : Slots) : List String × Val → R Slots
  | ([], _) => unmodelled                     -- cannot arise: `split` never returns an empty list
  | ([f], v) =>
    match sget f acc with
    | some (.sub _) => .error (if !agg && !v.truthy then .notImpl else .opFail)
    | _ => .ok (sset f (.leaf v) acc)
  | (f :: r, v) =>
    match sget f acc with
    | some (.sub items) => .ok (sset f (.sub (items ++ [(r, v)])) acc)
    | some (.leaf _) => .error .opFail
    | none => .ok (acc ++ [(f, .sub [(r, v)])])

def combineLoop (agg : Bool) : Slots → Items → R Slots
  | acc, [] => .ok acc
  | acc, it :: its => do
    let acc' ← combineStep agg acc it
    combineLoop agg acc' its

/-- the second loop: recurse into the collected sub-specifications, in insertion order -/
def finishSlots (rec : Items → R PSpec) : Slots → R PSpec
  | [] => .ok []
  | (f, .leaf v) :: r => do
    let rest ← finishSlots rec r
    pure ((f, .leaf v) :: rest)
  | (f, .sub items) :: r => do
    let cs ← rec items
    let rest ← finishSlots rec r
    pure ((f, .node cs) :: rest)

/-- `_combine_projection_spec`; the recursion is on the length of the longest key, given as fuel -/
def combine (agg : Bool) : Nat → Items → R PSpec
  | 0, _ => unmodelled
  | n + 1, items => do
    let slots ← combineLoop agg [] items
    finishSlots (combine agg n) slots

def maxLen : Items → Nat
  | [] => 0
  | (ps, _) :: r => max ps.length (maxLen r)

def combineSpec (agg : Bool) (items : Items) : R PSpec := combine agg (maxLen items + 1) items

/-! ### find path: `_project_by_spec` / `_project_array_by_spec` (collection.py:222-268) -/

/-- `_refuse_positional_projection`: the guard at the top of `_project_by_spec` and of
    `_project_array_by_spec` -/
def positionalGuard (cs : PSpec) (incl : Bool) : R Unit :=
  if thas "$" cs then .error (if incl then .notImpl else .opFail) else .ok ()

mutual
  /-- `_project_by_spec(doc, spec, …)`: the loop over `doc.items()`.  Every caller has checked
      `positionalGuard` on `cs` (`_refuse_positional_projection` at the top of the function) -/
  def fpFields : Fields → PSpec → Bool → R Fields
    | [], _, _ => .ok []
    | (k, .arr xs) :: rest, cs, incl =>
      match tget k cs with
      | some (.node sub) => do
        positionalGuard sub incl               -- at the top of `_project_array_by_spec`
        let ys ← fpList xs sub incl
        let r ← fpFields rest cs incl
        pure ((k, .arr ys) :: r)
      | some (.leaf _) => do
        let r ← fpFields rest cs incl
        pure (if incl then (k, .arr xs) :: r else r)
      | none => do
        let r ← fpFields rest cs incl
        pure (if incl then r else (k, .arr xs) :: r)
    | (k, .doc fs) :: rest, cs, incl =>
      match tget k cs with
      | some (.node sub) => do
        positionalGuard sub incl
        let o ← fpFields fs sub incl
        let r ← fpFields rest cs incl
        pure ((k, .doc o) :: r)
      | some (.leaf _) => do
        let r ← fpFields rest cs incl
        pure (if incl then (k, .doc fs) :: r else r)
      | none => do
        let r ← fpFields rest cs incl
        pure (if incl then r else (k, .doc fs) :: r)
    | (k, v) :: rest, cs, incl =>
      match tget k cs with
      | some (.node _) => do                   -- neither list nor dict: kept by an exclusion only
        let r ← fpFields rest cs incl
        pure (if incl then r else (k, v) :: r)
      | some (.leaf _) => do
        let r ← fpFields rest cs incl
        pure (if incl then (k, v) :: r else r)
      | none => do
        let r ← fpFields rest cs incl
        pure (if incl then r else (k, v) :: r)
  termination_by structural x _ _ => x

  /-- one item of the loop of `_project_array_by_spec(values, spec, …)`: a document is projected
      by the specification, a nested array item by item, anything else is kept by an exclusion
      only (`none`: nothing appended).  The guard at the top of the two Python functions has
      already passed for this very `cs` when an item is reached, so it is not evaluated again. -/
  def fpVal : Val → PSpec → Bool → R (Option Val)
    | .doc fs, cs, incl => do
      let o ← fpFields fs cs incl
      pure (some (.doc o))
    | .arr zs, cs, incl => do
      let o ← fpList zs cs incl
      pure (some (.arr o))
    | v, _, incl => .ok (if incl then none else some v)
  termination_by structural x _ _ => x

  /-- the loop of `_project_array_by_spec` -/
  def fpList : List Val → PSpec → Bool → R (List Val)
    | [], _, _ => .ok []
    | x :: xs, cs, incl => do
      let y ← fpVal x cs incl
      let ys ← fpList xs cs incl
      pure (match y with | some y => y :: ys | none => ys)
  termination_by structural x _ _ => x
end

/-! ### projection operators (collection.py:1120-1200) -/

def allowedProjectionOperators : List String := ["$elemMatch", "$slice"]

/-- `_extract_projection_operators`: (operator fields, remaining fields) -/
def extractOps : Fields → R (Fields × Fields)
  | [] => .ok ([], [])
  | (k, .doc ops) :: r =>
    if (dkeys ops).all allowedProjectionOperators.contains then do
      let (os, ps) ← extractOps r
      pure ((k, .doc ops) :: os, ps)
    else .error .valueErr
  | (k, v) :: r => do
    let (os, ps) ← extractOps r
    pure (os, (k, v) :: ps)

/-- Python `xs[a:b]` for arbitrary ints -/
def projSlice (xs : List Val) (a b : Int) : List Val :=
  let n : Int := xs.length
  let clamp (i : Int) : Int := if i < 0 then (if i + n < 0 then 0 else i + n) else (if i > n then n else i)
  let a' := clamp a
  let b' := clamp b
  (xs.drop a'.toNat).take (b' - a').toNat

/-- an `int` (or `bool`, its subclass) -/
def asPyInt : Val → Option Int
  | .int i => some i
  | .bool b => some (if b then 1 else 0)
  | _ => none

/-- `limit <= 0` for an arbitrary Python value (`none`: the comparison raises `TypeError`) -/
def nonPositive : Val → Option Bool
  | .int i => some (decide (i ≤ 0))
  | .bool b => some (!b)
  | .dbl m _ => some (decide (m ≤ 0))
  | _ => none

/-- the pair `[skip, limit]` (its limit already found positive) when one of the two is no `int`.
    The code computes `skip = max(0, len + skip)` for a negative skip, `last = min(skip + limit,
    len)`, and cuts `xs[skip:last]`: the cut raises `TypeError` unless both bounds are ints.
    A double can still leave int bounds behind: `max(0, x)` hands back its first argument, the
    int `0`, when `len + skip ≤ 0`; `min(x, len)` hands back the int `len` when
    `skip + limit > len`.  Anything that is no number fails in the comparison `skip < 0`. -/
def slicePairNum (s l : Val) (xs : List Val) : R (List Val) :=
  let n : Int := xs.length
  let skip? : Option Int :=
    match asPyInt s with
    | some k => some (if k < 0 then (if n + k < 0 then 0 else n + k) else k)
    | none =>
      match s with
      | .dbl m e => if m < 0 && m + n * (2 : Int) ^ e ≤ 0 then some 0 else none
      | _ => none
  match skip? with
  | none => .error .typeErr
  | some skip =>
    match asPyInt l with
    | some limit => .ok (projSlice xs skip (if skip + limit < n then skip + limit else n))
    | none =>
      match l with
      | .dbl m e => if (n - skip) * (2 : Int) ^ e < m then .ok (projSlice xs skip n)
                    else .error .typeErr
      | _ => .error .typeErr

/-- the `$slice` branch of `_apply_projection_operators` on the list `xs` -/
def sliceOp (sv : Val) (xs : List Val) : R (List Val) :=
  let n : Int := xs.length
  match sv with
  | .arr [s, l] =>
    match nonPositive l with
    | none => .error .typeErr
    | some true => .error .opFail              -- "$slice limit must be positive"
    | some false =>
      match asPyInt s, asPyInt l with
      | some skip, some limit =>
        let skip := if skip < 0 then (if n + skip < 0 then 0 else n + skip) else skip
        let last := if skip + limit < n then skip + limit else n
        .ok (projSlice xs skip last)
      | _, _ => slicePairNum s l xs
  | .arr _ => .error .opFail
  | sv =>
    match asPyInt sv with
    | some count =>
      if count < 0 then .ok (projSlice xs (if n + count < 0 then 0 else n + count) n)
      else .ok (projSlice xs 0 (if count < n then count else n))
    | none => .error .opFail

/-- the `$elemMatch` loop: the first item the filter applies to -/
def firstMatch (q : Val) : List Val → R (Option Val)
  | [] => .ok none
  | x :: xs => do
    if (← filterApplies q x) then pure (some x) else firstMatch q xs

/-- one iteration of the loop of `_apply_projection_operators` -/
def applyOp (doc : Fields) (dc : Fields) (field : String) (op : Fields) : R Fields :=
  let start : Option Fields :=
    if dhas field dc then some dc
    else match dget field doc with
      | some v => some (dset field v dc)
      | none => none
  match start with
  | none => .ok dc
  | some dc => do
    let dc ← (match dget "$slice" op with
      | none => pure dc
      | some sv =>
        match dget field dc with
        | some (.arr xs) => do
          let ys ← sliceOp sv xs
          pure (dset field (.arr ys) dc)
        | _ => .error .opFail)
    match dget "$elemMatch" op with
    | none => pure dc
    | some q =>
      match dget field dc with
      | some (.arr xs) => do
        match (← firstMatch q xs) with
        | some item => pure (dset field (.arr [item]) dc)
        | none => pure (derase field dc)
      | _ => pure (derase field dc)

def applyProjOps (doc : Fields) : Fields → Fields → R Fields
  | [], dc => .ok dc
  | (field, .doc op) :: r, dc => do
    let dc' ← applyOp doc dc field op
    applyProjOps doc r dc'
  | _ :: _, _ => unmodelled          -- cannot arise: `extractOps` returns dict values only

/-! ### `_copy_only_fields` (collection.py:1202-1261) -/

/-- `helpers.fields_list_to_dict` -/
def fieldsListToDict : List Val → Fields → R Fields
  | [], acc => .ok acc
  | .str s :: r, acc => fieldsListToDict r (dset s (.int 1) acc)
  | _ :: _, _ => .error .typeErr

/-- `len(set(list(fields.values()))) > 1` (a list value is unhashable: `TypeError`) -/
def mixedValues (vs : List Val) : R Bool :=
  if vs.any Val.isArr then .error .typeErr
  else match vs with
    | [] => .ok false
    | v :: r => .ok (!(r.all (pyEq v)))

/-- `if '_id' in doc: doc_copy['_id'] = doc['_id']` -/
def attachId (doc dc : Fields) : Fields :=
  match dget "_id" doc with
  | some v => dset "_id" v dc
  | none => dc

/-- `bool(projection_operators) and all(list(op) == ['$slice'] for op in ….values())` -/
def onlySlices (ops : Fields) : Bool :=
  !ops.isEmpty && ops.all (fun kv => match kv.2 with
    | .doc op => dkeys op == ["$slice"]
    | _ => false)

/-- `_copy_only_fields` between the extraction of the operator fields and their application:
    mode check, the copy by the plain fields, `_id` re-attached.  `keepAll` is
    `not id_given and only_slices`: without plain fields, a projection made of `$slice` fields
    only (and no `_id` entry) starts from the whole document -/
def baseCopy (doc plain : Fields) (idv : Val) (keepAll : Bool) : R Fields := do
  if (← mixedValues (plain.map (·.2))) then .error .valueErr
  else do
    let dc ← (match plain with
      | [] => pure (if pyEq idv (.int 1) && !keepAll then [] else doc)
      | (_, v0) :: _ => do
        let cs ← combineSpec false (itemsOf plain)
        positionalGuard cs v0.truthy
        fpFields doc cs v0.truthy)
    pure (if pyEq idv (.int 0) then derase "_id" dc else attachId doc dc)

/-- the body of `_copy_only_fields` once `fields` is a non-empty dict -/
def copyWithDict (doc : Fields) (fields : Fields) : R Fields := do
  let idv := (dget "_id" fields).getD (.int 1)
  let (ops, plain) ← extractOps (derase "_id" fields)
  let dc ← baseCopy doc plain idv (!(dhas "_id" fields) && onlySlices ops)
  applyProjOps doc ops dc

/-- `Collection._copy_only_fields(doc, fields, dict)`; `fields = None` is `.null`.  The code works
    on `dict(fields)` (collection.py), so the caller's object is never touched: nothing to model. -/
def copyOnlyFields (d : Val) (p : Val) : R Val :=
  match d with
  | .doc doc =>
    match p with
    | .null => .ok d
    | .doc [] => .ok d                      -- `not fields` with PYMONGO_VERSION 4.0
    | .arr [] => .ok d
    | .doc fields => (copyWithDict doc fields).map .doc
    | .arr names => do
      let fields ← fieldsListToDict names []
      (copyWithDict doc fields).map .doc
    | _ => unmodelled
  | _ => unmodelled

/-! ### selection then projection (`_iter_documents`, `_get_dataset`, `find_one`) -/

/-- `list(collection.find(filter, projection))` without sort / skip / limit: documents are
    matched and projected one at a time, in store order -/
def findLoop (filter proj : Val) : List Val → R (List Val)
  | [] => .ok []
  | d :: ds => do
    if (← filterApplies filter d) then do
      let o ← copyOnlyFields d proj
      let r ← findLoop filter proj ds
      pure (o :: r)
    else findLoop filter proj ds

def findProject (filter proj : Val) (docs : List Val) : R (List Val) :=
  match docs with
  | [] => do
    let _ ← filterApplies filter (.doc [])      -- the filter is validated on an empty store
    pure []
  | _ => findLoop filter proj docs

/-- `collection.find_one(filter, projection)`: `next(find(...))`; the cursor computes the whole
    result list before handing out its first element (collection.py:1945-1954), so an error on
    any selected document surfaces -/
def findOneProject (filter proj : Val) (docs : List Val) : R (Option Val) :=
  (findProject filter proj docs).map List.head?

/-! ### aggregate path: `$project` with plain inclusion / exclusion (aggregate.py:1425-1567) -/

mutual
  /-- `_project_by_spec` of aggregate.py -/
  def apFields : Fields → PSpec → Bool → Fields
    | [], _, _ => []
    | (k, .doc fs) :: rest, cs, incl =>
      match tget k cs with
      | none => if incl then apFields rest cs incl else (k, .doc fs) :: apFields rest cs incl
      | some (.leaf _) => if incl then (k, .doc fs) :: apFields rest cs incl else apFields rest cs incl
      | some (.node sub) => (k, .doc (apFields fs sub incl)) :: apFields rest cs incl
    | (k, .arr xs) :: rest, cs, incl =>
      match tget k cs with
      | none => if incl then apFields rest cs incl else (k, .arr xs) :: apFields rest cs incl
      | some (.leaf _) => if incl then (k, .arr xs) :: apFields rest cs incl else apFields rest cs incl
      | some (.node sub) => (k, .arr (apList xs sub incl)) :: apFields rest cs incl
    | (k, v) :: rest, cs, incl =>
      match tget k cs with
      | none => if incl then apFields rest cs incl else (k, v) :: apFields rest cs incl
      | some (.leaf _) => if incl then (k, v) :: apFields rest cs incl else apFields rest cs incl
      | some (.node _) => if incl then apFields rest cs incl else (k, v) :: apFields rest cs incl
  termination_by structural x _ _ => x

  /-- one item of the loop of `_project_array_by_spec` of aggregate.py: a document is projected
      by the specification, a nested array item by item, anything else is kept by an exclusion
      only (`none`: nothing appended) -/
  def apVal : Val → PSpec → Bool → Option Val
    | .doc fs, cs, incl => some (.doc (apFields fs cs incl))
    | .arr zs, cs, incl => some (.arr (apList zs cs incl))
    | v, _, incl => if incl then none else some v
  termination_by structural x _ _ => x

  def apList : List Val → PSpec → Bool → List Val
    | [], _, _ => []
    | x :: xs, cs, incl =>
      match apVal x cs incl with
      | some y => y :: apList xs cs incl
      | none => apList xs cs incl
  termination_by structural x _ _ => x
end

/-- `value in (0, 1, True, False)` -/
def isFlag (v : Val) : Bool := pyEq v (.int 0) || pyEq v (.int 1)

inductive PMethod where
  | unset | inc | exc
  deriving DecidableEq

/-- `method = next(('include' if value else 'exclude' for field, value in options.items()
    if field != '_id'), None)`: the first field other than `_id` tells an inclusion from an
    exclusion, wherever `_id` stands -/
def aggInitMethod : Fields → PMethod
  | [] => .unset
  | (field, value) :: r =>
    if field != "_id" then (if value.truthy then .inc else .exc) else aggInitMethod r

/-- the loop of `_handle_project_stage` over `options.items()` for flag values:
    returns the method and the filter list (in an exclusion `_id: 1` / `_id: True` is accepted:
    `value not in (1, True)`) -/
def aggScan : Fields → PMethod → List String → R (PMethod × List String)
  | [], m, acc => .ok (m, acc)
  | (field, value) :: r, m, acc =>
    if !isFlag value then unmodelled              -- computed field
    else
      let step : R PMethod :=
        if m = .unset && (field != "_id" || value.truthy) then
          .ok (if value.truthy then .inc else .exc)
        else if m = .inc && !value.truthy && field != "_id" then .error .opFail
        else if m = .exc && value.truthy && (field != "_id" || !(pyEq value (.int 1))) then
          .error .opFail
        else .ok m
      match step with
      | .error e => .error e
      | .ok m' => aggScan r m' (if field != "_id" then acc ++ [field] else acc)

/-- the filter list of `_handle_project_stage` once `_id` has been dealt with
    (aggregate.py:1547-1549): `include_id = options.get('_id')` is `None` when absent, and
    `None is not False and None != 0` holds, exactly as for the default `1` used here -/
def aggFilterList (options : Fields) : R (PMethod × List String) := do
  let (m, fl) ← aggScan options (aggInitMethod options) []
  let idIncluded : Bool := !(pyEq ((dget "_id" options).getD (.int 1)) (.int 0))
  pure (m, if (m = .inc) == idIncluded then fl ++ ["_id"] else fl)

/-- `_project_by_spec(doc, projection_spec, is_include)` on a document of the collection -/
def aggProjectDoc (cs : PSpec) (incl : Bool) : Val → R Val
  | .doc fs => .ok (.doc (apFields fs cs incl))
  | _ => unmodelled

/-- `_handle_project_stage(in_collection, _, options)` followed by `list(...)` of the cursor -/
def aggProject (docs : List Val) (p : Val) : R (List Val) :=
  match p with
  | .doc options =>
    if !(options.all (fun kv => isFlag kv.2)) then unmodelled
    else do
      let (m, fl) ← aggFilterList options
      if fl.isEmpty then .error .typeErr          -- the stage returns None
      else do
        let cs ← combineSpec true (fl.map (fun k => (splitDots k, Val.int 1)))
        docs.mapM (aggProjectDoc cs (m = .inc))
  | _ => unmodelled

end MongoModel
