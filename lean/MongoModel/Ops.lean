/-
  MongoModel.Ops — the operations of a collection history, decoded from the wire (`Val` arrays
  such as `["update_one", filter, update, upsert]`), the step function and the observable state.

  `step cfg (now, c) op = ((now', c'), out)`: `clock` moves the mocked `utcnow`; every other
  operation runs at the current time.  A history is `ops.foldl`, see `run`.
-/
import MongoModel.Store

namespace MongoModel

inductive Out where
  | val (v : Val)
  | err (e : Err)
  /-- `BulkWriteError.details`, canonicalised -/
  | bulkErr (details : Val)

def Out.isErr : Out → Bool
  | .val _ => false
  | _ => true

structure St where
  now : Int := 1600000000000000       -- mocked utcnow in µs
  c : Coll := {}
  deriving Inhabited

def boolOf (v : Val) : Bool := v.truthy

def idOfDoc (d : Val) : Val :=
  match d with
  | .doc fs => (dget "_id" fs).getD .null
  | _ => .null

/-- `error.code` of the write errors the model can raise -/
def errCode : Err → Val
  | .dupKey => .int 11000
  | _ => .null

def insertManyDone (c : Coll) (ids errs : List Val) (n : Nat) : Coll × Out :=
  if errs.isEmpty then (c, .val (.arr ids))
  else (c, .bulkErr (.doc [("writeErrors", .arr errs), ("nInserted", .int n)]))

/-- `_insert(documents, ordered)` for a list: WriteErrors are collected, anything else aborts -/
def insertManyLoop (now : Int) (ordered : Bool) :
    List Val → Nat → Coll → List Val → List Val → Nat → (Coll × Out)
  | [], _, c, ids, errs, n => insertManyDone c ids errs n
  | d :: rest, idx, c, ids, errs, n =>
    match insertDoc now c d with
    | .ok (c', id) => insertManyLoop now ordered rest (idx + 1) c' (ids ++ [id]) errs (n + 1)
    | .error e =>
      -- a rejected insert still consumed a generated id, ran the expiry pass, and set the
      -- created flag when it had already stored the document
      let c1 := insertRejected now c d
      if e.isWriteError then
        let errs' := errs ++ [.doc [("index", .int idx), ("code", errCode e)]]
        if ordered then insertManyDone c1 ids errs' n
        else insertManyLoop now ordered rest (idx + 1) c1 ids errs' n
      else (c1, .err e)

def updateOut (r : UpdateResult) : Val :=
  -- UpdateResult: matched_count is 0 when something was upserted (`upserted_id is not None`, or
  -- `n and updatedExisting is False`: an upsert whose document has a null `_id`)
  .doc [("matched", .int (match r.upserted with
          | some _ => 0
          | none => r.n)),
        ("modified", .int r.nModified),
        ("upserted", r.upserted.getD .null)]

def keysOfVal (v : Val) : Option (List (String × Val)) :=
  match v with
  | .arr xs => xs.mapM (fun x => match x with
    | .arr [.str k, d] => some (k, d)
    | _ => none)
  | _ => none

def optOf (v : Option Val) : Option Val :=
  match v with
  | some .null => none
  | x => x

/-- one operation at the current time -/
def stepColl (cfg : Cfg) (now : Int) (c : Coll) (op : Val) : Coll × Out :=
  match op with
  | .arr [.str "insert_one", d] =>
    (match d with
     | .doc _ =>
       (match insertDoc now c d with
        | .ok (c', id) => (c', .val id)
        | .error e => (insertRejected now c d, .err e))
     | _ => (c, .err .typeErr))
  | .arr [.str "insert_many", .arr ds, ordered] =>
    if ds.isEmpty then (c, .err .typeErr)
    else if !ds.all Val.isDoc then (c, .err .typeErr)
    else insertManyLoop now (boolOf ordered) ds 0 c [] [] 0
  | .arr [.str "update_one", f, u, upsert] =>
    (match validateUpdate u with
     | .error e => (c, .err e)
     | .ok () =>
       let (c', r) := applyUpdateColl cfg now c f u (boolOf upsert) false
       (c', match r with | .ok x => .val (updateOut x) | .error e => .err e))
  | .arr [.str "update_many", f, u, upsert] =>
    (match validateUpdate u with
     | .error e => (c, .err e)
     | .ok () =>
       let (c', r) := applyUpdateColl cfg now c f u (boolOf upsert) true
       (c', match r with | .ok x => .val (updateOut x) | .error e => .err e))
  | .arr [.str "replace_one", f, u, upsert] =>
    (match validateReplace u with
     | .error e => (c, .err e)
     | .ok () =>
       let (c', r) := applyUpdateColl cfg now c f u (boolOf upsert) false
       (c', match r with | .ok x => .val (updateOut x) | .error e => .err e))
  | .arr [.str "delete_one", f] =>
    let (c', r) := deleteColl now c f false
    (c', match r with | .ok n => .val (.int n) | .error e => .err e)
  | .arr [.str "delete_many", f] =>
    let (c', r) := deleteColl now c f true
    (c', match r with | .ok n => .val (.int n) | .error e => .err e)
  | .arr [.str "find", f] =>
    let (c', r) := findColl now c f
    (c', match r with | .ok ds => .val (.arr ds) | .error e => .err e)
  | .arr [.str "count", f, .int skip, limit] =>
    let (c', r) := countColl now c f skip (optOf (some limit))
    (c', match r with | .ok n => .val (.int n) | .error e => .err e)
  | .arr [.str "distinct", .str key, f] =>
    let (c', r) := distinctColl now c key f
    (c', match r with | .ok vs => .val (.arr vs) | .error e => .err e)
  | .arr [.str "create_index", keys, .doc opts] =>
    (match keysOfVal keys with
     | none => (c, .err .unmodelled)
     | some ks =>
       let name := match optOf (dget "name" opts) with
         | some (.str n) => n
         | _ => genIndexName ks
       let ix : Index := {
         name := name, keys := ks,
         unique := ((dget "unique" opts).map boolOf).getD false,
         sparse := ((dget "sparse" opts).map boolOf).getD false,
         ttl := optOf (dget "expireAfterSeconds" opts),
         partialFilter := optOf (dget "partialFilterExpression" opts) }
       let (c', r) := createIndexColl now c ix
       (c', match r with | .ok n => .val (.str n) | .error e => .err e))
  | .arr [.str "drop_index", .str name] =>
    let (c', r) := dropIndexColl now c name
    (c', match r with | .ok () => .val .null | .error e => .err e)
  | .arr [.str "drop_indexes"] => (dropIndexesColl c, .val .null)
  | .arr [.str "drop"] => (dropColl c, .val .null)
  | _ => (c, .err .unmodelled)

def step (cfg : Cfg) (s : St) (op : Val) : St × Out :=
  match op with
  | .arr [.str "clock", .int us] => ({ s with now := us }, .val .null)
  | _ =>
    let (c', out) := stepColl cfg s.now s.c op
    ({ s with c := c' }, out)

/-- what the harness observes after every step, at the current clock: it issues `find({})`
    (which runs the expiry pass, persistently) and `index_information()` -/
def observe (s : St) : St × Val :=
  match expire s.now s.c with
  | .ok c' =>
    ({ s with c := c' },
     .doc [("docs", .arr (c'.docs.map (·.2))), ("indexes", .arr ((indexNames c').map .str))])
  | .error e =>
    (s, .doc [("docs", .str ("!" ++ e.name)), ("indexes", .arr ((indexNames s.c).map .str))])

/-- run a history, collecting `(output, observation)` after each step -/
def run (cfg : Cfg) (ops : List Val) (s : St := {}) : List (Out × Val) × St :=
  ops.foldl (fun (acc : List (Out × Val) × St) op =>
    let (s1, out) := step cfg acc.2 op
    let (s2, obs) := observe s1
    (acc.1 ++ [(out, obs)], s2)) ([], s)

end MongoModel
