/-
  MongoModel.Wire — the line protocol between the Python harness and the model driver.

  A line is a list of space-separated tokens.  Values are written in prefix form:
    N | T | F | I<int> | D<m>/<e> | S<hex utf8> | t<us> | t<us>@<offset minutes> | O<n>
    { S<key> <val> ... }     [ <val> ... ]      _   (NOTHING / missing)
  The harness writes the same format (harness/wire.py).  Not part of any proof: a parsing
  mistake shows up as a correspondence failure, never as a wrong theorem.
-/
import MongoModel.Value

namespace MongoModel.Wire
open MongoModel

def hexDigit (n : Nat) : Char :=
  if n < 10 then Char.ofNat ('0'.toNat + n) else Char.ofNat ('a'.toNat + (n - 10))

def hexVal (c : Char) : Nat :=
  if c.isDigit then c.toNat - '0'.toNat
  else if 'a' ≤ c ∧ c ≤ 'f' then c.toNat - 'a'.toNat + 10
  else if 'A' ≤ c ∧ c ≤ 'F' then c.toNat - 'A'.toNat + 10
  else 0

def encodeStr (s : String) : String :=
  s.toUTF8.foldl (fun acc b => (acc.push (hexDigit (b.toNat / 16))).push (hexDigit (b.toNat % 16))) ""

def decodeStr (h : String) : String :=
  let rec go : List Char → ByteArray → ByteArray
    | a :: b :: r, acc => go r (acc.push (UInt8.ofNat (hexVal a * 16 + hexVal b)))
    | _, acc => acc
  match String.fromUTF8? (go h.toList ByteArray.empty) with
  | some s => s
  | none => ""

/-- normalise a dyadic so that `m` is odd or `e = 0` (the form `float.as_integer_ratio` gives) -/
partial def normDyadic (m : Int) (e : Nat) : Int × Nat :=
  if e > 0 && m % 2 == 0 then normDyadic (m / 2) (e - 1) else (m, e)

mutual
  partial def showVal : Val → List String
    | .null => ["N"]
    | .bool true => ["T"]
    | .bool false => ["F"]
    | .int i => [s!"I{i}"]
    | .dbl m e => let (m', e') := normDyadic m e; [s!"D{m'}/{e'}"]
    | .str s => ["S" ++ encodeStr s]
    | .date us none => [s!"t{us}"]
    | .date us (some o) => [s!"t{us}@{o}"]
    | .oid n => [s!"O{n}"]
    | .doc fs => ["{"] ++ showFields fs ++ ["}"]
    | .arr xs => ["["] ++ showList xs ++ ["]"]
  partial def showFields : Fields → List String
    | [] => []
    | (k, v) :: r => ("S" ++ encodeStr k) :: showVal v ++ showFields r
  partial def showList : List Val → List String
    | [] => []
    | x :: r => showVal x ++ showList r
end

def showOpt : Option Val → List String
  | none => ["_"]
  | some v => showVal v

def showVals (vs : List Val) : List String := showVal (.arr vs)

def join (ts : List String) : String := " ".intercalate ts

def parseInt? (s : String) : Option Int := s.toInt?

mutual
  /-- parse one value from the token stream -/
  partial def parseVal : List String → Option (Val × List String)
    | [] => none
    | t :: r =>
      if t == "N" then some (.null, r)
      else if t == "T" then some (.bool true, r)
      else if t == "F" then some (.bool false, r)
      else if t == "{" then parseFields r []
      else if t == "[" then parseList r []
      else
        let body := (t.drop 1).toString
        match t.front with
        | 'I' => (parseInt? body).map (fun i => (.int i, r))
        | 'D' =>
          match body.splitOn "/" with
          | [m, e] => do
            let m ← parseInt? m
            let e ← e.toNat?
            some (.dbl m e, r)
          | _ => none
        | 'S' => some (.str (decodeStr body), r)
        | 't' =>
          match body.splitOn "@" with
          | [u] => (parseInt? u).map (fun u => (.date u none, r))
          | [u, o] => do
            let u ← parseInt? u
            let o ← parseInt? o
            some (.date u (some o), r)
          | _ => none
        | 'O' => body.toNat?.map (fun n => (.oid n, r))
        | _ => none
  partial def parseFields : List String → Fields → Option (Val × List String)
    | [], _ => none
    | t :: r, acc =>
      if t == "}" then some (.doc acc.reverse, r)
      else if t.front == 'S' then
        match parseVal r with
        | some (v, r') => parseFields r' ((decodeStr (t.drop 1).toString, v) :: acc)
        | none => none
      else none
  partial def parseList : List String → List Val → Option (Val × List String)
    | [], _ => none
    | t :: r, acc =>
      if t == "]" then some (.arr acc.reverse, r)
      else
        match parseVal (t :: r) with
        | some (v, r') => parseList r' (v :: acc)
        | none => none
end

def parseOpt : List String → Option (Option Val × List String)
  | "_" :: r => some (none, r)
  | ts => (parseVal ts).map (fun (v, r) => (some v, r))

def tokens (line : String) : List String :=
  (line.trimAscii.toString.splitOn " ").filter (· ≠ "")

def showErr (e : Err) : List String := ["!" ++ e.name]

def showR {α} (f : α → List String) : R α → List String
  | .ok a => f a
  | .error e => showErr e

def showBool (b : Bool) : List String := [if b then "T" else "F"]

end MongoModel.Wire
