/-
  MongoModel.Bson — `bson_compare`, `iter_key_candidates`, `get_value_by_dot`
  (mongomock/filtering.py:207-388, mongomock/helpers.py:356-381), followed line by line.
-/
import MongoModel.Value

namespace MongoModel

/-- the model does not express this behaviour (outside the fidelity zone F) -/
def unmodelled {α} : R α := .error .unmodelled

/-! ### bson_compare as a three-way comparison

`bson_compare(op, a, b)` for `op ∈ {lt, le, gt, ge}` is `op` applied to the three-way result
below: sequences are compared at the first pair of items that are not Python-`==`, then by
length; a differing pair never compares equal (see `Proofs/BsonLemmas`), so applying `op` to
the three-way result is exactly what the code computes. -/

def natCmp (a b : Nat) : Ordering := compare a b
def strCmp (a b : String) : Ordering := compare a b

/-- ObjectId numbers below `oidFresh` are ids the case supplies: their value is the number
    (harness/wire.py `Oids.make`), so they are ordered like their numbers.  From `oidFresh` on
    they are ids the library generated (`Store.nextOid`; `uuid.uuid1()` in mongomock/object_id.py),
    whose value — hence order — the model does not know. -/
def oidFresh : Nat := 1000

/-- `ObjectId.__lt__` & co. (mongomock/object_id.py): the order of the underlying values -/
def oidCmp (a b : Nat) : R Ordering :=
  if a < oidFresh && b < oidFresh then .ok (compare a b)
  else if a = b then .ok .eq
  else unmodelled

/-- Python's native `<`-family on two values of one comparison class (the final `op(a, b)`) -/
def leafCmp : Val → Val → R Ordering
  | .null, .null => .ok .eq
  | .bool a, .bool b => .ok (compare a.toNat b.toNat)
  | .str a, .str b => .ok (strCmp a b)
  | .date u none, .date u' none => .ok (compare u u')
  | .date u (some o), .date u' (some o') => .ok (compare (dateUtc u (some o)) (dateUtc u' (some o')))
  | .date _ _, .date _ _ => .error .typeErr           -- naive against aware
  | .oid a, .oid b => oidCmp a b
  | a, b =>
    match a.num?, b.num? with
    | some x, some y => .ok (if Num.lt x y then .lt else if Num.eq x y then .eq else .gt)
    | _, _ => .error .typeErr

mutual
  /-- `bson_compare` with `can_compare_types=True` -/
  def bsonCmp : Val → Val → R Ordering
    | .doc fs, .doc gs => bsonCmpFields fs gs
    | .arr xs, .arr ys => bsonCmpList xs ys
    | a, b => if a.tc = b.tc then leafCmp a b else .ok (natCmp a.tc b.tc)
  /-- documents: lists of `(type, key, value)` triples, first differing triple decides -/
  def bsonCmpFields : Fields → Fields → R Ordering
    | [], [] => .ok .eq
    | [], _ :: _ => .ok .lt
    | _ :: _, [] => .ok .gt
    | (k, v) :: r, (k', v') :: r' =>
      if v.tc ≠ v'.tc then .ok (natCmp v.tc v'.tc)
      else if k ≠ k' then .ok (strCmp k k')
      else if !(pyEq v v') then bsonCmp v v'
      else bsonCmpFields r r'
  def bsonCmpList : List Val → List Val → R Ordering
    | [], [] => .ok .eq
    | [], _ :: _ => .ok .lt
    | _ :: _, [] => .ok .gt
    | x :: xs, y :: ys => if !(pyEq x y) then bsonCmp x y else bsonCmpList xs ys
end

inductive CmpOp where
  | gt | gte | lt | lte
  deriving Repr, DecidableEq

def CmpOp.holds : CmpOp → Ordering → Bool
  | .gt, o => o == .gt
  | .gte, o => o != .lt
  | .lt, o => o == .lt
  | .lte, o => o != .gt

/-- `bson_compare(op, a, b, can_compare_types)` -/
def bsonCompare (op : CmpOp) (a b : Val) (canCompareTypes : Bool) : R Bool :=
  if a.tc ≠ b.tc then .ok (canCompareTypes && op.holds (natCmp a.tc b.tc))
  else (bsonCmp a b).map op.holds

/-! ### iter_key_candidates -/

/-- list index by a Python int that is known to be non-negative -/
def listGet? (xs : List Val) (i : Int) : Option Val :=
  if i < 0 then none else xs[i.toNat]?

/-- `iter_key_candidates(key, doc)` for `key = '.'.join(parts)`; `none` is NOTHING.
    Negative numeric components (Python negative indexing) are outside F. -/
def cands : List String → Val → R (List (Option Val))
  | [], d => .ok [some d]
  | p :: ps, d =>
    match d with
    | .arr xs =>
      match pyInt? p with
      | none =>
        xs.foldlM (fun acc x =>
          match x with
          | .doc fs =>
            match dget p fs with
            | some v => (cands ps v).map (acc ++ ·)
            | none => .ok (acc ++ [none])
          | _ => .ok acc) []
      | some i =>
        if i < 0 then unmodelled
        else match xs[i.toNat]? with
          | none => .ok []
          | some sub => cands ps sub
    | .doc fs =>
      match ps with
      | [] => .ok [dget p fs]
      | _ :: _ => cands ps ((dget p fs).getD (.doc []))
    | _ => .ok [none]         -- no field inside null or a scalar: the key is missing here

/-- a key the model follows: non-empty components only -/
def keyOk (key : String) : Bool := (splitDots key).all (· ≠ "")

/-- `iter_key_candidates(key, doc)`: every dot-separated component of the key, the empty one
    included, is a field name (`''` is the field named `''`, `'a.'` the field `''` inside `a`). -/
def candsKey (key : String) (d : Val) : R (List (Option Val)) :=
  cands (splitDots key) d

/-! ### helpers.get_value_by_dot (without `can_generate_array`) -/

def getByDotParts : List String → Val → R Val
  | [], d => .ok d
  | p :: ps, d =>
    match d with
    | .doc fs =>
      match dget p fs with
      | some v => getByDotParts ps v
      | none => .error .keyErr
    | .arr xs =>
      match pyInt? p with
      | none => .error .keyErr
      | some i =>
        if i < 0 then unmodelled       -- Python negative indexing
        else match xs[i.toNat]? with
          | some v => getByDotParts ps v
          | none => .error .keyErr
    | _ => .error .keyErr

def getByDot (d : Val) (key : String) : R Val := getByDotParts (splitDots key) d

end MongoModel
