/-
  MongoModel.FindModify — `find_one` with sort / projection, `_find_and_modify`
  (collection.py `find_one_and_update / _replace / _delete`) and `BulkOperationBuilder`
  (`bulk_write`, collection.py:274-382, 1834-1847), on top of the collection state machine of
  Store/Ops, the sort model (Sort.lean) and the projection model (Project.lean).

  `stepX` extends `MongoModel.stepColl` with the operations
    ["find_one", filter, projection|null, sort|null]
    ["find_one_and_update",  filter, update,      projection|null, sort|null, upsert, after]
    ["find_one_and_replace", filter, replacement, projection|null, sort|null, upsert, after]
    ["find_one_and_delete",  filter,              projection|null, sort|null]
    ["bulk_builder", [request, …], ordered, times]   (builder API, `execute()` called `times` times)
    ["bulk_write", [request, …], ordered]   with requests
        ["InsertOne", doc] ["UpdateOne", f, u, upsert] ["UpdateMany", f, u, upsert]
        ["ReplaceOne", f, r, upsert] ["DeleteOne", f] ["DeleteMany", f]
-/
import MongoModel.Ops
import MongoModel.Sort
import MongoModel.Project

namespace MongoModel

/-- a sort specification `[[key, direction], …]` from the wire -/
def sortSpecOf (v : Val) : R (Option SortSpec) :=
  match v with
  | .null => .ok none
  | .arr [] => .ok none
  | .arr xs =>
    match xs.mapM (fun (x : Val) => match x with
      | Val.arr [Val.str k, Val.int d] => some (k, d)
      | _ => none) with
    | some l => .ok (some l)
    | none => unmodelled
  | _ => unmodelled

/-- `find_one(filter, projection, sort=…)`: the cursor computes the WHOLE projected result list
    (`_compute_results`) and hands out its first element -/
def findOneColl (now : Int) (c : Coll) (filter proj : Val) (sort : Option SortSpec) :
    Coll × R (Option Val) :=
  let filter := match filter with
    | .doc _ => filter
    | v => .doc [("_id", v)]              -- `find_one(x)` for a non-mapping x
  match iterDocuments now c (patchDT filter) with
  | .error e => (c, .error e)
  | .ok (c1, ms) =>
    (c1, do
      let sorted ← getDataset sort ms
      let outs ← sorted.mapM (fun d => copyOnlyFields d proj)
      pure outs.head?)

/-- `_find_and_modify` (after the fix: the target is chosen on the full document) -/
def findAndModify (cfg : Cfg) (now : Int) (c : Coll) (query proj : Val) (update : Option Val)
    (upsert : Bool) (sort : Option SortSpec) (after : Bool) : Coll × R (Option Val) :=
  -- `if not remove and update is None: raise ValueError` never fires here: an update document,
  -- the empty replacement included, is an update; `if update: _validate_update_operators(update)`
  -- skips the empty one
  match update with
  | some u =>
    if !u.truthy then go
    else
      -- `if update: _validate_update_operators(update)`: before the target is looked for
      match (match u with | .doc ufs => validateUpdateOperators ufs | _ => .ok ()) with
      | .error e => (c, .error e)
      | .ok () => go
  | none => go
where
  /-- `self._copy_only_fields({}, projection, dict)`: a projection that is refused whatever the
      document is refused BEFORE the write (what depends on the document - a `$slice` of a field
      that is no array, a positional path - is still met only by the read-back) -/
  projOk : R Unit := (copyOnlyFields (.doc []) proj).map (fun _ => ())
  go : Coll × R (Option Val) :=
    match findOneColl now c query .null sort with
    | (c1, .error e) => (c1, .error e)
    | (c1, .ok none) =>
      if !upsert then (c1, .ok none)
      else
        match update with
        | none => (c1, .ok none)
        | some u =>
          match projOk with
          | .error e => (c1, .error e)
          | .ok () =>
          let (c2, r) := applyUpdateColl cfg now c1 query u true false
          (match r with
           | .error e => (c2, .error e)
           | .ok res =>
             if after then
               -- `if updated['n'] and not updated['updatedExisting']: query = {'_id': upserted}`
               -- (`upserted` is `some _` exactly when the call inserted, a null `_id` included)
               let q := match res.upserted with
                 | some id => Val.doc [("_id", id)]
                 | none => query
               findOneColl now c2 q proj none
             else (c2, .ok none))
    | (c1, .ok (some target)) =>
      let idv := match target with | .doc fs => (dget "_id" fs).getD .null | _ => .null
      let q := Val.doc [("_id", idv)]
      match findOneColl now c1 q proj none with
      | (c2, .error e) => (c2, .error e)
      | (c2, .ok old) =>
        match update with
        | none =>
          let (c3, r) := deleteColl now c2 q false
          (match r with
           | .error e => (c3, .error e)
           | .ok _ => (c3, .ok old))
        | some u =>
          match projOk with
          | .error e => (c2, .error e)
          | .ok () =>
          let (c3, r) := applyUpdateColl cfg now c2 q u upsert false
          (match r with
           | .error e => (c3, .error e)
           | .ok res =>
             if after then
               let q' := match res.upserted with
                 | some id => Val.doc [("_id", id)]
                 | none => q
               findOneColl now c3 q' proj none
             else (c3, .ok old))

/-! ### bulk_write -/

structure BulkTotals where
  nModified : Int := 0
  nUpserted : Int := 0
  nMatched : Int := 0
  nRemoved : Int := 0
  nInserted : Int := 0
  upserted : List Val := []
  errors : List Val := []

def BulkTotals.toVal (t : BulkTotals) : Val :=
  .doc [("nInserted", .int t.nInserted), ("nMatched", .int t.nMatched),
        ("nModified", .int t.nModified), ("nRemoved", .int t.nRemoved),
        ("nUpserted", .int t.nUpserted), ("upserted", .arr t.upserted),
        ("writeErrors", .arr t.errors)]

inductive BulkOut where
  | ok (t : BulkTotals → BulkTotals)
  | writeErr (e : Err)
  | abort (e : Err)

/-- one executor of `BulkOperationBuilder.execute`; `none` = the builder refused the request when
    it was added (`validate_ok_for_update` in `register_update_op`) — raised before anything runs -/
def bulkOne (cfg : Cfg) (now : Int) (c : Coll) (idx : Nat) (req : Val) : Coll × BulkOut :=
  let upd (f u : Val) (upsert multi : Bool) : Coll × BulkOut :=
    let (c', r) := applyUpdateColl cfg now c f u upsert multi
    match r with
    | .error e => (c', if e.isWriteError then .writeErr e else .abort e)
    | .ok res =>
      (c', .ok (fun t =>
        -- `if result.get('upserted') is not None or (n and updatedExisting is False)`: an
        -- upserted `_id` can be null
        let t := match res.upserted with
          | some id =>
            { t with upserted := t.upserted ++ [Val.doc [("index", Val.int idx), ("_id", id)]],
                     nUpserted := t.nUpserted + res.n }
          | none => { t with nMatched := t.nMatched + res.n }
        { t with nModified := t.nModified + res.nModified }))
  match req with
  | .arr [.str "InsertOne", d] =>
    (match stepColl cfg now c (.arr [.str "insert_one", d]) with
     | (c', .val _) => (c', .ok (fun t => { t with nInserted := t.nInserted + 1 }))
     | (c', .err e) => (c', if e.isWriteError then .writeErr e else .abort e)
     | (c', .bulkErr _) => (c', .abort .bulk))
  | .arr [.str "UpdateOne", f, u, up] => upd f u (boolOf up) false
  | .arr [.str "UpdateMany", f, u, up] => upd f u (boolOf up) true
  | .arr [.str "ReplaceOne", f, u, up] => upd f u (boolOf up) false
  | .arr [.str "DeleteOne", f] =>
    (match deleteBulk now c f false with
     | (c', .ok n) => (c', .ok (fun t => { t with nRemoved := t.nRemoved + n }))
     | (c', .error e) => (c', if e.isWriteError then .writeErr e else .abort e))
  | .arr [.str "DeleteMany", f] =>
    (match deleteBulk now c f true with
     | (c', .ok n) => (c', .ok (fun t => { t with nRemoved := t.nRemoved + n }))
     | (c', .error e) => (c', if e.isWriteError then .writeErr e else .abort e))
  | _ => (c, .abort .unmodelled)
where
  /-- `delete_one` / `delete_many` as the bulk executor calls them (`validate_is_mapping`) -/
  deleteBulk (now : Int) (c : Coll) (f : Val) (multi : Bool) : Coll × R Int :=
    match f with
    | .doc _ => let (c', r) := deleteColl now c f multi; (c', r.map (fun n => (n : Int)))
    | _ => (c, .error .typeErr)

/-- checks done while the requests are ADDED to the builder (before `execute`) -/
def bulkPrecheck (reqs : List Val) : R Unit :=
  reqs.forM (fun r =>
    match r with
    | .arr [.str "UpdateOne", _, u, _] => validateUpdate u
    | .arr [.str "UpdateMany", _, u, _] => validateUpdate u
    | _ => .ok ())

/-- `execute`: the executors in order; WriteErrors are collected (ordered: stop at the first),
    any other exception aborts -/
def bulkLoop (cfg : Cfg) (now : Int) (ordered : Bool) :
    List Val → Nat → Coll → BulkTotals → Coll × Out
  | [], _, c, t =>
    if t.errors.isEmpty then (c, .val t.toVal) else (c, .bulkErr t.toVal)
  | r :: rest, idx, c, t =>
    match bulkOne cfg now c idx r with
    | (c', .ok f) => bulkLoop cfg now ordered rest (idx + 1) c' (f t)
    | (c', .writeErr e) =>
      let t' := { t with errors := t.errors ++ [.doc [("index", .int idx), ("code", errCode e)]] }
      if ordered then (c', .bulkErr t'.toVal)
      else bulkLoop cfg now ordered rest (idx + 1) c' t'
    | (c', .abort e) => (c', .err e)

def bulkWrite (cfg : Cfg) (now : Int) (c : Coll) (reqs : List Val) (ordered : Bool) : Coll × Out :=
  match bulkPrecheck reqs with
  | .error e => (c, .err e)
  | .ok () =>
    if reqs.isEmpty then (c, .err .invalidOp)
    else bulkLoop cfg now ordered reqs 0 c {}

/-! ### the bulk builders (`initialize_ordered_bulk_op` / `initialize_unordered_bulk_op`)

`BulkOperationBuilder` is an object with state: the registered executors and the flag `done`,
which `execute` sets BEFORE it runs the first executor (collection.py:316-320) — a bulk that
failed half-way cannot be executed again either. -/

structure Builder where
  reqs : List Val
  ordered : Bool
  done : Bool := false

/-- `BulkOperationBuilder.execute` -/
def Builder.execute (cfg : Cfg) (now : Int) (c : Coll) (b : Builder) : Coll × Builder × Out :=
  if b.reqs.isEmpty then (c, b, .err .invalidOp)
  else if b.done then (c, b, .err .invalidOp)
  else
    let r := bulkLoop cfg now b.ordered b.reqs 0 c {}
    (r.1, { b with done := true }, r.2)

/-- an outcome as a value (for operations that report several outcomes) -/
def outVal : Out → Val
  | .val v => .doc [("k", .str "val"), ("v", v)]
  | .err e => .doc [("k", .str "err"), ("v", .str e.name)]
  | .bulkErr d => .doc [("k", .str "bulkErr"), ("v", d)]

/-- `execute()` called `n` times in a row on the same builder -/
def executeTimes (cfg : Cfg) (now : Int) : Nat → Coll → Builder → Coll × List Out
  | 0, c, _ => (c, [])
  | n + 1, c, b =>
    let r := b.execute cfg now c
    let rest := executeTimes cfg now n r.1 r.2.1
    (rest.1, r.2.2 :: rest.2)

/-- build a bulk through the builder API (each request validated as it is registered), then call
    `execute()` `times` times -/
def bulkBuilder (cfg : Cfg) (now : Int) (c : Coll) (reqs : List Val) (ordered : Bool)
    (times : Nat) : Coll × Out :=
  match bulkPrecheck reqs with
  | .error e => (c, .err e)
  | .ok () =>
    let r := executeTimes cfg now times c { reqs := reqs, ordered := ordered }
    -- a run the model does not express makes the whole step unmodelled
    if r.2.any (fun o => match o with | .err .unmodelled => true | _ => false) then
      (r.1, .err .unmodelled)
    else (r.1, .val (.arr (r.2.map outVal)))

/-! ### the extended step -/

def optVal (v : Option Val) : Val := v.getD .null

def stepX (cfg : Cfg) (now : Int) (c : Coll) (op : Val) : Coll × Out :=
  let fam (query proj : Val) (update : Option Val) (sortV : Val) (upsert after : Bool) : Coll × Out :=
    match query with
    | .doc _ =>
      (match sortSpecOf sortV with
       | .error e => (c, .err e)
       | .ok sort =>
         let (c', r) := findAndModify cfg now c query proj update upsert sort after
         (c', match r with | .ok v => .val (optVal v) | .error e => .err e))
    | _ => (c, .err .typeErr)
  match op with
  | .arr [.str "find_one", f, proj, sortV] =>
    (match sortSpecOf sortV with
     | .error e => (c, .err e)
     | .ok sort =>
       let (c', r) := findOneColl now c f proj sort
       (c', match r with | .ok v => .val (optVal v) | .error e => .err e))
  | .arr [.str "find_one_and_update", f, u, proj, sortV, up, after] =>
    (match validateUpdate u with
     | .error e => (c, .err e)
     | .ok () => fam f proj (some u) sortV (boolOf up) (boolOf after))
  | .arr [.str "find_one_and_replace", f, u, proj, sortV, up, after] =>
    (match validateReplace u with
     | .error e => (c, .err e)
     | .ok () => fam f proj (some u) sortV (boolOf up) (boolOf after))
  | .arr [.str "find_one_and_delete", f, proj, sortV] => fam f proj none sortV false false
  | .arr [.str "bulk_write", .arr reqs, ordered] => bulkWrite cfg now c reqs (boolOf ordered)
  | .arr [.str "bulk_builder", .arr reqs, ordered, .int times] =>
    bulkBuilder cfg now c reqs (boolOf ordered) times.toNat
  | _ => stepColl cfg now c op

def stepXS (cfg : Cfg) (s : St) (op : Val) : St × Out :=
  match op with
  | .arr [.str "clock", .int us] => ({ s with now := us }, .val .null)
  | _ =>
    let (c', out) := stepX cfg s.now s.c op
    ({ s with c := c' }, out)

end MongoModel
