/-
  C19 — explorer (ordinary executable code, NOT trusted): breadth-first search of the states
  reachable under `RWLock.step`, used (1) to produce the closed sets that the kernel then checks
  (`Generated/RWLockCert_N.lean`), (2) to find a shortest schedule into a bad / deadlocked state,
  (3) to replay a given schedule on the model (harness correspondence).
-/
import MongoModel.RWLockProto
import Std.Data.HashMap
namespace MongoModel.RWLock

def faultName : Fault → String
  | .expiryKeyError => "expiryKeyError" | .ttlChangedSize => "ttlChangedSize"
  | .docsMutated => "docsMutated" | .lockError => "lockError"

def faultOfName : String → Option Fault
  | "expiryKeyError" => some .expiryKeyError | "ttlChangedSize" => some .ttlChangedSize
  | "docsMutated" => some .docsMutated | "lockError" => some .lockError
  | _ => none

/-- why a state is bad (first applicable reason), `none` if it is fine -/
def badKind (allowed : List Fault) (cfg : Cfg) (s : State) : Option String :=
  if exclusionViolated cfg s then some "exclusion"
  else if faulted allowed s then
    let fs := s.ths.filterMap (·.fault) |>.filter (!allowed.contains ·)
    some ("fault:" ++ (fs.head?.map faultName).getD "?")
  else if leaked cfg s then some "leaked"
  else if deadlocked cfg s then some "deadlock"
  else none

structure Explored where
  size : Nat := 0                            -- number of states visited
  bad : Option (String × List Nat) := none   -- kind and a shortest schedule (thread ids)
  truncated : Bool := false

/-- BFS; stops at the first bad state (shortest schedule) or after `limit` states -/
partial def exploreWith (next : State → Nat → Option State) (s0 : State) (allowed : List Fault)
    (cfg : Cfg) (limit : Nat) : Explored := Id.run do
  let mut seen : Std.HashMap State Unit := {}
  let mut queue : Array State := #[s0]
  let mut parents : Array (Nat × Nat) := #[(0, 0)]
  seen := seen.insert s0 ()
  let mut i := 0
  let sched (parents : Array (Nat × Nat)) (j : Nat) : List Nat := Id.run do
    let mut j := j
    let mut acc : List Nat := []
    while j != 0 do
      let (p, t) := parents[j]!
      acc := t :: acc
      j := p
    return acc
  while i < queue.size do
    let s := queue[i]!
    match badKind allowed cfg s with
    | some k => return { size := queue.size, bad := some (k, sched parents i) }
    | none => pure ()
    for t in tids s do
      match next s t with
      | none => pure ()
      | some s' =>
        if !seen.contains s' then
          seen := seen.insert s' ()
          queue := queue.push s'
          parents := parents.push (i, t)
    if queue.size > limit then
      return { size := queue.size, truncated := true }
    i := i + 1
  return { size := queue.size }

def explore (allowed : List Fault) (cfg : Cfg) (limit : Nat) : Explored :=
  exploreWith (step cfg) (initState cfg) allowed cfg limit

/-! ### replaying a schedule at the granularity of the real scheduler

  `harness/sched.py` switches threads only immediately before a lock operation that is really
  performed and at every document handed out by the `documents` generator.  One schedule entry
  `t` therefore means: perform the pending switch-point action of `t` and continue `t` up to (not
  including) its next switch point.  An entry naming a finished or blocked thread is skipped. -/

def isSwitchPoint (cfg : Cfg) (s : State) (t : Nat) : Bool :=
  match s.ths[t]? with
  | none => true
  | some th => match (cfg.code t)[th.pc]? with
    | none => true
    | some i => match i.op with
      | .acq _ | .rel _ | .yield _ => true
      | .acqIf c k _ | .relIf c k _ => s.sh.lk.ctr c == k
      | _ => false

def excName : Exc → String
  | .keyError => "KeyError" | .thrown => "Thrown" | .runtimeError => "RuntimeError"

/-- index of the top-level call the instruction at `pc` belongs to -/
def callIndex (code : Code) (pc : Nat) : Nat :=
  ((code.take (pc + 1)).filter (·.start)).length - 1

def inLockOps (cfg : Cfg) (s : State) (t : Nat) : Bool :=
  match s.ths[t]? with
  | none => false
  | some th =>
    let code := cfg.code t
    let isLock (i : TInstr) : Bool := match i.op with
      | .acq _ | .rel _ | .acqIf .. | .relIf .. => true
      | _ => false
    (code.take th.pc).any isLock && (code.drop th.pc).any isLock

structure Trace where
  s : State
  events : Array (Nat × Nat × Exc) := #[]   -- thread, call index, exception raised
  overlap : Bool := false     -- two threads were at once between first and last lock operation
  micro : Array Nat := #[]    -- the thread of every primitive step taken
  excl : Bool := false        -- some state on the way violated exclusion
  removed : Array (Nat × Nat) := #[]   -- thread, call index of every `d.pop(key, None)` on
                              -- `_documents` with the key of the call that did remove a document
                              -- (`discard` answers True)
  deriving Inhabited

def Trace.step1 (cfg : Cfg) (tr : Trace) (t : Nat) : Option Trace :=
  match step cfg tr.s t with
  | none => none
  | some s' =>
    let ev := match stepRaised cfg tr.s t, tr.s.ths[t]? with
      | some e, some th => tr.events.push (t, callIndex (cfg.code t) th.pc, e)
      | _, _ => tr.events
    let both := ((tids s').filter (inLockOps cfg s')).length ≥ 2
    let rm := match tr.s.ths[t]? with
      | some th => match (cfg.code t)[th.pc]? with
        | some i => match i.op with
          | .popItem .docs (.lit n) =>
            if tr.s.sh.docs.contains n then tr.removed.push (t, callIndex (cfg.code t) th.pc)
            else tr.removed
          | _ => tr.removed
        | none => tr.removed
      | none => tr.removed
    some { s := s', events := ev, overlap := tr.overlap || both, micro := tr.micro.push t,
           excl := tr.excl || exclusionViolated cfg s', removed := rm }

/-- run `t` to its next switch point (bounded by `fuel` primitive steps) -/
def runToSwitch (cfg : Cfg) : Nat → Trace → Nat → Trace
  | 0, tr, _ => tr
  | fuel + 1, tr, t =>
    if isSwitchPoint cfg tr.s t then tr else
      match tr.step1 cfg t with
      | some tr' => runToSwitch cfg fuel tr' t
      | none => tr

def macroStep (cfg : Cfg) (tr : Trace) (t : Nat) : Option Trace :=
  match tr.step1 cfg t with
  | some tr' => some (runToSwitch cfg 1000 tr' t)
  | none => none

def startAll (cfg : Cfg) : Trace :=
  let s0 := initState cfg
  (tids s0).foldl (fun tr t => runToSwitch cfg 1000 tr t) { s := s0 }

/-- after the schedule is used up: lowest-numbered enabled thread first, until none can move -/
def drain (cfg : Cfg) : Nat → Trace → Trace
  | 0, tr => tr
  | fuel + 1, tr =>
    match (tids tr.s).find? (enabled cfg tr.s) with
    | some t => match macroStep cfg tr t with
      | some tr' => drain cfg fuel tr'
      | none => tr
    | none => tr

def replaySchedule (cfg : Cfg) (sched : List Nat) : Trace :=
  drain cfg 100000 (sched.foldl (fun tr t => (macroStep cfg tr t).getD tr) (startAll cfg))

/-- BFS at the granularity of the real scheduler (for witness schedules that `sched.py` can run) -/
def exploreMacro (allowed : List Fault) (cfg : Cfg) (limit : Nat) : Explored :=
  exploreWith (fun s t => (macroStep cfg { s := s } t).map (·.s)) (startAll cfg).s allowed cfg limit

/-! ### the protocol machine -/

def labName : Lab → String
  | .op => "op" | .begin w => if w then "beginW" else "beginR"
  | .leave r => if r then "leaveRaise" else "leave"

def pbadKind (P : Protocol) (s : PState) : Option String :=
  if pexclusionViolated s then some "exclusion"
  else if prelError P s then some "lockError"
  else if pleaked s then some "leaked"
  else if pdeadlocked P s then some "deadlock"
  else none

structure PExplored where
  codes : Array (List Nat) := #[]
  bad : Option (String × List (Nat × Lab)) := none
  encodable : Bool := true
  truncated : Bool := false

partial def pexplore (P : Protocol) (n : Nat) (limit : Nat) : PExplored := Id.run do
  let s0 := pinit n
  let mut seen : Std.HashMap (List Nat) Unit := {}
  let mut queue : Array PState := #[s0]
  let mut codes : Array (List Nat) := #[pencodeL s0]
  let mut parents : Array (Nat × Nat × Lab) := #[(0, 0, .op)]
  seen := seen.insert (pencodeL s0) ()
  let mut ok := pdecodeK n (packL (pencodeL s0)) == s0
  let mut i := 0
  let sched (parents : Array (Nat × Nat × Lab)) (j : Nat) : List (Nat × Lab) := Id.run do
    let mut j := j
    let mut acc : List (Nat × Lab) := []
    while j != 0 do
      let (p, t, l) := parents[j]!
      acc := (t, l) :: acc
      j := p
    return acc
  while i < queue.size do
    let s := queue[i]!
    match pbadKind P s with
    | some k => return { codes := codes, bad := some (k, sched parents i), encodable := ok }
    | none => pure ()
    for t in ptids s do
      for lab in labsAt (s.pos.getD t .out) do
        match pstep P s t lab with
        | none => pure ()
        | some s' =>
          let c := pencodeL s'
          if !seen.contains c then
            seen := seen.insert c ()
            if pdecodeK n (packL c) != s' || !allSmall c then ok := false
            queue := queue.push s'
            codes := codes.push c
            parents := parents.push (i, t, lab)
    if queue.size > limit then
      return { codes := codes, encodable := ok, truncated := true }
    i := i + 1
  return { codes := codes, encodable := ok }

end MongoModel.RWLock
