/-
  MongoModel.Expr — faithful model of `mongomock/aggregate.py` `_Parser` (lines 222-1054):
  aggregation expressions evaluated against a document, and the two contexts that decide what
  "missing" means: computed fields of `$project` / `$addFields` (aggregate.py:1526-1531,
  1558-1569) and `$expr` in the query matcher (filtering.py:92-96).

  `none : Option Val` is the Python `KeyError` ("missing"): *any* KeyError, whether it comes from
  `get_value_by_dot` or from `$arrayElemAt` past the end — the code cannot tell them apart either.

  Structural recursion over the expression `Val`.  A handler that parses its whole argument
  (`$abs: e`, `$not: e`, `$year: e`, …) is run by the item loop `evalDoc` (so that the call is on a
  sub-term); handlers that take their argument apart are `evalOp` with one equation per shape.
-/
import MongoModel.ExprOps

namespace MongoModel.Expr
open MongoModel

/-- a `_Parser` instance: `ignore_missing_keys`, `_doc_dict`, and
    `dict({'ROOT': doc, 'CURRENT': doc}, **user_vars)` -/
structure Ctx where
  ign : Bool
  root : Val
  env : Fields
  /-- the variables that `$let` bound to a missing value (`NOTHING` in `_user_vars`) -/
  miss : List String
  deriving Inhabited

def Ctx.init (ign : Bool) (d : Val) : Ctx := ⟨ign, d, [("ROOT", d), ("CURRENT", d)], []⟩

/-- `dict(self._user_vars, **{name: v})` -/
def Ctx.bind (c : Ctx) (name : String) (v : Val) : Ctx :=
  { c with env := dset name v c.env, miss := c.miss.filter (fun n => n != name) }

/-- the same with a value that may be missing (`_parse_or_nothing` of a `$let` variable) -/
def Ctx.bindOpt (c : Ctx) (name : String) : Option Val → Ctx
  | some v => c.bind name v
  | none => { c with miss := name :: c.miss }

def Ctx.bindAll (c : Ctx) : List (String × Option Val) → Ctx
  | [] => c
  | (k, v) :: r => (c.bindOpt k v).bindAll r

/-- the system variables that `_Parser` does not bind (aggregate.py `_SYSTEM_VARIABLES`): using
    one of them is a KeyError ("missing"), `$$REMOVE` included -/
def systemVars : List String :=
  ["NOW", "CLUSTER_TIME", "REMOVE", "DESCEND", "PRUNE", "KEEP", "SEARCH_META", "USER_ROLES"]

/-- `'$$name.path'`: a name that is neither bound nor a system variable is an OperationFailure
    ("Use of undefined variable"); a variable that `$let` bound to a missing value is missing
    where it is used, with or without a path -/
def evalVar (c : Ctx) (parts : List String) : R (Option Val) :=
  if c.miss.contains (parts.headD "") then .ok none
  else if !(dhas (parts.headD "") c.env) && !(systemVars.contains (parts.headD "")) then
    .error .opFail
  else getDotGen parts (.doc c.env)

/-- `_validate_variable_name`: `CURRENT`, or a lower-case ASCII letter (or a character outside
    ASCII) followed by ASCII letters, digits, underscores (or characters outside ASCII) -/
def isVarStart (ch : Char) : Bool := ('a' ≤ ch && ch ≤ 'z') || ch.toNat ≥ 128
def isVarChar (ch : Char) : Bool :=
  ('a' ≤ ch && ch ≤ 'z') || ('A' ≤ ch && ch ≤ 'Z') || ('0' ≤ ch && ch ≤ '9') || ch == '_' ||
    ch.toNat ≥ 128
def validVarName (s : String) : Bool :=
  s = "CURRENT" ||
  (match s.toList with
   | [] => false
   | ch :: r => isVarStart ch && r.all isVarChar)

/-- the operators that take exactly one argument (`_UNARY_OPERATORS`): it may be given as a
    one-item argument list -/
def unaryListOps : List String :=
  unaryArithOps ++ datePartOps ++ ["$arrayToObject", "$isArray", "$isNumber", "$not",
    "$objectToArray", "$toDecimal", "$toInt", "$toLong", "$toLower", "$toString", "$toUpper"]

/-- the operators that take any number of arguments (`_VARIADIC_OPERATORS`): one that is not an
    array may be given bare -/
def variadicOps : List String := ["$add", "$and", "$concat", "$multiply", "$or", "$setUnion"]

/-- `_parse_basic_expression` on a string (aggregate.py:330-347) -/
def evalBasic (c : Ctx) (s : String) : R (Option Val) :=
  match strKind s with
  | .var r => evalVar c (splitDotsChars r [])
  | .field r => getDotGen (splitDotsChars r []) c.root
  | .lit => .ok (some (.str s))

/-- how `evalDoc` runs the handler of operator `k` on argument `v` -/
inductive Mode where
  | const (r : R (Option Val))     -- decided without evaluating anything
  | whole                          -- `self.parse(values)` on the whole argument, then `applyWhole`
  | shaped                         -- the handler takes the argument apart: `evalOp`

def wholeOps : List String :=
  unaryArithOps ++ ["$toLower", "$toUpper", "$not", "$toString", "$toInt", "$toLong",
    "$arrayToObject", "$objectToArray", "$isNumber", "$isArray"] ++ dateOps

def mode (k : String) (v : Val) : Mode :=
  if k = "$literal" then .const (.ok (some v))
  else if k = "$stdDevPop" || k = "$stdDevSamp" || k = "$convert" || k = "$toDecimal" then
    .const (.error .notImpl)
  else if ["$indexOfArray", "$range", "$reduce", "$reverseArray", "$zip", "$setIntersection",
           "$setDifference", "$setIsSubset", "$anyElementTrue", "$allElementsTrue",
           "$indexOfBytes", "$indexOfCP", "$strLenBytes", "$strLenCP", "$substrBytes",
           "$substrCP", "$trim"].contains k then .const (.error .notImpl)
  else if k = "$regexMatch" then .const unmodelled
  else if dateOps.contains k then (if hasTzKeys v then .const unmodelled else .whole)
  else if wholeOps.contains k then .whole
  else if groupingOps.contains k then
    (match v with | .arr _ => .shaped | _ => .whole)
  else if k = "$size" || k = "$concatArrays" then
    (match v with | .arr _ => .shaped | _ => .whole)
  else .shaped

/-- the handlers that parse their whole argument, given the outcome `r` of that parse -/
def applyWhole (ign : Bool) (k : String) (r : Option Val) : R (Option Val) :=
  if unaryArithOps.contains k then (unaryArithOpt k r).map some
  else if k = "$not" then .ok (some (.bool (!toBoolOpt r)))
  else if k = "$isNumber" then .ok (some (isNumberOp r))
  else if k = "$isArray" then .ok (some (isArrayOp r))
  else if k = "$size" then (sizeOp r).map some
  else if k = "$toInt" || k = "$toLong" then
    (match r with | none => .ok (some .null) | some _ => .error .notImpl)
  else if k = "$arrayToObject" then (arrayToObjectOp r).map some
  else if k = "$objectToArray" then (objectToArrayOp r).map some
  else
    match r with
    | none =>
      if k = "$toString" then .ok (some .null)
      else if k = "$toLower" || k = "$toUpper" then .ok (some (.str ""))   -- `_parse_or_nothing`
      else if datePartOps.contains k then .ok (some .null)                 -- `_parse_or_nothing`
      else if k = "$concatArrays" then .ok (if ign then some .null else none)  -- `parse_many([value])`
      else if groupingOps.contains k then (groupingInExpr k []).map some   -- nothing to accumulate
      else .ok none                                  -- the KeyError propagates
    | some v =>
      if k = "$toLower" then (caseOp false v).map some
      else if k = "$toUpper" then (caseOp true v).map some
      else if k = "$toString" then (toStringOp v).map some
      else if dateOps.contains k then (dateOp k v).map some
      else if groupingOps.contains k then (groupingOnValue k v).map some
      else if k = "$concatArrays" then (concatArraysOp [v]).map some
      else unmodelled

/-- `parse_many` turns a KeyError into `None` when `ignore_missing_keys` -/
def manyItem (nullOnMissing : Bool) (r : Option Val) : Option Val :=
  match r with
  | some v => some v
  | none => if nullOnMissing then some .null else none

/-- the n-ary handlers once all operands are parsed (in order, a KeyError having propagated) -/
def applyList (k : String) (vals : List Val) : R (Option Val) :=
  if k = "$add" || k = "$multiply" then (naryArith k vals).map some
  else if binaryArithOps.contains k then
    (match vals with | [a, b] => (binaryArith k a b).map some | _ => .error .opFail)
  else if k = "$arrayElemAt" then
    (match vals with | [a, i] => arrayElemAtOp a i | _ => .error .valueErr)
  else if groupingOps.contains k then
    (groupingInExpr k vals).map some
  else if k = "$concat" then (concatOp vals).map some
  else if k = "$concatArrays" then (concatArraysOp vals).map some
  else if k = "$split" then
    (match vals with | [a, b] => (splitOp a b).map some | _ => .error .opFail)
  else if k = "$substr" then
    (match vals with | [s, f, l] => (substrOp s f l).map some | _ => .error .opFail)
  else if k = "$strcasecmp" then
    (match vals with | [a, b] => (strcasecmpOp a b).map some | _ => .error .opFail)
  else unmodelled

/-- which list handlers use `parse_many` (missing → None under `ignore_missing_keys`) -/
def usesParseMany (k : String) : Bool :=
  arithmeticOps.contains k || k = "$concat" || k = "$concatArrays"

/-- which list handlers read every operand with `_parse_or_nothing` and take NOTHING as None,
    whatever `ignore_missing_keys` says (the grouping operators: a missing operand counts like a
    null one, it is not accumulated) -/
def usesParseOrNothing (k : String) : Bool :=
  k = "$arrayElemAt" || k = "$strcasecmp" || groupingOps.contains k

/-- is a missing operand of list handler `k` read as null? -/
def nullOnMissing (ign : Bool) (k : String) : Bool :=
  (usesParseMany k && ign) || usesParseOrNothing k

/-- the operators of `_OPERATOR_ARITY`: a fixed number of arguments (or at least two), checked in
    `_Parser.parse` before any argument is evaluated, a bare operand counting as one -/
def arityOps : List String :=
  comparisonOps ++ binaryArithOps ++ ["$arrayElemAt", "$cond", "$ifNull", "$in", "$setEquals", "$split"]

/-- the argument-count checks that come before any parsing: `_argument_list` for the operators
    of `_OPERATOR_ARITY` ("Expression $op takes exactly N arguments" / "needs at least two
    arguments": OperationFailure), the handlers' own checks for `$strcasecmp $substr $slice` -/
def arityErr (k : String) (n : Nat) : Option Err :=
  if (binaryArithOps.contains k || comparisonOps.contains k) && n ≠ 2 then some .opFail
  else if (k = "$arrayElemAt" || k = "$in" || k = "$split") && n ≠ 2 then some .opFail
  else if k = "$cond" && n ≠ 3 then some .opFail
  else if (k = "$ifNull" || k = "$setEquals") && n < 2 then some .opFail
  else if k = "$strcasecmp" && n ≠ 2 then some .opFail
  else if k = "$substr" && n ≠ 3 then some .opFail
  else if k = "$slice" && (n < 2 || n > 3) then some .opFail
  else none

def listOps : List String :=
  arithmeticOps ++ groupingOps ++
    ["$arrayElemAt", "$concat", "$concatArrays", "$split", "$substr", "$strcasecmp"]

/-- a list handler given something that is not a list, a document handler given something that
    is not a document (aggregate.py: the `isinstance` checks, `len()`, unpacking, iteration) -/
def argShapeErr (k : String) (v : Val) : R (Option Val) :=
  if arityOps.contains k then .error .opFail                          -- one argument: wrong arity
  else if k = "$add" || k = "$multiply" then .error .other            -- AssertionError
  else if ["$slice", "$let", "$map", "$filter", "$switch"].contains k then .error .opFail
  else iterErr v

/-- list comprehension over the items of `$map`: `_parse_or_nothing` of `in` per item, a missing
    value (NOTHING) giving a null element -/
def mapItems (f : Val → R (Option Val)) : List Val → R (List Val)
  | [] => .ok []
  | x :: r => do
    let y ← f x
    let ys ← mapItems f r
    pure (y.getD .null :: ys)

/-- list comprehension of `$filter`: keeps the items whose condition is true by
    `_parse_to_bool` (`mongodb_to_bool`, a KeyError counting as false) -/
def filterItems (f : Val → R (Option Val)) : List Val → R (List Val)
  | [] => .ok []
  | x :: r => do
    let y ← f x
    let ys ← filterItems f r
    pure (if toBoolOpt y then x :: ys else ys)

def asName (gs : Fields) : Option String :=
  match dget "as" gs with
  | none => some "this"
  | some (.str s) => some s
  | some _ => none

/-- the validation loop over `$switch` branches (aggregate.py:1003-1016) -/
def branchesOk (bs : List Val) : Bool :=
  bs.all (fun b => match b with | .doc f => dhas "case" f && dhas "then" f | _ => false)

/-- `{$op: x}` with `x` not a list, for `$add $multiply $concat $and $or $setUnion`: `x` is a
    one-item argument list (`v = [v]` in `_Parser.parse`); `r` is the outcome of parsing `x` -/
def applyBare (ign : Bool) (k : String) (r : Option Val) : R (Option Val) :=
  if k = "$and" || k = "$or" then .ok (some (.bool (toBoolOpt r)))
  else if k = "$setUnion" then
    (match r with
     | none => .ok none
     | some (.arr xs) => .ok (some (.arr (unionLoop xs [])))
     | some w => iterErr w)
  else
    match manyItem (nullOnMissing ign k) r with
    | none => .ok none
    | some x => applyList k [x]

mutual
  /-- `_Parser.parse` (aggregate.py:230-283) -/
  def eval (c : Ctx) : Val → R (Option Val)
    | .doc fs =>
      if fs.length > 1 && fs.any (fun kv => startsDollar kv.1) then .error .opFail
      else evalDoc c fs []
    | .str s => evalBasic c s
    | .arr xs => do pure (some (.arr (← evalItems c xs)))
    | v => .ok (some v)
  termination_by structural x => x

  /-- an array literal: each item is an expression, a missing value gives a null item
      (whatever `ignore_missing_keys` says) -/
  def evalItems (c : Ctx) : List Val → R (List Val)
    | [] => .ok []
    | x :: r => do
      let v ← eval c x
      let vs ← evalItems c r
      pure (v.getD .null :: vs)
  termination_by structural x => x

  /-- the `for k, v in expression.items()` loop; `acc` is `value_dict` -/
  def evalDoc (c : Ctx) : Fields → Fields → R (Option Val)
    | [], acc => .ok (some (.doc acc))
    | (k, v) :: rest, acc =>
      match classify k with
      | .plain => do
        match ← eval c v with
        | none => if c.ign then evalDoc c rest acc else pure none
        | some x => evalDoc c rest (dset k x acc)
      | .unknown => .error .opFail
      | .notImpl => .error .notImpl
      | _ =>
        if unaryListOps.contains k && v.isArr then
          -- an operator that takes one argument, given an argument list
          (match v with
           | .arr xs => evalUnaryList c k xs
           | _ => .error .other)
        else if variadicOps.contains k && !v.isArr then do
          -- an operator that takes any number of arguments, given one that is not a list
          applyBare c.ign k (← eval c v)
        else
          match mode k v with
          | .const r => r
          | .whole => do applyWhole c.ign k (← eval c v)
          | .shaped => evalOp c k v
  termination_by structural x _ => x

  /-- `{$op: [x]}` for an operator that takes exactly one argument: `v = v[0]`, any other number
      of items is an OperationFailure -/
  def evalUnaryList (c : Ctx) (k : String) : List Val → R (Option Val)
    | [x] =>
      match mode k x with
      | .const r => r
      | .whole => do applyWhole c.ign k (← eval c x)
      | .shaped => evalOp c k x
    | _ => .error .opFail
  termination_by structural x => x

  /-- the handlers that take their argument apart -/
  def evalOp (c : Ctx) (k : String) : Val → R (Option Val)
    | .arr xs =>
      match arityErr k xs.length with
      | some e => .error e
      | none =>
        if listOps.contains k then do
          match ← evalList c (nullOnMissing c.ign k) xs with
          | none => if k = "$split" then pure (some .null) else pure none
          | some vals => applyList k vals
        else if k = "$and" then do
          let rs ← evalAll c xs                        -- `all([...])`: every operand is parsed
          pure (some (.bool (rs.all toBoolOpt)))
        else if k = "$or" then do pure (some (.bool (← evalOr c xs)))
        else if k = "$cond" then evalCond3 c xs
        else if k = "$ifNull" then evalIfNull c xs
        else if k = "$size" then evalSize c xs
        else if k = "$slice" then do
          match ← evalHead c xs with
          | none => pure none
          | some a => (sliceOp a xs.tail).map some
        else if comparisonOps.contains k then do
          match ← evalAll c xs with                    -- `_parse_or_nothing` of both operands
          | [a, b] => (compareOpt k a b).map some
          | _ => .error .other
        else if k = "$in" then do
          match ← evalAll c xs with                    -- `_parse_or_nothing` of both operands
          | [x, a] => (inOpt x a).map some
          | _ => .error .valueErr
        else if k = "$setUnion" then evalUnion c xs []
        else if k = "$setEquals" then evalSets c xs []
        else argShapeErr k (.arr xs)
    | .doc gs =>
      if k = "$let" then
        if !(dhas "vars" gs) || !(dhas "in" gs) then .error .opFail
        else if gs.any (fun kv => !(["vars", "in"].contains kv.1)) then .error .opFail
        else match dget "vars" gs with
          | some (.doc vs) =>
            if !(vs.all (fun kv => validVarName kv.1)) then .error .opFail
            else do
              let bs ← evalVarsAt c gs
              evalAt (c.bindAll bs) "in" gs
          | _ => .error .opFail
      else if k = "$map" then
        if !(dhas "input" gs) || !(dhas "in" gs) then .error .opFail
        else if gs.any (fun kv => !(["input", "as", "in"].contains kv.1)) then .error .opFail
        else
          match asName gs with
          | none => .error .opFail                    -- the name must be a string
          | some name =>
            if !(validVarName name) then .error .opFail
            else do
              match ← evalAt c "input" gs with
              | none | some .null => pure (some .null)
              | some (.arr items) =>
                let r ← mapItems (fun item => evalAt (c.bind name item) "in" gs) items
                pure (some (.arr r))
              | some _ => .error .opFail
      else if k = "$filter" then
        if gs.any (fun kv => !(["input", "cond", "as"].contains kv.1)) then .error .opFail
        else if !(dhas "input" gs) || !(dhas "cond" gs) then .error .opFail
        else
          match asName gs with
          | none => .error .opFail
          | some name =>
            if !(validVarName name) then .error .opFail
            else do
              match ← evalAt c "input" gs with
              | none | some .null => pure (some .null)
              | some (.arr items) =>
                let r ← filterItems (fun item => evalAt (c.bind name item) "cond" gs) items
                pure (some (.arr r))
              | some v => iterErr v
      else if k = "$cond" then
        if !(dhas "if" gs && dhas "then" gs && dhas "else" gs) then .error .opFail
        else if gs.any (fun kv => !(["if", "then", "else"].contains kv.1)) then .error .opFail
        else do
          if toBoolOpt (← evalAt c "if" gs) then evalAt c "then" gs else evalAt c "else" gs
      else if k = "$switch" then
        match (dget "branches" gs).getD (.arr []) with
        | .arr bs =>
          if bs.isEmpty then .error .opFail
          else if !branchesOk bs then .error .opFail
          else do
            match ← evalBranchesAt c gs with
            | some r => pure r
            | none => if dhas "default" gs then evalAt c "default" gs else .error .opFail
        | _ => .error .opFail
      else argShapeErr k (.doc gs)
    | v => argShapeErr k v
  termination_by structural x => x

  /-- `parse_many` / a sequence of `parse` calls: `none` = a KeyError propagated -/
  def evalList (c : Ctx) (nullOnMissing : Bool) : List Val → R (Option (List Val))
    | [] => .ok (some [])
    | x :: r => do
      match manyItem nullOnMissing (← eval c x) with
      | none => pure none
      | some v =>
        match ← evalList c nullOnMissing r with
        | none => pure none
        | some vs => pure (some (v :: vs))
  termination_by structural x => x

  /-- every operand parsed, each KeyError kept (`$and`; comparisons and `$in`:
      `_parse_or_nothing` of both operands) -/
  def evalAll (c : Ctx) : List Val → R (List (Option Val))
    | [] => .ok []
    | x :: r => do
      let v ← eval c x
      let vs ← evalAll c r
      pure (v :: vs)
  termination_by structural x => x

  /-- `any(self._parse_to_bool(value) for value in values)`: stops at the first true operand -/
  def evalOr (c : Ctx) : List Val → R Bool
    | [] => .ok false
    | x :: r => do if toBoolOpt (← eval c x) then pure true else evalOr c r
  termination_by structural x => x

  /-- `$cond: [if, then, else]` -/
  def evalCond3 (c : Ctx) : List Val → R (Option Val)
    | [a, b, d] => do if toBoolOpt (← eval c a) then eval c b else eval c d
    | _ => .error .valueErr
  termination_by structural x => x

  /-- `$ifNull` on two or more operands: the last item is the fallback (aggregate.py:1008-1026) -/
  def evalIfNull (c : Ctx) : List Val → R (Option Val)
    | [] => .error .indexErr
    | [f] => eval c f
    | x :: y :: r => do
      match ← eval c x with
      | some v => if isNull v then evalIfNull c (y :: r) else pure (some v)
      | none => evalIfNull c (y :: r)
  termination_by structural x => x

  /-- `$size: [e]` -/
  def evalSize (c : Ctx) : List Val → R (Option Val)
    | [x] => do (sizeOp (← eval c x)).map some
    | _ => .error .opFail
  termination_by structural x => x

  def evalHead (c : Ctx) : List Val → R (Option Val)
    | x :: _ => eval c x
    | [] => .error .other
  termination_by structural x => x

  /-- `$setUnion`: parse an operand, merge its items, go on (aggregate.py:1040-1045) -/
  def evalUnion (c : Ctx) : List Val → List Val → R (Option Val)
    | [], acc => .ok (some (.arr acc))
    | x :: r, acc => do
      match ← eval c x with
      | none => pure none
      | some (.arr xs) => evalUnion c r (unionLoop xs acc)
      | some v => iterErr v
  termination_by structural x _ => x

  /-- `$setEquals`: `[set(self.parse(value)) for value in values]`, then pairwise equality -/
  def evalSets (c : Ctx) : List Val → List (List Val) → R (Option Val)
    | [], acc => .ok (some (.bool (allPairsEq acc)))
    | x :: r, acc => do
      match ← eval c x with
      | none => pure none
      | some v => do let s ← setOf v; evalSets c r (s :: acc)
  termination_by structural x _ => x

  /-- `self.parse(value[key])`; an absent key is a KeyError too -/
  def evalAt (c : Ctx) (key : String) : Fields → R (Option Val)
    | [] => .ok none
    | (k, v) :: r => if k = key then eval c v else evalAt c key r
  termination_by structural x => x

  /-- the `user_vars` comprehension of `$let` (`_parse_or_nothing` of every variable, in the outer
      scope), found by walking to the `vars` entry -/
  def evalVarsAt (c : Ctx) : Fields → R (List (String × Option Val))
    | [] => .ok []
    | (k, .doc vs) :: r => if k = "vars" then evalVars c vs else evalVarsAt c r
    | (_, _) :: r => evalVarsAt c r
  termination_by structural x => x

  def evalVars (c : Ctx) : Fields → R (List (String × Option Val))
    | [] => .ok []
    | (k, v) :: r => do
      let x ← eval c v
      let xs ← evalVars c r
      pure ((k, x) :: xs)
  termination_by structural x => x

  /-- the branch loop of `$switch`, found by walking to the `branches` entry;
      outer `none` = no branch matched -/
  def evalBranchesAt (c : Ctx) : Fields → R (Option (Option Val))
    | [] => .ok none
    | (k, .arr bs) :: r => if k = "branches" then evalBranches c bs else evalBranchesAt c r
    | (_, _) :: r => evalBranchesAt c r
  termination_by structural x => x

  def evalBranches (c : Ctx) : List Val → R (Option (Option Val))
    | [] => .ok none
    | .doc b :: r => do
      if toBoolOpt (← evalAt c "case" b) then do pure (some (← evalAt c "then" b))
      else evalBranches c r
    | _ :: r => evalBranches c r
  termination_by structural x => x
end

/-! ### the contexts -/

/-- `_parse_expression(e, d, ignore_missing_keys=True)`: `none` = KeyError = missing -/
def evalExpr (d e : Val) : R (Option Val) := eval (Ctx.init true d) e

/-- `_parse_expression(e, d)` as used by `$group` accumulators -/
def evalExprStrict (d e : Val) : R (Option Val) := eval (Ctx.init false d) e

/-- `value in (0, 1, True, False)`: `$project` reads such a value as inclusion / exclusion -/
def isInclusionFlag (e : Val) : Bool :=
  pyIn e [.int 0, .int 1, .bool true, .bool false]

/-- the computed field `r` of `{$project: {r: e}}` on `d`: `none` = the field is omitted
    (aggregate.py:1526-1531) -/
def projectField (e d : Val) : R (Option Val) :=
  if isInclusionFlag e then unmodelled else evalExpr d e

/-- the computed field `r` of `{$addFields: {r: e}}` (aggregate.py:1558-1569) -/
def addFieldsField (e d : Val) : R (Option Val) := evalExpr d e

/-- `{$expr: e}` in the query matcher (filtering.py:92-103): `mongodb_to_bool` of the parsed
    value; a KeyError (the value is missing) is caught and counts as false -/
def exprFilter (e d : Val) : R Bool :=
  match evalExpr d e with
  | .ok r => .ok (toBoolOpt r)
  | .error err => .error err

end MongoModel.Expr
