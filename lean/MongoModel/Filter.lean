/-
  MongoModel.Filter — the query matcher `_Filterer.apply` (mongomock/filtering.py:55-204,
  271-288, 391-429, 465-518), followed line by line, quirks included.

  The filter is a raw `Val` (a dict), exactly as the Python code sees it.  All recursion is
  structural on the *filter* (the document never has to shrink).
  Outside the fidelity zone F (answer `unmodelled`): `$expr` (until MongoModel.Expr is plugged
  in), `$regex` beyond literal patterns with optional `^`/`$` anchors, `$options`, compiled
  regular-expression values, negative array indexes in paths.  (Empty path components are field
  names like any other since the repair "a filter looks the empty field name up like any other
  field": `candsKey`.)
-/
import MongoModel.Bson
import MongoModel.Expr

namespace MongoModel

def operatorMapKeys : List String :=
  ["$eq", "$ne", "$all", "$in", "$nin", "$exists", "$regex", "$elemMatch", "$size", "$type",
   "$gt", "$gte", "$lt", "$lte"]

def logicalKeys : List String := ["$or", "$and", "$nor", "$not"]

def topLevelOperators : List String := ["$expr", "$text", "$where", "$jsonSchema"]

def notImplementedOperators : List String :=
  ["$bitsAllClear", "$bitsAllSet", "$bitsAnyClear", "$bitsAnySet", "$geoIntersects",
   "$geoWithin", "$maxDistance", "$minDistance", "$near", "$nearSphere"]

/-! ### short-circuit folds in the error monad (Python `any` / `all` over a generator) -/

def anyM {α} (f : α → R Bool) : List α → R Bool
  | [] => .ok false
  | x :: xs => do if (← f x) then pure true else anyM f xs

def allM {α} (f : α → R Bool) : List α → R Bool
  | [] => .ok true
  | x :: xs => do if (← f x) then allM f xs else pure false

/-! ### leaf operators -/

/-- `operator_eq` -/
def operatorEq (dv : Option Val) (sv : Val) : Bool :=
  match dv, sv with
  | none, .null => true
  | none, _ => false
  | some v, _ => pyEq v sv

/-- `_list_expand(operator_eq)` -/
def opEq (dv : Option Val) (sv : Val) : Bool :=
  match dv with
  | some (.arr xs) => if sv.isArr then operatorEq dv sv else xs.any (fun x => operatorEq (some x) sv)
  | _ => operatorEq dv sv

/-- `_list_expand(lambda dv, sv: not operator_eq(dv, sv), negative=True)` -/
def opNe (dv : Option Val) (sv : Val) : Bool :=
  match dv with
  | some (.arr xs) => if sv.isArr then !operatorEq dv sv else xs.all (fun x => !operatorEq (some x) sv)
  | _ => !operatorEq dv sv

/-- `_sorting_operator(op)`: `_list_expand(_compare_objects(op))`, a missing field being compared
    as null against a null operand and never matching another operand -/
def opCmp (op : CmpOp) (dv : Option Val) (sv : Val) : R Bool :=
  match dv with
  | none =>
    match sv with
    | .null => bsonCompare op .null .null false
    | _ => .ok false
  | some (.arr xs) =>
    if sv.isArr then bsonCompare op (.arr xs) sv false
    else anyM (fun x => bsonCompare op x sv false) xs
  | some v => bsonCompare op v sv false

/-- `_force_list` on a candidate -/
def forceList : Option Val → List (Option Val)
  | some (.arr xs) => xs.map some
  | dv => [dv]

/-- `x in dv or (x is None and NOTHING in dv)` (`_all_op`): NOTHING is `==` to no value, a null
    item is also met by it -/
def pyInOpt (x : Val) (dvs : List (Option Val)) : Bool :=
  dvs.any (fun c => match c with
    | some v => pyEq v x
    | none => match x with | .null => true | _ => false)

/-- `_in_op` (no compiled regular expressions among the operands) -/
def opIn (dv : Option Val) (sv : Val) : R Bool :=
  match sv with
  | .arr ss =>
    if dv.isNone && pyIn .null ss then .ok true
    else .ok ((forceList dv).any (fun c => match c with | some x => pyIn x ss | none => false))
  | _ => .error .opFail

/-- `_size_op` -/
def opSize (dv : Option Val) (sv : Val) : Bool :=
  match dv with
  | some (.arr xs) => pyEq sv (.int xs.length)
  | _ => false

def typeAliases : List String :=
  ["double", "string", "object", "array", "binData", "undefined", "objectId", "bool", "date",
   "null", "regex", "dbPointer", "javascript", "symbol", "javascriptWithScope", "int",
   "timestamp", "long", "decimal", "number", "minKey", "maxKey"]

/-- `TYPE_MAP[alias]` where it is a predicate (bson absent: `decimal` is `None`) -/
def typePred (alias : String) : Option (Val → Bool) :=
  match alias with
  | "double" => some (fun v => match v with | .dbl _ _ => true | _ => false)
  | "string" => some (fun v => match v with | .str _ => true | _ => false)
  | "object" => some Val.isDoc
  | "array" => some Val.isArr
  | "binData" => some (fun _ => false)
  | "objectId" => some (fun v => match v with | .oid _ => true | _ => false)
  | "bool" => some (fun v => match v with | .bool _ => true | _ => false)
  | "date" => some (fun v => match v with | .date _ _ => true | _ => false)
  | "int" => some (fun v => match v with | .int i => i.natAbs < 2 ^ 32 | _ => false)
  | "long" => some (fun v => match v with | .int i => i.natAbs ≥ 2 ^ 32 | _ => false)
  | "number" => some Val.isNumber
  | _ => none

/-- `_type_op` -/
def opType (dv : Option Val) (sv : Val) : R Bool :=
  match sv with
  | .str a =>
    if !typeAliases.contains a then .error .opFail
    else match typePred a with
      | none => .error .notImpl
      | some p =>
        match dv with
        | none => .ok false
        | some v =>
          if p v then .ok true
          else match v with
            | .arr xs => .ok (xs.any p)
            | _ => .ok false
  | .arr _ | .doc _ => .error .typeErr      -- unhashable operand in `search_val not in TYPE_MAP`
  | _ => .error .opFail

/-! ### literal regular expressions -/

def isInfixChars (pat : List Char) : List Char → Bool
  | [] => pat.isEmpty
  | c :: cs => pat.isPrefixOf (c :: cs) || isInfixChars pat cs

structure LitRegex where
  anchoredStart : Bool
  anchoredEnd : Bool
  lit : List Char

/-- patterns the model follows: `^`? [A-Za-z0-9 ]* `$`? -/
def parseLitRegex (p : String) : Option LitRegex :=
  let cs := p.toList
  let (st, cs) := match cs with | '^' :: r => (true, r) | _ => (false, cs)
  let (en, cs) := match cs.reverse with | '$' :: r => (true, r.reverse) | _ => (false, cs)
  if cs.all (fun c => c.isAlphanum || c == ' ') then some ⟨st, en, cs⟩ else none

def LitRegex.search (r : LitRegex) (s : String) : Bool :=
  let cs := s.toList
  match r.anchoredStart, r.anchoredEnd with
  | true, true => cs == r.lit
  | true, false => r.lit.isPrefixOf cs
  | false, true => r.lit.isSuffixOf cs
  | false, false => isInfixChars r.lit cs

/-- `_not_nothing_and(_regex)` for a string pattern -/
def opRegex (dv : Option Val) (sv : Val) : R Bool :=
  match dv with
  | some (.str s) =>
    match sv with
    | .str p => match parseLitRegex p with
      | some r => .ok (r.search s)
      | none => unmodelled
    | _ => .error .attrErr
  | some (.arr xs) =>
    match sv with
    | .str p => match parseLitRegex p with
      | some r => .ok (xs.any (fun x => match x with | .str s => r.search s | _ => false))
      | none => unmodelled
    | _ => .error .attrErr
  | _ => .ok false

/-! ### `$all` -/

/-- the `doc_val` argument of `_all_op`: a Python list of items, or one non-list value -/
inductive AllArg where
  | list (xs : List (Option Val))
  | scalar (v : Option Val)

def charsOf (s : String) : List Val := s.toList.map (fun c => .str (String.singleton c))

/-- `list(itertools.chain.from_iterable(doc_val))` -/
def chainFlatten : List (Option Val) → R (List (Option Val))
  | [] => .ok []
  | some (.arr ys) :: r => (chainFlatten r).map (ys.map some ++ ·)
  | some (.doc fs) :: r => (chainFlatten r).map ((dkeys fs).map (fun k => some (.str k)) ++ ·)
  | some (.str s) :: r => (chainFlatten r).map ((charsOf s).map some ++ ·)
  | _ :: _ => .error .typeErr

/-- the first two lines of `_all_op`: flatten when the first item is a list -/
def allArgNorm : AllArg → R AllArg
  | .list (some (.arr ys) :: r) => (chainFlatten (some (.arr ys) :: r)).map .list
  | a => .ok a

def AllArg.forced : AllArg → List (Option Val)
  | .list xs => xs
  | .scalar v => [v]

def allArgOfCand : Option Val → AllArg
  | some (.arr xs) => .list (xs.map some)
  | dv => .scalar dv

/-! ### the matcher -/

/-- state of the candidate loop: `none` = the loop executed `return False` -/
def candLoop (f : Option Val → R Bool) (neg : Bool) :
    List (Option Val) → Bool → Bool → R (Option (Bool × Bool))
  | [], m, h => .ok (some (m, h))
  | c :: cs, _, h => do
    let h' := h || c.isSome
    let m' ← f c
    if neg && !m' then pure none
    else if m' && !neg then pure (some (true, h'))
    else candLoop f neg cs m' h'

/-- the unknown-operator check of an operator condition (made once per key, before the candidates
    are looked at) -/
def checkUnknownOps (keys : List String) : R Unit :=
  let unknown := keys.filter (fun k => !(operatorMapKeys.contains k) && k != "$not")
  if unknown.isEmpty then .ok ()
  else if unknown.any notImplementedOperators.contains then .error .notImpl
  else .error .opFail

/-- equality of a candidate with a non-operator operand (the last two branches of the loop) -/
def plainMatch (search : Val) (dv : Option Val) : Bool :=
  match dv with
  | some (.arr xs) => pyIn search xs || pyEq search (.arr xs)
  | some v => pyEq v search
  | none => match search with | .null => true | _ => false

def isOpsFilter (search : Val) : Bool :=
  match search with
  | .doc fs => !fs.isEmpty && fs.all (fun kv => kv.1.startsWith "$")
  | _ => false

/-- items of an `$elemMatch` array -/
def elemItems : Option Val → Option (List Val)
  | some (.arr xs) => some xs
  | _ => none

/-- the operators of `_operator_map` that do not re-enter the matcher -/
def leafOp (op : String) (sv : Val) (dv : Option Val) : R Bool :=
  if op = "$eq" then pure (opEq dv sv)
  else if op = "$ne" then pure (opNe dv sv)
  else if op = "$gt" then opCmp .gt dv sv
  else if op = "$gte" then opCmp .gte dv sv
  else if op = "$lt" then opCmp .lt dv sv
  else if op = "$lte" then opCmp .lte dv sv
  else if op = "$in" then opIn dv sv
  else if op = "$nin" then (opIn dv sv).map (!·)
  else if op = "$exists" then pure (sv.truthy == dv.isSome)
  else if op = "$regex" then opRegex dv sv
  else if op = "$size" then pure (opSize dv sv)
  else if op = "$type" then opType dv sv
  else pure false

/-- `_elem_match_op(doc_val, query)` for a dict `query`: `main item` is `apply(query, item)`,
    `fallback item` is `apply({'field': query}, {'field': item})`; `items` is `some` iff
    `doc_val` is a list -/
def elemMatchWith (main fallback : Val → R Bool) : Option (List Val) → R Bool
  | none => .ok false
  | some items =>
    anyM (fun item =>
      match main item with
      | .ok b => .ok b
      | .error e => if e.isOpFailure then fallback item else .error e) items

/-- `_elem_match_op` when the query is not a dict -/
def elemMatchBad : Option (List Val) → R Bool
  | none => .ok false
  | some _ => .error .opFail

mutual
  /-- `_Filterer.apply(filter, document)`, the loop over the filter's items -/
  def applyFields : Fields → Val → R Bool
    | [], _ => .ok true
    | (key, search) :: rest, d =>
      if key = "$comment" then applyFields rest d
      else if logicalKeys.contains key && key != "$not" then   -- `$not` is no top-level operator
        if !search.truthy then .error .opFail
        else do
          let ok ← (match search with
            | .arr qs =>
              if key = "$or" then anyApply qs d
              else if key = "$and" then allApply qs d
              else norApply qs d
            | .doc _ | .str _ => .error .opFail
            | _ => .error .typeErr)
          if ok then applyFields rest d else pure false
      else if key = "$expr" then do
        -- filtering.py:92-96: the parsed expression's Python truthiness
        if (← Expr.exprFilter search d) then applyFields rest d else pure false
      else if topLevelOperators.contains key then .error .notImpl
      else if key.startsWith "$" then .error .opFail
      else do
        let ok ← applyKey search key d
        if ok then applyFields rest d else pure false
  termination_by structural x _ => x

  /-- `apply(q, d)` for an arbitrary `q` -/
  def applyVal : Val → Val → R Bool
    | .doc fs, d => applyFields fs d
    | _, _ => .error .opFail
  termination_by structural x _ => x


  def anyApply : List Val → Val → R Bool
    | [], _ => .ok false
    | q :: qs, d => do if (← applyVal q d) then pure true else anyApply qs d
  termination_by structural x _ => x


  def allApply : List Val → Val → R Bool
    | [], _ => .ok true
    | q :: qs, d => do if (← applyVal q d) then allApply qs d else pure false
  termination_by structural x _ => x


  def norApply : List Val → Val → R Bool
    | [], _ => .ok true
    | q :: qs, d => do if (← applyVal q d) then pure false else norApply qs d
  termination_by structural x _ => x

  /-- the body of the per-key part of `apply` for one `(key, search)` item -/
  def applyKey : Val → String → Val → R Bool
    | .doc fs, key, d => do
      let search := Val.doc fs
      let keys := dkeys fs
      -- the operators of the condition are checked first, whether or not the key leads to a value
      -- (`_combine_regex_options` — outside F — and the unknown-operator detection)
      if isOpsFilter search && (keys.contains "$options" && keys.contains "$regex") then unmodelled
      else do
        let _ ← (if isOpsFilter search then checkUnknownOps keys else .ok ())
        let cs ← candsKey key d
        let neg := keys.contains "$ne" || keys.contains "$nin"
        let pos := keys.isEmpty || keys.any (fun k => k != "$ne" && k != "$nin")
        if pyEq search (.doc [("$exists", .bool false)]) && cs.isEmpty then pure true
        else do
          let pre ← (if keys.contains "$all" then allPre fs (.list cs) else pure true)
          if !pre then pure false
          else if keys.contains "$all" && fs.length == 1 then pure true
          else do
            let r ← (
              if isOpsFilter search then candLoop (fun dv => opsAll fs key d dv) neg cs false false
              else candLoop (fun dv => pure (plainMatch search dv)) neg cs false false)
            match r with
            | none => pure false
            | some (m, h) => pure (!(!m && (h || pos)))
    | search, key, d => do
      let cs ← candsKey key d
      let r ← candLoop (fun dv => pure (plainMatch search dv)) false cs false false
      match r with
      | none => pure false
      | some (m, _) => pure m
  termination_by structural x _ _ => x

  /-- `all(... for operator_string, search_val in search.items())` on one candidate -/
  def opsAll : Fields → String → Val → Option Val → R Bool
    | [], _, _, _ => .ok true
    | (op, .doc gs) :: rest, key, d, dv => do
      let r ← (
        if op = "$all" then allOp (.doc gs) (allArgOfCand dv)
        else if op = "$elemMatch" then
          elemMatchWith (fun item => applyFields gs item)
            (fun item => applyKey (.doc gs) "field" (.doc [("field", item)])) (elemItems dv)
        else if op = "$not" then
          if gs.all (fun kv => operatorMapKeys.contains kv.1 || logicalKeys.contains kv.1) then
            (applyKey (.doc gs) key d).map (!·)
          else .error .opFail
        else leafOp op (.doc gs) dv)
      if r then opsAll rest key d dv else pure false
    | (op, sv) :: rest, key, d, dv => do
      let r ← (
        if op = "$all" then allOp sv (allArgOfCand dv)
        else if op = "$elemMatch" then elemMatchBad (elemItems dv)
        else if op = "$not" then .error .opFail
        else leafOp op sv dv)
      if r then opsAll rest key d dv else pure false
  termination_by structural x _ _ _ => x

  /-- `_all_op(doc_val, search_val)` -/
  def allOp : Val → AllArg → R Bool
    | .arr xs, a =>
      if xs.isEmpty then pure false        -- an empty `$all` array matches nothing
      else do
        let a' ← allArgNorm a
        let ms ← allItems xs a'
        pure (ms.all id)
    | .doc fs, a => do
      let a' ← allArgNorm a
      pure ((dkeys fs).all (fun k => pyInOpt (.str k) a'.forced))
    | .str s, a => do
      let a' ← allArgNorm a
      pure ((charsOf s).all (fun c => pyInOpt c a'.forced))
    | _, a => do
      let _ ← allArgNorm a
      .error .typeErr
  termination_by structural x _ => x

  /-- the `matches` list of `_all_op` (no short circuit: every item is evaluated) -/
  def allItems : List Val → AllArg → R (List Bool)
    | [], _ => .ok []
    | x :: xs, a => do
      let m ← (match x with
        | .doc gs =>
          if dhas "$elemMatch" gs then allElem gs a
          else pure (pyInOpt x a.forced)
        | _ => pure (pyInOpt x a.forced))
      let ms ← allItems xs a
      pure (m :: ms)
  termination_by structural x _ => x

  /-- `self._elem_match_op(doc_val, x['$elemMatch'])` — walks `x` to its `$elemMatch` entry -/
  def allElem : Fields → AllArg → R Bool
    | [], _ => .ok false
    | (k, .doc gs) :: rest, a =>
      if k = "$elemMatch" then
        match a with
        | .scalar _ => .ok false
        | .list items =>
          if items.all Option.isSome then
            elemMatchWith (fun item => applyFields gs item)
              (fun item => applyKey (.doc gs) "field" (.doc [("field", item)]))
              (some (items.filterMap id))
          else unmodelled
      else allElem rest a
    | (k, _) :: rest, a =>
      if k = "$elemMatch" then
        match a with
        | .scalar _ => .ok false
        | .list items =>
          if items.all Option.isSome then elemMatchBad (some (items.filterMap id)) else unmodelled
      else allElem rest a
  termination_by structural x _ => x

  /-- `self._all_op(candidates, search['$all'])` — walks the operators to the `$all` entry -/
  def allPre : Fields → AllArg → R Bool
    | [], _ => .ok true
    | (k, sv) :: rest, a => if k = "$all" then allOp sv a else allPre rest a
  termination_by structural x _ => x
end

/-- `filter_applies(filter, document)` -/
def filterApplies (filter doc : Val) : R Bool := applyVal filter doc

end MongoModel
