/-
  MongoModel.AggHeap — the OBJECT IDENTITY model of `Collection.aggregate` (property C16).

  What a stage computes is the business of C03/C04; here the question is WHICH OBJECTS a stage
  writes into.  Every container (dict / list) carries an identity; identities live in three name
  spaces: `st` (objects of the store), `cl` (objects of the caller: the pipeline argument) and
  `tmp` (objects allocated by the running call; numbered from 0 in every run — a run-local name
  space, so "fresh" holds by construction and two runs on the same state are literally the same
  computation).  A write `d[k] = v` into the object with identity `i` rewrites that object
  WHEREVER it occurs in the world (`World.mutate`): store, pipeline, the working list, the list
  under construction and every list kept alive by an enclosing `$facet`.

  Each stage is modelled by its EDIT DISCIPLINE as mongomock/aggregate.py has it today
  (table `Disc`, reference value `Disc.reference`, re-extracted from the source on every run into
  `Generated/AggDiscipline.lean`; the reference is the discipline AFTER the repairs
  `sample-pops-size`, `facet-sibling-*`, `literal-written` and the C03 repairs of `$addFields`
  (every level of a dotted name is copied before it is written) and `$unwind`
  (`includeArrayIndex`), the table keeps the old behaviour expressible so that a regression shows
  as a different table):
    * `aggregate` works on one deep copy per stored document (`_get_dataset`; new objects), under
      `tz_aware` it hands out a REBUILD of the results (every dict and list new: `resultCopy`),
      and on a REBUILT pipeline: every
      dict and list of the caller's pipeline object is built anew before the stages see it
      (`pipelineCopy`; the stages used to read — and, under the former disciplines, write — the
      caller's own object: `.none`);
    * `$match/$sort/$skip/$limit/$sample` hand on the same document objects in a new list;
    * `$sample` reads `size` from the caller's option dict (it used to POP it: `samplePops`);
    * `$addFields/$set`: `dict(doc)` (shallow), and along a dotted name (`_add_field`) EVERY
      document found is replaced by a `copy.copy` of it (a new dict around the same values) and
      EVERY array by a new list of its rebuilt items, each item receiving its own deep copy of the
      value (`addFieldsItemValue`); on a path that crosses no array the computed value itself is
      placed: no object that existed before the stage is written (it used to descend into the
      SHARED sub-document and write there: `addFieldsNested` = `.none`);
    * `$lookup` (1154-1164) writes `doc[as]` into the input document itself, the joined documents
      are `find()` copies;
    * `$unwind` deep-copies the document once per element and keeps the COPY's own element — or
      the copy's own value where the field holds no array (it used to re-attach the ORIGINAL
      element / value: `unwindItem` = `.none`); a document kept by
      `preserveNullAndEmptyArrays` is handed on as it is, unless an `includeArrayIndex` is to be
      written: then it is a deep copy that receives the (null) index (`unwindIndexed`); the
      sub-documents a dotted index name goes through are created inside the copy;
    * `$project/$replaceRoot/$count` build new top-level documents around shared values;
    * expressions: a field path / `$$ROOT` evaluates to the very sub-object, `$literal` to a deep
      copy of the pipeline's object (it used to evaluate to the PIPELINE's own object: `literal`
      = `.none`), a document constructor to a new dict, an array to a new list of its evaluated
      items, null where an item is missing (`arrayConst` = `.evaluated`; it used to be handed
      out as a constant: a copy of the pipeline's list, or that list itself);
    * `$facet` hands every sub-pipeline its own deep copy of the stage's input (it used to hand
      ONE list to all of them: `facetSharesInput`);
    * `$out` (1573-1580): drop the target if non-empty, `insert_many` (stores copies, writes the
      generated `_id` into the passed document), pass the list through.

  Under a discipline that lets a run leave an object it allocated INSIDE the caller's pipeline
  object (the former class `literal-written`) that object belongs to the caller afterwards; whoever
  chains runs must rename it out of the `tmp` name space before the next run (the driver does:
  `Driver.C16.adopt`).  Under `Disc.reference` this cannot happen (`pipeline_arg_unchanged`).

  Value-level decisions that do not concern identity (which documents `$match` keeps, in which
  order `$sort` puts them, which foreign documents join) are parameters (`Sem`); the theorems hold
  for every `Sem`, the driver uses `Sem.std`.

  Core Lean only.
-/
import MongoModel.Value

namespace MongoModel.AggHeap
open MongoModel

inductive Id where
  | st (n : Nat) | cl (n : Nat) | tmp (n : Nat)
  deriving DecidableEq, Repr, Inhabited

def Id.isSt : Id → Bool
  | .st _ => true
  | _ => false
def Id.isTmp : Id → Bool
  | .tmp _ => true
  | _ => false

inductive HV where
  | atom (v : Val)
  | node (id : Id) (isDoc : Bool) (kids : List (String × HV))
  deriving Inhabited

abbrev Kids := List (String × HV)

mutual
  def HV.ids : HV → List Id
    | .atom _ => []
    | .node id _ kids => id :: idsKids kids
  def idsKids : Kids → List Id
    | [] => []
    | (_, v) :: r => v.ids ++ idsKids r
end

def idsL : List HV → List Id
  | [] => []
  | v :: r => v.ids ++ idsL r

mutual
  /-- every identity of the value satisfies `p` -/
  def HV.all (p : Id → Bool) : HV → Bool
    | .atom _ => true
    | .node id _ kids => p id && allKids p kids
  def allKids (p : Id → Bool) : Kids → Bool
    | [] => true
    | (_, v) :: r => v.all p && allKids p r
end

def allL (p : Id → Bool) : List HV → Bool
  | [] => true
  | v :: r => v.all p && allL p r

mutual
  /-- the value, identities forgotten -/
  def HV.toVal : HV → Val
    | .atom v => v
    | .node _ true kids => .doc (toFields kids)
    | .node _ false kids => .arr (toList kids)
  def toFields : Kids → Fields
    | [] => []
    | (k, v) :: r => (k, v.toVal) :: toFields r
  def toList : Kids → List Val
    | [] => []
    | (_, v) :: r => v.toVal :: toList r
end

def toVals : List HV → List Val
  | [] => []
  | v :: r => v.toVal :: toVals r

/-! ### dict operations on the children of a node -/

def kget (k : String) : Kids → Option HV
  | [] => none
  | (k', v) :: r => if k' = k then some v else kget k r

/-- `d[k] = v` -/
def kset (k : String) (v : HV) : Kids → Kids
  | [] => [(k, v)]
  | (k', v') :: r => if k' = k then (k, v) :: r else (k', v') :: kset k v r

/-- `d.pop(k, None)` / `del d[k]` -/
def kdel (k : String) : Kids → Kids
  | [] => []
  | (k', v') :: r => if k' = k then r else (k', v') :: kdel k r

def HV.get (k : String) : HV → Option HV
  | .node _ true kids => kget k kids
  | _ => none

def HV.isDict : HV → Bool
  | .node _ true _ => true
  | _ => false

def HV.id? : HV → Option Id
  | .node id _ _ => some id
  | _ => none

/-- write into a node one holds directly (a private, just allocated object) -/
def HV.setLocal (x : HV) (k : String) (v : HV) : HV :=
  match x with
  | .node id d kids => .node id d (kset k v kids)
  | x => x

def HV.delLocal (k : String) : HV → HV
  | .node id d kids => .node id d (kdel k kids)
  | x => x

/-- the sub-value at a path of child positions -/
def subAt : List Nat → HV → Option HV
  | [], v => some v
  | i :: p, .node _ _ kids =>
    match kids[i]? with
    | some kv => subAt p kv.2
    | none => none
  | _ :: _, .atom _ => none

/-! ### copies -/

mutual
  /-- `copy.deepcopy` / `_copy_field` / `find()`: every container of the result is a new object of
      the running call -/
  def deepTmp : HV → Nat → HV × Nat
    | .atom v, n => (.atom v, n)
    | .node _ d kids, n => (.node (.tmp n) d (deepTmpKids kids (n + 1)).1, (deepTmpKids kids (n + 1)).2)
  def deepTmpKids : Kids → Nat → Kids × Nat
    | [], n => ([], n)
    | (k, v) :: r, n =>
      ((k, (deepTmp v n).1) :: (deepTmpKids r (deepTmp v n).2).1, (deepTmpKids r (deepTmp v n).2).2)
end

def deepTmpL : List HV → Nat → List HV × Nat
  | [], n => ([], n)
  | v :: r, n => ((deepTmp v n).1 :: (deepTmpL r (deepTmp v n).2).1, (deepTmpL r (deepTmp v n).2).2)

mutual
  /-- the copy `_insert` stores: new objects of the store -/
  def deepSt : HV → Nat → HV × Nat
    | .atom v, n => (.atom v, n)
    | .node _ d kids, n => (.node (.st n) d (deepStKids kids (n + 1)).1, (deepStKids kids (n + 1)).2)
  def deepStKids : Kids → Nat → Kids × Nat
    | [], n => ([], n)
    | (k, v) :: r, n =>
      ((k, (deepSt v n).1) :: (deepStKids r (deepSt v n).2).1, (deepStKids r (deepSt v n).2).2)
end

/-- `dict(doc)`: a new top-level object around the SAME children -/
def shallowTmp : HV → Nat → HV × Nat
  | .atom v, n => (.atom v, n)
  | .node _ d kids, n => (.node (.tmp n) d kids, n + 1)

/-- how a value is handed on -/
inductive Copy where
  | deep | shallow | none
  deriving DecidableEq, Repr, Inhabited

def Copy.run : Copy → HV → Nat → HV × Nat
  | .deep => deepTmp
  | .shallow => shallowTmp
  | .none => fun v n => (v, n)

def Copy.runL (c : Copy) : List HV → Nat → List HV × Nat
  | [], n => ([], n)
  | v :: r, n => ((c.run v n).1 :: (Copy.runL c r (c.run v n).2).1, (Copy.runL c r (c.run v n).2).2)

/-! ### the edit discipline -/

/-- an array in expression position: a new list of its evaluated items, or (formerly) the
    pipeline's list handed out as a constant by some copy -/
inductive ArrConst where
  | evaluated
  | copied (c : Copy)
  deriving DecidableEq, Repr, Inhabited

/-- The facts about mongomock/aggregate.py + collection.py the model depends on. -/
structure Disc where
  /-- `aggregate`: how the stored documents enter the pipeline (`self.find()` → deep) -/
  source : Copy
  /-- `aggregate`: how the caller's pipeline object reaches the stages (every dict and list
      rebuilt → deep; `.none` = the stages are handed the caller's own object) -/
  pipelineCopy : Copy
  /-- `$lookup`: how the foreign documents enter the result (`foreign_collection.find` → deep) -/
  lookupForeign : Copy
  /-- `$lookup` assigns `doc[as]` on the input document (true) rather than on a copy -/
  lookupWritesInput : Bool
  /-- `$addFields`: the top-level copy (`dict(doc)` → shallow) -/
  addFieldsTop : Copy
  /-- `$addFields` on a dotted name: how the sub-document found at each level is taken before it
      is written (`copy.copy` → shallow; `.none` = the shared object itself is written into) -/
  addFieldsNested : Copy
  /-- `$addFields` on a dotted name through an array: how the value reaches each item
      (`copy.deepcopy(new_value)` → deep; `.none` = all items share the one computed value) -/
  addFieldsItemValue : Copy
  /-- `aggregate` of a `tz_aware` collection: how the returned documents are handed out
      (`make_datetime_timezone_aware_in_document(list(results))` rebuilds every dict and list →
      deep) -/
  resultCopy : Copy
  /-- `$unwind`: the per-element copy of the document (`copy.deepcopy` → deep) -/
  unwindDoc : Copy
  /-- `$unwind`: the array element (or the value that is no array) an output document holds
      (`.deep`: the one of the output document's own deep copy; `.none`: the ORIGINAL one,
      shared with the stage's input) -/
  unwindItem : Copy
  /-- `$unwind` with `includeArrayIndex`: how a document KEPT by `preserveNullAndEmptyArrays` is
      taken before the (null) index is written into it (`copy.deepcopy` → deep) -/
  unwindIndexed : Copy
  /-- `$sample` removes `size` from the option dict it was given (`options.pop`) -/
  samplePops : Bool
  /-- `$facet` hands every branch the same list (true) rather than a deep copy per branch -/
  facetSharesInput : Bool
  /-- `$literal`: how the operand (an object of the pipeline) is handed out -/
  literal : Copy
  /-- an array in expression position -/
  arrayConst : ArrConst
  /-- `$out`: `insert_many` stores copies of the documents (deep), not the objects -/
  outStores : Copy
  deriving DecidableEq, Repr, Inhabited

/-- the discipline of /repo as read (see the header); `Generated.AggDiscipline` is compared with it -/
def Disc.reference : Disc :=
  { source := .deep, pipelineCopy := .deep, lookupForeign := .deep, lookupWritesInput := true, addFieldsTop := .shallow,
    addFieldsNested := .shallow, addFieldsItemValue := .deep, resultCopy := .deep, unwindDoc := .deep, unwindItem := .deep, unwindIndexed := .deep,
    samplePops := false,
    facetSharesInput := false, literal := .deep, arrayConst := .evaluated, outStores := .deep }

/-- the discipline before the repairs (kept for the regression witnesses of Props/C16.lean) -/
def Disc.unrepaired : Disc :=
  { Disc.reference with samplePops := true, facetSharesInput := true, literal := .none,
                        arrayConst := .copied .none, addFieldsNested := .none, unwindItem := .none,
                        pipelineCopy := .none }

/-- the reference discipline WITHOUT the per-branch copy of `$facet`: what the stages' own
    discipline gives when every sub-pipeline is handed the same list -/
def Disc.sharing : Disc := { Disc.reference with facetSharesInput := true }

/-! ### the world -/

structure World where
  colls : List (String × List HV)
  /-- index names per collection (the catalog entries an aggregation could disturb) -/
  idx : List (String × List String)
  /-- the caller's pipeline object -/
  pipe : HV
  /-- the pipeline the stages read: the call's rebuilt copy of `pipe` (or `pipe` itself under a
      discipline that hands the caller's object on) -/
  cpipe : HV
  /-- lists kept alive by enclosing `$facet`s: the stage's input, then the finished branches -/
  stack : List (List HV)
  /-- `in_collection` of the running stage -/
  work : List HV
  /-- the list the running stage is building -/
  out : List HV
  nextTmp : Nat
  nextSt : Nat
  deriving Inhabited

mutual
  /-- rewrite the children of the object `id` wherever it occurs -/
  def mutate (id : Id) (f : Kids → Kids) : HV → HV
    | .atom v => .atom v
    | .node i d kids => if i = id then .node i d (f kids) else .node i d (mutateKids id f kids)
  def mutateKids (id : Id) (f : Kids → Kids) : Kids → Kids
    | [] => []
    | (k, v) :: r => (k, mutate id f v) :: mutateKids id f r
end

def mutateL (id : Id) (f : Kids → Kids) : List HV → List HV
  | [] => []
  | v :: r => mutate id f v :: mutateL id f r

def mutateLL (id : Id) (f : Kids → Kids) : List (List HV) → List (List HV)
  | [] => []
  | l :: r => mutateL id f l :: mutateLL id f r

def mutateColls (id : Id) (f : Kids → Kids) : List (String × List HV) → List (String × List HV)
  | [] => []
  | (n, l) :: r => (n, mutateL id f l) :: mutateColls id f r

/-- an in-place write: the object is rewritten everywhere -/
def World.mutate (id : Id) (f : Kids → Kids) (w : World) : World :=
  { w with colls := mutateColls id f w.colls, pipe := AggHeap.mutate id f w.pipe,
           cpipe := AggHeap.mutate id f w.cpipe,
           stack := mutateLL id f w.stack, work := mutateL id f w.work, out := mutateL id f w.out }

def getColl (name : String) : List (String × List HV) → List HV
  | [] => []
  | (n, l) :: r => if n = name then l else getColl name r

def setColl (name : String) (docs : List HV) : List (String × List HV) → List (String × List HV)
  | [] => [(name, docs)]
  | (n, l) :: r => if n = name then (n, docs) :: r else (n, l) :: setColl name docs r

/-! ### pipelines as the model reads them -/

/-- expressions, as far as identity is concerned -/
inductive AExpr where
  | const (v : Val)
  | field (path : List String)           -- "$a.b": the sub-object itself
  | root                                  -- "$$ROOT": the document itself
  | lit (loc : List Nat)                  -- `$literal`: the pipeline's object at `loc`, handed out by `Disc.literal`
  | carr (loc : List Nat) (items : List (String × AExpr))  -- [e, …]: by `Disc.arrayConst` a new list of the evaluated items, or the pipeline's list at `loc`
  | obj (kids : List (String × AExpr))    -- {k: e, …}: a new dict
  | unmodelled
  deriving Inhabited

inductive Stage where
  | select (op : String) (opts : Val)     -- $match / $sort / $skip / $limit
  | sample (loc : List Nat)               -- position of the option dict inside the pipeline object
  | addFields (fields : List (String × AExpr))
  | project (noId : Bool) (incl : List String) (computed : List (String × AExpr))
  | unwind (key : String) (preserve : Bool) (idx : Option (List String))   -- idx: includeArrayIndex, split at the dots
  | lookup (frm loc frn as : String)
  | replaceRoot (e : AExpr)
  | count (name : String)
  | facet (branches : List (String × List Stage))
  | out (target : String)
  | fail (e : Err)
  deriving Inhabited

/-- value-level decisions that do not concern identity -/
structure Sem where
  /-- `$match/$sort/$skip/$limit`: positions of the input handed on, in output order -/
  sel : String → Val → List Val → R (List Nat)
  /-- `$sample`: the shuffled positions `0 … len-1` -/
  shuffle : Nat → List Nat
  /-- `$lookup`: positions of the foreign documents that join a document -/
  joins : String → String → Val → List Val → R (List Nat)
  /-- `$out`/insert: is the `_id` already taken -/
  dup : Val → List Val → Bool

/-! ### expression evaluation -/

/-- `helpers.get_value_by_dot` through dicts (`none` = KeyError); a list on the way is not modelled -/
def getPath : List String → HV → R (Option HV)
  | [], v => .ok (some v)
  | k :: p, .node _ true kids =>
    match kget k kids with
    | some c => getPath p c
    | none => .ok none
  | _ :: _, .node _ false _ => .error .unmodelled
  | _ :: _, .atom _ => .ok none

mutual
  /-- `_parse_expression(e, doc, ignore_missing_keys=True)`: `none` = KeyError -/
  def evalExpr (D : Disc) (pipe doc : HV) : AExpr → Nat → R (Option HV × Nat)
    | .const v, n => .ok (some (.atom v), n)
    | .field p, n => (getPath p doc).map (fun r => (r, n))
    | .root, n => .ok (some doc, n)
    | .lit loc, n =>
      match subAt loc pipe with
      | some v => .ok (some (D.literal.run v n).1, (D.literal.run v n).2)
      | none => .ok (none, n)
    | .carr loc items, n =>
      match D.arrayConst with
      | .copied c =>
        match subAt loc pipe with
        | some v => .ok (some (c.run v n).1, (c.run v n).2)
        | none => .ok (none, n)
      | .evaluated =>
        match evalKids D pipe doc true items (n + 1) with
        | .ok (ks, n') => .ok (some (.node (.tmp n) false ks), n')
        | .error e => .error e
    | .obj kids, n =>
      match evalKids D pipe doc false kids (n + 1) with
      | .ok (ks, n') => .ok (some (.node (.tmp n) true ks), n')
      | .error e => .error e
    | .unmodelled, _ => .error .unmodelled
  /-- the fields of a document constructor (a missing value: the field is skipped) or the items
      of an array (`nullMissing`: a missing value gives a null item) -/
  def evalKids (D : Disc) (pipe doc : HV) (nullMissing : Bool) : List (String × AExpr) → Nat → R (Kids × Nat)
    | [], n => .ok ([], n)
    | (k, e) :: r, n =>
      match evalExpr D pipe doc e n with
      | .error err => .error err
      | .ok (none, n') =>
        if nullMissing then
          match evalKids D pipe doc nullMissing r n' with
          | .ok (ks, n'') => .ok ((k, .atom .null) :: ks, n'')
          | .error err => .error err
        else evalKids D pipe doc nullMissing r n'
      | .ok (some v, n') =>
        match evalKids D pipe doc nullMissing r n' with
        | .ok (ks, n'') => .ok ((k, v) :: ks, n'')
        | .error err => .error err
end

/-! ### `$addFields`: the walk along a dotted name -/

/-- `{p1: {p2: … v}}` out of new dicts -/
def nestNew : List String → HV → Nat → HV × Nat
  | [], v, n => (v, n)
  | k :: r, v, n => (.node (.tmp n) true [(k, (nestNew r v (n + 1)).1)], (nestNew r v (n + 1)).2)

/-- `addFieldsNested = .none` (the former discipline): below the top level `cur` is an object that
    was already there (shared with the input document): writes go through `World.mutate`.
    Returns the write to perform. -/
def deepTarget : HV → List String → HV → Nat → Option (Id × String × HV × Nat)
  | _, [], _, _ => none
  | .node id true _, [k], v, n => some (id, k, v, n)
  | .node id true kids, k :: r, v, n =>
    match kget k kids with
    | some (.node i true ks) => deepTarget (.node i true ks) r v n
    | _ => some (id, k, (nestNew r v n).1, (nestNew r v n).2)
  | _, _, _, _ => none

/-- does the written value contain the object written into (Python would build a cycle) -/
def wouldCycle (id : Id) (v : HV) : Bool := v.ids.contains id

/-- the former discipline: set `path := v` on the `j`-th document under construction, descending
    into the sub-documents that are there -/
def setOutShared (w : World) (j : Nat) (path : List String) (v : HV) : R World :=
  match w.out[j]?, path with
  | some top, [k] => .ok { w with out := w.out.set j (top.setLocal k v) }
  | some top, k :: r =>
    match top.get k with
    | some (.node i true ks) =>
      match deepTarget (.node i true ks) r v w.nextTmp with
      | some (id, key, val, n') =>
        if wouldCycle id val then .error .unmodelled
        else .ok (({ w with nextTmp := n' }).mutate id (kset key val))
      | none => .ok w
    | _ => .ok { w with out := w.out.set j (top.setLocal k (nestNew r v w.nextTmp).1),
                         nextTmp := (nestNew r v w.nextTmp).2 }
  | _, _ => .ok w

/-- `x[p1][p2]…[pn] = v` inside an object `x` one holds directly (a private, just allocated
    object): at every level the sub-document found there is taken by `c` (`$addFields`: a
    `copy.copy`; `.none`: the sub-document itself, which is right only where it is private too —
    inside a deep copy), anything that is not a document is replaced by new dicts -/
def setPathCopy (c : Copy) (v : HV) : List String → HV → Nat → HV × Nat
  | [], x, n => (x, n)
  | [k], x, n => (x.setLocal k v, n)
  | k :: k2 :: r, x, n =>
    match x.get k with
    | some (.node i true ks) =>
      (x.setLocal k (setPathCopy c v (k2 :: r) (c.run (.node i true ks) n).1 (c.run (.node i true ks) n).2).1,
       (setPathCopy c v (k2 :: r) (c.run (.node i true ks) n).1 (c.run (.node i true ks) n).2).2)
    | _ => (x.setLocal k (nestNew (k2 :: r) v n).1, (nestNew (k2 :: r) v n).2)

mutual
  /-- `_add_field(value, parts, new)`: the value with `new` at the dotted path below it.  Nothing
      that is there is written: a document on the path is replaced by a new dict around the same
      fields, an array by a new list of its rebuilt items — each item with its own copy (`ci`) of
      `new` —, anything else by new documents. -/
  def addFieldV (ci : Copy) (new : HV) : HV → List String → Nat → HV × Nat
    | _, [], n => (new, n)
    | .node _ false items, p :: ps, n =>
      (.node (.tmp n) false (addFieldItems ci new items (p :: ps) (n + 1)).1,
       (addFieldItems ci new items (p :: ps) (n + 1)).2)
    | .node _ true kids, p :: ps, n =>
      (.node (.tmp n) true (addFieldKey ci new p ps kids (n + 1)).1,
       (addFieldKey ci new p ps kids (n + 1)).2)
    | .atom _, p :: ps, n => nestNew (p :: ps) new n
  /-- every item of an array, each with its own copy of the value -/
  def addFieldItems (ci : Copy) (new : HV) : Kids → List String → Nat → Kids × Nat
    | [], _, n => ([], n)
    | (k, it) :: r, ps, n =>
      ((k, (addFieldV ci (ci.run new n).1 it ps (ci.run new n).2).1) ::
         (addFieldItems ci new r ps (addFieldV ci (ci.run new n).1 it ps (ci.run new n).2).2).1,
       (addFieldItems ci new r ps (addFieldV ci (ci.run new n).1 it ps (ci.run new n).2).2).2)
  /-- `value[p] = _add_field(value.get(p), ps, new)` on the fields of the copied document: an
      existing key keeps its position, a new key is appended -/
  def addFieldKey (ci : Copy) (new : HV) (p : String) (ps : List String) : Kids → Nat → Kids × Nat
    | [], n => ([(p, (nestNew ps new n).1)], (nestNew ps new n).2)
    | (k, v) :: r, n =>
      if k = p then ((k, (addFieldV ci new v ps n).1) :: r, (addFieldV ci new v ps n).2)
      else ((k, v) :: (addFieldKey ci new p ps r n).1, (addFieldKey ci new p ps r n).2)
end

/-- `out_doc[p] = _add_field(out_doc.get(p), ps, v)` on a document one holds directly -/
def addFieldTop (ci : Copy) (v : HV) (path : List String) (top : HV) (n : Nat) : HV × Nat :=
  match path, top with
  | p :: ps, .node id true kids => (.node id true (addFieldKey ci v p ps kids n).1, (addFieldKey ci v p ps kids n).2)
  | _, _ => (top, n)

/-- set `path := v` on the `j`-th document under construction: the document is a new object of
    the stage, and so is every level below it that the name goes through -/
def setOut (D : Disc) (w : World) (j : Nat) (path : List String) (v : HV) : R World :=
  match D.addFieldsNested with
  | .none => setOutShared w j path v
  | _ =>
    match w.out[j]? with
    | some top => .ok { w with out := w.out.set j (addFieldTop D.addFieldsItemValue v path top w.nextTmp).1,
                               nextTmp := (addFieldTop D.addFieldsItemValue v path top w.nextTmp).2 }
    | none => .ok w

/-- one field of `$addFields` over all documents (inner loop of 1557-1569) -/
def addField (D : Disc) (w : World) (path : List String) (e : AExpr) : Nat → Nat → R World
  | 0, _ => .ok w
  | fuel + 1, j =>
    match w.work[j]? with
    | none => .ok w
    | some inDoc =>
      match evalExpr D w.cpipe inDoc e w.nextTmp with
      | .error err => .error err
      | .ok (none, n') => addField D { w with nextTmp := n' } path e fuel (j + 1)
      | .ok (some v, n') =>
        match setOut D { w with nextTmp := n' } j path v with
        | .ok w' => addField D w' path e fuel (j + 1)
        | .error err => .error err
termination_by structural fuel => fuel

def addFieldsAll (D : Disc) (w : World) : List (String × AExpr) → R World
  | [] => .ok w
  | (f, e) :: r =>
    match addField D w (splitDots f) e w.work.length 0 with
    | .ok w' => addFieldsAll D w' r
    | .error err => .error err

/-! ### the other stages -/

def pick (l : List HV) : List Nat → List HV
  | [] => []
  | i :: r => match l[i]? with
    | some v => v :: pick l r
    | none => pick l r

/-- `$lookup` (1154-1164): `doc[as] = [copies of the joined foreign documents]` -/
def lookupAll (D : Disc) (sem : Sem) (frm loc frn as : String) (w : World) : Nat → Nat → R World
  | 0, _ => .ok w
  | fuel + 1, j =>
    match w.work[j]? with
    | none => .ok w
    | some doc =>
      match sem.joins loc frn doc.toVal (toVals (getColl frm w.colls)) with
      | .error e => .error e
      | .ok idxs =>
        let cp := D.lookupForeign.runL (pick (getColl frm w.colls) idxs) (w.nextTmp + 1)
        let lst : HV := .node (.tmp w.nextTmp) false (cp.1.map (fun v => ("", v)))
        match doc.id? with
        | none => .error .unmodelled
        | some id =>
          if D.lookupWritesInput then
            lookupAll D sem frm loc frn as (({ w with nextTmp := cp.2 }).mutate id (kset as lst)) fuel (j + 1)
          else
            lookupAll D sem frm loc frn as
              { w with nextTmp := cp.2 + 1,
                       work := w.work.set j ((shallowTmp doc cp.2).1.setLocal as lst) } fuel (j + 1)
termination_by structural fuel => fuel

def hasDup : List Id → Bool
  | [] => false
  | i :: r => r.contains i || hasDup r

/-- the model follows an `includeArrayIndex` only under a discipline that writes it into deep
    copies (there the sub-documents a dotted index name goes through are private to the copy) -/
def Disc.indexPrivate (D : Disc) : Bool :=
  match D.unwindDoc, D.unwindIndexed with
  | .deep, .deep => true
  | _, _ => false

/-- `_set_index(doc, index)` on a document that is a deep copy: the sub-documents a dotted name
    goes through are entered where they are documents and created where they are not -/
def setIndex (idx : Option (List String)) (v : Val) (x : HV) (n : Nat) : HV × Nat :=
  match idx with
  | none => (x, n)
  | some p => setPathCopy .none (.atom v) p x n

/-- `_preserved(doc)`: a document kept although it has nothing to unwind is handed on as it is —
    unless an index is asked for: then a copy of it gets a null index -/
def keptDoc (D : Disc) (idx : Option (List String)) (doc : HV) (n : Nat) : HV × Nat :=
  match idx with
  | none => (doc, n)
  | some p => setPathCopy .none (.atom .null) p (D.unwindIndexed.run doc n).1 (D.unwindIndexed.run doc n).2

/-- the `i`-th element of the array at `key` of a document -/
def itemAt (key : String) (i : Nat) (x : HV) : Option HV :=
  match x.get key with
  | some (.node _ false items) => (items[i]?).map (·.2)
  | _ => none

/-- the element the `i`-th output document holds: the one of its own copy `c`, or (former
    discipline) the original `item` -/
def unwoundItem (D : Disc) (key : String) (i : Nat) (c item : HV) : HV :=
  match D.unwindItem with
  | .none => item
  | _ => (itemAt key i c).getD item

/-- the value that is no array, as the one output document holds it -/
def unwoundValue (D : Disc) (key : String) (c other : HV) : HV :=
  match D.unwindItem with
  | .none => other
  | _ => (c.get key).getD other

/-- one output document per element: a copy of the document holding its element alone, with the
    element's position when an index is asked for -/
def unwindItems (D : Disc) (key : String) (idx : Option (List String)) (doc : HV) :
    Kids → Nat → Nat → List HV × Nat
  | [], _, n => ([], n)
  | (_, item) :: r, i, n =>
    ((setIndex idx (.int i) ((D.unwindDoc.run doc n).1.setLocal key
        (unwoundItem D key i (D.unwindDoc.run doc n).1 item)) (D.unwindDoc.run doc n).2).1 ::
      (unwindItems D key idx doc r (i + 1)
        (setIndex idx (.int i) ((D.unwindDoc.run doc n).1.setLocal key
          (unwoundItem D key i (D.unwindDoc.run doc n).1 item)) (D.unwindDoc.run doc n).2).2).1,
     (unwindItems D key idx doc r (i + 1)
        (setIndex idx (.int i) ((D.unwindDoc.run doc n).1.setLocal key
          (unwoundItem D key i (D.unwindDoc.run doc n).1 item)) (D.unwindDoc.run doc n).2).2).2)

/-- an index name that goes through the unwound field itself is followed INTO what the output
    document holds there: private to the output document when that is its own copy's; under the
    former discipline it is an object of the stage's input, and the model does not follow -/
def indexEntersInput (D : Disc) (key : String) (idx : Option (List String)) (docs : List HV) : Bool :=
  match idx with
  | some (k :: _ :: _) =>
    k == key && (match D.unwindItem with
      | .none => docs.any (fun d => match d.get key with
          | some (.node ..) => true
          | _ => false)
      | _ => false)
  | _ => false

/-- `$unwind` for a top-level field -/
def unwindDoc (D : Disc) (key : String) (preserve : Bool) (idx : Option (List String)) (doc : HV)
    (n : Nat) : List HV × Nat :=
  match doc.get key with
  | none => if preserve then ([(keptDoc D idx doc n).1], (keptDoc D idx doc n).2) else ([], n)
  | some (.atom .null) => if preserve then ([(keptDoc D idx doc n).1], (keptDoc D idx doc n).2) else ([], n)
  | some (.node _ false []) =>
    if preserve then
      ([(keptDoc D idx ((D.unwindDoc.run doc n).1.delLocal key) (D.unwindDoc.run doc n).2).1],
       (keptDoc D idx ((D.unwindDoc.run doc n).1.delLocal key) (D.unwindDoc.run doc n).2).2)
    else ([], n)
  | some (.node _ false items) => unwindItems D key idx doc items 0 n
  | some other =>
    -- a value that is no array is one element without a position
    ([(setIndex idx .null ((D.unwindDoc.run doc n).1.setLocal key
          (unwoundValue D key (D.unwindDoc.run doc n).1 other)) (D.unwindDoc.run doc n).2).1],
     (setIndex idx .null ((D.unwindDoc.run doc n).1.setLocal key
          (unwoundValue D key (D.unwindDoc.run doc n).1 other)) (D.unwindDoc.run doc n).2).2)

def unwindAll (D : Disc) (key : String) (preserve : Bool) (idx : Option (List String)) :
    List HV → Nat → List HV × Nat
  | [], n => ([], n)
  | d :: r, n =>
    let a := unwindDoc D key preserve idx d n
    let b := unwindAll D key preserve idx r a.2
    (a.1 ++ b.1, b.2)

/-- `_project_by_spec` for top-level names, inclusion: a new dict around the same values -/
def projKeep (incl : List String) : Kids → Kids
  | [] => []
  | (k, v) :: r => if incl.contains k then (k, v) :: projKeep incl r else projKeep incl r

def projectDoc (D : Disc) (pipe : HV) (noId : Bool) (incl : List String) (computed : List (String × AExpr))
    (doc : HV) (n : Nat) : R (HV × Nat) :=
  match doc with
  | .node _ true kids =>
    match evalKids D pipe doc false computed (n + 1) with
    | .error e => .error e
    | .ok (ks, n') =>
      let keep := projKeep (if noId then incl else incl ++ ["_id"]) kids
      .ok (.node (.tmp n) true (ks.foldl (fun acc kv => kset kv.1 kv.2 acc) keep), n')
  | _ => .error .unmodelled

def projectAll (D : Disc) (pipe : HV) (noId : Bool) (incl : List String) (computed : List (String × AExpr)) :
    List HV → Nat → R (List HV × Nat)
  | [], n => .ok ([], n)
  | d :: r, n =>
    match projectDoc D pipe noId incl computed d n with
    | .error e => .error e
    | .ok (v, n') =>
      match projectAll D pipe noId incl computed r n' with
      | .ok (vs, n'') => .ok (v :: vs, n'')
      | .error e => .error e

def replaceRootAll (D : Disc) (pipe : HV) (e : AExpr) : List HV → Nat → R (List HV × Nat)
  | [], n => .ok ([], n)
  | d :: r, n =>
    match evalExpr D pipe d e n with
    | .error err => .error err
    | .ok (some (.node i true ks), n') =>
      match replaceRootAll D pipe e r n' with
      | .ok (vs, n'') => .ok (.node i true ks :: vs, n'')
      | .error err => .error err
    | .ok _ => .error .opFail

/-- `$out` (1573-1580) + `insert_many`: every document gets an `_id` if it has none (written into
    the passed object), a copy is stored; a duplicate `_id` stops the batch with an error. -/
def outInsert (D : Disc) (sem : Sem) (target : String) (w : World) : Nat → Nat → World × Option Err
  | 0, _ => (w, none)
  | fuel + 1, j =>
    match w.work[j]? with
    | none => (w, none)
    | some doc =>
      match doc with
      | .node id true kids =>
        let w1 : World := if (kget "_id" kids).isSome then w
                          else w.mutate id (kset "_id" (.atom (.oid (1000 + w.nextSt))))
        match w1.work[j]? with
        | some (.node id1 true kids1) =>
          let key := ((kget "_id" kids1).map HV.toVal).getD .null
          let have_ := (getColl target w1.colls).map (fun d => ((d.get "_id").map HV.toVal).getD .null)
          if sem.dup key have_ then (w1, some .bulk)
          else
            let c := match D.outStores with
              | .deep => deepSt (.node id1 true kids1) w1.nextSt
              | _ => (.node id1 true kids1, w1.nextSt)
            outInsert D sem target
              { w1 with colls := setColl target (getColl target w1.colls ++ [c.1]) w1.colls,
                        nextSt := c.2 } fuel (j + 1)
        | _ => (w1, some .other)
      | _ => (w, some .typeErr)
termination_by structural fuel => fuel

def dropIdx (name : String) : List (String × List String) → List (String × List String)
  | [] => []
  | (n, l) :: r => if n = name then r else (n, l) :: dropIdx name r

def outStageW (D : Disc) (sem : Sem) (target : String) (w : World) : World × Option Err :=
  let w0 : World := if (getColl target w.colls).isEmpty then w
                    else { w with colls := setColl target [] w.colls, idx := dropIdx target w.idx }
  outInsert D sem target w0 w0.work.length 0

def outStage (D : Disc) (sem : Sem) (target : String) (w : World) : R World :=
  match outStageW D sem target w with
  | (w', none) => .ok w'
  | (_, some e) => .error e

/-- `$sample` (1354-1364) -/
def sampleStage (D : Disc) (sem : Sem) (loc : List Nat) (w : World) : R World :=
  match subAt loc w.cpipe with
  | some (.node id true kids) =>
    let w' := if D.samplePops then w.mutate id (kdel "size") else w
    match kget "size" kids with
    | some (.atom (.int n)) =>
      if (kdel "size" kids).isEmpty then
        if n < 0 then .error .unmodelled
        else .ok { w' with work := (pick w'.work (sem.shuffle w'.work.length)).take n.toNat }
      else .error .opFail
    | some (.atom .null) | none => .error .opFail
    | some _ => .error .unmodelled
  | _ => .error .opFail

/-- the one document `$facet` returns: `{title_j: outs_j}`; the dict is `tmp n`, the lists follow -/
def facetDoc (n : Nat) (titles : List String) (outs : List (List HV)) : HV :=
  .node (.tmp n) true
    (((titles.zip outs).zipIdx).map (fun (tl, i) =>
      (tl.1, HV.node (.tmp (n + 1 + i)) false (tl.2.map (fun v => ("", v))))))

mutual
  def runStage (D : Disc) (sem : Sem) (w : World) : Stage → R World
    | .select op opts =>
      match sem.sel op opts (toVals w.work) with
      | .ok idxs => .ok { w with work := pick w.work idxs }
      | .error e => .error e
    | .sample loc => sampleStage D sem loc w
    | .addFields fields =>
      if fields.isEmpty then .error .opFail
      else
        let cp := D.addFieldsTop.runL w.work w.nextTmp
        match addFieldsAll D { w with out := cp.1, nextTmp := cp.2 } fields with
        | .ok w' => .ok { w' with work := w'.out, out := [] }
        | .error e => .error e
    | .project noId incl computed =>
      match projectAll D w.cpipe noId incl computed w.work w.nextTmp with
      | .ok (vs, n) => .ok { w with work := vs, nextTmp := n }
      | .error e => .error e
    | .unwind key preserve idx =>
      -- `copy.deepcopy` keeps the sharing INSIDE a document (memo); `deepTmp` does not: a document
      -- in which one object occurs twice is outside the model
      if w.work.any (fun d => hasDup d.ids) then .error .unmodelled
      else if idx.isSome && !D.indexPrivate then .error .unmodelled
      else if indexEntersInput D key idx w.work then .error .unmodelled
      else
        let r := unwindAll D key preserve idx w.work w.nextTmp
        .ok { w with work := r.1, nextTmp := r.2 }
    | .lookup frm loc frn as => lookupAll D sem frm loc frn as w w.work.length 0
    | .replaceRoot e =>
      match replaceRootAll D w.cpipe e w.work w.nextTmp with
      | .ok (vs, n) => .ok { w with work := vs, nextTmp := n }
      | .error err => .error err
    | .count name =>
      -- no input document: no output document (MongoDB's `$count`)
      if w.work.isEmpty then .ok { w with work := [] }
      else
        .ok { w with work := [.node (.tmp w.nextTmp) true [(name, .atom (.int w.work.length))]],
                     nextTmp := w.nextTmp + 1 }
    | .facet branches =>
      match runBranches D sem { w with stack := w.work :: w.stack } branches with
      | .ok w' =>
        -- stack = input :: out_k … out_1 :: rest
        let outs := (w'.stack.drop 1).take branches.length
        .ok { w' with work := [facetDoc w'.nextTmp (branches.map (·.1)) outs.reverse],
                      stack := w'.stack.drop (1 + branches.length),
                      nextTmp := w'.nextTmp + 1 + branches.length }
      | .error e => .error e
    | .out target => outStage D sem target w
    | .fail e => .error e
  def runStages (D : Disc) (sem : Sem) (w : World) : List Stage → R World
    | [] => .ok w
    | s :: r =>
      match runStage D sem w s with
      | .ok w' => runStages D sem w' r
      | .error e => .error e
  /-- every branch starts from the head of the stack — the input list AS IT IS NOW — or from a
      deep copy of it.  `copy.deepcopy(in_collection)` keeps the sharing inside the list (memo),
      `deepTmp` does not: an input in which one object occurs twice is outside the model. -/
  def runBranches (D : Disc) (sem : Sem) (w : World) : List (String × List Stage) → R World
    | [] => .ok w
    | (_, sub) :: r =>
      match w.stack with
      | [] => .error .other
      | input :: _ =>
        if !D.facetSharesInput && hasDup (idsL input) then .error .unmodelled else
        let start := if D.facetSharesInput then (input, w.nextTmp) else Copy.deep.runL input w.nextTmp
        match runStages D sem { w with work := start.1, nextTmp := start.2 } sub with
        | .ok w' =>
          match w'.stack with
          | input' :: rest' => runBranches D sem { w' with stack := input' :: w'.work :: rest' } r
          | [] => .error .other
        | .error e => .error e
end

/-! ### reading the pipeline object -/

def isDollar (s : String) : Bool := s.toList.head? == some '$'

mutual
  def parseExpr (loc : List Nat) : HV → AExpr
    | .atom (.str s) =>
      if s == "$$ROOT" || s == "$$CURRENT" then .root
      else if (s.toList.take 2) == ['$', '$'] then .unmodelled
      else if isDollar s then .field (splitDots (String.ofList (s.toList.drop 1)))
      else .const (.str s)
    | .atom v => .const v
    | .node _ false kids => .carr loc (parseExprKids loc 0 kids)
    | .node _ true [(k, v)] =>
      if k == "$literal" then .lit (loc ++ [0])
      else if isDollar k then .unmodelled
      else .obj [(k, parseExpr (loc ++ [0]) v)]
    | .node _ true kids =>
      if kids.any (fun kv => isDollar kv.1) then .unmodelled
      else .obj (parseExprKids loc 0 kids)
  def parseExprKids (loc : List Nat) (i : Nat) : Kids → List (String × AExpr)
    | [] => []
    | (k, v) :: r => (k, parseExpr (loc ++ [i]) v) :: parseExprKids loc (i + 1) r
end

def strOf : Option HV → Option String
  | some (.atom (.str s)) => some s
  | _ => none

/-- is the value of a `$project` field an inclusion flag (`value in (0, 1, True, False)`) -/
def projFlag : HV → Option Bool
  | .atom (.int 0) | .atom (.bool false) => some false
  | .atom (.int 1) | .atom (.bool true) => some true
  | _ => none

def parseProject (loc : List Nat) (kids : Kids) : Stage :=
  let idFlag := (kget "_id" kids).bind projFlag
  let rest := kids.zipIdx.filter (fun kvi => kvi.1.1 != "_id")
  if (kget "_id" kids).isSome && idFlag.isNone then .fail .unmodelled
  else if rest.isEmpty then .fail .unmodelled
  else if rest.any (fun kvi => projFlag kvi.1.2 == some false) then .fail .unmodelled
  else if rest.any (fun kvi => (splitDots kvi.1.1).length != 1) then .fail .unmodelled
  else if rest.any (fun kvi => match kvi.1.2 with
      | .atom (.int _) | .atom (.bool _) | .atom .null | .atom (.dbl ..) => projFlag kvi.1.2 == none
      | .atom (.str s) => s == ""
      | .node _ _ ks => ks.isEmpty
      | _ => false) then .fail .unmodelled     -- falsy computed values switch the mode: not modelled
  else
    .project (idFlag == some false)
      ((rest.filter (fun kvi => projFlag kvi.1.2 == some true)).map (·.1.1))
      ((rest.filter (fun kvi => projFlag kvi.1.2 == none)).map
        (fun kvi => (kvi.1.1, parseExpr (loc ++ [kvi.2]) kvi.1.2)))

/-- `options.get('includeArrayIndex')`: `some none` = no index (absent or falsy), `none` = outside
    the model: an index name that is no string or a `$`-name -/
def parseIndex : Option HV → Option (Option (List String))
  | none => some none
  | some (.atom .null) => some none
  | some (.atom (.str s)) =>
    if s == "" then some none
    else if isDollar s then none
    else some (some (splitDots s))
  | some _ => none

def parseUnwind : HV → Stage
  | .atom (.str s) =>
    if isDollar s && (splitDots s).length == 1 then .unwind (String.ofList (s.toList.drop 1)) false none
    else .fail .unmodelled
  | .node _ true kids =>
    match kget "path" kids with
    | some (.atom (.str s)) =>
      if kids.any (fun kv => kv.1 != "path" && kv.1 != "preserveNullAndEmptyArrays" &&
                             kv.1 != "includeArrayIndex") then .fail .unmodelled
      else if isDollar s && (splitDots s).length == 1 then
        match parseIndex (kget "includeArrayIndex" kids) with
        | some idx =>
          .unwind (String.ofList (s.toList.drop 1))
            (match kget "preserveNullAndEmptyArrays" kids with
             | some v => v.toVal.truthy
             | none => false) idx
        | none => .fail .unmodelled
      else .fail .unmodelled
    | _ => .fail .unmodelled
  | _ => .fail .unmodelled

def parseLookup (kids : Kids) : Stage :=
  match strOf (kget "from" kids), strOf (kget "localField" kids), strOf (kget "foreignField" kids),
        strOf (kget "as" kids) with
  | some f, some l, some g, some a =>
    if kids.length != 4 || isDollar l || isDollar g || isDollar a || (splitDots a).length != 1 then
      .fail .unmodelled
    else .lookup f l g a
  | _, _, _, _ => .fail .unmodelled

mutual
  /-- one stage dict `{op: options}` at position `loc` of the pipeline object -/
  def parseStage (loc : List Nat) : HV → Stage
    | .node _ true [(op, opts)] =>
      if op == "$match" || op == "$sort" || op == "$skip" || op == "$limit" then .select op opts.toVal
      else if op == "$sample" then .sample (loc ++ [0])
      else if op == "$addFields" || op == "$set" then
        match opts with
        | .node _ true kids => .addFields (parseExprKids (loc ++ [0]) 0 kids)
        | _ => .fail .unmodelled
      else if op == "$project" then
        match opts with
        | .node _ true kids => parseProject (loc ++ [0]) kids
        | _ => .fail .unmodelled
      else if op == "$unwind" then parseUnwind opts
      else if op == "$lookup" then
        match opts with
        | .node _ true kids => parseLookup kids
        | _ => .fail .unmodelled
      else if op == "$replaceRoot" then
        match opts with
        | .node _ true [(k, e)] =>
          if k == "newRoot" then .replaceRoot (parseExpr (loc ++ [0, 0]) e) else .fail .unmodelled
        | _ => .fail .unmodelled
      else if op == "$count" then
        match opts with
        | .atom (.str s) => if s == "" || isDollar s || (splitDots s).length != 1 then .fail .opFail else .count s
        | _ => .fail .opFail
      else if op == "$out" then
        match opts with
        | .atom (.str s) => .out s
        | _ => .fail .unmodelled
      else if op == "$facet" then
        match opts with
        | .node _ true kids => .facet (parseBranches (loc ++ [0]) 0 kids)
        | _ => .fail .unmodelled
      else .fail .unmodelled
    -- `process_pipeline`: a stage document with no or several operators is rejected
    | .node _ true _ => .fail .opFail
    | _ => .fail .unmodelled
  def parseStages (loc : List Nat) (i : Nat) : Kids → List Stage
    | [] => []
    | (_, s) :: r => parseStage (loc ++ [i]) s :: parseStages loc (i + 1) r
  def parseBranches (loc : List Nat) (i : Nat) : Kids → List (String × List Stage)
    | [] => []
    | (t, .node _ false subs) :: r => (t, parseStages (loc ++ [i]) 0 subs) :: parseBranches loc (i + 1) r
    | (t, _) :: r => (t, [.fail .unmodelled]) :: parseBranches loc (i + 1) r
end

def parsePipe : HV → List Stage
  | .node _ false kids => parseStages [] 0 kids
  | _ => [.fail .unmodelled]

/-! ### `Collection.aggregate` -/

/-- the persistent part of the world: what a later call can see -/
structure State where
  colls : List (String × List HV)
  idx : List (String × List String)
  pipe : HV
  nextSt : Nat
  deriving Inhabited

def State.world (D : Disc) (s : State) (coll : String) : World :=
  let pc := D.pipelineCopy.run s.pipe 0
  let src := D.source.runL (getColl coll s.colls) pc.2
  { colls := s.colls, idx := s.idx, pipe := s.pipe, cpipe := pc.1, stack := [], work := src.1,
    out := [], nextTmp := src.2, nextSt := s.nextSt }

def World.state (w : World) : State := ⟨w.colls, w.idx, w.pipe, w.nextSt⟩

/-- run explicit stages on a collection -/
def aggregateStages (D : Disc) (sem : Sem) (s : State) (coll : String) (stages : List Stage) : R World :=
  runStages D sem (s.world D coll) stages

/-- what the caller is handed: the working documents, or under `tz_aware` their rebuild -/
def handOut (D : Disc) (tz : Bool) (w : World) : List HV :=
  if tz then (D.resultCopy.runL w.work w.nextTmp).1 else w.work

/-- `db[coll].aggregate(pipe)` on a collection with `codec_options.tz_aware = tz` -/
def aggregateTz (D : Disc) (sem : Sem) (tz : Bool) (s : State) (coll : String) : R (List HV × State) :=
  match runStages D sem (s.world D coll) (parsePipe s.pipe) with
  | .ok w => .ok (handOut D tz w, w.state)
  | .error e => .error e

/-- `db[coll].aggregate(pipe)` where `pipe` is the caller's object held in the state: the stages
    are read off the object as it is NOW.  Result: the returned documents and the state after. -/
def aggregate (D : Disc) (sem : Sem) (s : State) (coll : String) : R (List HV × State) :=
  match aggregateStages D sem s coll (parsePipe s.pipe) with
  | .ok w => .ok (w.work, w.state)
  | .error e => .error e

/-- the state a failed call leaves behind is not returned by `aggregate`; `aggregateW` keeps it
    for the driver (a stage that raises has still done its writes) -/
def runStagesW (D : Disc) (sem : Sem) : World → List Stage → World × Option Err
  | w, [] => (w, none)
  | w, s :: r =>
    match runStage D sem w s with
    | .ok w' => runStagesW D sem w' r
    | .error e =>
      match s with
      | .out target => ((outStageW D sem target w).1, some e)
      | .sample loc =>
        match subAt loc w.cpipe with
        | some (.node id true _) => (if D.samplePops then w.mutate id (kdel "size") else w, some e)
        | _ => (w, some e)
      | _ => (w, some e)

/-- the simplest value-level decisions: keep everything, join everything, no duplicate keys
    (used by the witnesses of the theorems; the driver uses `Driver.C16.Sem.std`) -/
def Sem.trivial : Sem :=
  { sel := fun _ _ docs => .ok (List.range docs.length), shuffle := fun n => List.range n,
    joins := fun _ _ _ foreign => .ok (List.range foreign.length), dup := fun _ _ => false }

/-- what the caller can observe of a call: the returned values, the pipeline object and the
    collections afterwards (identities forgotten) -/
def observe (D : Disc) (sem : Sem) (s : State) (coll : String) :
    Option (List Val × Val × List (String × List Val)) :=
  match aggregate D sem s coll with
  | .ok (out, s') => some (toVals out, s'.pipe.toVal, s'.colls.map (fun nl => (nl.1, toVals nl.2)))
  | .error _ => none

/-- the state after a successful call -/
def after (D : Disc) (sem : Sem) (s : State) (coll : String) : Option State :=
  match aggregate D sem s coll with
  | .ok (_, s') => some s'
  | .error _ => none

/-! ### classes used by the theorems -/

/-- the name-space convention of the model: what persists between calls (collections, the
    caller's pipeline object) contains no run-local identity -/
def State.persistent (s : State) : Bool :=
  s.colls.all (fun nl => allL (fun i => !i.isTmp) nl.2) && s.pipe.all (fun i => !i.isTmp)

/-- every document has an `_id` (then `$out`/`insert_many` writes into none of them) -/
def HV.hasId : HV → Bool
  | .node _ true kids => (kget "_id" kids).isSome
  | _ => false

def allHaveId (l : List HV) : Bool := l.all HV.hasId

/-- stages that write into no object that existed before the stage: they build new lists and new
    documents (`$addFields/$set` included: every level of a dotted name is a new object).  What
    is left out: `$lookup` (writes `doc[as]` into its input), `$out`, and `$facet` -/
def Stage.pure : Stage → Bool
  | .select .. | .sample .. | .addFields .. | .project .. | .unwind .. | .replaceRoot .. | .count .. => true
  | _ => false

def pureStages (ss : List Stage) : Bool := ss.all Stage.pure

def pureBranches (bs : List (String × List Stage)) : Bool := bs.all (fun b => pureStages b.2)

mutual
  def Stage.noOut : Stage → Bool
    | .out _ => false
    | .facet bs => noOutBranches bs
    | _ => true
  def noOutStages : List Stage → Bool
    | [] => true
    | s :: r => s.noOut && noOutStages r
  def noOutBranches : List (String × List Stage) → Bool
    | [] => true
    | (_, ss) :: r => noOutStages ss && noOutBranches r
end

end MongoModel.AggHeap
