/-
  C19 — the lock protocol on its own: N threads, each repeatedly entering and leaving reader or
  writer sections (the "most general client": which kind of section it enters next, and whether
  the section body raises, are free choices).  Every program over sections, of any length, is an
  instance, so a set of states closed under `pstep` covers all programs at once.

  A thread's position is the `Phase` tag of its next instruction; the full interpreter
  (`RWLock.step`) refines this machine for every flat code that is `phase-conformant`
  (`Proofs/C19Sim.lean`).
-/
import MongoModel.RWLock
namespace MongoModel.RWLock

structure PState where
  lk : Locks
  pos : List Phase
  deriving DecidableEq, Repr, Inhabited

/-- what a thread does next: its pending protocol instruction, or one of the free choices -/
inductive Lab
  | op                    -- execute the protocol instruction at the current position
  | begin (w : Bool)      -- (outside) enter a writer / reader section
  | leave (raised : Bool) -- (inside) the body ends, normally or with an exception
  deriving DecidableEq, Repr, Inhabited

def beginPos (P : Protocol) (w : Bool) : Phase :=
  if (P.acqSeq w).isEmpty then .body w else .acq w 0
def afterAcq (P : Protocol) (w : Bool) (j : Nat) : Phase :=
  if j + 1 < (P.acqSeq w).length then .acq w (j + 1) else .body w
def leavePos (P : Protocol) (w r : Bool) : Phase :=
  if (P.relSeq w r).isEmpty then .out else .rel w r 0
def afterRel (P : Protocol) (w r : Bool) (j : Nat) : Phase :=
  if j + 1 < (P.relSeq w r).length then .rel w r (j + 1) else .out

def PState.setPos (s : PState) (t : Nat) (p : Phase) : PState := { s with pos := s.pos.set t p }

/-- the protocol instruction at a position (`none`: the position has none) -/
def instrAt (P : Protocol) : Phase → Option Instr
  | .acq w j => (P.acqSeq w)[j]?
  | .rel w r j => (P.relSeq w r)[j]?
  | _ => none

def nextPos (P : Protocol) : Phase → Phase
  | .acq w j => afterAcq P w j
  | .rel w r j => afterRel P w r j
  | p => p

def pstep (P : Protocol) (s : PState) (t : Nat) (lab : Lab) : Option PState :=
  match s.pos[t]? with
  | none => none
  | some p =>
    match lab with
    | .begin w => if p == .out then some (s.setPos t (beginPos P w)) else none
    | .leave r => match p with
      | .body w => some (s.setPos t (leavePos P w r))
      | _ => none
    | .op => match instrAt P p with
      | none => none
      | some ins => match protoOp P.reentrant s.lk t ins with
        | some (.ok lk') => some { lk := lk', pos := s.pos.set t (nextPos P p) }
        | some .error => some (s.setPos t .out)
        | _ => none

def pinit (n : Nat) : PState := { lk := Locks.init, pos := List.replicate n .out }

def ptids (s : PState) : List Nat := List.range s.pos.length

/-! ### bad states of the protocol machine -/

def isBody (p : Phase) : Bool := match p with | .body _ => true | _ => false
def isWBody (p : Phase) : Bool := match p with | .body true => true | _ => false

/-- a writer is inside together with another thread (writer or reader) -/
def pexclusionViolated (s : PState) : Bool :=
  Nat.ble 1 (s.pos.countP isWBody) && Nat.ble 2 (s.pos.countP isBody)

/-- `p i x` for some / every element `x` at index `i` (counting from `i0`) -/
def anyIdx {α} (p : Nat → α → Bool) : Nat → List α → Bool
  | _, [] => false
  | i, x :: xs => p i x || anyIdx p (Nat.add i 1) xs

def allIdx {α} (p : Nat → α → Bool) : Nat → List α → Bool
  | _, [] => true
  | i, x :: xs => p i x && allIdx p (Nat.add i 1) xs

/-- the pending protocol instruction of thread `t` at position `p` would raise -/
def relErrAt (P : Protocol) (lk : Locks) (t : Nat) (p : Phase) : Bool :=
  match instrAt P p with
  | some ins => protoOp P.reentrant lk t ins == some .error
  | none => false

def prelError (P : Protocol) (s : PState) : Bool := anyIdx (relErrAt P s.lk) 0 s.pos

def pleaked (s : PState) : Bool := s.pos.all (· == .out) && !s.lk.free

def pbad (P : Protocol) (s : PState) : Bool := pexclusionViolated s || prelError P s || pleaked s

/-- thread `t` at position `p` is inside a section body, or its pending instruction can execute -/
def canMoveAt (P : Protocol) (lk : Locks) (t : Nat) (p : Phase) : Bool :=
  match p with
  | .body _ => true
  | .out => false
  | p => match instrAt P p with
    | some ins => match protoOp P.reentrant lk t ins with
      | some .blocked => false
      | some _ => true
      | none => false
    | none => false

/-- some thread is in the middle of the protocol and none of those can move -/
def pdeadlocked (P : Protocol) (s : PState) : Bool :=
  s.pos.any (· != .out) && allIdx (fun t p => !canMoveAt P s.lk t p) 0 s.pos

/-! ### reachability -/

inductive PReach (P : Protocol) (n : Nat) : PState → Prop
  | init : PReach P n (pinit n)
  | step {s s' : PState} {t : Nat} {lab : Lab} : PReach P n s → pstep P s t lab = some s' →
      PReach P n s'

/-! ### state codes and the certificate checker

  A certificate is a search tree whose nodes carry a state written as a flat list of numbers
  (`pencodeL`), keyed by a hash of that list.  The certified set is
  `{ s | 5 locks ∧ the tree has a node carrying pencodeL s }`; `pdecodeL (pencodeL s) = s` is a
  lemma (`Proofs/C19Cert.lean`), nothing about the hash is needed. -/

def b2n (b : Bool) : Nat := bif b then 1 else 0
def n2b (n : Nat) : Bool := Nat.beq n 1

def encInt (i : Int) : Nat :=
  match i with
  | .ofNat n => Nat.mul 2 n
  | .negSucc n => Nat.add (Nat.mul 2 n) 1

def decInt (n : Nat) : Int :=
  bif Nat.beq (Nat.mod n 2) 0 then .ofNat (Nat.div n 2) else .negSucc (Nat.div n 2)

/-- position as one number; the unbounded component `j` is the most significant -/
def encPhase : Phase → Nat
  | .out => 0
  | .body w => Nat.add 1 (Nat.mul 4 (b2n w))
  | .acq w j => Nat.add 2 (Nat.mul 4 (Nat.add (b2n w) (Nat.mul 4 j)))
  | .rel w r j => Nat.add 3 (Nat.mul 4 (Nat.add (Nat.add (b2n w) (Nat.mul 2 (b2n r))) (Nat.mul 4 j)))

def decPhase (b : Nat) : Phase :=
  bif Nat.beq (Nat.mod b 4) 0 then .out
  else bif Nat.beq (Nat.mod b 4) 1 then .body (n2b (Nat.mod (Nat.div b 4) 2))
  else bif Nat.beq (Nat.mod b 4) 2 then .acq (n2b (Nat.mod (Nat.div b 4) 2)) (Nat.div b 16)
  else .rel (n2b (Nat.mod (Nat.div b 4) 2)) (n2b (Nat.mod (Nat.div b 8) 2)) (Nat.div b 16)

/-- a state as a flat list of numbers: thread count, (owner, count) of the five locks, the two
    counters, one number per thread position -/
def pencodeL (s : PState) : List Nat :=
  match s.lk.locks with
  | [a, b, c, d, e] =>
    s.pos.length :: a.owner :: a.count :: b.owner :: b.count :: c.owner :: c.count :: d.owner
      :: d.count :: e.owner :: e.count :: encInt s.lk.rc :: encInt s.lk.wc :: s.pos.map encPhase
  | _ => []

/-- a code list as one number, base 256 -/
def packL (bs : List Nat) : Nat := bs.foldr (fun b acc => Nat.add b (Nat.mul 256 acc)) 0

/-- entry `i` of a packed code list -/
def fieldAt (k i : Nat) : Nat := Nat.land (Nat.shiftRight k (Nat.mul 8 i)) 255

def posFrom (k : Nat) : Nat → Nat → List Phase
  | _, 0 => []
  | i, n + 1 => decPhase (fieldAt k i) :: posFrom k (Nat.add i 1) n

/-- the state with `n` threads whose packed code list is `k` -/
def pdecodeK (n k : Nat) : PState :=
  { lk := { locks := [⟨fieldAt k 1, fieldAt k 2⟩, ⟨fieldAt k 3, fieldAt k 4⟩,
                      ⟨fieldAt k 5, fieldAt k 6⟩, ⟨fieldAt k 7, fieldAt k 8⟩,
                      ⟨fieldAt k 9, fieldAt k 10⟩],
            rc := decInt (fieldAt k 11), wc := decInt (fieldAt k 12) },
    pos := posFrom k 13 n }

/-- number of entries of the code list of a state with `n` threads -/
def codeLen (n : Nat) : Nat := Nat.add 13 n

/-- `cnt` keys of `W` bits each, ascending, concatenated into one number; `lo` = the first -/
structure Leaf where
  lo : Nat
  blob : Nat
  cnt : Nat
  deriving Repr, Inhabited

/-- a certificate: the keys (`packL` of the code lists) of a set of states, in sorted leaves -/
abbrev Cert := List Leaf

def keyAt (W blob j : Nat) : Nat :=
  Nat.land (Nat.shiftRight blob (Nat.mul W j)) (Nat.sub (Nat.pow 2 W) 1)

/-- binary search for `x` among the keys `[lo, hi)` of a leaf (`fuel` halvings) -/
def bsearch (W blob x : Nat) : List Unit → Nat → Nat → Bool
  | [], _, _ => false
  | _ :: f, lo, hi =>
    bif Nat.ble hi lo then false else
      bif Nat.beq (keyAt W blob (Nat.div (Nat.add lo hi) 2)) x then true
      else bif Nat.blt x (keyAt W blob (Nat.div (Nat.add lo hi) 2)) then
        bsearch W blob x f lo (Nat.div (Nat.add lo hi) 2)
      else bsearch W blob x f (Nat.add (Nat.div (Nat.add lo hi) 2) 1) hi

def fuel32 : List Unit :=
  [(), (), (), (), (), (), (), (), (), (), (), (), (), (), (), (), (), (), (), (), (), (), (), (),
   (), (), (), (), (), (), (), ()]

/-- search the last leaf whose first key is `≤ x` -/
def Cert.mem (W : Nat) (x : Nat) : Cert → Bool
  | [] => false
  | [l] => bsearch W l.blob x fuel32 0 l.cnt
  | l :: l' :: rest =>
    bif Nat.blt x l'.lo then bsearch W l.blob x fuel32 0 l.cnt else Cert.mem W x (l' :: rest)

/-- `p` holds of the keys `0 .. j-1` of a leaf -/
def leafAll (W : Nat) (p : Nat → Bool) (blob : Nat) : Nat → Bool
  | 0 => true
  | j + 1 => p (keyAt W blob j) && leafAll W p blob j

def Cert.all (W : Nat) (p : Nat → Bool) (C : Cert) : Bool :=
  List.all C fun l => leafAll W p l.blob l.cnt

/-- `k` is one of the keys of the certificate -/
def Cert.Has (W : Nat) (C : Cert) (k : Nat) : Prop :=
  ∃ l, l ∈ C ∧ ∃ j, j < l.cnt ∧ keyAt W l.blob j = k

def keyWidth (n : Nat) : Nat := Nat.mul 8 (codeLen n)

def allSmall (bs : List Nat) : Bool := bs.all fun b => Nat.blt b 256

/-- the certified set of states with `n` threads -/
def Cert.Holds (C : Cert) (n : Nat) (s : PState) : Prop :=
  s.lk.locks.length = 5 ∧ s.pos.length = n ∧ allSmall (pencodeL s) = true ∧
    C.Has (keyWidth n) (packL (pencodeL s))

def psuccIn (C : Cert) (n : Nat) (s' : PState) : Bool :=
  allSmall (pencodeL s') && Cert.mem (keyWidth n) (packL (pencodeL s')) C

/-- the labels that can apply at a position -/
def labsAt : Phase → List Lab
  | .out => [.begin false, .begin true]
  | .body _ => [.leave false, .leave true]
  | _ => [.op]

def pcheckState (P : Protocol) (C : Cert) (n : Nat) (s : PState) : Bool :=
  !pbad P s && !pdeadlocked P s &&
    allIdx (fun t p => (labsAt p).all fun lab =>
      match pstep P s t lab with
      | none => true
      | some s' => psuccIn C n s') 0 s.pos

def pcheckKey (P : Protocol) (C : Cert) (n : Nat) (k : Nat) : Bool :=
  pcheckState P C n (pdecodeK n k)

/-- leaves `i*sz .. i*sz+sz-1` pass the check (the certificate is checked in several files) -/
def pcheckPart (P : Protocol) (C : Cert) (n sz i : Nat) : Bool :=
  Cert.all (keyWidth n) (pcheckKey P C n) ((C.drop (i * sz)).take sz)

def pcheckCert (P : Protocol) (C : Cert) (n : Nat) : Bool :=
  psuccIn C n (pinit n) && Cert.all (keyWidth n) (pcheckKey P C n) C

end MongoModel.RWLock
