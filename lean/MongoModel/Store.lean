/-
  MongoModel.Store — the collection as a state machine: `CollectionStore` (mongomock/store.py)
  and the write / read entry points of `Collection` (mongomock/collection.py) that go through
  it.  Every function follows the code, including *where* the lazy TTL expiry pass runs.

  State: the OrderedDict of documents (store key, document), the index dicts, the TTL index
  dict, the created flag and a counter for generated ObjectIds.

  The created flag (`_is_force_created`) RECORDS existence: it is set by every
  `self._store[key] = …` (`CollectionStore.__setitem__`: the insert, also one that the uniqueness
  check rolls back afterwards) and by `CollectionStore.create_index`, and reset by `drop()` only;
  `index_information()` shows `_id_` exactly for a created collection (`indexNames`).
-/
import MongoModel.Update
import MongoModel.DateTime

namespace MongoModel

/-! ### datetime normalisation: `patch` of MongoModel.DateTime (C18) -/

/-- `helpers.patch_datetime_awareness_in_document` (the name used throughout this file) -/
abbrev patchDT : Val → Val := patch

/-! ### state -/

structure Index where
  name : String
  keys : List (String × Val)       -- [(field, direction)]
  unique : Bool := false
  sparse : Bool := false
  ttl : Option Val := none          -- expireAfterSeconds as passed
  partialFilter : Option Val := none
  deriving Inhabited

def Index.sameOptions (a b : Index) : Bool :=
  a.keys.length == b.keys.length &&
  (a.keys.zip b.keys).all (fun p => p.1.1 == p.2.1 && pyEq p.1.2 p.2.2) &&
  a.unique == b.unique && a.sparse == b.sparse &&
  pyEqOpt a.ttl b.ttl && pyEqOpt a.partialFilter b.partialFilter

structure Coll where
  docs : List (Val × Val) := []       -- (store key, document), insertion order
  indexes : List Index := []          -- `indexes` dict, insertion ordered by name
  ttlIndexes : List Index := []       -- `_ttl_indexes`
  forceCreated : Bool := false
  nextOid : Nat := 1000
  deriving Inhabited

def Coll.empty : Coll := {}

mutual
  /-- `hash(hashdict(v))` succeeds: sub-documents are hashed recursively, a list becomes the
      tuple of its raw elements, so a list holding a sub-document or a list is unhashable -/
  def hashableKey : Val → Bool
    | .doc fs => hashableFields fs
    | .arr _ => false
    | _ => true
  def hashableFields : Fields → Bool
    | [] => true
    | (_, .arr xs) :: r => xs.all (fun x => !x.isDoc && !x.isArr) && hashableFields r
    | (_, v) :: r => hashableKey v && hashableFields r
end

/-- store key of an `_id` (`helpers.hashdict` for sub-documents; lists are unhashable) -/
def storeKey : Val → R Val
  | .arr _ => .error .typeErr
  | v => if hashableKey v then .ok v else .error .typeErr

def Coll.lookup (c : Coll) (k : Val) : Option Val :=
  (c.docs.find? (fun p => pyEq p.1 k)).map (·.2)

def Coll.hasKey (c : Coll) (k : Val) : Bool := c.docs.any (fun p => pyEq p.1 k)

/-- `_documents[key] = val`: overwrite in place or append (also: a stored document rewritten
    in place by an update, which goes through no method of the store) -/
def Coll.setDoc (c : Coll) (k d : Val) : Coll :=
  if c.hasKey k then { c with docs := c.docs.map (fun p => if pyEq p.1 k then (p.1, d) else p) }
  else { c with docs := c.docs ++ [(k, d)] }

/-- `self._store[key] = val` (`CollectionStore.__setitem__`, store.py:122-125):
    `_is_force_created = True`, then `_documents[key] = val` -/
def Coll.storeDoc (c : Coll) (k d : Val) : Coll := { c.setDoc k d with forceCreated := true }

def Coll.delDoc (c : Coll) (k : Val) : Coll :=
  { c with docs := c.docs.filter (fun p => !pyEq p.1 k) }

/-- `is_created` (store.py:79-81) -/
def Coll.isCreated (c : Coll) : Bool := !c.docs.isEmpty || !c.indexes.isEmpty || c.forceCreated

/-- existence is recorded: a collection that holds a document or an index has the created flag
    set (documents get in through `__setitem__` only, indexes through `create_index` only, and
    both set the flag; `drop()` clears all three).  An invariant of every history, not of every
    value of the type (`Proofs.Recorded.recorded_stepX`, `Props.C08.reachable_recorded`). -/
def Coll.Recorded (c : Coll) : Prop := (c.docs ≠ [] ∨ c.indexes ≠ []) → c.forceCreated = true

/-! ### TTL expiry (store.py:137-188) -/

/-- `int(index['expireAfterSeconds'])`: `none` = ValueError (ignored by the code) -/
def ttlSeconds : Val → R (Option Int)
  | .int i => .ok (some i)
  | .bool b => .ok (some (if b then 1 else 0))
  | .dbl m e => .ok (some (Int.tdiv m ((2 : Int) ^ e)))           -- int() truncates
  | .str s => .ok (pyInt? s)                                      -- non-numeric: ValueError
  | _ => .error .typeErr

/-- `_get_min_datetime_from_value`: `none` = `datetime.max` or a value that cannot expire -/
def minDate : Option Val → Option Int
  | none => none
  | some v =>
    if !v.truthy then none
    else match v with
      | .date us none => some us
      | .arr xs => xs.foldl (fun acc x =>
          match x with
          | .date us none => (match acc with
            | none => some us
            | some a => some (if us < a then us else a))
          | _ => acc) none
      | _ => none

def meetsExpiry (field : String) (secs : Int) (now : Int) (d : Val) : Bool :=
  match d with
  | .doc fs => (match minDate (dget field fs) with
    | some us => now - us ≥ secs * 1000000
    | none => false)
  | _ => false

/-- `_expire_documents(index)` at time `now` (µs) -/
def expireIndex (now : Int) (c : Coll) (ix : Index) : R Coll :=
  match ix.ttl with
  | none => .ok c
  | some raw => do
    match (← ttlSeconds raw) with
    | none => pure c
    | some secs =>
      if ix.keys.length > 1 then pure c
      else match ix.keys with
        | [] => .error .other              -- StopIteration on an empty key list
        | (field, _) :: _ =>
          pure { c with docs := c.docs.filter (fun p => !meetsExpiry field secs now p.2) }

/-- `_remove_expired_documents()` -/
def expire (now : Int) (c : Coll) : R Coll :=
  c.ttlIndexes.foldlM (expireIndex now) c

/-! ### scans -/

/-- `_iter_documents(filter)` evaluated eagerly: the documents that match, in natural order.
    (The code filters lazily; callers that interleave writes use `scanLazy` instead.) -/
def iterDocuments (now : Int) (c : Coll) (filter : Val) : R (Coll × List Val) := do
  let c1 ← expire now c                         -- is_empty
  if c1.docs.isEmpty then
    let _ ← filterApplies filter (.doc [])      -- validate the filter on {}
  let c2 ← expire now c1                        -- documents
  let ms ← c2.docs.filterMapM (fun p => do
    let b ← filterApplies filter p.2
    pure (if b then some p.2 else none))
  pure (c2, ms)

/-! ### insert (collection.py:488-548) -/

/-- the look-up value of one indexed key: `{'$eq': value}` — the value is DATA, also when it is
    an embedded document whose keys start with `$` -/
def eqCond (v : Val) : Val := .doc [("$eq", v)]

/-- `find_kwargs` of `_ensure_uniques`: `{key: {'$eq': get_value_by_dot(new_data, key)}}`, null
    for a key the document lacks (KeyError) -/
def valuesFor (keys : List (String × Val)) (d : Val) : R Fields :=
  keys.foldlM (fun acc kv =>
    match getByDot d kv.1 with
    | .ok v => .ok (dset kv.1 (eqCond v) acc)
    | .error .keyErr => .ok (dset kv.1 (eqCond .null) acc)
    | .error e => .error e) []

/-- `value['$eq'] is None` -/
def isNullCond (kv : String × Val) : Bool :=
  match kv.2 with
  | .doc [(_, .null)] => true
  | _ => false

/-- `_ensure_uniques(new_data)`; the document is already in the store.  Per unique index the
    look-up is `{key: {'$eq': value}, …}` (inside `{'$and': [partialFilterExpression, …]}` for a
    partial index): each indexed value is compared as data by the `$eq` operator. -/
def ensureUniques (now : Int) (c : Coll) (newData : Val) : R Coll :=
  c.indexes.foldlM (fun c ix =>
    if !ix.unique then pure c
    else do
      let kwargs ← valuesFor ix.keys newData
      let skip := ix.sparse && kwargs.all isNullCond
      if skip then pure c
      else do
        let filter := match ix.partialFilter with
          | some pfe => Val.doc [("$and", .arr [pfe, .doc kwargs])]
          | none => Val.doc kwargs
        let (c', ms) ← iterDocuments now c filter
        if ms.length > 1 then .error .dupKey else pure c') c

/-- result of a single insert: the new state and the `_id` (as stored) -/
def insertDoc (now : Int) (c : Coll) (data : Val) : R (Coll × Val) :=
  match data with
  | .doc fs => do
    let (fs1, c0) := if dhas "_id" fs then (fs, c)
      else (dset "_id" (.oid c.nextOid) fs, { c with nextOid := c.nextOid + 1 })
    let d := patchDT (.doc fs1)
    let id := match d with | .doc ds => (dget "_id" ds).getD .null | _ => .null
    let key ← storeKey id
    let c1 ← expire now c0                      -- `object_id in self._store`
    if c1.hasKey key then .error .dupKey
    else do
      let c2 := c1.storeDoc key d               -- `self._store[object_id] = data`
      match ensureUniques now c2 d with
      | .ok c3 => pure (c3, id)
      | .error e => .error e                    -- rollback (`discard`): see `insertStored`
  | _ => .error .typeErr

/-- the insert got as far as `self._store[object_id] = data` (the `_id` is storable and not yet
    stored).  When it is rejected after that point - by `_ensure_uniques` - the document is
    discarded again, but `__setitem__` has set `_is_force_created` and nothing resets it. -/
def insertStored (now : Int) (c : Coll) (data : Val) : Bool :=
  match data with
  | .doc fs =>
    let (fs1, c0) := if dhas "_id" fs then (fs, c)
      else (dset "_id" (.oid c.nextOid) fs, { c with nextOid := c.nextOid + 1 })
    let id := match patchDT (.doc fs1) with | .doc ds => (dget "_id" ds).getD .null | _ => .null
    match storeKey id, expire now c0 with
    | .ok key, .ok c1 => !c1.hasKey key
    | _, _ => false
  | _ => false

/-- the created flag after an insert into `c` was rejected, left on the state `c'` the rejected
    insert otherwise leaves -/
def Coll.markStored (c' : Coll) (stored : Bool) : Coll :=
  if stored then { c' with forceCreated := true } else c'

/-- what a rejected `_insert(data)` leaves behind: it consumed the ObjectId it generated, ran the
    expiry pass, and - when it had already stored the document - set the created flag -/
def insertRejected (now : Int) (c : Coll) (data : Val) : Coll :=
  let c0 : Coll := match data with
    | .doc fs => if dhas "_id" fs then c else { c with nextOid := c.nextOid + 1 }
    | _ => c
  (match expire now c0 with | .ok x => x | .error _ => c0).markStored (insertStored now c data)

/-! ### update (collection.py `_apply_update`) -/

structure Cfg where
  /-- `server_info()['versionArray'] < [5]` -/
  preV5 : Bool := false
  deriving Inhabited

/-- `validate_ok_for_update` -/
def validateUpdate (u : Val) : R Unit :=
  match u with
  | .doc [] => .error .valueErr
  | .doc ((k, _) :: _) => if k.startsWith "$" then .ok () else .error .valueErr
  | _ => .error .typeErr

/-- `validate_ok_for_replace` -/
def validateReplace (u : Val) : R Unit :=
  match u with
  | .doc [] => .ok ()
  | .doc ((k, _) :: _) => if k.startsWith "$" then .error .valueErr else .ok ()
  | _ => .error .typeErr

/-- the pre-5.0 "empty operator" WriteError -/
def emptyOperatorCheck (cfg : Cfg) (document : Fields) : R Unit :=
  if cfg.preV5 && updaterKeys.any (fun op =>
      match dget op document with
      | some v => !v.truthy
      | none => false) then .error .writeErr
  else .ok ()

/-- `_validate_update_operators(document)` (collection.py): the walk over the operator names lives
    in the Update model (`Update.validateOps`: a known operator is passed over; an unknown key after
    the first is refused, ValueError "Invalid modifier specified"; an unknown first key is refused
    when some key starts with `$`, ValueError "field names cannot start with $", else the document
    is a replacement and the walk stops).  The ORDER of this check relative to the store accesses
    is what the Store model adds. -/
def validateUpdateOperators (document : Fields) : R Unit := validateOps document

/-- what `_apply_update` checks of the update document before any document is looked for: the
    pre-5.0 "empty operator" WriteError, then the operator names -/
def updatePrecheck (cfg : Cfg) (document : Fields) : R Unit := do
  emptyOperatorCheck cfg document
  validateUpdateOperators document

structure UpdateResult where
  n : Nat
  nModified : Nat
  upserted : Option Val
  updatedExisting : Bool

/-- the loop over matching documents; `pending` = the snapshot still to be visited.  A raise in
    the middle leaves the documents updated so far (document granularity) — the state travels in
    the error branch as well, hence the explicit pair. -/
def updateLoop (now : Int) (spec document : Val) (nowV : Val) (multi : Bool) :
    List (Val × Val) → Coll → Nat → Nat → (Coll × R (Nat × Nat))
  | [], c, matched, updated => (c, .ok (matched, updated))
  | (key, _) :: rest, c, matched, updated =>
    -- the snapshot holds references: the live document is the one now stored under `key`
    match c.lookup key with
    | none => updateLoop now spec document nowV multi rest c matched updated
    | some cur =>
      match filterApplies spec cur with
      | .error e => (c, .error e)
      | .ok false => updateLoop now spec document nowV multi rest c matched updated
      | .ok true =>
        match applyUpdate spec document nowV false cur with
        | .error e => (c, .error e)
        | .ok new =>
          if pyEq new cur then
            -- `_copy_field(existing_document, dict) != snapshot` is Python `!=` between plain
            -- dicts (whatever built the stored document - an upsert stores an OrderedDict): a
            -- change of key order or of numeric type (1 → 1.0 → True) is not "modified", but the
            -- document was edited in place: the unique indexes are checked all the same (the
            -- `else` branch of the change test)
            let c0 := c.setDoc key new
            match ensureUniques now c0 new with
            | .error e => (c, .error e)
            | .ok c2 =>
              if multi then updateLoop now spec document nowV multi rest c2 (matched + 1) updated
              else (c2, .ok (matched + 1, updated))
          else
            -- the `_id` must neither change nor appear / disappear
            let idOf (d : Val) : Option Val := match d with | .doc fs => dget "_id" fs | _ => none
            if !(pyEqOpt (idOf cur) (idOf new)) then (c, .error .writeErr)
            else
              let c1 := c.setDoc key new
              match ensureUniques now c1 new with
              | .error e => (c, .error e)
              | .ok c2 =>
                if multi then updateLoop now spec document nowV multi rest c2 (matched + 1) (updated + 1)
                else (c2, .ok (matched + 1, updated + 1))

/-- the document an upsert inserts: the seed built from the filter's equality conditions
    (`Update.upsertSeed`: `_discard_operators` first, then `_expand_dots` on what is left) with the
    update applied to it as to an inserted document -/
def upsertDoc (spec document nowV : Val) (ss : Fields) (idv : Val) : R Val := do
  let seed ← upsertSeed ss idv
  applyUpdate spec document nowV true seed

/-- `_update` / `_apply_update(spec, document, upsert, multi)`; options are checked by the callers.
    (The rollback of `_update` re-assigns the snapshot with `self._store[key] = snapshot`, which
    also sets `_is_force_created`: a no-op wherever a document is stored - `Coll.Recorded` - and
    not modelled separately.) -/
def applyUpdateColl (cfg : Cfg) (now : Int) (c : Coll) (spec0 document0 : Val) (upsert multi : Bool) :
    Coll × R UpdateResult :=
  let spec := patchDT spec0
  let document := patchDT document0
  let nowV := patchDT (Val.date now none)     -- `$currentDate` normalises the clock value
  match spec, document with
  | .doc ss, .doc dfs =>
    match updatePrecheck cfg dfs with
    | .error e => (c, .error e)      -- refused before any document is looked for
    | .ok () =>
      -- `_iter_documents(spec)`: expiry, validation on an empty store, snapshot
      match (do
          let c1 ← expire now c
          if c1.docs.isEmpty then
            let _ ← filterApplies spec (.doc [])
          expire now c1) with
      | .error e => (c, .error e)
      | .ok c2 =>
        let (c3, r) := updateLoop now spec document nowV multi c2.docs c2 0 0
        match r with
        | .error e => (c3, .error e)
        | .ok (matched, updated) =>
          if !upsert || matched > 0 then
            (c3, .ok ⟨matched, if matched > 0 then updated else 0, none, matched > 0⟩)
          else
            -- the sentinel: build the seed and insert it
            -- `if '_id' in spec … elif '_id' in document … else ObjectId()` (a null `_id` given by
            -- the filter or the update is used as it is)
            let (idv, c4) :=
              match dget "_id" ss with
              | some v => (v, c3)
              | none => (match dget "_id" dfs with
                | some w => (w, c3)
                | none => (Val.oid c3.nextOid, { c3 with nextOid := c3.nextOid + 1 }))
            match upsertDoc spec document nowV ss idv with
            | .error e => (c4, .error e)
            | .ok built =>
              match insertDoc now c4 built with
              -- a rejected upsert insert: the flag as `insertRejected` leaves it
              | .error e => (c4.markStored (insertStored now c4 built), .error e)
              | .ok (c5, newId) => (c5, .ok ⟨1, 0, some newId, false⟩)
  | _, _ => (c, .error .typeErr)

/-! ### delete, reads -/

/-- `_delete(filter, multi)` for a mapping filter -/
def deleteColl (now : Int) (c : Coll) (filter0 : Val) (multi : Bool) : Coll × R Nat :=
  let filter := patchDT (patchDT filter0)
  match filter with
  | .doc _ =>
    match iterDocuments now c filter with
    | .error e => (c, .error e)
    | .ok (c1, ms) =>
      let victims := if multi then ms else ms.take 1
      let keys := victims.filterMap (fun d => match d with | .doc fs => dget "_id" fs | _ => none)
      (keys.foldl (fun acc k => acc.delDoc k) c1, .ok keys.length)
  | _ => (c, .error .typeErr)

def findColl (now : Int) (c : Coll) (filter0 : Val) : Coll × R (List Val) :=
  match filter0 with
  | .doc _ =>
    match iterDocuments now c (patchDT filter0) with
    | .error e => (c, .error e)
    | .ok (c1, ms) => (c1, .ok ms)
  | _ => (c, .error .typeErr)

/-- `count_documents(filter, skip=…, limit=…)` -/
def countColl (now : Int) (c : Coll) (filter : Val) (skip : Int) (limit : Option Val) :
    Coll × R Int :=
  let lim : R (Option Int) := match limit with
    | none => .ok none
    | some (.int l) => if l ≤ 0 then .error .opFail else .ok (some l)
    | some (.dbl m e) => if m ≤ 0 then .error .opFail else .ok (some (Int.fdiv m ((2 : Int) ^ e)))
    | some (.bool b) => if !b then .error .opFail else .ok (some 1)
    | some _ => .error .opFail
  match lim with
  | .error e => (c, .error e)
  | .ok l =>
    match iterDocuments now c (patchDT filter) with
    | .error e => (c, .error e)
    | .ok (c1, ms) =>
      let cnt : Int := max ((ms.length : Int) - skip) 0
      (c1, .ok (match l with | none => cnt | some l => min cnt l))

/-- `Cursor.distinct(key)` over the matching documents; first occurrence kept, in scan order
    (the code builds a `set`: the harness compares as sets) -/
def distinctColl (now : Int) (c : Coll) (key : String) (filter : Val) : Coll × R (List Val) :=
  match findColl now c filter with
  | (c1, .error e) => (c1, .error e)
  | (c1, .ok ms) =>
    let r : R (List Val) := ms.foldlM (fun acc d => do
      let cs ← candsKey key d
      cs.foldlM (fun acc cv =>
        match cv with
        | none => pure acc
        | some v =>
          let items := match v with | .arr xs => xs | x => [x]
          items.foldlM (fun acc x =>
            if !hashableKey x then .error .typeErr        -- `unique.add` of an unhashable value
            else pure (if pyIn x acc then acc else acc ++ [x])) acc) acc) []
    (c1, r)

/-! ### indexes (collection.py:1507-1626, store.py:83-98) -/

def genIndexName (keys : List (String × Val)) : String :=
  "_".intercalate (keys.map (fun kv => kv.1 ++ "_" ++ (match kv.2 with
    | .int i => toString i
    | .str s => s
    | _ => "?")))

/-- tuple of key values used by the creation pre-check (null for a missing field) and the
    number of missing fields -/
def indexTuple (keys : List (String × Val)) (d : Val) : R (List Val × Nat) :=
  keys.foldlM (fun (acc : List Val × Nat) kv =>
    match getByDot d kv.1 with
    | .ok v => .ok (acc.1 ++ [v], acc.2)
    | .error .keyErr => .ok (acc.1 ++ [.null], acc.2 + 1)
    | .error e => .error e) ([], 0)

/-- the uniqueness pre-check of `create_index` over the existing documents: a document the
    index does not cover (sparse: no indexed field present; partial: filter not matched) is
    skipped, duplicates among the others raise DuplicateKeyError -/
def precheckUnique (keys : List (String × Val)) (sparse : Bool) (pfe : Option Val) :
    List (Val × Val) → List (List Val) → R Unit
  | [], _ => .ok ()
  | (_, d) :: rest, seen => do
    let (t, missing) ← indexTuple keys d
    if sparse && missing == t.length then precheckUnique keys sparse pfe rest seen
    else do
      let covered ← (match pfe with
        | some f => filterApplies f d
        | none => pure true)
      if !covered then precheckUnique keys sparse pfe rest seen
      else if seen.any (fun s => pyEq (.arr s) (.arr t)) then .error .dupKey
      else precheckUnique keys sparse pfe rest (seen ++ [t])

/-- what a REFUSED creation leaves behind: the index does not come into being in any respect
    (neither `indexes` nor `_ttl_indexes` change), but the scan of a unique index has read the
    store (`self._store.documents`), so the expiry pass of the indexes that do exist has run,
    persistently, before the duplicate was met -/
def refusedCreate (now : Int) (c : Coll) (ix : Index) : Coll :=
  if ix.unique then
    match expire now c with
    | .ok c1 => c1
    | .error _ => c
  else c

def createIndexColl (now : Int) (c : Coll) (ix : Index) : Coll × R String :=
  match c.indexes.find? (fun i => i.name == ix.name) with
  | some old => if !ix.sameOptions old then (c, .error .opFail) else go
  | none => go
where
  go : Coll × R String :=
    let pre : R Coll := if ix.unique then do
        let c1 ← expire now c
        precheckUnique ix.keys ix.sparse ix.partialFilter c1.docs []
        pure c1
      else pure c
    match pre with
    | .error e => (refusedCreate now c ix, .error e)
    | .ok c1 =>
      let put (l : List Index) : List Index :=
        if l.any (fun i => i.name == ix.name) then l.map (fun i => if i.name == ix.name then ix else i)
        else l ++ [ix]
      -- `CollectionStore.create_index` (store.py:89-93): sets `_is_force_created`
      (match ix.ttl with
       | some _ => ({ c1 with indexes := put c1.indexes, ttlIndexes := put c1.ttlIndexes,
                              forceCreated := true }, .ok ix.name)
       | none => ({ c1 with indexes := put c1.indexes, forceCreated := true }, .ok ix.name))

def dropIndexColl (now : Int) (c : Coll) (name : String) : Coll × R Unit :=
  match expire now c with
  | .error e => (c, .error e)
  | .ok c1 =>
    if c1.indexes.any (fun i => i.name == name) then
      ({ c1 with indexes := c1.indexes.filter (fun i => i.name != name),
                 ttlIndexes := c1.ttlIndexes.filter (fun i => i.name != name) }, .ok ())
    else (c1, .error .opFail)

/-- `drop_indexes()` -/
def dropIndexesColl (c : Coll) : Coll := { c with indexes := [], ttlIndexes := [] }

/-- `CollectionStore.drop()` -/
def dropColl (c : Coll) : Coll :=
  { c with docs := [], indexes := [], ttlIndexes := [], forceCreated := false }

/-- names listed by `index_information()` -/
def indexNames (c : Coll) : List String :=
  if c.isCreated then "_id_" :: c.indexes.map (·.name) else []

end MongoModel
