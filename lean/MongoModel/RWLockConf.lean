/-
  C19 — the link between the full interpreter (`RWLock.step`, flat thread code) and the lock
  protocol machine (`RWLockProto.pstep`): a decidable, purely syntactic condition on flat code
  (`conformant`) under which the `Phase` tags of the code are a correct account of where each
  thread is in the protocol, and the projection `proj` of every reachable state of the
  interpreter is a reachable state of the protocol machine (`Proofs/C19Sim.lean`).
  Also the syntactic lock-discipline conditions used for the dict-level properties.
-/
import MongoModel.RWLockProto
namespace MongoModel.RWLock

def isProto : Instr → Bool
  | .acq _ | .rel _ | .inc _ | .dec _ | .acqIf .. | .relIf .. => true
  | _ => false

def tagAt (code : Code) (pc : Nat) : Phase :=
  match code[pc]? with
  | some i => i.ph
  | none => .out

/-- the positions a thread may be at when it is not in the middle of the protocol and not in a
    body: outside, or about to execute the first acquire step -/
def outOrBegin (P : Protocol) (p : Phase) : Bool :=
  p == .out || p == beginPos P false || p == beginPos P true

/-- a non-protocol instruction may keep the position, start a section (from outside) or end the
    body (normally or by raising) -/
def silentOK (P : Protocol) (p p' : Phase) : Bool :=
  p == p' ||
  match p with
  | .out => outOrBegin P p'
  | .body w => p' == leavePos P w false || p' == leavePos P w true
  | _ => false

/-- every pc the non-protocol instruction `ins` at `pc` can transfer control to -/
def succPcs (code : Code) (pc : Nat) (ins : Instr) : List Nat :=
  match ins with
  | .read _ | .popItem .. | .collect | .iterBegin _ | .snapshot _ | .handler => [pc + 1]
  | .getItem .. | .setItem .. | .delItem .. | .yield _ => [pc + 1, raiseTarget code pc]
  | .iterNext d =>
    [pc + 1, findFrom (fun x => x.op == .loopEnd d) code (pc + 1) 0 + 1, raiseTarget code pc]
  | .loopEnd d => [findBack (fun x => x.op == .iterNext d) code pc code.length]
  | .snapNext d => [pc + 1, findFrom (fun x => x.op == .snapEnd d) code (pc + 1) 0 + 1]
  | .snapEnd d => [findBack (fun x => x.op == .snapNext d) code pc code.length]
  | .collNext => [pc + 1, findFrom (fun x => x.op == .collEnd) code (pc + 1) 0 + 1]
  | .collEnd => [findBack (fun x => x.op == .collNext) code pc code.length]
  | .skip n => [pc + n + 1]
  | .reraise => [raiseTarget code pc]
  | _ => []

/-- instructions that can never execute (the translator could not express the source) -/
def isStuck : Instr → Bool
  | .unknown | .iterBegin .indexes | .iterNext .indexes => true
  | .snapshot .docs | .snapshot .indexes | .snapNext .docs | .snapNext .indexes => true
  | _ => false

def isOutOrBody : Phase → Bool
  | .out | .body _ => true
  | _ => false

/-- the instruction at `pc` agrees with its tag -/
def conformsAt (P : Protocol) (code : Code) (pc : Nat) (i : TInstr) : Bool :=
  if isProto i.op then
    instrAt P i.ph == some i.op && tagAt code (pc + 1) == nextPos P i.ph &&
      outOrBegin P (tagAt code (raiseTarget code pc))
  else
    isOutOrBody i.ph && !isStuck i.op &&
      (succPcs code pc i.op).all fun pc' => silentOK P i.ph (tagAt code pc')

/-- the tags of `code` are a correct account of the protocol `P` -/
def conformant (P : Protocol) (code : Code) : Bool :=
  outOrBegin P (tagAt code 0) && allIdx (conformsAt P code) 0 code

def Cfg.conformant (P : Protocol) (cfg : Cfg) : Bool :=
  cfg.reentrant == P.reentrant && cfg.codes.all (RWLock.conformant P)

/-- the protocol-machine state a state of the interpreter stands for -/
def proj (cfg : Cfg) (s : State) : PState :=
  { lk := s.sh.lk, pos := (tids s).map (phaseAt cfg s) }

/-- states reachable by executions of any length, any interleaving -/
inductive Reach (cfg : Cfg) : State → Prop
  | init : Reach cfg (initState cfg)
  | step {s s' : State} {t : Nat} : Reach cfg s → step cfg s t = some s' → Reach cfg s'

/-! ### lock discipline on `_documents` -/

def mutatesDocs : Instr → Bool
  | .setItem .docs _ | .delItem .docs _ _ | .popItem .docs _ => true
  | _ => false

/-- `_documents` is mutated only inside writer sections.  (Reads are NOT all guarded in the real
    code: `is_empty` evaluates `not self._documents` outside any section, store.py:101-104.) -/
def docsGuarded (code : Code) : Bool :=
  code.all fun i => !mutatesDocs i.op || i.ph == .body true

/-- pcs at which a `_documents` iterator may be live: from `iterNext docs` to its `loopEnd` -/
def inDocsLoop (code : Code) (pc : Nat) : Bool :=
  match code[pc]? with
  | none => false
  | some i =>
    i.op == .iterNext .docs ||
      (let b := findBack (fun x => x.op == .iterNext .docs) code pc code.length
       let e := findFrom (fun x => x.op == .loopEnd .docs) code pc 0
       b < pc && e < code.length &&
         findFrom (fun x => x.op == .loopEnd .docs) code b 0 == e)

/-- successors of the instruction at `pc` that keep a live `_documents` iterator live -/
def keepPcs (code : Code) (pc : Nat) (ins : Instr) : List Nat :=
  match ins with
  | .iterNext .docs => [pc + 1]                       -- exhaustion and raising drop the iterator
  | .iterNext d =>
    [pc + 1, findFrom (fun x => x.op == .loopEnd d) code (pc + 1) 0 + 1]
  | .getItem .. | .setItem .. | .delItem .. | .yield _ => [pc + 1]   -- raising drops it
  | .reraise => []
  | ins => succPcs code pc ins

/-- a `_documents` iterator is created and stays inside one reader section:
    the loop region is tagged `body false`, `iterBegin docs` enters it, nothing leaves it with
    the iterator live, and no lock-protocol instruction lies inside -/
def docsIterScoped (code : Code) : Bool :=
  allIdx (fun pc i =>
    (!inDocsLoop code pc || (i.ph == .body false && !isProto i.op &&
        (keepPcs code pc i.op).all (inDocsLoop code))) &&
    (!(i.op == .iterBegin .docs) || inDocsLoop code (pc + 1))) 0 code

/-- no instruction can report a failing nested `del self[exp_id]` -/
def noNestedDel (code : Code) : Bool :=
  code.all fun i => match i.op with
    | .delItem _ _ true => false
    | _ => true

def mutatesTtl : Instr → Bool
  | .setItem .ttl _ | .delItem .ttl _ _ | .popItem .ttl _ => true
  | _ => false

/-- `_ttl_indexes` is mutated outside every section (store.py `create_index`, `drop_index`), so an
    iterator over the live dict can find its size changed.  The discipline: the live dict is
    never iterated — a thread that wants to walk it takes a snapshot (`Instr.snapshot`, one
    action) and walks that -/
def ttlIterSnapshotted (code : Code) : Bool :=
  code.all fun i => !(i.op == .iterNext .ttl)

/-- the store's lock discipline: `_documents` is written under the writer section only and
    iterated inside one reader section, the expiry pass tolerates a vanished key, and
    `_ttl_indexes` is walked through snapshots only -/
def Cfg.disciplined (cfg : Cfg) : Bool :=
  cfg.codes.all fun c => docsGuarded c && docsIterScoped c && noNestedDel c &&
    ttlIterSnapshotted c

/-! ### for the non-vacuity examples: programs that do touch `_ttl_indexes` -/

/-- some thread of `cfg` changes `_ttl_indexes` (creates a TTL index / drops an index) -/
def Cfg.mutatesTtl (cfg : Cfg) : Bool :=
  cfg.codes.any fun c => c.any fun i => RWLock.mutatesTtl i.op

/-- some thread of `cfg` walks `_ttl_indexes` (through a snapshot) -/
def Cfg.walksTtl (cfg : Cfg) : Bool :=
  cfg.codes.any fun c => c.any fun i => i.op == .snapNext .ttl

end MongoModel.RWLock
